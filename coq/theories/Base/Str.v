(* Strings as lists of N (bytes, UTF-16 units or Unicode scalar values, as the user says). *)
From Coq Require Import List NArith Bool.
Import ListNotations.
Open Scope N_scope.

Definition str := list N.

Fixpoint str_eqb (a b : str) : bool :=
  match a, b with
  | [], [] => true
  | x :: a', y :: b' => (x =? y) && str_eqb a' b'
  | _, _ => false
  end.

Fixpoint join (sep : str) (l : list str) : str :=
  match l with
  | [] => []
  | [x] => x
  | x :: r => x ++ sep ++ join sep r
  end.

Fixpoint strs_eqb (a b : list str) : bool :=
  match a, b with
  | [], [] => true
  | x :: a', y :: b' => str_eqb x y && strs_eqb a' b'
  | _, _ => false
  end.
