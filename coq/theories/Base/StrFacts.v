From Coq Require Import List NArith Bool Lia.
Require Import SP.Base.Str.
Import ListNotations.
Open Scope N_scope.

Lemma str_eqb_eq a : forall b, str_eqb a b = true -> a = b.
Proof.
  induction a as [|x a IH]; intros [|y b] H; simpl in H; try discriminate; auto.
  apply andb_true_iff in H. destruct H as [H1 H2]. apply N.eqb_eq in H1. subst. f_equal. auto.
Qed.

Lemma str_eqb_refl a : str_eqb a a = true.
Proof. induction a as [|x a IH]; simpl; auto. rewrite N.eqb_refl. exact IH. Qed.

Lemma existsb_eqb_In c l : existsb (N.eqb c) l = true -> In c l.
Proof.
  intros H. apply existsb_exists in H. destruct H as [x [Hx He]]. apply N.eqb_eq in He. subst. exact Hx.
Qed.

Lemma In_existsb_eqb c l : In c l -> existsb (N.eqb c) l = true.
Proof. intros H. apply existsb_exists. exists c. split; [exact H|apply N.eqb_refl]. Qed.

Lemma join_cons (sep : str) x l : join sep (x :: l) = x ++ concat (map (app sep) l).
Proof.
  revert x. induction l as [|y l IH]; intros x.
  - cbn. rewrite app_nil_r. reflexivity.
  - change (join sep (x :: y :: l)) with (x ++ sep ++ join sep (y :: l)).
    rewrite IH. cbn [map concat]. rewrite <- app_assoc. reflexivity.
Qed.

Lemma join_cons2 (sep : str) x y l : join sep (x :: y :: l) = x ++ sep ++ join sep (y :: l).
Proof. reflexivity. Qed.

Definition nrange (n : nat) : list N := map N.of_nat (seq 0 n).

Lemma in_nrange c n : (N.to_nat c < n)%nat -> In c (nrange n).
Proof.
  intros H. unfold nrange. apply in_map_iff. exists (N.to_nat c). split.
  - apply N2Nat.id.
  - apply in_seq. lia.
Qed.
