(* Extraction of the executable models for the high-volume tiers.  ExtrOcamlBasic only: bool, option,
   unit, list, prod, sumbool, sumor map to OCaml natives; nat, N, Z, positive stay the Coq datatypes;
   no Extract Constant. *)
Require Extraction.
Require Import ExtrOcamlBasic.
From Coq Require Import List NArith.
Require Import SP.Base.Str SP.Lib.Quote SP.Lib.Sh SP.Lib.WinCmdline SP.Lib.MsParse.
Require Import SP.Lib.Path SP.Lib.Env SP.Lib.ExecArgs SP.Lib.Builder SP.Lib.Pipeline SP.Lib.DropOrder SP.Lib.Status SP.Lib.Comm SP.Lib.PopenSM SP.Kernel.CommK SP.Kernel.CommSim SP.Lib.WinComm SP.Kernel.WinSim SP.Kernel.JobCtl.
Extraction Language OCaml.
Separate Extraction
  Str.str_eqb Str.strs_eqb
  Quote.debug_exec Quote.debug_pipeline Quote.render Sh.sh_eval Sh.sh_words
  WinCmdline.assemble_cmdline MsParse.parse_args MsParse.parse_progname
  Path.split_path Path.prealloc_capacity Path.candidates Path.search_path_of Path.assemble_exe Path.longest_assembled Path.lookup_and_exec
  ExecArgs.prepare ExecArgs.conforms Builder.program Builder.cmd Builder.shell Builder.apply_op
  JobCtl.xserve JobCtl.xinterrupt JobCtl.xinit Pipeline.build Pipeline.ppopen Pipeline.setup_comm Pipeline.pjoin Pipeline.pcapture Pipeline.leaves DropOrder.acts DropOrder.held_at_waits DropOrder.all_held
  WinComm.winit WinComm.wstep WinSim.run_script
  Env.format_env Env.format_env_block Status.decode_exit_status Status.encode4 Status.decode4
  Comm.start Comm.step Comm.output CommK.init_world CommSim.serve CommSim.call_eqb
  PopenSM.start_op PopenSM.pstep PopenSM.pserve PopenSM.pcall_eqb PopenSM.settle.
