(* Extraction of the executable models for the high-volume tiers.  ExtrOcamlBasic only: bool, option,
   unit, list, prod, sumbool, sumor map to OCaml natives; nat, N, Z, positive stay the Coq datatypes;
   no Extract Constant. *)
Require Extraction.
Require Import ExtrOcamlBasic.
From Coq Require Import List NArith.
Require Import SP.Base.Str SP.Lib.Quote SP.Lib.Sh SP.Lib.WinCmdline SP.Lib.MsParse.
Extraction Language OCaml.
Separate Extraction
  Str.str_eqb Str.strs_eqb
  Quote.debug_exec Quote.debug_pipeline Quote.render Sh.sh_eval Sh.sh_words
  WinCmdline.assemble_cmdline MsParse.parse_args MsParse.parse_progname.
