(* Kernel model K for the communicate family: three pipes with capacity, a scripted child, a
   monotonic clock, and ghost state recording what the child wrote and received.  Every freedom the
   kernel has (how many bytes a read/write moves, POLLOUT in the partially-filled zone) is an explicit
   choice argument.  Proof-free. *)
From Coq Require Import List NArith ZArith Bool Arith.
Require Import SP.Params SP.Lib.Comm.
Import ListNotations.

Definition PIPE_BUF : nat := 4096.

Record pipe := { buf : list N; cap : nat; wr : bool; rd : bool }.   (* wr/rd: that end is still open *)

Definition free (p : pipe) : nat := cap p - length (buf p).

Definition push (p : pipe) (b : list N) : pipe := {| buf := buf p ++ b; cap := cap p; wr := wr p; rd := rd p |}.
Definition pop (p : pipe) (m : nat) : pipe := {| buf := skipn m (buf p); cap := cap p; wr := wr p; rd := rd p |}.
Definition close_wr (p : pipe) : pipe := {| buf := buf p; cap := cap p; wr := false; rd := rd p |}.
Definition close_rd (p : pipe) : pipe := {| buf := buf p; cap := cap p; wr := wr p; rd := false |}.

(* a scripted child: one system call per op (a write may complete in several pieces) *)
Inductive cop :=
| CRead (n : nat)                       (* read(0, n) *)
| CWrite (s : stream) (bytes : list N)  (* write(1|2, bytes), blocking *)
| CCloseS (s : stream)                  (* close(0|1|2) *)
| CSleep (ns : N)
| CSleepUntil (t : N)                   (* internal: a sleep in progress *)
| CExit.

Record world := {
  pin : pipe; pout : pipe; perr : pipe;
  piped_in : bool; piped_out : bool; piped_err : bool;
  prog : list cop; alive : bool;
  now : N;
  wrote_out : list N; wrote_err : list N;    (* ghost: bytes the child's writes put on each stream *)
  child_got : list N; child_eof : bool;      (* ghost: what the child read from stdin; did it see EOF *)
  eof_at : option N; last_write_at : option N; closed_at : option N  (* ghost: instants, for C02's "EOF immediately" *)
}.

Definition upd_pipes (w : world) (pi po pe : pipe) : world :=
  {| pin := pi; pout := po; perr := pe; piped_in := piped_in w; piped_out := piped_out w; piped_err := piped_err w;
     prog := prog w; alive := alive w; now := now w; wrote_out := wrote_out w; wrote_err := wrote_err w;
     child_got := child_got w; child_eof := child_eof w; eof_at := eof_at w; last_write_at := last_write_at w;
     closed_at := closed_at w |}.

Definition set_prog (w : world) (p : list cop) : world :=
  {| pin := pin w; pout := pout w; perr := perr w; piped_in := piped_in w; piped_out := piped_out w; piped_err := piped_err w;
     prog := p; alive := alive w; now := now w; wrote_out := wrote_out w; wrote_err := wrote_err w;
     child_got := child_got w; child_eof := child_eof w; eof_at := eof_at w; last_write_at := last_write_at w;
     closed_at := closed_at w |}.

Definition set_now (w : world) (t : N) : world :=
  {| pin := pin w; pout := pout w; perr := perr w; piped_in := piped_in w; piped_out := piped_out w; piped_err := piped_err w;
     prog := prog w; alive := alive w; now := t; wrote_out := wrote_out w; wrote_err := wrote_err w;
     child_got := child_got w; child_eof := child_eof w; eof_at := eof_at w; last_write_at := last_write_at w;
     closed_at := closed_at w |}.

(* the child terminates (exit, end of script, or SIGPIPE): all its ends close *)
Definition child_dies (w : world) : world :=
  {| pin := close_rd (pin w); pout := close_wr (pout w); perr := close_wr (perr w);
     piped_in := piped_in w; piped_out := piped_out w; piped_err := piped_err w;
     prog := []; alive := false; now := now w; wrote_out := wrote_out w; wrote_err := wrote_err w;
     child_got := child_got w; child_eof := child_eof w; eof_at := eof_at w; last_write_at := last_write_at w;
     closed_at := closed_at w |}.

(* clamp a choice k into 1..m (0 means "as much as possible") *)
Definition pick (k m : nat) : nat := if (k =? 0)%nat then m else Nat.min k m.

Inductive kres := KDone (w : world) (r : result) | KBlocks.

(* ---- parent calls ---- *)

(* write(stdin, bytes): EPIPE without reader; at most PIPE_BUF bytes are atomic: all or block *)
Definition k_write (w : world) (bytes : list N) (k : nat) : kres :=
  let p := pin w in
  if negb (rd p) then KDone w (RErr EPIPE)
  else match bytes with
       | [] => KDone w (RWrote 0)
       | _ =>
         let n := length bytes in
         if (n <=? free p)%nat then
           let m := pick k n in
           let w1 := upd_pipes w (push p (firstn m bytes)) (pout w) (perr w) in
           KDone {| pin := pin w1; pout := pout w1; perr := perr w1; piped_in := piped_in w1; piped_out := piped_out w1;
                    piped_err := piped_err w1; prog := prog w1; alive := alive w1; now := now w1;
                    wrote_out := wrote_out w1; wrote_err := wrote_err w1; child_got := child_got w1;
                    child_eof := child_eof w1; eof_at := eof_at w1; last_write_at := Some (now w1);
                    closed_at := closed_at w1 |} (RWrote (N.of_nat m))
         else KBlocks
       end.

Definition k_close (w : world) : world :=
  let w1 := upd_pipes w (close_wr (pin w)) (pout w) (perr w) in
  {| pin := pin w1; pout := pout w1; perr := perr w1; piped_in := piped_in w1; piped_out := piped_out w1;
     piped_err := piped_err w1; prog := prog w1; alive := alive w1; now := now w1;
     wrote_out := wrote_out w1; wrote_err := wrote_err w1; child_got := child_got w1;
     child_eof := child_eof w1; eof_at := eof_at w1; last_write_at := last_write_at w1;
     closed_at := Some (now w1) |}.

Definition k_read (w : world) (s : stream) (n : N) (k : nat) : kres :=
  let p := match s with SErr => perr w | _ => pout w end in
  match buf p with
  | [] => if wr p then KBlocks else KDone w (RData [])
  | _ =>
    let m := pick k (Nat.min (N.to_nat n) (length (buf p))) in
    let p' := pop p m in
    KDone (match s with SErr => upd_pipes w (pin w) (pout w) p' | _ => upd_pipes w (pin w) p' (perr w) end)
          (RData (firstn m (buf p)))
  end.

(* POLLOUT: forced when the pipe is empty, impossible below PIPE_BUF free bytes, the kernel's choice between *)
Definition pollout_ok (p : pipe) (zone : bool) : bool :=
  if (cap p <=? free p)%nat then true else if (free p <? PIPE_BUF)%nat then false else zone.

Definition rev_in (w : world) (zone : bool) : N :=
  ((if pollout_ok (pin w) zone then POLLOUT else 0) + (if rd (pin w) then 0 else POLLERR))%N.
Definition rev_rd (p : pipe) : N :=
  ((match buf p with [] => 0 | _ => POLLIN end) + (if wr p then 0 else POLLHUP))%N.

Definition k_revents (w : world) (fin fout ferr zone : bool) : N * N * N :=
  (if fin then rev_in w zone else 0%N, if fout then rev_rd (pout w) else 0%N, if ferr then rev_rd (perr w) else 0%N).

Definition nz (x : N) : N := if (x =? 0)%N then 0%N else 1%N.

(* ---- child steps ---- *)

Inductive cres := CStep (w : world) | CBlocked | CDone.

Definition child_step (w : world) (k : nat) : cres :=
  if negb (alive w) then CDone
  else match prog w with
  | [] => CStep (child_dies w)
  | CExit :: _ => CStep (child_dies w)
  | CSleep ns :: r => CStep (set_prog w (CSleepUntil (now w + ns) :: r))
  | CSleepUntil t :: r => if (t <=? now w)%N then CStep (set_prog w r) else CBlocked
  | CCloseS s :: r =>
    let w' := set_prog w r in
    CStep (match s with
           | SIn => upd_pipes w' (close_rd (pin w')) (pout w') (perr w')
           | SOut => upd_pipes w' (pin w') (close_wr (pout w')) (perr w')
           | SErr => upd_pipes w' (pin w') (pout w') (close_wr (perr w'))
           end)
  | CRead n :: r =>
    let p := pin w in
    if negb (piped_in w) || negb (rd p) then CStep (set_prog w r)
    else match buf p with
         | [] => if wr p then CBlocked
                 else let w' := set_prog w r in
                      CStep {| pin := pin w'; pout := pout w'; perr := perr w'; piped_in := piped_in w'; piped_out := piped_out w';
                               piped_err := piped_err w'; prog := prog w'; alive := alive w'; now := now w';
                               wrote_out := wrote_out w'; wrote_err := wrote_err w'; child_got := child_got w';
                               child_eof := true; eof_at := match eof_at w' with None => Some (now w') | x => x end;
                               last_write_at := last_write_at w'; closed_at := closed_at w' |}
         | _ =>
           let m := pick k (Nat.min n (length (buf p))) in
           let w' := upd_pipes (set_prog w r) (pop p m) (pout w) (perr w) in
           CStep {| pin := pin w'; pout := pout w'; perr := perr w'; piped_in := piped_in w'; piped_out := piped_out w';
                    piped_err := piped_err w'; prog := prog w'; alive := alive w'; now := now w';
                    wrote_out := wrote_out w'; wrote_err := wrote_err w'; child_got := child_got w' ++ firstn m (buf p);
                    child_eof := child_eof w'; eof_at := eof_at w'; last_write_at := last_write_at w';
                    closed_at := closed_at w' |}
         end
  | CWrite s bytes :: r =>
    let isout := match s with SErr => false | _ => true end in
    let p := if isout then pout w else perr w in
    let piped := if isout then piped_out w else piped_err w in
    match bytes with
    | [] => CStep (set_prog w r)
    | _ =>
      if negb piped || negb (wr p) then CStep (set_prog w r)
      else if negb (rd p) then CStep (child_dies w)              (* SIGPIPE, default action *)
      else if (free p =? 0)%nat then CBlocked
      else
        let m := pick k (Nat.min (length bytes) (free p)) in
        let rest := skipn m bytes in
        let w' := set_prog w (match rest with [] => r | _ => CWrite s rest :: r end) in
        let p' := push p (firstn m bytes) in
        let w'' := if isout then upd_pipes w' (pin w') p' (perr w') else upd_pipes w' (pin w') (pout w') p' in
        CStep {| pin := pin w''; pout := pout w''; perr := perr w''; piped_in := piped_in w''; piped_out := piped_out w'';
                 piped_err := piped_err w''; prog := prog w''; alive := alive w''; now := now w'';
                 wrote_out := if isout then wrote_out w'' ++ firstn m bytes else wrote_out w'';
                 wrote_err := if isout then wrote_err w'' else wrote_err w'' ++ firstn m bytes;
                 child_got := child_got w''; child_eof := child_eof w''; eof_at := eof_at w'';
                 last_write_at := last_write_at w''; closed_at := closed_at w'' |}
    end
  end.

Definition mk_pipe (c : nat) : pipe := {| buf := []; cap := c; wr := true; rd := true |}.

Definition init_world (pi po pe : bool) (ci co ce : nat) (p : list cop) : world :=
  {| pin := mk_pipe ci; pout := mk_pipe co; perr := mk_pipe ce; piped_in := pi; piped_out := po; piped_err := pe;
     prog := p; alive := true; now := 0%N; wrote_out := []; wrote_err := []; child_got := []; child_eof := false;
     eof_at := None; last_write_at := None; closed_at := None |}.
