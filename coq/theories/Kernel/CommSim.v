(* A deterministic scheduler of K driven by a choice stream: serves one parent call, running child
   steps before it and while it blocks.  Used (extracted) by the kernel-in-the-loop engine E1, where
   the real library issues the calls.  Proof-free. *)
From Coq Require Import List NArith ZArith Bool Arith.
Require Import SP.Params SP.Lib.Comm SP.Kernel.CommK.
Import ListNotations.
Local Open Scope nat_scope.

Definition chs := list nat.
Definition nextc (c : chs) : nat * chs := match c with [] => (0, []) | x :: r => (x, r) end.

Inductive sres := SRes (r : result) | SDeadlock | SFuel.

Fixpoint run_child (n : nat) (w : world) (c : chs) : world * chs :=
  match n with
  | O => (w, c)
  | S n' =>
    let (k, c') := nextc c in
    match child_step w k with
    | CStep w' => run_child n' w' c'
    | _ => (w, c')
    end
  end.

Definition sleeping_until (w : world) : option N :=
  if alive w then match prog w with CSleepUntil t :: _ => Some t | _ => None end else None.

(* attempt `try`; while it blocks let the child run; when the child cannot run either, time passes:
   to the child's wake-up time, or to the deadline of a timed wait (-> `timeout`), or not at all
   (-> deadlock).  `patience` bounds how many child steps a timed wait tolerates before the
   scheduler lets it expire (the child may simply be slow). *)
Fixpoint wait_loop (fuel : nat) (w : world) (try : world -> nat -> kres) (dl : option N) (timeout : result)
         (patience : nat) (c : chs) : sres * world * chs :=
  match fuel with
  | O => (SFuel, w, c)
  | S fuel' =>
    let (k, c1) := nextc c in
    match try w k with
    | KDone w' r => (SRes r, w', c1)
    | KBlocks =>
      let expire (w0 : world) (d : N) := (SRes timeout, set_now w0 (N.max (now w0) d), c1) in
      match dl, patience with
      | Some d, O => expire w d
      | _, _ =>
        let (k2, c2) := nextc c1 in
        match child_step w k2 with
        | CStep w' => wait_loop fuel' w' try dl timeout (Nat.pred patience) c2
        | _ =>
          match sleeping_until w, dl with
          | Some t, Some d => if (t <? d)%N then wait_loop fuel' (set_now w t) try dl timeout patience c2 else expire w d
          | Some t, None => wait_loop fuel' (set_now w t) try dl timeout patience c2
          | None, Some d => expire w d
          | None, None => (SDeadlock, w, c2)
          end
        end
      end
    end
  end.

(* a blocking write of more than PIPE_BUF bytes: the kernel moves what fits and keeps the caller
   blocked until everything is written (only reachable when WRITE_SIZE > PIPE_BUF, i.e. by a mutant) *)
Fixpoint big_write (fuel : nat) (w : world) (bytes : list N) (done : nat) (c : chs) : sres * world * chs :=
  match fuel with
  | O => (SFuel, w, c)
  | S fuel' =>
    if negb (rd (pin w)) then (SRes (RErr EPIPE), w, c)
    else match bytes with
         | [] => (SRes (RWrote (N.of_nat done)), w, c)
         | _ =>
           let f := free (pin w) in
           if (f =? 0)%nat then
             let (k2, c2) := nextc c in
             match child_step w k2 with
             | CStep w' => big_write fuel' w' bytes done c2
             | _ => match sleeping_until w with
                    | Some t => big_write fuel' (set_now w t) bytes done c2
                    | None => (SDeadlock, w, c2)
                    end
             end
           else
             let m := Nat.min f (length bytes) in
             big_write fuel' (upd_pipes w (push (pin w) (firstn m bytes)) (pout w) (perr w)) (skipn m bytes) (done + m) c
         end
  end.

Definition poll_try (fin fout ferr : bool) (w : world) (k : nat) : kres :=
  let '(ri, ro, re) := k_revents w fin fout ferr (Nat.odd k) in
  let cnt := (nz ri + nz ro + nz re)%N in
  if (cnt =? 0)%N then KBlocks else KDone w (RPoll cnt ri ro re).

(* serve one parent call.  Before it, the child gets 0..3 steps and the call itself takes 0..63 us. *)
Definition serve (fuel : nat) (w : world) (cl : call) (c : chs) : sres * world * chs :=
  let (pre, c1) := nextc c in
  let '(w1, c2) := run_child (pre mod 4) w c1 in
  let (dur, c3) := nextc c2 in
  let w2 := set_now w1 (now w1 + N.of_nat (dur mod 64) * 1000)%N in
  match cl with
  | KClock => (SRes (RNow (now w2)), w2, c3)
  | KClose => (SRes RDone, k_close w2, c3)
  | KWrite bytes =>
    if (length bytes <=? PIPE_BUF)%nat
    then wait_loop fuel w2 (fun w k => k_write w bytes k) None (RErr 0) 0 c3
    else big_write fuel w2 bytes 0 c3
  | KRead s n => wait_loop fuel w2 (fun w k => k_read w s n k) None (RErr 0) 0 c3
  | KPoll fin fout ferr tmo =>
    let (pat, c4) := nextc c3 in
    let dl := if (tmo <? 0)%Z then None else Some (now w2 + Z.to_N tmo * 1000000)%N in
    wait_loop fuel w2 (poll_try fin fout ferr) dl (RPoll 0 0 0 0) (if (pat mod 8 =? 7)%nat then fuel else pat mod 8) c4
  end.

(* lockstep conformance: does the call the real code issued equal the one L issues? *)
Definition stream_eqb (a b : stream) : bool :=
  match a, b with SIn, SIn | SOut, SOut | SErr, SErr => true | _, _ => false end.
Fixpoint bytes_eqb (a b : list N) : bool :=
  match a, b with
  | [], [] => true
  | x :: a', y :: b' => (x =? y)%N && bytes_eqb a' b'
  | _, _ => false
  end.
Definition call_eqb (a b : call) : bool :=
  match a, b with
  | KPoll a1 a2 a3 t, KPoll b1 b2 b3 u => Bool.eqb a1 b1 && Bool.eqb a2 b2 && Bool.eqb a3 b3 && (t =? u)%Z
  | KWrite x, KWrite y => bytes_eqb x y
  | KClose, KClose => true
  | KRead s n, KRead t m => stream_eqb s t && (n =? m)%N
  | KClock, KClock => true
  | _, _ => false
  end.
