(* The closed system G = L || child || K at system-call granularity, with every interleaving and every
   kernel freedom an explicit choice.  This is what the theorems of C01-C04 quantify over.  Proof-free. *)
From Coq Require Import List NArith ZArith Bool Arith.
Require Import SP.Params SP.Lib.Comm SP.Kernel.CommK.
Import ListNotations.

Record gstate := {
  gl : cst;               (* L's state *)
  ga : action;            (* L's pending action: the call in flight, or the return *)
  gw : world;             (* K *)
  gissued : N;            (* instant at which the pending call was issued *)
  gdout : list N;         (* ghost: stdout bytes returned by earlier read() calls of this communicator *)
  gderr : list N;
  ginput0 : list N        (* ghost: the input supplied to communicate *)
}.

Inductive gchoice :=
| GParent (k : nat) (zone : bool) (dur : N)   (* the pending call completes now; k, zone: the kernel's freedoms; dur: time spent *)
| GChild (k : nat)                             (* the child makes a step *)
| GStart (lim : option N) (tl : option N).     (* the caller invokes read() again with these limits *)

Definition ms_to_ns (t : Z) : N := (Z.to_N t * 1000000)%N.

Definition parent_exec (w : world) (c : call) (k : nat) (zone : bool) (issued : N) : option (world * result) :=
  match c with
  | KWrite b => match k_write w b k with KDone w' r => Some (w', r) | KBlocks => None end
  | KRead s n => match k_read w s n k with KDone w' r => Some (w', r) | KBlocks => None end
  | KClose => Some (k_close w, RDone)
  | KClock => Some (w, RNow (now w))
  | KPoll fi fo fe tmo =>
    let '(ri, ro, re) := k_revents w fi fo fe zone in
    let cnt := (nz ri + nz ro + nz re)%N in
    if (cnt =? 0)%N then
      if (tmo <? 0)%Z then None
      else Some (set_now w (N.max (now w) (issued + ms_to_ns tmo)%N), RPoll 0 0 0 0)
    else Some (w, RPoll cnt ri ro re)
  end.

Definition with_l (g : gstate) (s : cst) (a : action) (w : world) : gstate :=
  {| gl := s; ga := a; gw := w; gissued := now w; gdout := gdout g; gderr := gderr g; ginput0 := ginput0 g |}.

Definition with_w (g : gstate) (w : world) : gstate :=
  {| gl := gl g; ga := ga g; gw := w; gissued := gissued g; gdout := gdout g; gderr := gderr g; ginput0 := ginput0 g |}.

Definition gstep (g : gstate) (ch : gchoice) : option gstate :=
  match ch with
  | GParent k zone dur =>
    match ga g with
    | Call c =>
      let w1 := set_now (gw g) (now (gw g) + dur)%N in
      match parent_exec w1 c k zone (gissued g) with
      | Some (w', r) => let (s', a') := step (gl g) r in Some (with_l g s' a' w')
      | None => None
      end
    | _ => None
    end
  | GChild k =>
    match child_step (gw g) k with
    | CStep w' => Some (with_w g w')
    | CBlocked =>
      match prog (gw g) with
      | CSleepUntil t :: r => Some (with_w g (set_now (set_prog (gw g) r) t))    (* time passes; the child wakes *)
      | _ => None
      end
    | CDone => None
    end
  | GStart lim tl =>
    match ga g with
    | Ret _ =>
      let (s', a') := start (cm (gl g)) lim tl in
      Some {| gl := s'; ga := a'; gw := gw g; gissued := now (gw g);
              gdout := gdout g ++ (if c_out (cm (gl g)) then outv (gl g) else []);
              gderr := gderr g ++ (if c_err (cm (gl g)) then errv (gl g) else []);
              ginput0 := ginput0 g |}
    | _ => None
    end
  end.

(* communicate(stdin?, stdout?, stderr?, input) followed by the first read() *)
Definition ginit (pi po pe : bool) (ci co ce : nat) (child : list cop) (input : list N)
           (lim : option N) (tl : option N) : gstate :=
  let c := {| c_in := pi; c_out := po; c_err := pe; c_input := if pi then input else [] |} in
  let (s, a) := start c lim tl in
  {| gl := s; ga := a; gw := init_world pi po pe ci co ce child; gissued := 0%N; gdout := []; gderr := [];
     ginput0 := if pi then input else [] |}.

Fixpoint grun (g : gstate) (chs : list gchoice) : option gstate :=
  match chs with
  | [] => Some g
  | ch :: r => match gstep g ch with Some g' => grun g' r | None => None end
  end.
