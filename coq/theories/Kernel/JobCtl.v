(* Job control on top of the kernel model of one child (Lib/PopenSM.v): a stop signal suspends a live child,
   SIGCONT resumes it, and waitpid reports the stop -- but only to a caller that passes WUNTRACED.  The library
   model L issues calls of type pcall only (waitpid with no option or WNOHANG); xcall adds the calls L never
   makes, so that what such a call would observe is part of the model the real code is run against.  Proof-free.

   Simplification: a stopped child keeps its scheduled exit instant (the exit time is "when it would exit"). *)
From Coq Require Import List NArith Bool.
Require Import SP.Lib.PopenSM.
Import ListNotations.
Open Scope N_scope.

Definition WUNTRACED : N := 2.
Definition SIGCONT : N := 18.
Definition is_stop_signal (s : N) : bool := (s =? 19) || (s =? 20) || (s =? 21) || (s =? 22).

(* the raw wait status of a child stopped by sig: WIFSTOPPED, WSTOPSIG = sig *)
Definition stop_status (sig : N) : N := N.lor (N.shiftl sig 8) 127.

Inductive xcall :=
| XBase (c : pcall)
| XWaitOpts (nohang : bool) (opts : N).    (* waitpid with option bits other than WNOHANG (opts <> 0) *)

Record xworld := { xbase : pworld; xstopped : option N; xseen : bool }.

Inductive xres := XRes (w : xworld) (r : presult) | XNever.

Definition alive_at_call (w : pworld) (dur : N) : bool :=
  match pr (padvance w (pnow w + dur)) with PAlive => true | _ => false end.

Definition serve_base (w : xworld) (c : pcall) (dur over : N) : xres :=
  match pserve (xbase w) c dur over with
  | PNever => XNever
  | PRes b r =>
    let st := match c with
              | PKill sig =>
                if alive_at_call (xbase w) dur then
                  if is_stop_signal sig then (Some sig, false)
                  else if sig =? SIGCONT then (None, false)
                  else (xstopped w, xseen w)
                else (xstopped w, xseen w)
              | _ => (xstopped w, xseen w)
              end in
    XRes {| xbase := b; xstopped := fst st; xseen := snd st |} r
  end.

Definition xserve (w : xworld) (c : xcall) (dur over : N) : xres :=
  match c with
  | XBase c0 => serve_base w c0 dur over
  | XWaitOpts nh opts =>
    match xstopped w with
    | Some sig =>
      if negb (N.land opts WUNTRACED =? 0) && alive_at_call (xbase w) dur && negb (xseen w) then
        XRes {| xbase := padvance (xbase w) (pnow (xbase w) + dur); xstopped := Some sig; xseen := true |}
             (RWaitPid true (stop_status sig))
      else serve_base w (PWaitpid nh) dur over
    | None => serve_base w (PWaitpid nh) dur over
    end
  end.

(* a signal handler of the calling process (installed without SA_RESTART) interrupts a blocking waitpid: the call
   fails with EINTR after dur, nothing about the child changes *)
Definition EINTR : N := 4.
Definition xinterrupt (w : xworld) (dur : N) : xres :=
  XRes {| xbase := padvance (xbase w) (pnow (xbase w) + dur); xstopped := xstopped w; xseen := xseen w |} (RErrno EINTR).

Definition xinit (w : pworld) : xworld := {| xbase := w; xstopped := None; xseen := false |}.
