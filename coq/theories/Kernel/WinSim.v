(* Exploration of the thread-based communicator model for the correspondence check: the driver plays the
   child between reads (so the child is quiescent during a read) and gives the helper threads time to
   settle, which leaves as the only freedom the order in which the receiving thread meets the helpers that
   hold a message.  Every explored path is a sequence of wstep transitions of Lib/WinComm.v.  Proof-free. *)
From Coq Require Import List NArith Bool Arith.
Require Import SP.Lib.Comm SP.Kernel.CommK SP.Lib.WinComm.
Import ListNotations.
Local Open Scope nat_scope.

(* let every helper run until it blocks (k = 0: the kernel moves as much as it can) *)
Fixpoint settle (fuel : nat) (s : wsys) : wsys :=
  match fuel with
  | 0 => s
  | S f =>
    match wstep s (WHelper SOut 0) with
    | Some s' => settle f s'
    | None => match wstep s (WHelper SErr 0) with
              | Some s' => settle f s'
              | None => match wstep s (WHelper SIn 0) with
                        | Some s' => settle f s'
                        | None => s
                        end
              end
    end
  end.

Fixpoint taus (fuel : nat) (s : wsys) : wsys :=
  match fuel with
  | 0 => s
  | S f => match wstep s WTau with Some s' => taus f s' | None => s end
  end.

Definition result := (wret * option (list N) * option (list N))%type.
Inductive outcome := ORet (r : result) | OBlocked.     (* OBlocked: read() without deadline waits for a child that does nothing *)

(* all ways one read() can go *)
Fixpoint explore (fuel : nat) (s : wsys) : list (wsys * outcome) :=
  match fuel with
  | 0 => []
  | S f =>
    let s := taus 4 s in
    match finish s with
    | Some (s', r) => [(s', ORet r)]
    | None =>
      let tryr st := match wstep s (WRecv st) with Some s' => explore f (settle 8 s') | None => [] end in
      let rs := tryr SOut ++ tryr SErr ++ tryr SIn in
      match rs with
      | [] => match wstep s WTimeout with
              | Some s' => explore f s'
              | None => [(s, OBlocked)]
              end
      | _ => rs
      end
    end
  end.

Inductive phase := PhChild (n : nat) | PhRead (lim : option nat) (deadline : bool).

Fixpoint child_ops (n : nat) (s : wsys) : wsys :=
  match n with
  | 0 => s
  | S m => match wstep s (WChild 0) with
           | Some s' => child_ops m (settle 8 s')
           | None => (* the driver's reads are non-blocking: an operation that would block is given up *)
                     child_ops m (with_kw s (set_prog (kw s) (tl (prog (kw s)))))
           end
  end.

(* all result sequences of a whole script, with the final child_got *)
Fixpoint run_script (fuel : nat) (ph : list phase) (s : wsys) (acc : list outcome) : list (list outcome * list N * bool) :=
  match ph with
  | [] => [(rev acc, child_got (kw s), child_eof (kw s))]
  | PhChild n :: r => run_script fuel r (child_ops n (settle 8 s)) acc
  | PhRead lim dl :: r =>
    match wstep (settle 8 s) (WStart lim dl) with
    | Some s1 => flat_map (fun so => run_script fuel r (fst so) (snd so :: acc)) (explore fuel s1)
    | None => []
    end
  end.
