(* Model of builder.rs: the Exec builder.  Every builder method is a function on the accumulated
   description; a panic is the explicit outcome None.  base is the environment of the calling process
   (what PopenConfig::current_env() returns when ensure_env takes its snapshot). *)
From Coq Require Import List NArith Bool.
Require Import SP.Base.Str SP.Lib.Env SP.Params.
Import ListNotations.
Local Open Scope N_scope.

Inductive bredir := BNone | BPipe | BMerge | BFile (id : N).
Inductive inarg := IRedir (r : bredir) | IData (d : str).

Inductive op :=
| OArg (a : str) | OArgs (l : list str)
| OEnv (k v : str) | OEnvExtend (l : envlist) | OEnvRemove (k : str) | OEnvClear
| OCwd (d : str)
| OStdin (a : inarg) | OStdout (r : bredir) | OStderr (r : bredir)
| ODetached
| OClone | OSwap.                     (* two handles: clone the current one aside / continue with the other *)

Record exec := mkexec {
  b_command : str; b_args : list str; b_env : option envlist; b_cwd : option str;
  b_in : bredir; b_out : bredir; b_err : bredir; b_detached : bool; b_data : option str
}.

Definition cmd (c : str) : exec := mkexec c [] None None BNone BNone BNone false None.

Definition ensure_env (base : envlist) (e : exec) : envlist :=
  match b_env e with Some l => l | None => base end.

Definition set_env (e : exec) (l : envlist) : exec :=
  mkexec (b_command e) (b_args e) (Some l) (b_cwd e) (b_in e) (b_out e) (b_err e) (b_detached e) (b_data e).

(* the set-once rule of stdout()/stderr(): a fresh setting is taken, Pipe over Pipe is a no-op, anything
   else panics *)
Definition set_once (old new : bredir) : option bredir :=
  match old, new with
  | BNone, _ => Some new
  | BPipe, BPipe => Some BPipe
  | _, _ => None
  end.

Definition apply_op (base : envlist) (e : exec) (o : op) : option exec :=
  match o with
  | OArg a => Some (mkexec (b_command e) (b_args e ++ [a]) (b_env e) (b_cwd e) (b_in e) (b_out e) (b_err e) (b_detached e) (b_data e))
  | OArgs l => Some (mkexec (b_command e) (b_args e ++ l) (b_env e) (b_cwd e) (b_in e) (b_out e) (b_err e) (b_detached e) (b_data e))
  | OEnv k v => Some (set_env e (ensure_env base e ++ [(k, v)]))
  | OEnvExtend l => Some (set_env e (ensure_env base e ++ l))
  | OEnvRemove k => Some (set_env e (filter (fun kv => negb (str_eqb (fst kv) k)) (ensure_env base e)))
  | OEnvClear => Some (set_env e [])
  | OCwd d => Some (mkexec (b_command e) (b_args e) (b_env e) (Some d) (b_in e) (b_out e) (b_err e) (b_detached e) (b_data e))
  | OStdin (IRedir BMerge) => None      (* From<Redirection> for InputRedirection panics: Merge is for outputs only *)
  | OStdin (IRedir r) =>
    match set_once (b_in e) r with
    | Some r' => Some (mkexec (b_command e) (b_args e) (b_env e) (b_cwd e) r' (b_out e) (b_err e) (b_detached e) (b_data e))
    | None => None
    end
  | OStdin (IData d) =>
    match b_in e with
    | BNone => Some (mkexec (b_command e) (b_args e) (b_env e) (b_cwd e) BPipe (b_out e) (b_err e) (b_detached e) (Some d))
    | _ => None
    end
  | OStdout r =>
    match set_once (b_out e) r with
    | Some r' => Some (mkexec (b_command e) (b_args e) (b_env e) (b_cwd e) (b_in e) r' (b_err e) (b_detached e) (b_data e))
    | None => None
    end
  | OStderr r =>
    match set_once (b_err e) r with
    | Some r' => Some (mkexec (b_command e) (b_args e) (b_env e) (b_cwd e) (b_in e) (b_out e) r' (b_detached e) (b_data e))
    | None => None
    end
  | ODetached => Some (mkexec (b_command e) (b_args e) (b_env e) (b_cwd e) (b_in e) (b_out e) (b_err e) true (b_data e))
  | OClone | OSwap => Some e
  end.

(* two handles: the current one and (after a clone) the other *)
Definition bstate := (exec * option exec)%type.

Definition step (base : envlist) (st : bstate) (o : op) : option bstate :=
  let (cur, other) := st in
  match o with
  | OClone => Some (cur, Some cur)
  | OSwap => match other with Some s => Some (s, Some cur) | None => Some (cur, None) end
  | _ => match apply_op base cur o with Some c => Some (c, other) | None => None end
  end.

(* inr i: the i-th call (from 0) panicked *)
Fixpoint run_ops (base : envlist) (st : bstate) (ops : list op) (i : N) : bstate + N :=
  match ops with
  | [] => inl st
  | o :: r => match step base st o with
              | Some st' => run_ops base st' r (i + 1)
              | None => inr i
              end
  end.

Fixpoint run_plain (base : envlist) (e : exec) (ops : list op) : option exec :=
  match ops with
  | [] => Some e
  | o :: r => match apply_op base e o with Some e' => run_plain base e' r | None => None end
  end.

(* ---------- terminators ---------- *)

Inductive term := TPopen | TJoin | TStreamStdout | TStreamStderr | TStreamStdin | TCommunicate | TCapture.

Record launch := mklaunch {
  l_argv : list str; l_env : option envlist; l_cwd : option str;
  l_in : bredir; l_out : bredir; l_err : bredir; l_detached : bool; l_data : option str;
  l_panics_after : bool       (* the process is started and the terminator then panics ("must provide input to
                                 redirected stdin": capture/communicate on a piped stdin without input data) *)
}.

Definition popen (e : exec) : option launch :=
  match b_data e with
  | Some _ => None                                    (* "popen called with input data specified" *)
  | None => Some (mklaunch (b_command e :: b_args e) (b_env e) (b_cwd e) (b_in e) (b_out e) (b_err e) (b_detached e) None false)
  end.

Definition no_data (e : exec) : exec :=
  mkexec (b_command e) (b_args e) (b_env e) (b_cwd e) (b_in e) (b_out e) (b_err e) (b_detached e) None.

Definition setup_communicate (e : exec) : option launch :=
  let data := b_data e in
  let e1 := no_data e in
  let e2 := match b_out e1, b_err e1 with
            | BNone, BNone => apply_op [] e1 (OStdout BPipe)
            | _, _ => Some e1
            end in
  match e2 with
  | Some e3 => match popen e3 with
               | Some l => Some (mklaunch (l_argv l) (l_env l) (l_cwd l) (l_in l) (l_out l) (l_err l) (l_detached l) data
                                          (match l_in l, data with BPipe, None => true | _, _ => false end))
               | None => None
               end
  | None => None
  end.

Definition terminate (e : exec) (t : term) : option launch :=
  match t with
  | TPopen | TJoin => popen e
  | TStreamStdout => match b_data e with Some _ => None | None =>
                       match apply_op [] e (OStdout BPipe) with Some e' => popen e' | None => None end end
  | TStreamStderr => match b_data e with Some _ => None | None =>
                       match apply_op [] e (OStderr BPipe) with Some e' => popen e' | None => None end end
  | TStreamStdin => match b_data e with Some _ => None | None =>
                      match apply_op [] e (OStdin (IRedir BPipe)) with Some e' => popen e' | None => None end end
  | TCommunicate => match apply_op [] e ODetached with Some e' => setup_communicate e' | None => None end
  | TCapture => setup_communicate e
  end.

(* Exec::shell: SHELL[0] SHELL[1..] cmdstr *)
Definition shell (s : str) : exec :=
  match run_plain [] (cmd shell0) [OArgs [shell1]; OArg s] with Some e => e | None => cmd shell0 end.

(* ---------- comparison for the conformance check ---------- *)

Definition bredir_eqb (a b : bredir) : bool :=
  match a, b with
  | BNone, BNone | BPipe, BPipe | BMerge, BMerge => true
  | BFile x, BFile y => x =? y
  | _, _ => false
  end.

Fixpoint env_eqb (a b : envlist) : bool :=
  match a, b with
  | [], [] => true
  | (k, v) :: r, (k', v') :: r' => str_eqb k k' && str_eqb v v' && env_eqb r r'
  | _, _ => false
  end.

(* the whole program: constructor, calls, terminator of the current handle, then terminator of the other
   handle (if a clone was made).  Result: inr i = the i-th builder call panicked; inl (a, b) = outcomes of
   the two terminators (None = that terminator panicked) *)
Definition program (base : envlist) (start : exec) (ops : list op) (t1 t2 : term) : (option launch * option (option launch)) + N :=
  match run_ops base (start, None) ops 0 with
  | inr i => inr i
  | inl (cur, other) => inl (terminate cur t1, option_map (fun o => terminate o t2) other)
  end.
