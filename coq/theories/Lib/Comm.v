(* Model L of communicate.rs (unix): Communicator::read -> RawCommunicator::read -> read_into,
   maybe_poll, do_read, and posix::poll, as a Mealy machine whose transitions are exactly the system
   calls.  The loop-head tests, do_read's early return and the ready-flag bookkeeping are folded into
   the transition that consumes a call's result and emits the next call (or the return).
   Proof-free. *)
From Coq Require Import List NArith ZArith Bool.
Require Import SP.Params.
Import ListNotations.
Open Scope N_scope.

Definition POLLIN : N := 1.
Definition POLLOUT : N := 4.
Definition POLLERR : N := 8.
Definition POLLHUP : N := 16.
Definition EPIPE : N := 32.

Inductive stream := SIn | SOut | SErr.

Inductive call :=
| KPoll (fin fout ferr : bool) (timeout_ms : Z)   (* which pollfd entries carry a descriptor; -1 = no timeout *)
| KWrite (bytes : list N)                          (* write(stdin, chunk) *)
| KClose                                           (* close(stdin) *)
| KRead (s : stream) (n : N)                       (* read(stdout|stderr, n) *)
| KClock.                                          (* Instant::now() *)

Inductive result :=
| RPoll (cnt : N) (rin rout rerr : N)              (* return value and the three revents *)
| RWrote (n : N)
| RData (b : list N)                               (* [] is end-of-file *)
| RDone
| RNow (t : N)                                     (* monotonic clock, ns *)
| RErr (errno : N).

Inductive errk := ETimedOut | EOs (errno : N) | EModel.

Inductive action := Call (c : call) | Ret (e : option errk) | Stuck.

(* what survives between read() calls *)
Record comm := { c_in : bool; c_out : bool; c_err : bool; c_input : list N }.

Inductive pcT :=
| PStart (tl : N)                    (* Communicator::read: Instant::now() + time_limit *)
| PClock1                            (* maybe_poll: Instant::now() *)
| PClock2 (timeout : N)              (* posix::poll: Instant::now() + timeout *)
| PPoll (pdl : option N) (ovf : bool)
| PClock3 (pdl : N)                  (* posix::poll overflow loop: Instant::now() *)
| PWrite (rout rerr : bool)
| PClose (rout rerr : bool)
| PReadOut (rerr : bool)
| PReadErr
| PEndClock                          (* end of an iteration with a deadline: Instant::now() *)
| PReturned.

Record cst := {
  cm : comm;
  oref : bool; eref : bool;           (* stdout_ref / stderr_ref still Some in this call *)
  outv : list N; errv : list N;
  limit : option N;
  deadline : option N;
  timed_out : bool;
  pc : pcT }.

Definition set_pc (s : cst) (p : pcT) : cst :=
  {| cm := cm s; oref := oref s; eref := eref s; outv := outv s; errv := errv s; limit := limit s;
     deadline := deadline s; timed_out := timed_out s; pc := p |}.

Definition total (s : cst) : N := N.of_nat (length (outv s) + length (errv s)).

(* do_read: None = return without reading (allowance exhausted), Some n = size of the buffer passed to read *)
Definition read_size (s : cst) : option N :=
  match limit s with
  | Some l => if l <=? total s then None else Some (N.min READ_CHUNK (l - total s))
  | None => Some READ_CHUNK
  end.

Definition test (revents mask : N) : bool := negb (N.land revents mask =? 0).

Definition io_err (rerr : bool) (s : cst) : option (cst * call) :=
  if rerr && eref s then
    match read_size s with
    | Some n => Some (set_pc s PReadErr, KRead SErr n)
    | None => None
    end
  else None.

Definition io_out (rout rerr : bool) (s : cst) : option (cst * call) :=
  if rout && oref s then
    match read_size s with
    | Some n => Some (set_pc s (PReadOut rerr), KRead SOut n)
    | None => io_err rerr s
    end
  else io_err rerr s.

Definition io_in (rin rout rerr : bool) (s : cst) : option (cst * call) :=
  if rin && c_in (cm s) then
    Some (set_pc s (PWrite rout rerr), KWrite (firstn (N.to_nat WRITE_SIZE) (c_input (cm s))))
  else io_out rout rerr s.

Definition limit_reached (s : cst) : bool :=
  match limit s with Some l => l <=? total s | None => false end.

Definition ms_of_ns (t : N) : N := t / 1000000.

(* posix::poll: clamp to i32::MAX ms, remember whether the timeout overflowed *)
Definition emit_poll (s : cst) (timeout : N) (pdl : N) : cst * action :=
  let ms := ms_of_ns timeout in
  let '(arg, ovf) := if ms <=? POLL_CLAMP_MS then (ms, false) else (POLL_CLAMP_MS, true) in
  (set_pc s (PPoll (Some pdl) ovf), Call (KPoll (c_in (cm s)) (oref s) (eref s) (Z.of_N arg))).

Definition ret (s : cst) (e : option errk) : cst * action := (set_pc s PReturned, Ret e).

(* ready flags known: the three guarded I/O steps of one iteration *)
Definition with_flags (rin rout rerr : bool) (s : cst) (k : cst -> cst * action) : cst * action :=
  match io_in rin rout rerr s with
  | Some (s', c) => (s', Call c)
  | None => k s
  end.

Definition stuck (s : cst) : cst * action := (s, Stuck).

(* loop head: limit test, all-streams-gone test, pending timeout, then maybe_poll *)
Definition from_head (s : cst) : cst * action :=
  if limit_reached s then ret s None
  else if negb (c_in (cm s)) && negb (oref s) && negb (eref s) then ret s None
  else if timed_out s then ret s (Some ETimedOut)
  else
    match deadline s with
    | Some _ => (set_pc s PClock1, Call KClock)
    | None =>
      match c_in (cm s), oref s, eref s with
      | false, false, true => with_flags false false true s stuck
      | false, true, false => with_flags false true false s stuck
      | true, false, false => with_flags true false false s stuck
      | fi, fo, fe => (set_pc s (PPoll None false), Call (KPoll fi fo fe (-1)%Z))
      end
    end.

(* end of an iteration *)
Definition end_iter (s : cst) : cst * action :=
  match deadline s with
  | Some _ => (set_pc s PEndClock, Call KClock)
  | None => from_head s
  end.

Definition after_flags (rin rout rerr : bool) (s : cst) : cst * action :=
  if negb rin && negb rout && negb rerr then ret s (Some ETimedOut)
  else with_flags rin rout rerr s end_iter.

Definition set_cm (s : cst) (c : comm) : cst :=
  {| cm := c; oref := oref s; eref := eref s; outv := outv s; errv := errv s; limit := limit s;
     deadline := deadline s; timed_out := timed_out s; pc := pc s |}.

Definition cont_out (rout rerr : bool) (s : cst) : cst * action :=
  match io_out rout rerr s with
  | Some (s', c) => (s', Call c)
  | None => end_iter s
  end.

Definition cont_err (rerr : bool) (s : cst) : cst * action :=
  match io_err rerr s with
  | Some (s', c) => (s', Call c)
  | None => end_iter s
  end.

Definition step (s : cst) (r : result) : cst * action :=
  match pc s, r with
  | _, RErr e => ret s (Some (EOs e))               (* every `?` in read_into / maybe_poll / posix::poll *)
  | PStart tl, RNow t =>
      from_head {| cm := cm s; oref := oref s; eref := eref s; outv := outv s; errv := errv s;
                   limit := limit s; deadline := Some (t + tl); timed_out := false; pc := PStart tl |}
  | PClock1, RNow t =>
      match deadline s with
      | Some d => let timeout := if d <=? t then 0 else d - t in (set_pc s (PClock2 timeout), Call KClock)
      | None => ret s (Some EModel)
      end
  | PClock2 timeout, RNow t => emit_poll s timeout (t + timeout)
  | PPoll pdl ovf, RPoll cnt rin rout rerr =>
      if negb (cnt =? 0) || negb ovf then
        after_flags (test rin (N.lor POLLOUT (N.lor POLLHUP POLLERR)))
                    (test rout (N.lor POLLIN POLLHUP)) (test rerr (N.lor POLLIN POLLHUP)) s
      else
        match pdl with
        | Some d => (set_pc s (PClock3 d), Call KClock)
        | None => ret s (Some EModel)
        end
  | PClock3 d, RNow t =>
      if d <=? t then after_flags false false false s      (* Ok(0): nothing is ready *)
      else emit_poll s (d - t) d
  | PWrite rout rerr, RWrote n =>
      let rest := skipn (N.to_nat n) (c_input (cm s)) in
      let s' := set_cm s {| c_in := c_in (cm s); c_out := c_out (cm s); c_err := c_err (cm s); c_input := rest |} in
      match rest with
      | [] => (set_pc s' (PClose rout rerr), Call KClose)
      | _ => cont_out rout rerr s'
      end
  | PClose rout rerr, _ =>
      cont_out rout rerr
        (set_cm s {| c_in := false; c_out := c_out (cm s); c_err := c_err (cm s); c_input := [] |})
  | PReadOut rerr, RData b =>
      let s' := match b with
                | [] => {| cm := cm s; oref := false; eref := eref s; outv := outv s; errv := errv s;
                           limit := limit s; deadline := deadline s; timed_out := timed_out s; pc := pc s |}
                | _ => {| cm := cm s; oref := oref s; eref := eref s; outv := outv s ++ b; errv := errv s;
                          limit := limit s; deadline := deadline s; timed_out := timed_out s; pc := pc s |}
                end in
      cont_err rerr s'
  | PReadErr, RData b =>
      let s' := match b with
                | [] => {| cm := cm s; oref := oref s; eref := false; outv := outv s; errv := errv s;
                           limit := limit s; deadline := deadline s; timed_out := timed_out s; pc := pc s |}
                | _ => {| cm := cm s; oref := oref s; eref := eref s; outv := outv s; errv := errv s ++ b;
                          limit := limit s; deadline := deadline s; timed_out := timed_out s; pc := pc s |}
                end in
      end_iter s'
  | PEndClock, RNow t =>
      match deadline s with
      | Some d => from_head {| cm := cm s; oref := oref s; eref := eref s; outv := outv s; errv := errv s;
                               limit := limit s; deadline := deadline s; timed_out := d <=? t; pc := pc s |}
      | None => ret s (Some EModel)
      end
  | _, _ => ret s (Some EModel)
  end.

(* Communicator::read with the configured limits *)
Definition start (c : comm) (lim : option N) (tl : option N) : cst * action :=
  let s := {| cm := c; oref := c_out c; eref := c_err c; outv := []; errv := []; limit := lim;
              deadline := None; timed_out := false; pc := PReturned |} in
  match tl with
  | Some t => (set_pc s (PStart t), Call KClock)
  | None => from_head s
  end.

(* the value read() returns, taken from the returned state *)
Definition output (s : cst) : option (list N) * option (list N) :=
  (if c_out (cm s) then Some (outv s) else None, if c_err (cm s) then Some (errv s) else None).
