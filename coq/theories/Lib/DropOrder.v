(* What a handle does to the processes and pipe ends it owns when it is dropped or completes
   (popen.rs Drop for Popen; builder.rs Drop for the stream adapters, Pipeline::popen's error path, join),
   and when a wait on a child can return.

   The parent's actions are closes of pipe ends it holds -- (stage, stream) with stream 0 = the write end
   of that stage's stdin pipe, 1 / 2 = the read end of its stdout / stderr pipe -- and blocking waits.
   A child is described by what it is blocked on (its only blocking dependence being the pipes of this
   very handle), and exits once that is released. *)
From Coq Require Import List Bool Arith.
Import ListNotations.

Inductive act := AClose (i s : nat) | AWait (i : nat).

(* Drop for Popen: wait iff still running and not detached; the fields (pipe ends still held) are dropped
   after the body of drop, in declaration order stdin, stdout, stderr *)
Definition popen_drop (detached finished : bool) (i : nat) (held : list nat) : list act :=
  (if detached || finished then [] else [AWait i]) ++ map (AClose i) held.

Definition remove_nat (x : nat) (l : list nat) : list nat := filter (fun y => negb (Nat.eqb x y)) l.

(* a vector of Popens is dropped element by element, first to last *)
Fixpoint vec_drop (detached : bool) (i : nat) (held : list (list nat)) (finished : nat -> bool) : list act :=
  match held with
  | [] => []
  | h :: r => popen_drop detached (finished i) i h ++ vec_drop detached (S i) r finished
  end.

Definition nobody : nat -> bool := fun _ => false.

Inductive handle :=
| HPopen (detached : bool) (held : list nat)                 (* Exec::popen, dropped as is *)
| HReadOut (detached : bool) (held : list nat)               (* Exec::stream_stdout; held includes 1 *)
| HReadErr (detached : bool) (held : list nat)
| HWrite (detached : bool) (held : list nat)
| HJoin (held : list nat)                                    (* Exec::join: explicit wait, then the drop *)
| HVec (detached : bool) (held : list (list nat))            (* Pipeline::popen, the vector dropped as is *)
| HReadPipe (detached : bool) (held : list (list nat))       (* Pipeline::stream_stdout *)
| HWritePipe (detached : bool) (held : list (list nat))      (* Pipeline::stream_stdin *)
| HJoinPipe (detached : bool) (held : list (list nat))       (* Pipeline::join: wait for the last, then the drop *)
| HFailed (detached : bool) (held : list (list nat)).        (* Pipeline::popen's error path: k commands started *)

Definition last_index {A} (l : list A) : nat := length l - 1.

Fixpoint update_nth {A} (n : nat) (f : A -> A) (l : list A) : list A :=
  match l, n with
  | [], _ => []
  | x :: r, 0 => f x :: r
  | x :: r, S m => x :: update_nth m f r
  end.

Definition acts (h : handle) : list act :=
  match h with
  | HPopen d held => popen_drop d false 0 held
  | HReadOut d held => AClose 0 1 :: popen_drop d false 0 (remove_nat 1 held)
  | HReadErr d held => AClose 0 2 :: popen_drop d false 0 (remove_nat 2 held)
  | HWrite d held => AClose 0 0 :: popen_drop d false 0 (remove_nat 0 held)
  | HJoin held => AWait 0 :: popen_drop false true 0 held
  | HVec d held => vec_drop d 0 held nobody
  | HReadPipe d held => AClose (last_index held) 1 :: vec_drop d 0 (update_nth (last_index held) (remove_nat 1) held) nobody
  | HWritePipe d held => AClose 0 0 :: vec_drop d 0 (update_nth 0 (remove_nat 0) held) nobody
  | HJoinPipe d held => AWait (last_index held) :: vec_drop d 0 held (fun i => Nat.eqb i (last_index held))
  | HFailed d held =>
    (* every started command's stdin and stdout ends are released first, then the vector is dropped *)
    concat (map (fun ih => map (AClose (fst ih)) (filter (fun s => Nat.ltb s 2) (snd ih))) (combine (seq 0 (length held)) held))
    ++ vec_drop d 0 (map (filter (fun s => negb (Nat.ltb s 2))) held) nobody
  end.

(* ---------- when can a wait return ---------- *)

Inductive cls :=
| KExit                (* exits on its own *)
| KReadEOF             (* exits once its stdin is at end-of-file *)
| KWriter (s : nat)    (* writes to stream s (1 or 2) without end; exits once nobody can read it any more *)
| KFilter.             (* copies stdin to stdout: exits at end-of-file on stdin or when its output has no reader *)

Record world := mkworld {
  w_n : nat;                          (* number of stages; stage i+1 reads what stage i writes to stdout *)
  w_cls : nat -> cls;
  w_piped : nat -> nat -> bool;       (* the parent holds the other end of that stream of that stage *)
  w_down_closed : bool                (* the reader of the last stage's stdout that is not the parent's is gone
                                         (error path: the File moved into the command that failed to start) *)
}.

Section Live.
Variable w : world.
Variable closed : nat -> nat -> bool.

(* exits i: stage i terminates without any further action of the parent *)
Inductive exits : nat -> Prop :=
| ex_exit i : i < w_n w -> w_cls w i = KExit -> exits i
| ex_eof0 : 0 < w_n w -> (w_cls w 0 = KReadEOF \/ w_cls w 0 = KFilter) ->
            (w_piped w 0 0 = true -> closed 0 0 = true) -> exits 0
| ex_eofS i : S i < w_n w -> (w_cls w (S i) = KReadEOF \/ w_cls w (S i) = KFilter) -> exits i -> exits (S i)
| ex_pipe_last i : S i = w_n w -> (w_cls w i = KWriter 1 \/ w_cls w i = KFilter) ->
                   (w_piped w i 1 = true /\ closed i 1 = true \/ w_down_closed w = true) -> exits i
| ex_pipe_inner i : S i < w_n w -> (w_cls w i = KWriter 1 \/ w_cls w i = KFilter) -> exits (S i) -> exits i
| ex_err i : i < w_n w -> w_cls w i = KWriter 2 -> w_piped w i 2 = true -> closed i 2 = true -> exits i.
End Live.

(* the actions run to completion: every wait is reached with its child able to exit *)
Fixpoint completes (w : world) (closed : nat -> nat -> bool) (l : list act) : Prop :=
  match l with
  | [] => True
  | AClose i s :: r => completes w (fun i' s' => (Nat.eqb i i' && Nat.eqb s s') || closed i' s') r
  | AWait i :: r => exits w closed i /\ completes w closed r
  end.

Definition none_closed : nat -> nat -> bool := fun _ _ => false.

(* encoding for the conformance check: the pipe ends still held by the parent at each blocking wait *)
Fixpoint held_at_waits (open : list (nat * nat)) (l : list act) : list (nat * list (nat * nat)) :=
  match l with
  | [] => []
  | AClose i s :: r => held_at_waits (filter (fun p => negb (Nat.eqb (fst p) i && Nat.eqb (snd p) s)) open) r
  | AWait i :: r => (i, open) :: held_at_waits open r
  end.
Definition all_held (held : list (list nat)) : list (nat * nat) :=
  concat (map (fun ih => map (fun s => (fst ih, s)) (snd ih)) (combine (seq 0 (length held)) held)).
