(* Model of popen.rs: format_env (unix) and format_env_block (windows, cut-out). *)
From Coq Require Import List NArith Bool.
Require Import SP.Base.Str.
Import ListNotations.
Open Scope N_scope.

Definition envlist := list (str * str).

(* iterate from the back, keep an entry iff its key was not seen yet (HashSet::insert), then reverse *)
Fixpoint dedup_seen (eq : str -> str -> bool) (l : envlist) (seen : list str) : envlist :=
  match l with
  | [] => []
  | (k, v) :: r => if existsb (eq k) seen then dedup_seen eq r seen else (k, v) :: dedup_seen eq r (k :: seen)
  end.

Definition fmt_kv (kv : str * str) : str := fst kv ++ [61] ++ snd kv.

Definition format_env (env : envlist) : list str :=
  rev (map fmt_kv (dedup_seen str_eqb (rev env) [])).

(* reference: keep an entry iff no later entry has the same key *)
Fixpoint keep_last (eq : str -> str -> bool) (env : envlist) : envlist :=
  match env with
  | [] => []
  | (k, v) :: r => if existsb (fun kv => eq k (fst kv)) r then keep_last eq r else (k, v) :: keep_last eq r
  end.

(* windows: keys compare equal after ASCII upper-casing of the UTF-16 units below 128 *)
Definition upcase (c : N) : N := if (97 <=? c) && (c <=? 122) then c - 32 else c.
Definition ci_eqb (a b : str) : bool := str_eqb (map upcase a) (map upcase b).

Definition format_env_block (env : envlist) : str :=
  concat (map (fun kv => fmt_kv kv ++ [0]) (rev (dedup_seen ci_eqb (rev env) []))) ++ [0].
