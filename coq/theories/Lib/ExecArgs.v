(* Model of what Popen::create hands to the operating system for one launch (popen.rs os_start +
   posix.rs prep_exec): the argument vector, the program to execute, the environment block, the working
   directory and the candidate list of the PATH search.  Bytes as N. *)
From Coq Require Import List NArith Bool.
Require Import SP.Base.Str SP.Lib.Env SP.Lib.Path.
Import ListNotations.
Local Open Scope N_scope.

Record request := mkreq {
  r_argv : list str;
  r_exe : option str;          (* PopenConfig::executable *)
  r_env : option envlist;      (* PopenConfig::env; None = inherit *)
  r_cwd : option str;
  r_path : option str          (* the parent's PATH at the time of the call *)
}.

Record plan := mkplan {
  p_cands : list str;          (* the paths handed to execve, in order *)
  p_argv : list str;
  p_envp : option (list str);  (* None: execv, the parent's environ is inherited *)
  p_cwd : option str
}.

Inductive prep_res := PLogic | PInval | PPlan (p : plan).

Definition has_nul (s : str) : bool := existsb (N.eqb 0) s.

Definition prepare (r : request) : prep_res :=
  match r_argv r with
  | [] => PLogic                                                 (* "argv must not be empty" *)
  | a0 :: _ =>
    let envp := option_map format_env (r_env r) in
    let cmd := match r_exe r with Some e => e | None => a0 end in
    if has_nul cmd then PInval
    else if existsb has_nul (r_argv r) then PInval
    else if match envp with Some l => existsb has_nul l | None => false end then PInval
    else if match r_cwd r with Some d => has_nul d | None => false end then PInval
    else PPlan {| p_cands := candidates cmd (search_path_of cmd (r_path r));
                  p_argv := r_argv r; p_envp := envp; p_cwd := r_cwd r |}
  end.

(* the C library's getenv on an environment block: the first entry that starts with name= *)
Fixpoint strip_prefix (p s : str) : option str :=
  match p with
  | [] => Some s
  | c :: p' => match s with
               | [] => None
               | d :: s' => if c =? d then strip_prefix p' s' else None
               end
  end.
Fixpoint getenv (k : str) (envp : list str) : option str :=
  match envp with
  | [] => None
  | e :: r => match strip_prefix (k ++ [61]) e with
              | Some v => Some v
              | None => getenv k r
              end
  end.

(* what one launch does, given which paths can be started: the paths tried and the outcome *)
Definition launch (fs : str -> option N) (r : request) : option (list str * (str + N)) :=
  match prepare r with
  | PPlan p => Some (exec_loop fs (p_cands p) ENOENT)
  | _ => None
  end.

(* comparison helpers for the conformance check *)
Definition ostrs_eqb (a b : option (list str)) : bool :=
  match a, b with
  | Some x, Some y => strs_eqb x y
  | None, None => true
  | _, _ => false
  end.
Definition ostr_eqb (a b : option str) : bool :=
  match a, b with
  | Some x, Some y => str_eqb x y
  | None, None => true
  | _, _ => false
  end.
Fixpoint assoc (l : list (str * option N)) (dflt : option N) (k : str) : option N :=
  match l with
  | [] => dflt
  | (k0, v) :: r => if str_eqb k k0 then v else assoc r dflt k
  end.

(* 0 = prepare refuses with LogicError, 1 = refuses with EINVAL, 2 = the observation agrees with the
   plan, 3.. = first disagreement (3 argv, 4 envp, 5 cwd, 6 paths tried, 7 outcome) *)
Definition conforms (r : request) (fs : list (str * option N)) (o_argv : list str) (o_envp : option (list str))
           (o_cwd : option str) (o_tried : list str) (o_out : str + N) : N :=
  match prepare r with
  | PLogic => 0
  | PInval => 1
  | PPlan p =>
    if negb (strs_eqb (p_argv p) o_argv) then 3
    else if negb (ostrs_eqb (p_envp p) o_envp) then 4
    else if negb (ostr_eqb (p_cwd p) o_cwd) then 5
    else let (tried, out) := exec_loop (assoc fs (Some ENOENT)) (p_cands p) ENOENT in
         if negb (strs_eqb tried o_tried) then 6
         else match out, o_out with
              | inl a, inl b => if str_eqb a b then 2 else 7
              | inr a, inr b => if a =? b then 2 else 7
              | _, _ => 7
              end
  end.
