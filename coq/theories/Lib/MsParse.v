(* Reference semantics: how Microsoft's C runtime (parse_cmdline) and CommandLineToArgvW split a
   command line into arguments (rules for the arguments after the program name; the program name
   has its own rule, parse_progname).  dq selects what a doubled quote inside a quoted part means:
   0 = nothing special (pre-2008 CRT), 1 = literal quote, stay quoted (CRT 2008+),
   2 = literal quote, leave the quoted part (CommandLineToArgvW).  Documented rules only: there is no
   Windows runtime in this sandbox (trusted base). *)
From Coq Require Import List NArith Bool Arith.
Require Import SP.Base.Str.
Import ListNotations.
Open Scope N_scope.

Definition is_ws (c : N) : bool := (c =? 32) || (c =? 9).

Definition flush (k : nat) (cur : str) : str := repeat 92 k ++ cur.

Definition cur_of (o : option str) : str := match o with Some c => c | None => [] end.

Definition emit_arg (k : nat) (o : option str) (acc : list str) : list str :=
  match o with
  | Some c => rev (flush k c) :: acc
  | None => acc
  end.

(* inq: inside a quoted part; k: backslashes seen and not yet emitted; cur: the argument so far,
   reversed (None between arguments); acc: finished arguments, reversed *)
Fixpoint parse (dq : N) (s : str) (inq : bool) (k : nat) (cur : option str) (acc : list str) : list str :=
  match s with
  | [] => rev (emit_arg k cur acc)
  | c :: r =>
    if c =? 92 then parse dq r inq (S k) (Some (cur_of cur)) acc
    else if c =? 34 then
      let cur' := flush (Nat.div2 k) (cur_of cur) in
      if Nat.even k then
        match r with
        | c2 :: r' =>
          if (c2 =? 34) && inq && (dq =? 1) then parse dq r' true 0 (Some (34 :: cur')) acc
          else if (c2 =? 34) && inq && (dq =? 2) then parse dq r' false 0 (Some (34 :: cur')) acc
          else parse dq r (negb inq) 0 (Some cur') acc
        | [] => parse dq r (negb inq) 0 (Some cur') acc
        end
      else parse dq r inq 0 (Some (34 :: cur')) acc
    else if is_ws c && negb inq then parse dq r false 0 None (emit_arg k cur acc)
    else parse dq r inq 0 (Some (c :: flush k (cur_of cur))) acc
  end.

Definition parse_args (dq : N) (s : str) : list str := parse dq s false 0 None [].

(* the program name: up to the closing quote when it starts with a quote, else up to white space;
   backslashes are not special *)
Fixpoint until_quote (s : str) : str * str :=
  match s with
  | [] => ([], [])
  | c :: r => if c =? 34 then ([], r) else let (a, b) := until_quote r in (c :: a, b)
  end.
Fixpoint until_ws (s : str) : str * str :=
  match s with
  | [] => ([], [])
  | c :: r => if is_ws c then ([], s) else let (a, b) := until_ws r in (c :: a, b)
  end.
Definition parse_progname (s : str) : str * str :=
  match s with
  | 34 :: r => until_quote r
  | _ => until_ws s
  end.
