(* Model of posix.rs: split_path, PrepExec::new's buffer capacity, assemble_exe, and the PATH loop of
   PrepExec::exec.  Bytes as N. *)
From Coq Require Import List NArith Bool Arith.
Require Import SP.Base.Str.
Import ListNotations.
Open Scope N_scope.

Definition colon : N := 58.
Definition slash : N := 47.

(* the from_fn iterator: scan to the next ':', skip empty pieces, the rest is the final piece *)
Fixpoint split_go (s : str) (cur : str) : list str :=
  match s with
  | [] => match cur with [] => [] | _ => [rev cur] end
  | c :: r =>
    if c =? colon then
      match cur with [] => split_go r [] | _ => rev cur :: split_go r [] end
    else split_go r (c :: cur)
  end.
Definition split_path (p : str) : list str := split_go p [].

(* reference: plain splitting at a delimiter (keeps empty pieces) *)
Fixpoint split_on (d : N) (s : str) : list str :=
  match s with
  | [] => [[]]
  | c :: r =>
    if c =? d then [] :: split_on d r
    else match split_on d r with
         | h :: t => (c :: h) :: t
         | [] => [[c]]
         end
  end.
Definition nonempty (s : str) : bool := match s with [] => false | _ => true end.

Definition max_len (l : list str) : nat := fold_right (fun s m => Nat.max (length s) m) 0%nat l.

(* PrepExec::new: max_exe_len = cmd.len() + 1 [+ 1 + longest PATH component]; Vec::with_capacity(n)
   guarantees capacity >= n, and exactly n for u8 with the global allocator (measured by E3) *)
Definition prealloc_capacity (cmd : str) (search_path : option str) : nat :=
  (length cmd + 1 + match search_path with
                    | Some p => 1 + max_len (split_path p)
                    | None => 0
                    end)%nat.

(* A Vec<u8> as (len, capacity); extend/push report whether they had to allocate *)
Definition vec_extend (v : nat * nat) (n : nat) : (nat * nat) * bool :=
  let (len, cap) := v in
  if (len + n <=? cap)%nat then ((len + n, cap)%nat, false) else ((len + n, Nat.max (2 * cap) (len + n))%nat, true).

(* assemble_exe: truncate(0); extend_from_slice for each component; push(0).  Returns the final
   vector shape and whether any step allocated. *)
Definition assemble_exe (v : nat * nat) (comps : list str) : (nat * nat) * bool :=
  let v0 := (0%nat, snd v) in
  let step acc c := let '(vv, a) := acc in let '(vv', a') := vec_extend vv (length c) in (vv', a || a') in
  let '(v1, a1) := fold_left step comps (v0, false) in
  let '(v2, a2) := vec_extend v1 1 in (v2, a1 || a2).

(* the candidates tried by PrepExec::exec *)
Definition candidates (cmd : str) (search_path : option str) : list str :=
  match search_path with
  | Some p => map (fun d => d ++ [slash] ++ cmd) (split_path p)
  | None => [cmd]
  end.

(* prep_exec: search only when the command has no slash and PATH is present and non-empty *)
Definition search_path_of (cmd : str) (path_env : option str) : option str :=
  if existsb (N.eqb slash) cmd then None
  else match path_env with
       | Some [] => None
       | Some p => Some p
       | None => None
       end.

(* PrepExec::exec: try the candidates in order; fs c = None means the image at c starts, Some e that
   execve fails with errno e.  Returns the candidates tried and the outcome: the image that runs, or the
   error reported (the last one; ENOENT when PATH had no usable entry). *)
Definition ENOENT : N := 2.
Fixpoint exec_loop (fs : str -> option N) (cands : list str) (last : N) : list str * (str + N) :=
  match cands with
  | [] => ([], inr last)
  | c :: r => match fs c with
              | None => ([c], inl c)
              | Some e => let (tried, res) := exec_loop fs r e in (c :: tried, res)
              end
  end.

Definition lookup_and_exec (fs : str -> option N) (cmd : str) (path_env : option str) : list str * (str + N) :=
  exec_loop fs (candidates cmd (search_path_of cmd path_env)) ENOENT.

(* allocation behaviour of the whole loop: the buffer left by one iteration is reused by the next *)
Definition comps_of (cmd : str) (sp : option str) : list (list str) :=
  match sp with
  | Some p => map (fun d => [d; [slash]; cmd]) (split_path p)
  | None => [[cmd]]
  end.
Fixpoint exec_allocs (v : nat * nat) (compss : list (list str)) : bool :=
  match compss with
  | [] => false
  | c :: r => let '(v', a) := assemble_exe v c in a || exec_allocs v' r
  end.
Definition child_exec_allocs (cmd : str) (sp : option str) : bool :=
  exec_allocs (0%nat, prealloc_capacity cmd sp) (comps_of cmd sp).
(* the longest string (with its NUL) the loop assembles *)
Definition longest_assembled (cmd : str) (sp : option str) : nat :=
  fold_right (fun c m => Nat.max (length (concat c) + 1) m) 0%nat (comps_of cmd sp).
