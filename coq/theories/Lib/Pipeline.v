(* Model of builder.rs: Pipeline -- composition (|, from_exec_iter), the pipeline-level stream settings
   and the spawn loop of Pipeline::popen, on top of the Exec model (Lib/Builder.v).  A stage that cannot be
   started is an external event: fails k says that the k-th Popen::create returns an error. *)
From Coq Require Import List NArith Bool Arith.
Require Import SP.Base.Str SP.Lib.Env SP.Lib.Builder.
Import ListNotations.
Local Open Scope nat_scope.

Record pipeline := mkpl {
  p_cmds : list exec; p_in : bredir; p_out : bredir; p_errfile : option N; p_data : option str
}.

(* ---------- composition ---------- *)

Inductive pexpr :=
| PNew (a b : exec)               (* a | b *)
| PPush (p : pexpr) (e : exec)    (* p | e *)
| PCat (p q : pexpr)              (* p | q : the commands of both; stdout of the right one, the rest of the left one *)
| PIter (l : list exec)           (* Pipeline::from_exec_iter *)
| PStdin (p : pexpr) (a : inarg) | PStdout (p : pexpr) (r : bredir) | PStderrTo (p : pexpr) (f : N).

Fixpoint build (x : pexpr) : option pipeline :=       (* None = panic *)
  match x with
  | PNew a b => Some (mkpl [a; b] BNone BNone None None)
  | PPush p e => match build p with
                 | Some q => Some (mkpl (p_cmds q ++ [e]) (p_in q) (p_out q) (p_errfile q) (p_data q))
                 | None => None
                 end
  | PCat p q => match build p, build q with
                | Some a, Some b => Some (mkpl (p_cmds a ++ p_cmds b) (p_in a) (p_out b) (p_errfile a) (p_data a))
                | _, _ => None
                end
  | PIter l => if 2 <=? length l then Some (mkpl l BNone BNone None None) else None
  | PStdin p (IRedir BMerge) => None
  | PStdin p (IRedir r) => match build p with
                           | Some q => Some (mkpl (p_cmds q) r (p_out q) (p_errfile q) (p_data q))
                           | None => None
                           end
  | PStdin p (IData d) => match build p with
                          | Some q => Some (mkpl (p_cmds q) BPipe (p_out q) (p_errfile q) (Some d))
                          | None => None
                          end
  | PStdout p r => match build p with
                   | Some q => Some (mkpl (p_cmds q) (p_in q) r (p_errfile q) (p_data q))
                   | None => None
                   end
  | PStderrTo p f => match build p with
                     | Some q => Some (mkpl (p_cmds q) (p_in q) (p_out q) (Some f) (p_data q))
                     | None => None
                     end
  end.

(* the commands in reading order *)
Fixpoint leaves (x : pexpr) : list exec :=
  match x with
  | PNew a b => [a; b]
  | PPush p e => leaves p ++ [e]
  | PCat p q => leaves p ++ leaves q
  | PIter l => l
  | PStdin p _ | PStdout p _ | PStderrTo p _ => leaves p
  end.

(* ---------- Pipeline::popen ---------- *)

(* the read end of the pipe behind stage i's stdout, handed to stage i+1 as a File *)
Definition PIPE_BASE : N := 1000.
Definition pipe_file (i : nat) : bredir := BFile (PIPE_BASE + N.of_nat i).

Inductive poutcome := OOk | OErr (k : nat) | OPanic.

Fixpoint map_opt {A B} (f : A -> option B) (l : list A) : option (list B) :=
  match l with
  | [] => Some []
  | x :: r => match f x, map_opt f r with Some y, Some ys => Some (y :: ys) | _, _ => None end
  end.

Definition on_first (f : exec -> option exec) (l : list exec) : option (list exec) :=
  match l with [] => Some [] | c :: r => match f c with Some c' => Some (c' :: r) | None => None end end.
Fixpoint on_last (f : exec -> option exec) (l : list exec) : option (list exec) :=
  match l with
  | [] => Some []
  | [c] => match f c with Some c' => Some [c'] | None => None end
  | c :: r => match on_last f r with Some r' => Some (c :: r') | None => None end
  end.

(* the loop: returns the launches made (in order) and how the loop ended *)
Fixpoint spawn (fails : nat -> bool) (cmds : list exec) (idx : nat) : list launch * poutcome :=
  match cmds with
  | [] => ([], OOk)
  | c :: rest =>
    let c1 := match idx with 0 => Some c | S j => apply_op [] c (OStdin (IRedir (pipe_file j))) end in
    let c2 := match c1 with
              | Some c1 => match rest with [] => Some c1 | _ => apply_op [] c1 (OStdout BPipe) end
              | None => None
              end in
    match c2 with
    | None => ([], OPanic)
    | Some c2 =>
      match popen c2 with
      | None => ([], OPanic)
      | Some l =>
        if fails idx then ([], OErr idx)
        else let (ls, o) := spawn fails rest (S idx) in (l :: ls, o)
      end
    end
  end.

Definition ppopen (fails : nat -> bool) (p : pipeline) : list launch * poutcome :=
  match p_data p with
  | Some _ => ([], OPanic)                          (* "popen called with input data specified" *)
  | None =>
    let c0 := match p_errfile p with
              | Some f => map_opt (fun c => apply_op [] c (OStderr (BFile f))) (p_cmds p)
              | None => Some (p_cmds p)
              end in
    match c0 with
    | None => ([], OPanic)
    | Some c0 =>
      match on_first (fun c => apply_op [] c (OStdin (IRedir (p_in p)))) c0 with
      | None => ([], OPanic)
      | Some c1 =>
        match on_last (fun c => apply_op [] c (OStdout (p_out p))) c1 with
        | None => ([], OPanic)
        | Some c2 => spawn fails c2 0
        end
      end
    end
  end.

(* setup_communicate: stderr of every command to the capture pipe (file id ERR_CAPTURE), stdout piped, the
   input data taken out before popen *)
Definition ERR_CAPTURE : N := 900.
Definition setup_comm (fails : nat -> bool) (p : pipeline) : (list launch * poutcome) * option str :=
  (ppopen fails (mkpl (p_cmds p) (p_in p) BPipe (Some ERR_CAPTURE) None), p_data p).

(* ---------- the data flow of a wired pipeline ---------- *)

(* stages as functions from the bytes they read to the bytes they write; the content of the pipe behind
   stage i is what stage i wrote *)
Fixpoint flow (fs : list (str -> str)) (ls : list launch) (idx : nat) (pipes : nat -> str) (input : str) : nat -> str :=
  match fs, ls with
  | f :: fr, l :: lr =>
    let inp := match l_in l with
               | BFile id => if N.leb PIPE_BASE id then pipes (N.to_nat (id - PIPE_BASE)) else input
               | _ => input
               end in
    let out := f inp in
    flow fr lr (S idx) (fun j => if j =? idx then out else pipes j) input
  | _, _ => pipes
  end.

Fixpoint compose (fs : list (str -> str)) (x : str) : str :=
  match fs with [] => x | f :: r => compose r (f x) end.

(* ---------- Pipeline::join / capture: which status is reported ---------- *)

(* status k = the exit status of the k-th command started.  join waits for the last element of the vector
   popen returned and reports that; capture does the same after the communication loop. *)
Inductive jres := JPanic | JErr (k : nat) | JStatus (s : N).
Definition pjoin (fails : nat -> bool) (p : pipeline) (status : nat -> N) : jres :=
  match ppopen fails p with
  | (ls, OOk) => JStatus (status (length ls - 1))
  | (_, OErr k) => JErr k
  | (_, OPanic) => JPanic
  end.
Definition pcapture (fails : nat -> bool) (p : pipeline) (status : nat -> N) : jres :=
  match fst (setup_comm fails p) with
  | (ls, OOk) => JStatus (status (length ls - 1))
  | (_, OErr k) => JErr k
  | (_, OPanic) => JPanic
  end.
