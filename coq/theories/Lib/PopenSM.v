(* Model L of popen.rs (unix): the query and signalling methods of Popen as Mealy machines over
   waitpid / kill / Instant::now / thread::sleep, and a kernel model of one child process with timed
   exit and external-reap events.  Proof-free. *)
From Coq Require Import List NArith ZArith Bool.
Require Import SP.Params SP.Lib.Status.
Import ListNotations.
Open Scope N_scope.

Definition ECHILD : N := 10.
Definition ESRCH : N := 3.
Definition SIGTERM : N := 15.
Definition SIGKILL : N := 9.

Inductive pcall :=
| PWaitpid (nohang : bool)
| PKill (sig : N)
| PClock
| PSleep (ns : N).

Inductive presult :=
| RWaitPid (same : bool) (raw : N)     (* waitpid returned a pid (ours or not) and a status *)
| RWaitZero                            (* WNOHANG: nothing to report *)
| RErrno (e : N)
| RUnit
| RTime (t : N).

Inductive child_state := Running | Finished (st : exit_status).

Record popen := { cstate : child_state; detached : bool }.

Inductive op :=
| OpPoll | OpWait | OpWaitTimeout (d : N) | OpPid | OpExitStatus
| OpTerminate | OpKill | OpSignal (sig : N) | OpDetach | OpDrop.

Inductive value :=
| VStatus (s : option exit_status)     (* poll / wait_timeout / exit_status; wait returns Some *)
| VHasPid (b : bool)                   (* pid().is_some() *)
| VUnit
| VErr (e : N)
| VModel.

Inductive paction := PCall (c : pcall) | PRet (v : value) | PStuck.

Inductive ppc :=
| QWait                                (* os_wait: waitpid(pid, 0) issued *)
| QDropWait                            (* Drop: wait().ok() *)
| QWtClock0 (d : N) (swallow : bool)   (* os_wait_timeout: Instant::now() + dur *)
| QWtWait (dl : N) (delay : N) (swallow : bool)
| QWtClock (dl : N) (delay : N) (swallow : bool)
| QWtSleep (dl : N) (delay : N) (swallow : bool)
| QKill
| QIdle.

Record pst := { po : popen; ppc_ : ppc }.

Definition mk (p : popen) (q : ppc) : pst := {| po := p; ppc_ := q |}.
Definition fin_with (p : popen) (st : exit_status) : popen := {| cstate := Finished st; detached := detached p |}.

Definition ns_of_ms (m : N) : N := m * 1000000.

(* Popen::waitpid's handling of one result: new state, or an error to propagate *)
Definition absorb (p : popen) (r : presult) : popen + N :=
  match r with
  | RErrno e => if e =? ECHILD then inl (fin_with p Undetermined) else inr e
  | RWaitPid true raw => inl (fin_with p (decode_exit_status raw))
  | RWaitPid false _ => inl p
  | RWaitZero => inl p
  | _ => inl p
  end.

Definition status_of (p : popen) : option exit_status :=
  match cstate p with Finished st => Some st | Running => None end.

Definition start_op (p : popen) (o : op) : pst * paction :=
  match o with
  | OpPid => (mk p QIdle, PRet (VHasPid (match cstate p with Running => true | _ => false end)))
  | OpExitStatus => (mk p QIdle, PRet (VStatus (status_of p)))
  | OpDetach => (mk {| cstate := cstate p; detached := true |} QIdle, PRet VUnit)
  | OpWait =>
    match cstate p with
    | Running => (mk p QWait, PCall (PWaitpid false))
    | Finished st => (mk p QIdle, PRet (VStatus (Some st)))
    end
  | OpDrop =>
    match cstate p, detached p with
    | Running, false => (mk p QDropWait, PCall (PWaitpid false))
    | _, _ => (mk p QIdle, PRet VUnit)
    end
  | OpWaitTimeout d =>
    match cstate p with
    | Finished st => (mk p QIdle, PRet (VStatus (Some st)))
    | Running => (mk p (QWtClock0 d false), PCall PClock)
    end
  | OpPoll =>
    match cstate p with
    | Finished st => (mk p QIdle, PRet (VStatus (Some st)))
    | Running => (mk p (QWtClock0 0 true), PCall PClock)
    end
  | OpTerminate => match cstate p with
                   | Running => (mk p QKill, PCall (PKill SIGTERM))
                   | Finished _ => (mk p QIdle, PRet VUnit)
                   end
  | OpKill => match cstate p with
              | Running => (mk p QKill, PCall (PKill SIGKILL))
              | Finished _ => (mk p QIdle, PRet VUnit)
              end
  | OpSignal s => match cstate p with
                  | Running => (mk p QKill, PCall (PKill s))
                  | Finished _ => (mk p QIdle, PRet VUnit)
                  end
  end.

(* poll() = wait_timeout(0).unwrap_or(None): an error becomes None *)
Definition wt_err (p : popen) (swallow : bool) (e : N) : pst * paction :=
  (mk p QIdle, PRet (if swallow then VStatus None else VErr e)).

Definition pstep (s : pst) (r : presult) : pst * paction :=
  let p := po s in
  match ppc_ s with
  | QWait =>
    match absorb p r with
    | inr e => (mk p QIdle, PRet (VErr e))
    | inl p' => match cstate p' with
                | Finished st => (mk p' QIdle, PRet (VStatus (Some st)))
                | Running => (mk p' QWait, PCall (PWaitpid false))
                end
    end
  | QDropWait =>
    match absorb p r with
    | inr e => (mk p QIdle, PRet VUnit)
    | inl p' => match cstate p' with
                | Finished st => (mk p' QIdle, PRet VUnit)
                | Running => (mk p' QDropWait, PCall (PWaitpid false))
                end
    end
  | QWtClock0 d sw =>
    match r with
    | RTime t => (mk p (QWtWait (t + d) (ns_of_ms WT_DELAY0_MS) sw), PCall (PWaitpid true))
    | _ => (mk p QIdle, PRet VModel)
    end
  | QWtWait dl delay sw =>
    match absorb p r with
    | inr e => wt_err p sw e
    | inl p' => match cstate p' with
                | Finished st => (mk p' QIdle, PRet (VStatus (Some st)))
                | Running => (mk p' (QWtClock dl delay sw), PCall PClock)
                end
    end
  | QWtClock dl delay sw =>
    match r with
    | RTime t => if dl <=? t then (mk p QIdle, PRet (VStatus None))
                 else (mk p (QWtSleep dl delay sw), PCall (PSleep (N.min delay (dl - t))))
    | _ => (mk p QIdle, PRet VModel)
    end
  | QWtSleep dl delay sw =>
    (mk p (QWtWait dl (N.min (delay * WT_FACTOR) (ns_of_ms WT_DELAY_MAX_MS)) sw), PCall (PWaitpid true))
  | QKill =>
    match r with
    | RErrno e => (mk p QIdle, PRet (VErr e))
    | _ => (mk p QIdle, PRet VUnit)
    end
  | QIdle => (s, PStuck)
  end.

(* ---------- kernel model of the one child process ---------- *)

Inductive proc := PAlive | PZombie (raw : N) | PReaped.

Record pworld := {
  pr : proc;
  exit_at : option (N * N);       (* pending: the child exits at this instant with this raw status *)
  reap_at : option N;             (* pending: somebody else reaps the zombie at this instant *)
  dies_on_signal : bool;          (* a delivered SIGTERM/SIGKILL/other fatal signal terminates the child now *)
  pnow : N;
  kills : list (N * N * bool)     (* (signal, instant, target was already reaped by us or anyone) *)
}.

(* let the pending events up to the current instant happen *)
Definition settle (w : pworld) : pworld :=
  let w1 := match pr w, exit_at w with
            | PAlive, Some (te, raw) => if te <=? pnow w then
                {| pr := PZombie raw; exit_at := None; reap_at := reap_at w; dies_on_signal := dies_on_signal w;
                   pnow := pnow w; kills := kills w |} else w
            | _, _ => w
            end in
  match pr w1, reap_at w1 with
  | PZombie _, Some tr => if tr <=? pnow w1 then
      {| pr := PReaped; exit_at := exit_at w1; reap_at := None; dies_on_signal := dies_on_signal w1;
         pnow := pnow w1; kills := kills w1 |} else w1
  | _, _ => w1
  end.

Definition padvance (w : pworld) (t : N) : pworld :=
  settle {| pr := pr w; exit_at := exit_at w; reap_at := reap_at w; dies_on_signal := dies_on_signal w;
            pnow := N.max (pnow w) t; kills := kills w |}.

Inductive pres := PRes (w : pworld) (r : presult) | PNever.   (* PNever: a blocking wait on a child that never exits *)

Definition set_pr (w : pworld) (x : proc) : pworld :=
  {| pr := x; exit_at := exit_at w; reap_at := reap_at w; dies_on_signal := dies_on_signal w; pnow := pnow w; kills := kills w |}.

(* dur: how long the call itself takes; over: by how much a sleep overshoots *)
Definition pserve (w0 : pworld) (c : pcall) (dur over : N) : pres :=
  let w := padvance w0 (pnow w0 + dur) in
  match c with
  | PClock => PRes w (RTime (pnow w))
  | PSleep ns => PRes (padvance w (pnow w + ns + over)) RUnit
  | PKill sig =>
    let reaped := match pr w with PReaped => true | _ => false end in
    let w1 := {| pr := pr w; exit_at := exit_at w; reap_at := reap_at w; dies_on_signal := dies_on_signal w;
                 pnow := pnow w; kills := kills w ++ [(sig, pnow w, reaped)] |} in
    match pr w with
    | PReaped => PRes w1 (RErrno ESRCH)
    | PZombie _ => PRes w1 RUnit
    | PAlive => if dies_on_signal w && negb (sig =? 0)
                then PRes (settle {| pr := pr w1; exit_at := Some (pnow w1, sig); reap_at := reap_at w1;
                                     dies_on_signal := dies_on_signal w1; pnow := pnow w1; kills := kills w1 |}) RUnit
                else PRes w1 RUnit
    end
  | PWaitpid nohang =>
    match pr w with
    | PReaped => PRes w (RErrno ECHILD)
    | PZombie raw => PRes (set_pr w PReaped) (RWaitPid true raw)
    | PAlive =>
      if nohang then PRes w RWaitZero
      else match exit_at w with
           | None => PNever
           | Some (te, raw) =>
             let w1 := padvance w te in
             match pr w1 with
             | PZombie raw1 => PRes (set_pr w1 PReaped) (RWaitPid true raw1)
             | PReaped => PRes w1 (RErrno ECHILD)
             | PAlive => PNever
             end
           end
    end
  end.

Definition pcall_eqb (a b : pcall) : bool :=
  match a, b with
  | PWaitpid x, PWaitpid y => Bool.eqb x y
  | PKill x, PKill y => x =? y
  | PClock, PClock => true
  | PSleep x, PSleep y => x =? y
  | _, _ => false
  end.
