(* Model of builder.rs: Exec::display_escape, to_cmdline_lossy (without a
   configured environment), Debug for Exec and Pipeline.
   Characters are Unicode scalar values carried as N.  Proof-free: this file
   must keep running when a proof breaks. *)
From Coq Require Import List NArith Bool.
Require Import SP.Params SP.Base.Str.
Import ListNotations.
Open Scope N_scope.

Definition c_space : N := 32.
Definition c_squote : N := 39.
Definition c_bslash : N := 92.
Definition c_bar : N := 124.

Definition is_ascii_alnum (c : N) : bool :=
  ((48 <=? c) && (c <=? 57)) || ((65 <=? c) && (c <=? 90)) || ((97 <=? c) && (c <=? 122)).

(* fn nice_char(c) -- the punctuation arms and the alphanumeric guard come from Params.v *)
Definition nice_char (c : N) : bool :=
  existsb (N.eqb c) nice_punct || (nice_alnum && is_ascii_alnum c).

(* s.replace("'", r#"'\''"#) *)
Fixpoint replace_squote (s : str) : str :=
  match s with
  | [] => []
  | c :: r => if c =? c_squote then c_squote :: c_bslash :: c_squote :: c_squote :: replace_squote r
              else c :: replace_squote r
  end.

Definition squote (s : str) : str := c_squote :: replace_squote s ++ [c_squote].

(* fn display_escape(s): bare iff non-empty and all chars nice; else '...' *)
Definition display_escape (s : str) : str :=
  if match s with [] => true | _ => false end || negb (forallb nice_char s)
  then squote s
  else s.

(* fn display_escape_command(s): RESERVED.contains(&s) -> format!("'{}'", s) (no quote inside a
   reserved word, so the plain wrapping is what the code does); else display_escape *)
Definition display_escape_command (s : str) : str :=
  if existsb (str_eqb s) cmd_reserved then c_squote :: s ++ [c_squote] else display_escape s.

(* to_cmdline_lossy with config.env = None: command, then " " + arg for each arg *)
Definition render (argv : list str) : str :=
  match argv with
  | [] => []
  | cmd :: args => join [c_space] (display_escape_command cmd :: map display_escape args)
  end.

(* Debug for Pipeline joins the stages' command lines with " | " *)
Definition render_pipeline (cmds : list (list str)) : str :=
  join [c_space; c_bar; c_space] (map render cmds).

Definition s_Exec_open : str := [69; 120; 101; 99; 32; 123; 32].           (* "Exec { " *)
Definition s_Pipeline_open : str := [80; 105; 112; 101; 108; 105; 110; 101; 32; 123; 32].
Definition s_close : str := [32; 125].                                       (* " }" *)

Definition debug_exec (argv : list str) : str := s_Exec_open ++ render argv ++ s_close.
Definition debug_pipeline (cmds : list (list str)) : str :=
  s_Pipeline_open ++ render_pipeline cmds ++ s_close.
