(* Reference semantics: POSIX-shell token recognition and quote removal for the
   fragment {blank separation, single quotes, backslash escape outside quotes,
   `|` as the pipeline operator, reserved words in command position}.  Any other
   character the shell treats specially when unquoted makes the result None, so
   a round-trip theorem also proves no such character is ever left unquoted.
   Validated against the installed /bin/sh by engine E3 on every run. *)
From Coq Require Import List NArith Bool.
Require Import SP.Base.Str.
Import ListNotations.
Open Scope N_scope.

Definition is_blank (c : N) : bool := (c =? 32) || (c =? 9).

(* characters that must not appear unquoted in a word that is to be taken literally *)
Definition sh_special (c : N) : bool :=
  existsb (N.eqb c)
    [0; 10; 13; 33; 34; 35; 36; 37; 38; 40; 41; 42; 59; 60; 62; 61; 63; 91; 93; 94; 96; 123; 125; 126].
(* NUL, LF, CR, bang, double quote, hash, dollar, percent, ampersand, parentheses, star, semicolon,
   less, greater, equals, question mark, brackets, caret, backquote, braces, tilde.  Percent, caret
   and equals are harmless to /bin/sh in most positions; forbidding them unquoted only makes the
   round-trip theorem stronger. *)

Inductive tok := TWord (w : str) (quoted : bool) | TBar.

(* lexer state: None = between words; Some (w, q) = inside a word with the
   characters so far (reversed) and whether any quoting occurred *)
Inductive lmode := Out | InW (acc : str) (q : bool) | InQ (acc : str).

Definition emit (m : lmode) (ts : list tok) : list tok :=
  match m with
  | InW acc q => TWord (rev acc) q :: ts
  | _ => ts
  end.

(* ts is accumulated in reverse *)
Fixpoint lex (s : str) (m : lmode) (ts : list tok) : option (list tok) :=
  match s with
  | [] => match m with
          | InQ _ => None                          (* unterminated quote *)
          | _ => Some (rev (emit m ts))
          end
  | c :: r =>
    match m with
    | InQ acc => if c =? 39 then lex r (InW acc true) ts
                 else if c =? 0 then None else lex r (InQ (c :: acc)) ts
    | _ =>
      let acc0 := match m with InW a _ => a | _ => [] end in
      let q0 := match m with InW _ q => q | _ => false end in
      if is_blank c then lex r Out (emit m ts)
      else if c =? 124 then lex r Out (TBar :: emit m ts)
      else if c =? 39 then lex r (InQ acc0) ts
      else if c =? 92 then
        match r with
        | [] => None
        | d :: r' => if (d =? 10) || (d =? 0) then None else lex r' (InW (d :: acc0) true) ts
        end
      else if sh_special c then None
      else lex r (InW (c :: acc0) q0) ts
    end
  end.

(* split the token list into simple commands at `|`; every command needs >= 1 word *)
Fixpoint split_cmds (ts : list tok) (cur : list (str * bool)) : option (list (list (str * bool))) :=
  match ts with
  | [] => match cur with [] => None | _ => Some [rev cur] end
  | TWord w q :: r => split_cmds r ((w, q) :: cur)
  | TBar :: r => match cur with
                 | [] => None
                 | _ => match split_cmds r [] with
                        | Some cs => Some (rev cur :: cs)
                        | None => None
                        end
                 end
  end.

(* word splitting only: the argv of each pipeline stage *)
Definition sh_words (s : str) : option (list (list str)) :=
  match lex s Out [] with
  | None => None
  | Some ts => match split_cmds ts [] with
               | None => None
               | Some cs => Some (map (map fst) cs)
               end
  end.

(* reserved words, recognised only when unquoted and in command position *)
Definition reserved_words : list str :=
  [ [105;102] (* if *); [116;104;101;110] (* then *); [101;108;115;101] (* else *);
    [101;108;105;102] (* elif *); [102;105] (* fi *); [100;111] (* do *); [100;111;110;101] (* done *);
    [99;97;115;101] (* case *); [101;115;97;99] (* esac *); [119;104;105;108;101] (* while *);
    [117;110;116;105;108] (* until *); [102;111;114] (* for *); [105;110] (* in *);
    [33] (* ! *); [123] (* { *); [125] (* } *) ].

Definition is_reserved (w : str) : bool := existsb (str_eqb w) reserved_words.

Definition cmd_ok (c : list (str * bool)) : bool :=
  match c with
  | (w, q) :: _ => q || negb (is_reserved w)
  | [] => false
  end.

(* full evaluation: word splitting plus the reserved-word rule *)
Definition sh_eval (s : str) : option (list (list str)) :=
  match lex s Out [] with
  | None => None
  | Some ts => match split_cmds ts [] with
               | None => None
               | Some cs => if forallb cmd_ok cs then Some (map (map fst) cs) else None
               end
  end.
