(* The signal state a process image starts with (C18): the blocked-signal mask (a set of signal numbers, as a bit
   set of unbounded width) and the disposition of SIGPIPE.  fork copies both; the child-side effects of
   Lib/Spawn.v's do_exec act on them (100 = pthread_sigmask(SIG_SETMASK, empty), 101 = signal(SIGPIPE, SIG_DFL),
   everything else leaves them alone); execve keeps the mask and ignored signals and resets handlers.  Proof-free. *)
From Coq Require Import List NArith Bool Arith.
Import ListNotations.

Inductive disp := DDefault | DIgnore | DHandler.

Record sigstate := { s_mask : N; s_pipe : disp }.

Definition apply_effect (s : sigstate) (e : nat) : sigstate :=
  if Nat.eqb e 100 then {| s_mask := 0%N; s_pipe := s_pipe s |}
  else if Nat.eqb e 101 then {| s_mask := s_mask s; s_pipe := DDefault |}
  else s.

Definition at_exec (s : sigstate) : sigstate :=
  {| s_mask := s_mask s; s_pipe := match s_pipe s with DHandler => DDefault | d => d end |}.

(* the state the program image starts with: the spawning thread's state, the child's effects in order, execve *)
Definition image_state (parent : sigstate) (eff : list nat) : sigstate := at_exec (fold_left apply_effect eff parent).

Definition clean : sigstate := {| s_mask := 0%N; s_pipe := DDefault |}.
