(* Model L of popen.rs (unix): Popen::create -> os_start -> setup_streams / fork / do_exec, with Rust's
   ownership made explicit (every File / Rc<File> drop that closes a descriptor is a Close call, in drop
   order), running on a kernel model K of descriptor tables.

   Descriptors are tagged atoms, not numbers: FStd i (0,1,2, open in the parent: hypothesis StdOpen),
   FUser j (a file the caller passed, at a number >= 3), FNew k (the k-th descriptor the kernel hands
   out during the call).  Distinctness of fresh descriptors from everything open -- all that POSIX
   promises and all the code relies on -- is then true by construction, the configuration space is finite,
   and the theorems of C05/C07/C08/C18 are exhaustive evaluations inside Coq's kernel.  Engine E2 maps
   the real descriptor numbers of every logged run onto these atoms and compares call by call.
   Proof-free. *)
From Coq Require Import List NArith Bool Arith.
Import ListNotations.

Inductive fd := FStd (i : nat) | FUser (j : nat) | FNew (k : nat).

Definition fd_eqb (a b : fd) : bool :=
  match a, b with
  | FStd i, FStd j | FUser i, FUser j | FNew i, FNew j => Nat.eqb i j
  | _, _ => false
  end.

(* open file descriptions *)
Inductive ofd := OStd (i : nat) | OUser (j : nat) | OPipeR (p : nat) | OPipeW (p : nat).

Definition ofd_eqb (a b : ofd) : bool :=
  match a, b with
  | OStd i, OStd j | OUser i, OUser j | OPipeR i, OPipeR j | OPipeW i, OPipeW j => Nat.eqb i j
  | _, _ => false
  end.

Record fdent := { e_ofd : ofd; e_cx : bool }.
Definition table := list (fd * fdent).

Fixpoint lookup (t : table) (f : fd) : option fdent :=
  match t with
  | [] => None
  | (g, e) :: r => if fd_eqb f g then Some e else lookup r f
  end.
Fixpoint remove (t : table) (f : fd) : table :=
  match t with
  | [] => []
  | (g, e) :: r => if fd_eqb f g then remove r f else (g, e) :: remove r f
  end.
Definition set (t : table) (f : fd) (e : fdent) : table := (f, e) :: remove t f.

(* ---------- calls ---------- *)

Inductive redir := RNone | RPipe | RMerge | RFile (j : nat) | RRc (id : nat).

Inductive scall :=
| SPipe | SGetFd (f : fd) | SSetFd (f : fd) (cx : bool) | SFork | SClose (f : fd) | SDup2 (a b : fd)
| SChdir | SSigmask | SSignal | SSetuid | SSetgid | SSetpgid
| SExec (cand : nat)            (* the cand-th candidate path; argv/env are compared by E2 for C06 *)
| SWriteErr (f : fd) (e : nat)  (* the 4-byte errno report *)
| SExit
| SReadStatus (f : fd)
| SWaitpid.

Inductive sres := ROk | RFds (r w : fd) | RFlags (cx : bool) | RErr (e : nat) | RPid | REof | RStatus (e : nat).

Inductive fkind := KPipe | KFcntl | KFork | KDup2 | KChdir | KSigmask | KSignal | KSetuid | KSetgid | KSetpgid | KExec.
Definition fkind_eqb (a b : fkind) : bool :=
  match a, b with
  | KPipe, KPipe | KFcntl, KFcntl | KFork, KFork | KDup2, KDup2 | KChdir, KChdir | KSigmask, KSigmask
  | KSignal, KSignal | KSetuid, KSetuid | KSetgid, KSetgid | KSetpgid, KSetpgid | KExec, KExec => true
  | _, _ => false
  end.

(* fail the nth (1-based) call of a kind, in the parent or in the child, with this errno *)
Record fault := { f_kind : fkind; f_nth : nat; f_errno : nat; f_child : bool }.

(* process effects, in the order applied: 50 chdir, 100 signal mask emptied, 101 SIGPIPE default,
   1 setuid, 2 setgid, 3 setpgid *)
Record kst := {
  tab : table;
  nfresh : nat; npipe : nat;
  trace : list (scall * sres);           (* reversed *)
  cnt : list (fkind * nat);              (* calls made so far, per kind *)
  rcs : list (nat * (fd * nat));         (* Rc<File> values: id -> (descriptor, strong count) *)
  pop : list (nat * fd);                 (* Popen fields set so far: stream -> parent end *)
  in_child : bool;
  effects : list nat
}.

Definition upd (s : kst) (t : table) (nf np : nat) (tr : list (scall * sres)) (c : list (fkind * nat))
           (r : list (nat * (fd * nat))) (p : list (nat * fd)) (e : list nat) : kst :=
  {| tab := t; nfresh := nf; npipe := np; trace := tr; cnt := c; rcs := r; pop := p; in_child := in_child s; effects := e |}.

Definition get_cnt (s : kst) (k : fkind) : nat :=
  match find (fun p => fkind_eqb (fst p) k) (cnt s) with Some (_, n) => n | None => 0 end.
Definition bump (s : kst) (k : fkind) : kst :=
  upd s (tab s) (nfresh s) (npipe s) (trace s)
      ((k, S (get_cnt s k)) :: filter (fun p => negb (fkind_eqb (fst p) k)) (cnt s)) (rcs s) (pop s) (effects s).
Definition with_tab (s : kst) (t : table) : kst := upd s t (nfresh s) (npipe s) (trace s) (cnt s) (rcs s) (pop s) (effects s).
Definition log (s : kst) (c : scall) (r : sres) : kst :=
  upd s (tab s) (nfresh s) (npipe s) ((c, r) :: trace s) (cnt s) (rcs s) (pop s) (effects s).
Definition with_rcs (s : kst) (r : list (nat * (fd * nat))) : kst :=
  upd s (tab s) (nfresh s) (npipe s) (trace s) (cnt s) r (pop s) (effects s).
Definition with_pop (s : kst) (p : list (nat * fd)) : kst :=
  upd s (tab s) (nfresh s) (npipe s) (trace s) (cnt s) (rcs s) p (effects s).
Definition effect (s : kst) (e : nat) : kst :=
  upd s (tab s) (nfresh s) (npipe s) (trace s) (cnt s) (rcs s) (pop s) (effects s ++ [e]).

Definition faulted (flt : option fault) (s : kst) (k : fkind) : option nat :=
  match flt with
  | Some f => if fkind_eqb (f_kind f) k && Nat.eqb (f_nth f) (S (get_cnt s k)) && Bool.eqb (f_child f) (in_child s)
              then Some (f_errno f) else None
  | None => None
  end.

Definition kind_of (c : scall) : option fkind :=
  match c with
  | SPipe => Some KPipe | SGetFd _ | SSetFd _ _ => Some KFcntl | SFork => Some KFork | SDup2 _ _ => Some KDup2
  | SChdir => Some KChdir | SSigmask => Some KSigmask | SSignal => Some KSignal | SSetuid => Some KSetuid
  | SSetgid => Some KSetgid | SSetpgid => Some KSetpgid | SExec _ => Some KExec | _ => None
  end.

(* K: one call.  exec_ok c = None: candidate c can be started; Some e: execve fails with e. *)
Definition sys (flt : option fault) (exec_ok : nat -> option nat) (s : kst) (c : scall) : kst * sres :=
  let s0 := match kind_of c with Some k => bump s k | None => s end in
  match (match kind_of c with Some k => faulted flt s k | None => None end) with
  | Some e => (log s0 c (RErr e), RErr e)
  | None =>
    match c with
    | SPipe =>
      let r := FNew (nfresh s0) in let w := FNew (S (nfresh s0)) in
      let t := set (set (tab s0) r {| e_ofd := OPipeR (npipe s0); e_cx := false |}) w {| e_ofd := OPipeW (npipe s0); e_cx := false |} in
      (log (upd s0 t (S (S (nfresh s0))) (S (npipe s0)) (trace s0) (cnt s0) (rcs s0) (pop s0) (effects s0)) c (RFds r w), RFds r w)
    | SGetFd f => match lookup (tab s0) f with
                  | Some e => (log s0 c (RFlags (e_cx e)), RFlags (e_cx e))
                  | None => (log s0 c (RErr 9), RErr 9)
                  end
    | SSetFd f cx => match lookup (tab s0) f with
                     | Some e => (log (with_tab s0 (set (tab s0) f {| e_ofd := e_ofd e; e_cx := cx |})) c ROk, ROk)
                     | None => (log s0 c (RErr 9), RErr 9)
                     end
    | SClose f => (log (with_tab s0 (remove (tab s0) f)) c ROk, ROk)
    | SDup2 a b => match lookup (tab s0) a with
                   | Some e => (log (with_tab s0 (set (tab s0) b {| e_ofd := e_ofd e; e_cx := false |})) c ROk, ROk)
                   | None => (log s0 c (RErr 9), RErr 9)
                   end
    | SFork => (log s0 c RPid, RPid)
    | SChdir => (log (effect s0 50) c ROk, ROk)
    | SSigmask => (log (effect s0 100) c ROk, ROk)
    | SSignal => (log (effect s0 101) c ROk, ROk)
    | SSetuid => (log (effect s0 1) c ROk, ROk)
    | SSetgid => (log (effect s0 2) c ROk, ROk)
    | SSetpgid => (log (effect s0 3) c ROk, ROk)
    | SExec cand => match exec_ok cand with
                    | None => (log s0 c ROk, ROk)
                    | Some e => (log s0 c (RErr e), RErr e)
                    end
    | _ => (log s0 c ROk, ROk)
    end
  end.

(* ---------- configuration ---------- *)

Record config := {
  c_stdin : redir; c_stdout : redir; c_stderr : redir;
  c_cwd : bool; c_setuid : bool; c_setgid : bool; c_setpgid : bool;
  c_prep_fails : bool;                (* a NUL in argv / env: prep_exec returns EINVAL before the fork *)
  c_ncand : nat;                      (* number of exec candidates (1 without PATH search) *)
  c_detached : bool;
  c_inflight : bool      (* another thread of the parent is in the middle of a launch of its own: the child ends of its
                            pipes exist and are inheritable (they are never marked close-on-exec) *)
}.

Definition rc_find (s : kst) (id : nat) : option (fd * nat) :=
  match find (fun p => Nat.eqb (fst p) id) (rcs s) with Some (_, x) => Some x | None => None end.
Definition rc_set (s : kst) (id : nat) (x : fd * nat) : kst :=
  with_rcs s ((id, x) :: filter (fun p => negb (Nat.eqb (fst p) id)) (rcs s)).

Inductive lres := LOk | LErr (e : nat) | LLogic (m : nat).

Definition M (A : Type) := kst -> kst * (A + lres).
Definition ret {A} (a : A) : M A := fun s => (s, inl a).
Definition fail {A} (e : lres) : M A := fun s => (s, inr e).
Definition bind {A B} (m : M A) (k : A -> M B) : M B :=
  fun s => match m s with
           | (s', inl a) => k a s'
           | (s', inr e) => (s', inr e)
           end.
Notation "x <- m ;; k" := (bind m (fun x => k)) (at level 61, m at next level, right associativity).
Notation "m ;;; k" := (bind m (fun _ => k)) (at level 61, right associativity).

Section Lib.
Variable flt : option fault.
Variable exec_ok : nat -> option nat.

Definition call (c : scall) : M sres := fun s => let (s', r) := sys flt exec_ok s c in (s', inl r).
Definition callq (c : scall) : M sres :=
  r <- call c ;; match r with RErr e => fail (LErr e) | _ => ret r end.
Definition close (f : fd) : M unit := call (SClose f) ;;; ret tt.

(* dropping an Rc<File>: closes the descriptor when the last strong reference goes *)
Definition rc_drop (id : nat) : M unit :=
  fun s => match rc_find s id with
           | Some (f, 1) => close f (rc_set s id (f, 0))
           | Some (f, S n) => (rc_set s id (f, n), inl tt)
           | _ => (s, inl tt)
           end.
Definition rc_clone (id : nat) : M unit :=
  fun s => match rc_find s id with Some (f, n) => (rc_set s id (f, S n), inl tt) | None => (s, inl tt) end.
Definition drop_opt (o : option nat) : M unit := match o with Some id => rc_drop id | None => ret tt end.

(* run the drops `d` only when `m` fails: a local that is dropped by an early `?` return *)
Definition on_err {A} (m : M A) (d : M unit) : M A :=
  fun s => match m s with
           | (s', inr e) => match d s' with (s'', _) => (s'', inr e) end
           | ok => ok
           end.
(* run the drops `d` in any case: scope exit *)
Definition finally {A} (m : M A) (d : M unit) : M A :=
  fun s => match m s with (s', r) => match d s' with (s'', _) => (s'', r) end end.

Definition set_cloexec (f : fd) : M unit := callq (SGetFd f) ;;; callq (SSetFd f true) ;;; ret tt.

(* Rc ids: 0,1,2 for ends made from pipes / moved Files of the three streams; 10+id for caller-shared
   Rc<File>s (the caller keeps its own reference); 20+i for the standard streams (cached in a
   thread-local and deliberately leaked: the count never reaches zero) *)
Definition prepare_pipe (parent_writes : bool) (idx : nat) : M (option nat) :=
  r <- callq SPipe ;;
  match r with
  | RFds rd wr =>
    let pe := if parent_writes then wr else rd in
    let ce := if parent_writes then rd else wr in
    (* locals parent_end, child_end: a failing set_inheritable drops child_end then parent_end *)
    on_err (set_cloexec pe) (close ce ;;; close pe) ;;;
    (fun s => (rc_set (with_pop s ((idx, pe) :: pop s)) idx (ce, 1), inl (Some idx)))
  | _ => fail (LLogic 99)
  end.

Definition one_stream (idx : nat) (r : redir) (parent_writes : bool) : M (option nat) :=
  match r with
  | RPipe => prepare_pipe parent_writes idx
  | RFile j => fun s => (rc_set s idx (FUser j, 1), inl (Some idx))
  | RRc id => rc_clone (10 + id) ;;; ret (Some (10 + id))      (* the Rc moves in: no count change; see drop_redir *)
  | _ => ret None
  end.

(* a Redirection value that is dropped without having been consumed *)
Definition drop_redir (r : redir) : M unit :=
  match r with
  | RFile j => close (FUser j)
  | RRc id => rc_drop (10 + id)
  | _ => ret tt
  end.

Definition get_std (i : nat) : M nat :=
  fun s => match rc_find s (20 + i) with
           | Some (f, n) => (rc_set s (20 + i) (f, S n), inl (20 + i))
           | None => (rc_set s (20 + i) (FStd i, 3), inl (20 + i))
           end.

(* setup_streams(stdin, stdout, stderr).  On an early return the locals child_stderr, child_stdout,
   child_stdin are dropped in that order, then the parameters not yet consumed, last declared first. *)
Definition setup_streams (c : config) : M (option nat * option nat * option nat) :=
  match c_stdin c, c_stdout c, c_stderr c with
  | _, RMerge, RMerge =>            (* refused before anything is created *)
    on_err (fail (LLogic 2)) (drop_redir (c_stdin c))
  | RMerge, _, _ => on_err (fail (LLogic 1)) (drop_redir (c_stderr c) ;;; drop_redir (c_stdout c))
  | _, _, _ =>
    a <- on_err (one_stream 0 (c_stdin c) true) (drop_redir (c_stderr c) ;;; drop_redir (c_stdout c)) ;;
    b <- on_err (one_stream 1 (c_stdout c) false) (drop_opt a ;;; drop_redir (c_stderr c)) ;;
    d <- on_err (one_stream 2 (c_stderr c) false) (drop_opt b ;;; drop_opt a) ;;
    match c_stdout c, c_stderr c with
    | _, RMerge =>      (* 2>&1 *)
      o <- match b with Some o => ret o | None => get_std 1 end ;;
      rc_clone o ;;; ret (a, Some o, Some o)
    | RMerge, _ =>      (* 1>&2 *)
      e <- match d with Some e => ret e | None => get_std 2 end ;;
      rc_clone e ;;; ret (a, Some e, Some e)
    | _, _ => ret (a, b, d)
    end
  end.

Definition fd_of (s : kst) (id : nat) : fd := match rc_find s id with Some (f, _) => f | None => FStd 99 end.

(* one guarded dup2 of do_exec: `if let Some(x) = x { if x.as_raw_fd() != t { dup2(fd, t)? } }`;
   the binding is dropped at the end of the if-let, also on `?` *)
Definition place (o : option nat) (t : nat) : M unit :=
  match o with
  | None => ret tt
  | Some id =>
    finally (fun s => let f := fd_of s id in
                      if fd_eqb f (FStd t) then (s, inl tt) else (callq (SDup2 f (FStd t)) ;;; ret tt) s)
            (rc_drop id)
  end.

Fixpoint try_exec (n : nat) (i : nat) (last : lres) : M unit :=
  match n with
  | O => fail last
  | S n' => r <- call (SExec i) ;;
            match r with
            | RErr e => try_exec n' (S i) (LErr e)
            | _ => ret tt                                 (* the image runs *)
            end
  end.

(* do_exec in the child *)
Definition do_exec (c : config) (ends : option nat * option nat * option nat) : M unit :=
  let '(i, o, e) := ends in
  (* parameters are dropped at exit: child_ends is a tuple (fields in order) *)
  on_err (if c_cwd c then callq SChdir ;;; ret tt else ret tt) (drop_opt i ;;; drop_opt o ;;; drop_opt e) ;;;
  (* let (stdin, stdout, stderr) = child_ends: locals, dropped in reverse order on `?` *)
  on_err (place i 0) (drop_opt e ;;; drop_opt o) ;;;
  on_err (place o 1) (drop_opt e) ;;;
  place e 2 ;;;
  call SSigmask ;;; callq SSignal ;;;
  (if c_setgid c then callq SSetgid ;;; ret tt else ret tt) ;;;
  (if c_setuid c then callq SSetuid ;;; ret tt else ret tt) ;;;
  (if c_setpgid c then callq SSetpgid ;;; ret tt else ret tt) ;;;
  match c_ncand c with
  | O => fail (LLogic 7)                                  (* PATH with only empty entries: Ok(()) -> unreachable!() *)
  | n => try_exec n 0 (LLogic 8)
  end.

Definition drop_pop : M unit :=
  fun s => fold_left (fun acc i => match find (fun p => Nat.eqb (fst p) i) (pop s) with
                                   | Some (_, f) => match close f (fst acc) with (s', _) => (s', inl tt) end
                                   | None => acc
                                   end) [0; 1; 2] (s, inl tt).

End Lib.

(* ---------- the whole launch: parent up to fork, child, parent after fork ---------- *)

Inductive child_outcome := Started (t : table) (eff : list nat) | Reported (e : nat) | NoChild.

Record outcome := {
  o_result : lres;
  o_parent : kst;                (* parent at the return of Popen::create (or after the drop of the failed Popen) *)
  o_child : option kst;          (* the child at exec / _exit *)
  o_child_out : child_outcome;
  o_popen : list (nat * fd);     (* fields of the returned Popen *)
  o_waited : bool                (* Popen::drop of a failed launch waited for the child *)
}.

Definition exec_table (t : table) : table := filter (fun p => negb (e_cx (snd p))) t.

Definition init_rcs (c : config) : list (nat * (fd * nat)) :=
  (* caller-shared Rc<File>s: the caller's own reference plus one per Redirection value holding it *)
  let uses id := length (filter (fun r => match r with RRc i => Nat.eqb i id | _ => false end) [c_stdin c; c_stdout c; c_stderr c]) in
  map (fun id => (10 + id, (FUser (100 + id), 1 + uses id))) [0; 1; 2].

Definition init_tab (c : config) : table :=
  let std := map (fun i => (FStd i, {| e_ofd := OStd i; e_cx := false |})) [0; 1; 2] in
  let files := flat_map (fun r => match r with RFile j => [(FUser j, {| e_ofd := OUser j; e_cx := true |})] | _ => [] end)
                        [c_stdin c; c_stdout c; c_stderr c] in
  let rcsf := map (fun id => (FUser (100 + id), {| e_ofd := OUser (100 + id); e_cx := true |})) [0; 1; 2] in
  (* what earlier spawns left in the parent: close-on-exec parent ends of other children's pipes; and a
     descriptor the application itself made inheritable *)
  let earlier := [(FUser 300, {| e_ofd := OPipeW 77; e_cx := true |}); (FUser 301, {| e_ofd := OPipeR 78; e_cx := true |});
                  (FUser 302, {| e_ofd := OUser 302; e_cx := false |})] in
  let inflight := if c_inflight c then [(FUser 310, {| e_ofd := OPipeR 79; e_cx := false |}); (FUser 311, {| e_ofd := OPipeW 80; e_cx := false |})] else [] in
  std ++ files ++ rcsf ++ earlier ++ inflight.

Definition init_kst (c : config) : kst :=
  {| tab := init_tab c; nfresh := 0; npipe := 0; trace := []; cnt := []; rcs := init_rcs c; pop := [];
     in_child := false; effects := [] |}.

Definition as_child (s : kst) : kst :=
  {| tab := tab s; nfresh := nfresh s; npipe := npipe s; trace := []; cnt := []; rcs := rcs s; pop := pop s;
     in_child := true; effects := [] |}.

Definition run (flt : option fault) (exec_ok : nat -> option nat) (c : config) : outcome :=
  let s0 := init_kst c in
  let drop_cfg := drop_redir flt exec_ok (c_stdin c) ;;; drop_redir flt exec_ok (c_stdout c) ;;; drop_redir flt exec_ok (c_stderr c) in
  let failed (s : kst) (e : lres) (waited : bool) :=
    (* Popen::create drops the half-built Popen: its three fields in order *)
    let (s', _) := drop_pop flt exec_ok s in
    {| o_result := e; o_parent := s'; o_child := None; o_child_out := NoChild; o_popen := []; o_waited := waited |} in
  (* exec_fail_pipe *)
  match on_err (callq flt exec_ok SPipe) drop_cfg s0 with
  | (s1, inr e) => failed s1 e false
  | (s1, inl (RFds r0 w0)) =>
    let drop_efp := close flt exec_ok r0 ;;; close flt exec_ok w0 in
    match on_err (set_cloexec flt exec_ok r0 ;;; set_cloexec flt exec_ok w0) (drop_efp ;;; drop_cfg) s1 with
    | (s2, inr e) => failed s2 e false
    | (s2, inl _) =>
      match on_err (setup_streams flt exec_ok c) drop_efp s2 with
      | (s3, inr e) => failed s3 e false
      | (s3, inl (ci, co, ce)) =>
        let drop_ends := drop_opt flt exec_ok ci ;;; drop_opt flt exec_ok co ;;; drop_opt flt exec_ok ce in
        (* prep_exec (may fail with EINVAL), then fork; on failure the inner block's locals are dropped *)
        match on_err (if c_prep_fails c then fail (LErr 22) else callq flt exec_ok SFork) (drop_ends ;;; drop_efp) s3 with
        | (s4, inr e) => failed s4 e false
        | (s4, inl _) =>
          (* ---- the child ---- *)
          let sc0 := as_child s4 in
          let (sc1, _) := close flt exec_ok r0 sc0 in
          let (sc2, cres) := do_exec flt exec_ok c (ci, co, ce) sc1 in
          let '(scf, cout) :=
            match cres with
            | inl _ => (sc2, Started (exec_table (tab sc2)) (effects sc2))
            | inr (LErr e) =>
              let (sc3, _) := call flt exec_ok (SWriteErr w0 e) sc2 in
              let (sc4, _) := call flt exec_ok SExit sc3 in (sc4, Reported e)
            | inr _ =>
              (* unreachable!() / non-OS error: raw_os_error().unwrap_or(-1) as u32; 0 stands for that value here *)
              let (sc3, _) := call flt exec_ok (SWriteErr w0 0) sc2 in
              let (sc4, _) := call flt exec_ok SExit sc3 in (sc4, Reported 0)
            end in
          (* ---- the parent after fork ---- *)
          let (s5, _) := (drop_ends ;;; close flt exec_ok w0) s4 in
          let st := match cout with Reported e => RStatus e | _ => REof end in
          let s6 := log s5 (SReadStatus r0) st in
          match cout with
          | Reported e =>
            (* the child reported an errno: os_start reaps it (detached or not), then returns Err; the status
               pipe is dropped at function exit and Popen::create drops the Popen (already Finished: no wait) *)
            let s6' := log s6 SWaitpid ROk in
            let (s7, _) := close flt exec_ok r0 s6' in
            let o := failed s7 (LErr e) true in
            {| o_result := o_result o; o_parent := o_parent o; o_child := Some scf; o_child_out := cout;
               o_popen := []; o_waited := o_waited o |}
          | _ =>
            let (s7, _) := close flt exec_ok r0 s6 in
            {| o_result := LOk; o_parent := s7; o_child := Some scf; o_child_out := cout; o_popen := pop s7; o_waited := false |}
          end
        end
      end
    end
  | (s1, inl _) => failed s1 (LLogic 98) false
  end.

(* ---------- numeric encoding of traces, for the comparison with the logged real runs ---------- *)

Local Open Scope N_scope.
Definition n (x : nat) : N := N.of_nat x.
Definition enc_fd (f : fd) : N := match f with FStd i => 1000 + n i | FUser j => 2000 + n j | FNew k => 3000 + n k end.
Definition enc_res (r : sres) : list N :=
  match r with
  | ROk => [0] | RFds a b => [1; enc_fd a; enc_fd b] | RFlags cx => [2; if cx then 1 else 0] | RErr e => [3; n e]
  | RPid => [4] | REof => [5] | RStatus e => [6; n e]
  end.
Definition enc_call (c : scall) : list N :=
  match c with
  | SPipe => [1] | SGetFd f => [2; enc_fd f] | SSetFd f cx => [3; enc_fd f; if cx then 1 else 0] | SFork => [4]
  | SClose f => [5; enc_fd f] | SDup2 a b => [6; enc_fd a; enc_fd b] | SChdir => [7] | SSigmask => [8] | SSignal => [9]
  | SSetuid => [10] | SSetgid => [11] | SSetpgid => [12] | SExec i => [13; n i] | SWriteErr f e => [14; enc_fd f; n e]
  | SExit => [15] | SReadStatus f => [16; enc_fd f] | SWaitpid => [17]
  end.
Definition enc_trace (t : list (scall * sres)) : list (list N) :=
  map (fun p => enc_call (fst p) ++ [99] ++ enc_res (snd p)) (rev t).
Definition enc_table (t : table) : list (list N) :=
  map (fun p => [enc_fd (fst p);
                 match e_ofd (snd p) with OStd i => 100 + n i | OUser j => 1000 + n j | OPipeR q => 2000 + n q | OPipeW q => 3000 + n q end;
                 if e_cx (snd p) then 1 else 0]) t.
Definition enc_lres (r : lres) : list N := match r with LOk => [0] | LErr e => [1; n e] | LLogic m => [2; n m] end.

(* everything E2 compares, for one scenario *)
Definition summary (flt : option fault) (exec_ok : nat -> option nat) (c : config) :=
  let o := run flt exec_ok c in
  (enc_lres (o_result o), enc_trace (trace (o_parent o)),
   match o_child o with Some k => enc_trace (trace k) | None => [] end,
   enc_table (tab (o_parent o)),
   match o_child_out o with Started t _ => enc_table t | _ => [] end,
   map (fun p => [n (fst p); enc_fd (snd p)]) (o_popen o)).
