(* Model of posix.rs: decode_exit_status over the raw wait status (the libc crate's Linux WIF* macros),
   and of popen.rs: the 4-byte little-endian errno codec of the exec-failure pipe. *)
From Coq Require Import List NArith ZArith Bool.
Import ListNotations.

Inductive exit_status := Exited (c : N) | Signaled (s : N) | Other (raw : N) | Undetermined.

Open Scope N_scope.
(* status is the 32-bit pattern as an unsigned number *)
Definition wifexited (s : N) : bool := N.land s 127 =? 0.
Definition wexitstatus (s : N) : N := N.land (N.shiftr s 8) 255.
(* ((s & 0x7f) + 1) as i8 >> 1 > 0 *)
Definition wifsignaled (s : N) : bool :=
  let t := N.land s 127 + 1 in (2 <=? t) && (t <? 128).
Definition wtermsig (s : N) : N := N.land s 127.

Definition decode_exit_status (s : N) : exit_status :=
  if wifexited s then Exited (wexitstatus s)
  else if wifsignaled s then Signaled (wtermsig s)
  else Other s.

Close Scope N_scope.
Open Scope Z_scope.
(* child: error_code = raw_os_error().unwrap_or(-1) as u32; four bytes, least significant first *)
Definition to_u32 (e : Z) : Z := e mod 4294967296.
Definition encode4 (e : Z) : list Z :=
  let u := to_u32 e in [u mod 256; (u / 256) mod 256; (u / 65536) mod 256; (u / 16777216) mod 256].
(* parent: b0 | b1 << 8 | b2 << 16 | b3 << 24 as i32 *)
Definition to_i32 (u : Z) : Z := if u <? 2147483648 then u else u - 4294967296.
Definition decode4 (b : list Z) : option Z :=
  match b with
  | [b0; b1; b2; b3] => Some (to_i32 (b0 + b1 * 256 + b2 * 65536 + b3 * 16777216))
  | _ => None
  end.
