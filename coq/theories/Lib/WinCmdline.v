(* Model of popen.rs (cfg(windows)): assemble_cmdline and append_quoted, over UTF-16 units as N. *)
From Coq Require Import List NArith Bool.
Require Import SP.Params SP.Base.Str.
Import ListNotations.
Open Scope N_scope.

Definition u_bslash : N := 92.
Definition u_dquote : N := 34.

(* quoting is skipped iff the argument is non-empty and has no character of the quote set *)
Definition needs_quote (a : str) : bool :=
  match a with
  | [] => true
  | _ => existsb (fun c => existsb (N.eqb c) win_quote_set) a
  end.

(* the while loop of append_quoted: nbs is num_backslashes of the current run *)
Fixpoint quote_body (s : str) (nbs : nat) : str :=
  match s with
  | [] => repeat u_bslash (2 * nbs)
  | c :: r =>
    if c =? u_bslash then quote_body r (S nbs)
    else if c =? u_dquote then repeat u_bslash (2 * nbs + 1) ++ c :: quote_body r 0
    else repeat u_bslash nbs ++ c :: quote_body r 0
  end.

Definition append_quoted (a : str) : str :=
  if needs_quote a then u_dquote :: quote_body a 0 ++ [u_dquote] else a.

Definition has_nul (a : str) : bool := existsb (N.eqb 0) a.

(* None = Err(ERROR_BAD_PATHNAME) *)
Definition assemble_cmdline (argv : list str) : option str :=
  if existsb has_nul argv then None else Some (join [32] (map append_quoted argv)).
