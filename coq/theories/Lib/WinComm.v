(* Model of the cfg(windows) communicator of communicate.rs (`mod raw`): one helper thread per stream and a
   rendezvous channel (sync_channel(0)) to the thread that calls read().  The kernel side is K of
   Kernel/CommK.v (pipes, scripted child); every interleaving of the helpers, the child and the receiving
   thread is an explicit choice.  Proof-free. *)
From Coq Require Import List NArith Bool Arith.
Require Import SP.Lib.Comm SP.Kernel.CommK.
Import ListNotations.
Local Open Scope nat_scope.

Definition CHUNK : nat := 4096.       (* read_and_transmit's buffer *)

Inductive payload := PData (b : list N) | PEof | PFail (e : N).

(* a reader helper: in read(), blocked in send() with a message, or exited *)
Inductive rdr := RRun | RHold (m : payload) | RGone.
(* the writer helper: in write_all with these bytes still to write, blocked in send(), or exited *)
Inductive wtr := WRun (rest : list N) | WHold (m : payload) | WGone.

(* one read() call of the receiving thread *)
Inductive wret := WOk | WTimedOut | WErr (e : N).
Inductive phase := MLeftover | MLoop | MDone (r : wret).
Record mcall := { m_out : list N; m_err : list N; m_limit : option nat; m_deadline : bool; m_phase : phase }.

Record wsys := {
  kw : world;                                 (* K: the three pipes and the child *)
  h_out : option rdr; h_err : option rdr; h_in : option wtr;   (* None: that stream is not piped *)
  set_in : bool; set_out : bool; set_err : bool;               (* helper_set *)
  leftover : option (stream * list N);
  call : option mcall;                        (* the read() in progress, if any *)
  g_out : list N; g_err : list N              (* ghost: bytes returned by completed reads *)
}.

Definition with_kw (s : wsys) (w : world) : wsys :=
  {| kw := w; h_out := h_out s; h_err := h_err s; h_in := h_in s; set_in := set_in s; set_out := set_out s; set_err := set_err s;
     leftover := leftover s; call := call s; g_out := g_out s; g_err := g_err s |}.

(* ---------- helper threads ---------- *)

(* read_and_transmit: one read of at most CHUNK bytes; Ok(0) is end-of-file *)
Definition rdr_step (p : pipe) (k : nat) : option (pipe * payload) :=
  match buf p with
  | [] => if wr p then None (* blocks *) else Some (p, PEof)
  | _ => let m := pick k (Nat.min CHUNK (length (buf p))) in Some (pop p m, PData (firstn m (buf p)))
  end.

(* write_all: each write moves at least one byte once there is room; EPIPE when the reader is gone *)
Definition wtr_step (p : pipe) (rest : list N) (k : nat) : option (pipe * wtr) :=
  match rest with
  | [] => Some (p, WHold PEof)             (* write_all of nothing succeeds without a system call *)
  | _ => if negb (rd p) then Some (p, WHold (PFail EPIPE))
         else if (free p =? 0)%nat then None (* blocks *)
         else let m := pick k (Nat.min (length rest) (free p)) in
              Some (push p (firstn m rest), WRun (skipn m rest))
  end.

Definition set_h_out (s : wsys) (h : option rdr) (w : world) : wsys :=
  {| kw := w; h_out := h; h_err := h_err s; h_in := h_in s; set_in := set_in s; set_out := set_out s; set_err := set_err s;
     leftover := leftover s; call := call s; g_out := g_out s; g_err := g_err s |}.
Definition set_h_err (s : wsys) (h : option rdr) (w : world) : wsys :=
  {| kw := w; h_out := h_out s; h_err := h; h_in := h_in s; set_in := set_in s; set_out := set_out s; set_err := set_err s;
     leftover := leftover s; call := call s; g_out := g_out s; g_err := g_err s |}.
Definition set_h_in (s : wsys) (h : option wtr) (w : world) : wsys :=
  {| kw := w; h_out := h_out s; h_err := h_err s; h_in := h; set_in := set_in s; set_out := set_out s; set_err := set_err s;
     leftover := leftover s; call := call s; g_out := g_out s; g_err := g_err s |}.

Definition helper_step (s : wsys) (st : stream) (k : nat) : option wsys :=
  let w := kw s in
  match st with
  | SOut => match h_out s with
            | Some RRun => match rdr_step (pout w) k with
                           | Some (p', m) => Some (set_h_out s (Some (RHold m)) (upd_pipes w (pin w) p' (perr w)))
                           | None => None
                           end
            | _ => None
            end
  | SErr => match h_err s with
            | Some RRun => match rdr_step (perr w) k with
                           | Some (p', m) => Some (set_h_err s (Some (RHold m)) (upd_pipes w (pin w) (pout w) p'))
                           | None => None
                           end
            | _ => None
            end
  | SIn => match h_in s with
           | Some (WRun rest) => match wtr_step (pin w) rest k with
                                 | Some (p', h') => Some (set_h_in s (Some h') (upd_pipes w p' (pout w) (perr w)))
                                 | None => None
                                 end
           | _ => None
           end
  end.

(* ---------- the receiving thread ---------- *)

Definition set_call (s : wsys) (c : option mcall) : wsys :=
  {| kw := kw s; h_out := h_out s; h_err := h_err s; h_in := h_in s; set_in := set_in s; set_out := set_out s; set_err := set_err s;
     leftover := leftover s; call := c; g_out := g_out s; g_err := g_err s |}.

Definition total (c : mcall) : nat := length (m_out c) + length (m_err c).

(* grow_result: (call', leftover', keep going?) *)
Definition grow (c : mcall) (st : stream) (data : list N) : mcall * option (stream * list N) * bool :=
  match m_limit c with
  | Some lim =>
    if lim <=? total c then (c, None, false)
    else
      let remaining := lim - total c in
      let (take, left) := if remaining <? length data then (firstn remaining data, Some (st, skipn remaining data)) else (data, None) in
      let c' := match st with
                | SErr => {| m_out := m_out c; m_err := m_err c ++ take; m_limit := m_limit c; m_deadline := m_deadline c; m_phase := m_phase c |}
                | _ => {| m_out := m_out c ++ take; m_err := m_err c; m_limit := m_limit c; m_deadline := m_deadline c; m_phase := m_phase c |}
                end in
      (c', left, negb (lim <=? total c'))
  | None =>
    let c' := match st with
              | SErr => {| m_out := m_out c; m_err := m_err c ++ data; m_limit := m_limit c; m_deadline := m_deadline c; m_phase := m_phase c |}
              | _ => {| m_out := m_out c ++ data; m_err := m_err c; m_limit := m_limit c; m_deadline := m_deadline c; m_phase := m_phase c |}
              end in
    (c', None, true)
  end.

Definition set_phase (c : mcall) (p : phase) : mcall :=
  {| m_out := m_out c; m_err := m_err c; m_limit := m_limit c; m_deadline := m_deadline c; m_phase := p |}.

Definition set_left (s : wsys) (l : option (stream * list N)) (c : option mcall) : wsys :=
  {| kw := kw s; h_out := h_out s; h_err := h_err s; h_in := h_in s; set_in := set_in s; set_out := set_out s; set_err := set_err s;
     leftover := l; call := c; g_out := g_out s; g_err := g_err s |}.

(* read() begins *)
Definition start_read (s : wsys) (lim : option nat) (deadline : bool) : option wsys :=
  match call s with
  | Some _ => None
  | None => Some (set_call s (Some {| m_out := []; m_err := []; m_limit := lim; m_deadline := deadline; m_phase := MLeftover |}))
  end.

(* the sequential part between two receives: the leftover, then the loop condition *)
Definition main_tau (s : wsys) : option wsys :=
  match call s with
  | Some c =>
    match m_phase c with
    | MLeftover =>
      match leftover s with
      | Some (st, data) =>
        let '(c', l', go) := grow c st data in
        Some (set_left s l' (Some (set_phase c' (if go then MLoop else MDone WOk))))
      | None => Some (set_call s (Some (set_phase c MLoop)))
      end
    | MLoop => if negb (set_in s) && negb (set_out s) && negb (set_err s) then Some (set_call s (Some (set_phase c (MDone WOk)))) else None
    | MDone _ => None
    end
  | None => None
  end.

Definition in_loop (s : wsys) : option mcall :=
  match call s with
  | Some c => match m_phase c with
              | MLoop => if negb (set_in s) && negb (set_out s) && negb (set_err s) then None else Some c
              | _ => None
              end
  | None => None
  end.

(* a rendezvous: the receiving thread takes the message a helper is holding *)
Definition recv (s : wsys) (st : stream) : option wsys :=
  match in_loop s with
  | None => None
  | Some c =>
    let data_msg (b : list N) (s1 : wsys) :=
        let '(c', l', go) := grow c st b in
        Some (set_left s1 l' (Some (set_phase c' (if go then MLoop else MDone WOk)))) in
    (* a helper that reports an error has exited: its bit is cleared (since the repair of F17) *)
    let fail_msg (e : N) (s1 : wsys) :=
        Some {| kw := kw s1; h_out := h_out s1; h_err := h_err s1; h_in := h_in s1;
                set_in := match st with SIn => false | _ => set_in s1 end;
                set_out := match st with SOut => false | _ => set_out s1 end;
                set_err := match st with SErr => false | _ => set_err s1 end;
                leftover := leftover s1; call := Some (set_phase c (MDone (WErr e))); g_out := g_out s1; g_err := g_err s1 |} in
    match st with
    | SOut => match h_out s with
              | Some (RHold (PData b)) => data_msg b (set_h_out s (Some RRun) (kw s))
              | Some (RHold PEof) =>
                Some {| kw := kw s; h_out := Some RGone; h_err := h_err s; h_in := h_in s; set_in := set_in s; set_out := false; set_err := set_err s;
                        leftover := leftover s; call := call s; g_out := g_out s; g_err := g_err s |}
              | Some (RHold (PFail e)) => fail_msg e (set_h_out s (Some RGone) (kw s))
              | _ => None
              end
    | SErr => match h_err s with
              | Some (RHold (PData b)) => data_msg b (set_h_err s (Some RRun) (kw s))
              | Some (RHold PEof) =>
                Some {| kw := kw s; h_out := h_out s; h_err := Some RGone; h_in := h_in s; set_in := set_in s; set_out := set_out s; set_err := false;
                        leftover := leftover s; call := call s; g_out := g_out s; g_err := g_err s |}
              | Some (RHold (PFail e)) => fail_msg e (set_h_err s (Some RGone) (kw s))
              | _ => None
              end
    | SIn => match h_in s with
             | Some (WHold PEof) =>
               (* the writer's closure ends after the send: only now is the child's stdin closed *)
               Some {| kw := k_close (kw s); h_out := h_out s; h_err := h_err s; h_in := Some WGone; set_in := false; set_out := set_out s; set_err := set_err s;
                       leftover := leftover s; call := call s; g_out := g_out s; g_err := g_err s |}
             | Some (WHold (PFail e)) => fail_msg e (set_h_in s (Some WGone) (k_close (kw s)))
             | _ => None
             end
    end
  end.

Definition timeout (s : wsys) : option wsys :=
  match in_loop s with
  | Some c => if m_deadline c then Some (set_call s (Some (set_phase c (MDone WTimedOut)))) else None
  | None => None
  end.

(* read() returns: the vectors are handed out, absent for a stream that was never requested *)
Definition finish (s : wsys) : option (wsys * (wret * option (list N) * option (list N))) :=
  match call s with
  | Some c =>
    match m_phase c with
    | MDone r =>
      Some ({| kw := kw s; h_out := h_out s; h_err := h_err s; h_in := h_in s; set_in := set_in s; set_out := set_out s; set_err := set_err s;
               leftover := leftover s; call := None; g_out := g_out s ++ m_out c; g_err := g_err s ++ m_err c |},
            (r, match h_out s with Some _ => Some (m_out c) | None => None end,
                match h_err s with Some _ => Some (m_err c) | None => None end))
    | _ => None
    end
  | None => None
  end.

(* ---------- the closed system ---------- *)

Inductive wchoice :=
| WHelper (st : stream) (k : nat)
| WRecv (st : stream)
| WTau
| WTimeout
| WChild (k : nat)
| WStart (lim : option nat) (deadline : bool)
| WFinish.

Definition wstep (s : wsys) (ch : wchoice) : option wsys :=
  match ch with
  | WHelper st k => helper_step s st k
  | WRecv st => recv s st
  | WTau => main_tau s
  | WTimeout => timeout s
  | WChild k =>
    match child_step (kw s) k with
    | CStep w' => Some (with_kw s w')
    | CBlocked => match prog (kw s) with
                  | CSleepUntil t :: r => Some (with_kw s (set_now (set_prog (kw s) r) t))
                  | _ => None
                  end
    | CDone => None
    end
  | WStart lim dl => start_read s lim dl
  | WFinish => match finish s with Some (s', _) => Some s' | None => None end
  end.

Fixpoint wrun (s : wsys) (chs : list wchoice) : option wsys :=
  match chs with
  | [] => Some s
  | ch :: r => match wstep s ch with Some s' => wrun s' r | None => None end
  end.

(* RawCommunicator::new *)
Definition winit (pi po pe : bool) (ci co ce : nat) (child : list cop) (input : list N) : wsys :=
  {| kw := init_world pi po pe ci co ce child;
     h_out := if po then Some RRun else None; h_err := if pe then Some RRun else None;
     h_in := if pi then Some (WRun input) else None;
     set_in := pi; set_out := po; set_err := pe; leftover := None; call := None; g_out := []; g_err := [] |}.
