(* C16: the Exec builder composes the way a straightforward model of the calls predicts. *)
From Coq Require Import List NArith Bool Lia.
Require Import SP.Base.Str SP.Base.StrFacts SP.Lib.Env SP.Lib.Builder SP.Proofs.EnvProofs SP.Params.
Import ListNotations.
Local Open Scope N_scope.

Lemma stdin_redir_inv base e r e' : apply_op base e (OStdin (IRedir r)) = Some e' ->
  r <> BMerge /\ exists r', set_once (b_in e) r = Some r'
    /\ e' = mkexec (b_command e) (b_args e) (b_env e) (b_cwd e) r' (b_out e) (b_err e) (b_detached e) (b_data e).
Proof.
  unfold apply_op. destruct r; try discriminate;
    (destruct (set_once (b_in e) _) as [r'|]; [|discriminate]; intros H; injection H as <-;
     split; [discriminate|eexists; split; reflexivity]).
Qed.

(* ---------- arguments ---------- *)

Definition added (o : op) : list str :=
  match o with OArg a => [a] | OArgs l => l | _ => [] end.

Lemma apply_args base e o e' : apply_op base e o = Some e' ->
  b_args e' = b_args e ++ added o /\ b_command e' = b_command e.
Proof.
  destruct o as [a|l|k v|l|k| |d|[r|d]|r|r| | |]; cbn; intros H;
    try (injection H as <-; cbn; rewrite ?app_nil_r; split; reflexivity).
  - apply (stdin_redir_inv base) in H. destruct H as [_ [r' [_ ->]]]. cbn. rewrite app_nil_r. split; reflexivity.
  - destruct (b_in e); try discriminate. injection H as <-. cbn. rewrite app_nil_r. split; reflexivity.
  - destruct (set_once (b_out e) r); [|discriminate]. injection H as <-. cbn. rewrite app_nil_r. split; reflexivity.
  - destruct (set_once (b_err e) r); [|discriminate]. injection H as <-. cbn. rewrite app_nil_r. split; reflexivity.
Qed.

(* arguments appear in the order added, after the ones already there; the command is never touched *)
Theorem args_in_order base : forall ops e e', run_plain base e ops = Some e' ->
  b_args e' = b_args e ++ concat (map added ops) /\ b_command e' = b_command e.
Proof.
  induction ops as [|o r IH]; intros e e' H.
  - cbn in H. injection H as <-. cbn. rewrite app_nil_r. split; reflexivity.
  - cbn [run_plain] in H. destruct (apply_op base e o) as [e1|] eqn:A; [|discriminate].
    apply apply_args in A. destruct A as [A1 A2]. destruct (IH _ _ H) as [H1 H2].
    cbn [map concat]. rewrite H1, A1, H2, A2, <- app_assoc. split; reflexivity.
Qed.

(* what the terminator launches: the command followed by exactly those arguments *)
Theorem popen_argv e l : popen e = Some l -> l_argv l = b_command e :: b_args e.
Proof. unfold popen. destruct (b_data e); [discriminate|]. intros H. injection H as <-. reflexivity. Qed.

(* ---------- environment ---------- *)

Definition view (base : envlist) (e : exec) (k : str) : option str := last_binding k (ensure_env base e).

Definition edit (k : str) (o : op) (prev : option str) : option str :=
  match o with
  | OEnv k0 v => if str_eqb k k0 then Some v else prev
  | OEnvExtend l => match last_binding k l with Some v => Some v | None => prev end
  | OEnvRemove k0 => if str_eqb k k0 then None else prev
  | OEnvClear => None
  | _ => prev
  end.

Lemma last_binding_app k l1 l2 :
  last_binding k (l1 ++ l2) = match last_binding k l2 with Some v => Some v | None => last_binding k l1 end.
Proof.
  induction l1 as [|[k0 v0] l1 IH]; cbn [app last_binding].
  - destruct (last_binding k l2); reflexivity.
  - rewrite IH. destruct (last_binding k l2); reflexivity.
Qed.

Lemma str_eqb_sym a b : str_eqb a b = str_eqb b a.
Proof.
  destruct (str_eqb a b) eqn:E.
  - apply str_eqb_eq in E. subst. symmetry. apply str_eqb_refl.
  - destruct (str_eqb b a) eqn:E2; [|reflexivity]. apply str_eqb_eq in E2. subst. rewrite str_eqb_refl in E. discriminate.
Qed.

Lemma last_binding_retain k k0 l :
  last_binding k (filter (fun kv => negb (str_eqb (fst kv) k0)) l) = if str_eqb k k0 then None else last_binding k l.
Proof.
  induction l as [|[k1 v1] l IH]; cbn [filter last_binding fst].
  - destruct (str_eqb k k0); reflexivity.
  - destruct (str_eqb k1 k0) eqn:E1; cbn [negb].
    + rewrite IH. destruct (str_eqb k k0) eqn:E; [reflexivity|].
      destruct (last_binding k l); [reflexivity|].
      destruct (str_eqb k k1) eqn:E2; [|reflexivity].
      apply str_eqb_eq in E1. apply str_eqb_eq in E2. subst. rewrite str_eqb_refl in E. discriminate.
    + cbn [last_binding]. rewrite IH. destruct (str_eqb k k0) eqn:E; [|reflexivity].
      apply str_eqb_eq in E. subst k0. rewrite (str_eqb_sym k k1), E1. reflexivity.
Qed.

Lemma ensure_set base e l : ensure_env base (set_env e l) = l.
Proof. reflexivity. Qed.

(* every call acts on the child's view of every variable as the corresponding edit of a map *)
Theorem view_step base e o e' k : apply_op base e o = Some e' -> view base e' k = edit k o (view base e k).
Proof.
  unfold view. destruct o as [a|l|k0 v|l|k0| |d|[r|d]|r|r| | |]; cbn [apply_op edit]; intros H;
    try (injection H as <-; reflexivity).
  - injection H as <-. rewrite ensure_set, last_binding_app. cbn [last_binding].
    destruct (str_eqb k k0); reflexivity.
  - injection H as <-. rewrite ensure_set, last_binding_app. reflexivity.
  - injection H as <-. rewrite ensure_set. apply last_binding_retain.
  - apply (stdin_redir_inv base) in H. destruct H as [_ [r' [_ ->]]]. reflexivity.
  - destruct (b_in e); try discriminate. injection H as <-. reflexivity.
  - destruct (set_once (b_out e) r); [|discriminate]. injection H as <-. reflexivity.
  - destruct (set_once (b_err e) r); [|discriminate]. injection H as <-. reflexivity.
Qed.

(* ordered edits on a copy of the environment: inherited unless cleared, last value set wins, removed
   names absent unless set again *)
Theorem env_edits_refine_map base k : forall ops e e', run_plain base e ops = Some e' ->
  view base e' k = fold_left (fun prev o => edit k o prev) ops (view base e k).
Proof.
  induction ops as [|o r IH]; intros e e' H.
  - cbn in H. injection H as <-. reflexivity.
  - cbn [run_plain] in H. destruct (apply_op base e o) as [e1|] eqn:A; [|discriminate].
    cbn [fold_left]. rewrite <- (view_step base e o e1 k A). apply IH. exact H.
Qed.

(* no environment call at all: the child inherits (None reaches Popen::create) *)
Theorem untouched_env_inherits base : forall ops e e', run_plain base e ops = Some e' ->
  Forall (fun o => match o with OEnv _ _ | OEnvExtend _ | OEnvRemove _ | OEnvClear => False | _ => True end) ops ->
  b_env e' = b_env e.
Proof.
  induction ops as [|o r IH]; intros e e' H F.
  - cbn in H. injection H as <-. reflexivity.
  - cbn [run_plain] in H. destruct (apply_op base e o) as [e1|] eqn:A; [|discriminate].
    inversion F as [|? ? Fo Fr]; subst. rewrite (IH _ _ H Fr).
    destruct o as [a|l|k0 v|l|k0| |d|[x|d]|x|x| | |]; cbn in A; try contradiction; try (injection A as <-; reflexivity).
    + apply (stdin_redir_inv base) in A. destruct A as [_ [r' [_ ->]]]. reflexivity.
    + destruct (b_in e); try discriminate. injection A as <-. reflexivity.
    + destruct (set_once (b_out e) x); [|discriminate]. injection A as <-. reflexivity.
    + destruct (set_once (b_err e) x); [|discriminate]. injection A as <-. reflexivity.
Qed.

(* ---------- Exec::shell ---------- *)

Theorem shell_single_arg s : forall l, terminate (shell s) TPopen = Some l -> l_argv l = [shell0; shell1; s].
Proof. intros l H. cbn in H. injection H as <-. reflexivity. Qed.

Theorem shell_always_launches s : exists l, terminate (shell s) TPopen = Some l /\ l_argv l = [shell0; shell1; s].
Proof. eexists. split; reflexivity. Qed.

(* ---------- set once ---------- *)

Theorem set_once_spec old new : set_once old new = None <-> old <> BNone /\ ~ (old = BPipe /\ new = BPipe).
Proof.
  destruct old, new; cbn; split; try discriminate; try (intros [H1 H2]; try congruence; exfalso; apply H2; split; reflexivity);
    intros _; split; try discriminate; intros [H1 H2]; discriminate.
Qed.

Theorem stdout_set_once base e r :
  (apply_op base e (OStdout r) = None <-> b_out e <> BNone /\ ~ (b_out e = BPipe /\ r = BPipe))
  /\ (forall e', apply_op base e (OStdout r) = Some e' -> b_out e = BNone /\ b_out e' = r \/ b_out e = BPipe /\ r = BPipe /\ b_out e' = BPipe).
Proof.
  split.
  - pose proof (set_once_spec (b_out e) r) as S. cbn [apply_op]. destruct (set_once (b_out e) r) eqn:Q.
    + split; [discriminate|]. intros H. apply S in H. discriminate.
    + split; [intros _; apply S; reflexivity|reflexivity].
  - cbn. intros e' H. destruct (b_out e) eqn:O, r; cbn in H; try discriminate; injection H as <-; cbn; auto.
Qed.

Theorem stderr_set_once base e r :
  (apply_op base e (OStderr r) = None <-> b_err e <> BNone /\ ~ (b_err e = BPipe /\ r = BPipe))
  /\ (forall e', apply_op base e (OStderr r) = Some e' -> b_err e = BNone /\ b_err e' = r \/ b_err e = BPipe /\ r = BPipe /\ b_err e' = BPipe).
Proof.
  split.
  - pose proof (set_once_spec (b_err e) r) as S. cbn [apply_op]. destruct (set_once (b_err e) r) eqn:Q.
    + split; [discriminate|]. intros H. apply S in H. discriminate.
    + split; [intros _; apply S; reflexivity|reflexivity].
  - cbn. intros e' H. destruct (b_err e) eqn:O, r; cbn in H; try discriminate; injection H as <-; cbn; auto.
Qed.

Lemma stdin_redir_none base e r : r <> BMerge ->
  (apply_op base e (OStdin (IRedir r)) = None <-> set_once (b_in e) r = None).
Proof. intros N. unfold apply_op. destruct r; try congruence; destruct (set_once (b_in e) _); split; congruence. Qed.

Theorem stdin_set_once base e a :
  (apply_op base e (OStdin a) = None <->
   a = IRedir BMerge \/ (b_in e <> BNone /\ ~ (b_in e = BPipe /\ a = IRedir BPipe))).
Proof.
  destruct a as [r|d].
  - destruct r as [| | |id];
      try (split; [intros _; left; reflexivity|reflexivity]);
      (rewrite stdin_redir_none by discriminate; rewrite set_once_spec; split;
       [intros [H1 H2]; right; split; [exact H1|]; intros [A B]; apply H2; split; [exact A|congruence]
       |intros [C|[H1 H2]]; [discriminate C|]; split; [exact H1|]; intros [A B]; apply H2; split; [exact A|congruence]]).
  - cbn [apply_op]. destruct (b_in e); split; try discriminate; try congruence;
      try (intros _; right; split; [discriminate|intros [_ H]; discriminate]);
      intros [C|[H _]]; [discriminate|congruence].
Qed.

(* a stream that has been given a setting keeps it through every later call that does not panic: nothing is
   silently overridden *)
Lemma apply_keeps base e o e' : apply_op base e o = Some e' ->
  (b_in e <> BNone -> b_in e' = b_in e) /\ (b_out e <> BNone -> b_out e' = b_out e) /\ (b_err e <> BNone -> b_err e' = b_err e).
Proof.
  destruct o as [a|l|k0 v|l|k0| |d|[r|d]|r|r| | |]; cbn; intros H;
    try (injection H as <-; cbn; repeat split; reflexivity).
  - apply (stdin_redir_inv base) in H. destruct H as [_ [r' [S ->]]]. cbn.
    destruct (b_in e) eqn:I, r; cbn in S; try discriminate; injection S as <-; repeat split; congruence.
  - destruct (b_in e) eqn:I; try discriminate. injection H as <-. cbn. repeat split; try congruence.
  - destruct (b_out e) eqn:I, r; cbn in H; try discriminate; injection H as <-; cbn; repeat split; congruence.
  - destruct (b_err e) eqn:I, r; cbn in H; try discriminate; injection H as <-; cbn; repeat split; congruence.
Qed.

Theorem never_overridden base : forall ops e e', run_plain base e ops = Some e' ->
  (b_in e <> BNone -> b_in e' = b_in e) /\ (b_out e <> BNone -> b_out e' = b_out e) /\ (b_err e <> BNone -> b_err e' = b_err e).
Proof.
  induction ops as [|o r IH]; intros e e' H.
  - cbn in H. injection H as <-. repeat split; reflexivity.
  - cbn [run_plain] in H. destruct (apply_op base e o) as [e1|] eqn:A; [|discriminate].
    apply apply_keeps in A. destruct A as [A1 [A2 A3]]. destruct (IH _ _ H) as [H1 [H2 H3]].
    repeat split; intros N.
    + rewrite H1; [auto|rewrite A1; auto].
    + rewrite H2; [auto|rewrite A2; auto].
    + rewrite H3; [auto|rewrite A3; auto].
Qed.

(* ---------- input data ---------- *)

(* data always comes with a pipe on stdin *)
Definition data_inv (e : exec) : Prop := b_data e <> None -> b_in e = BPipe.

Lemma data_inv_cmd c : data_inv (cmd c).
Proof. unfold data_inv. cbn. congruence. Qed.

Lemma data_inv_step base e o e' : data_inv e -> apply_op base e o = Some e' -> data_inv e'.
Proof.
  unfold data_inv. destruct o as [a|l|k0 v|l|k0| |d|[r|d]|r|r| | |]; cbn; intros I H;
    try (injection H as <-; cbn; exact I).
  - apply (stdin_redir_inv base) in H. destruct H as [_ [r' [S ->]]]. cbn. intros N. specialize (I N). rewrite I in S.
    destruct r; cbn in S; try discriminate; injection S as <-; reflexivity.
  - destruct (b_in e) eqn:B; try discriminate. injection H as <-. cbn. reflexivity.
  - destruct (set_once (b_out e) r); [|discriminate]. injection H as <-. cbn. exact I.
  - destruct (set_once (b_err e) r); [|discriminate]. injection H as <-. cbn. exact I.
Qed.

(* input data, once given, is never dropped or replaced by a later call *)
Lemma data_kept_step base e o e' : data_inv e -> apply_op base e o = Some e' -> b_data e <> None -> b_data e' = b_data e.
Proof.
  unfold data_inv. destruct o as [a|l|k0 v|l|k0| |d|[r|d]|r|r| | |]; cbn; intros I H N;
    try (injection H as <-; reflexivity).
  - apply (stdin_redir_inv base) in H. destruct H as [_ [r' [_ ->]]]. reflexivity.
  - specialize (I N). rewrite I in H. discriminate.
  - destruct (set_once (b_out e) r); [|discriminate]. injection H as <-. reflexivity.
  - destruct (set_once (b_err e) r); [|discriminate]. injection H as <-. reflexivity.
Qed.

Theorem data_kept base : forall ops e e', data_inv e -> run_plain base e ops = Some e' -> b_data e <> None -> b_data e' = b_data e.
Proof.
  induction ops as [|o r IH]; intros e e' I H N.
  - cbn in H. injection H as <-. reflexivity.
  - cbn [run_plain] in H. destruct (apply_op base e o) as [e1|] eqn:A; [|discriminate].
    pose proof (data_kept_step base e o e1 I A N) as K. rewrite <- K.
    apply (IH e1 e' (data_inv_step base e o e1 I A) H). rewrite K. exact N.
Qed.

Theorem data_inv_reachable base c : forall ops e', run_plain base (cmd c) ops = Some e' -> data_inv e'.
Proof.
  intros ops. generalize (data_inv_cmd c). generalize (cmd c).
  induction ops as [|o r IH]; intros e I e' H.
  - cbn in H. injection H as <-. exact I.
  - cbn [run_plain] in H. destruct (apply_op base e o) as [e1|] eqn:A; [|discriminate].
    eapply IH; [eapply data_inv_step; eassumption|exact H].
Qed.

(* a terminator that cannot deliver input data refuses it loudly; capture and communicate carry it *)
Theorem data_needs_capable_terminator e d :
  b_data e = Some d ->
  terminate e TPopen = None /\ terminate e TJoin = None /\ terminate e TStreamStdout = None
  /\ terminate e TStreamStderr = None /\ terminate e TStreamStdin = None.
Proof. intros H. cbn. unfold popen. rewrite H. repeat split; reflexivity. Qed.

Theorem data_delivered e d : b_data e = Some d -> data_inv e ->
  forall t, t = TCapture \/ t = TCommunicate ->
  forall l, terminate e t = Some l -> l_data l = Some d /\ l_in l = BPipe /\ l_argv l = b_command e :: b_args e /\ l_panics_after l = false.
Proof.
  intros H I t Ht l T. assert (b_in e = BPipe) as Hin by (apply I; congruence).
  destruct Ht as [-> | ->]; cbn in T; unfold setup_communicate, no_data in T; cbn in T;
    rewrite H in T;
    destruct (b_out e) eqn:O, (b_err e) eqn:E; cbn in T; injection T as <-; cbn; rewrite ?Hin; auto.
Qed.

(* capture / communicate without any output setting capture stdout; an explicit setting is kept *)
Theorem capture_default_stdout e l : terminate e TCapture = Some l ->
  (b_out e = BNone /\ b_err e = BNone -> l_out l = BPipe /\ l_err l = BNone)
  /\ (~ (b_out e = BNone /\ b_err e = BNone) -> l_out l = b_out e /\ l_err l = b_err e)
  /\ l_detached l = b_detached e.
Proof.
  cbn. unfold setup_communicate, no_data. cbn. destruct (b_out e) eqn:O, (b_err e) eqn:E; cbn; intros T; injection T as <-; cbn;
    (split; [intros [A B]; try discriminate; split; reflexivity
            |split; [intros N; try (exfalso; apply N; split; reflexivity); split; reflexivity|reflexivity]]).
Qed.

Theorem communicate_detaches e l : terminate e TCommunicate = Some l -> l_detached l = true.
Proof.
  cbn. unfold setup_communicate, no_data. cbn. destruct (b_out e), (b_err e); cbn; intros T; injection T as <-; reflexivity.
Qed.

(* ---------- working directory and detached ---------- *)

Definition cwd_edit (o : op) (prev : option str) : option str := match o with OCwd d => Some d | _ => prev end.
Definition det_edit (o : op) (prev : bool) : bool := match o with ODetached => true | _ => prev end.
Definition is_cwd (o : op) : bool := match o with OCwd _ => true | _ => false end.
Definition is_detached (o : op) : bool := match o with ODetached => true | _ => false end.

Lemma apply_cwd_det base e o e' : apply_op base e o = Some e' ->
  b_cwd e' = cwd_edit o (b_cwd e) /\ b_detached e' = det_edit o (b_detached e).
Proof.
  destruct o as [a|l|k v|l|k| |d|[r|d]|r|r| | |]; cbn; intros H;
    try (injection H as <-; cbn; split; reflexivity).
  - apply (stdin_redir_inv base) in H. destruct H as [_ [r' [_ ->]]]. cbn. split; reflexivity.
  - destruct (b_in e); try discriminate. injection H as <-. cbn. split; reflexivity.
  - destruct (set_once (b_out e) r); [|discriminate]. injection H as <-. cbn. split; reflexivity.
  - destruct (set_once (b_err e) r); [|discriminate]. injection H as <-. cbn. split; reflexivity.
Qed.

(* cwd() and detached() are plain edits: the description after any sequence of calls is the fold of them *)
Theorem cwd_detached_fold base : forall ops e e', run_plain base e ops = Some e' ->
  b_cwd e' = fold_left (fun c o => cwd_edit o c) ops (b_cwd e)
  /\ b_detached e' = fold_left (fun b o => det_edit o b) ops (b_detached e).
Proof.
  induction ops as [|o r IH]; intros e e' H.
  - cbn in H. injection H as <-. split; reflexivity.
  - cbn [run_plain] in H. destruct (apply_op base e o) as [e1|] eqn:A; [|discriminate].
    apply apply_cwd_det in A. destruct A as [A1 A2]. destruct (IH _ _ H) as [H1 H2].
    cbn [fold_left]. rewrite H1, H2, A1, A2. split; reflexivity.
Qed.

Lemma fold_cwd_untouched : forall ops c, forallb (fun o => negb (is_cwd o)) ops = true ->
  fold_left (fun c o => cwd_edit o c) ops c = c.
Proof.
  induction ops as [|o r IH]; intros c H; [reflexivity|].
  cbn [forallb] in H. apply andb_prop in H. destruct H as [Ho Hr]. cbn [fold_left].
  rewrite (IH _ Hr). destruct o; try reflexivity. discriminate Ho.
Qed.

Lemma fold_det_true : forall ops, fold_left (fun b o => det_edit o b) ops true = true.
Proof. induction ops as [|o r IH]; [reflexivity|]. cbn [fold_left]. destruct o; exact IH. Qed.

Lemma fold_det_exists : forall ops b, fold_left (fun b o => det_edit o b) ops b = b || existsb is_detached ops.
Proof.
  induction ops as [|o r IH]; intros b; [cbn; rewrite orb_false_r; reflexivity|].
  cbn [fold_left existsb]. rewrite IH. destruct o; cbn [det_edit is_detached]; rewrite ?orb_false_l; try reflexivity.
  rewrite !orb_true_l, orb_true_r. reflexivity.
Qed.

(* the last cwd() call wins; without any, the directory is the one the description had (none for a fresh command) *)
Theorem cwd_last_wins base ops1 d ops2 e e' :
  run_plain base e (ops1 ++ OCwd d :: ops2) = Some e' -> forallb (fun o => negb (is_cwd o)) ops2 = true ->
  b_cwd e' = Some d.
Proof.
  intros H N. apply cwd_detached_fold in H. destruct H as [H _]. rewrite H, fold_left_app. cbn [fold_left cwd_edit].
  apply fold_cwd_untouched. exact N.
Qed.

Theorem cwd_untouched base ops e e' :
  run_plain base e ops = Some e' -> forallb (fun o => negb (is_cwd o)) ops = true -> b_cwd e' = b_cwd e.
Proof. intros H N. apply cwd_detached_fold in H. destruct H as [H _]. rewrite H. apply fold_cwd_untouched. exact N. Qed.

(* detached() is sticky and nothing else sets it *)
Theorem detached_iff_called base ops e e' :
  run_plain base e ops = Some e' -> b_detached e' = b_detached e || existsb is_detached ops.
Proof. intros H. apply cwd_detached_fold in H. destruct H as [_ H]. rewrite H. apply fold_det_exists. Qed.

(* every terminator launches with the description's directory and environment; only communicate() changes the
   detached flag (it sets it) *)
Theorem terminate_carries e t l : terminate e t = Some l ->
  l_cwd l = b_cwd e /\ l_env l = b_env e /\ l_argv l = b_command e :: b_args e
  /\ l_detached l = (match t with TCommunicate => true | _ => b_detached e end).
Proof.
  destruct t; cbn; unfold popen, setup_communicate, no_data, set_once; cbn;
    destruct (b_data e), (b_in e), (b_out e), (b_err e); cbn; intros T; try discriminate;
    injection T as <-; cbn; repeat split; reflexivity.
Qed.

(* ---------- clone ---------- *)

(* the two handles are independent: calls on the current handle leave the other one untouched, a clone
   equals its original at the moment of cloning, and swapping only exchanges them *)
Theorem clone_independent base cur other o st' :
  step base (cur, other) o = Some st' ->
  match o with
  | OClone => st' = (cur, Some cur)
  | OSwap => st' = match other with Some s => (s, Some cur) | None => (cur, None) end
  | _ => snd st' = other /\ apply_op base cur o = Some (fst st')
  end.
Proof.
  destruct o as [a|l|k0 v|l|k0| |d|x|x|x| | |]; cbn [step]; intros H;
    try (destruct (apply_op base cur _) as [c|] eqn:A; [|discriminate]; injection H as <-; split; reflexivity).
  - injection H as <-. reflexivity.
  - destruct other; injection H as <-; reflexivity.
Qed.

(* the other handle's terminator result depends only on the calls made while it was current *)
Fixpoint cur_ops (ops : list op) : list op :=
  match ops with
  | [] => []
  | OClone :: _ => []
  | o :: r => o :: cur_ops r
  end.

Theorem clone_equivalent base e ops1 ops2 e1 :
  Forall (fun o => o <> OClone /\ o <> OSwap) ops1 -> Forall (fun o => o <> OClone /\ o <> OSwap) ops2 ->
  run_plain base e ops1 = Some e1 ->
  match run_ops base (e, None) (ops1 ++ OClone :: ops2) 0 with
  | inl (cur, other) => other = Some e1 /\ run_plain base e1 ops2 = Some cur
  | inr _ => run_plain base e1 ops2 = None
  end.
Proof.
  intros F1 F2 R1.
  assert (forall ops st i, Forall (fun o => o <> OClone /\ o <> OSwap) ops ->
            run_ops base st ops i = match run_plain base (fst st) ops with
                                    | Some c => inl (c, snd st)
                                    | None => run_ops base st ops i
                                    end) as G.
  { induction ops as [|o r IH]; intros [c ot] i F; [reflexivity|].
    inversion F as [|? ? [N1 N2] Fr]; subst. cbn [run_ops run_plain fst snd].
    assert (step base (c, ot) o = match apply_op base c o with Some c' => Some (c', ot) | None => None end) as S.
    { destruct o; try reflexivity; congruence. }
    rewrite S. destruct (apply_op base c o) as [c'|]; [|reflexivity].
    rewrite (IH (c', ot) (i + 1) Fr). cbn [fst snd]. destruct (run_plain base c' r); reflexivity. }
  assert (forall ops st i, Forall (fun o => o <> OClone /\ o <> OSwap) ops -> run_plain base (fst st) ops = None ->
            exists j, run_ops base st ops i = inr j) as G2.
  { induction ops as [|o r IH]; intros [c ot] i F N; [discriminate|].
    inversion F as [|? ? [N1 N2] Fr]; subst. cbn [run_ops run_plain fst] in *.
    assert (step base (c, ot) o = match apply_op base c o with Some c' => Some (c', ot) | None => None end) as S.
    { destruct o; try reflexivity; congruence. }
    rewrite S. destruct (apply_op base c o) as [c'|]; [|eexists; reflexivity]. apply (IH (c', ot)); assumption. }
  assert (forall ops2' st i, run_ops base st (ops1 ++ ops2') i =
            match run_plain base (fst st) ops1 with
            | Some c => run_ops base (c, snd st) ops2' (i + N.of_nat (length ops1))
            | None => run_ops base st (ops1 ++ ops2') i
            end) as G3.
  { clear R1. induction ops1 as [|o r IH]; intros ops2' [c ot] i.
    - cbn. rewrite N.add_0_r. reflexivity.
    - inversion F1 as [|? ? [N1 N2] Fr]; subst. cbn [app run_ops run_plain fst snd].
      assert (step base (c, ot) o = match apply_op base c o with Some c' => Some (c', ot) | None => None end) as S.
      { destruct o; try reflexivity; congruence. }
      rewrite S. destruct (apply_op base c o) as [c'|]; [|reflexivity].
      rewrite (IH Fr ops2' (c', ot) (i + 1)). cbn [fst snd]. destruct (run_plain base c' r); [|reflexivity].
      f_equal. cbn [length]. lia. }
  rewrite G3. cbn [fst snd]. rewrite R1. cbn [run_ops step].
  destruct (run_plain base e1 ops2) as [c|] eqn:R2.
  - rewrite G by assumption. cbn [fst snd]. rewrite R2. split; reflexivity.
  - destruct (G2 ops2 (e1, Some e1) (0 + N.of_nat (length ops1) + 1) F2 R2) as [j ->]. reflexivity.
Qed.
