(* Basic facts about the communicate machine L (Lib/Comm.v): every helper only moves the program
   counter, and the pending action always matches the state it was emitted from. *)
From Coq Require Import List NArith ZArith Bool Lia.
Require Import SP.Params SP.Lib.Comm.
Import ListNotations.
Open Scope N_scope.

(* keep the numeric constants folded: a large WRITE_SIZE must break the side-condition lemma, not hang a tactic *)
Global Opaque WRITE_SIZE READ_CHUNK POLL_CLAMP_MS.

Arguments N.add : simpl never.
Arguments N.sub : simpl never.
Arguments N.mul : simpl never.
Arguments N.leb : simpl never.
Arguments N.eqb : simpl never.
Arguments N.min : simpl never.
Arguments N.max : simpl never.
Arguments N.div : simpl never.
Arguments N.land : simpl never.
Arguments N.lor : simpl never.
Arguments N.to_nat : simpl never.
Arguments N.of_nat : simpl never.

Ltac break_match :=
  repeat match goal with
         | |- context [match ?x with _ => _ end] => destruct x eqn:?
         | |- context [if ?x then _ else _] => destruct x eqn:?
         end.
Ltac break_hyp H :=
  repeat match type of H with
         | context [match ?x with _ => _ end] => destruct x eqn:?
         | context [if ?x then _ else _] => destruct x eqn:?
         end.

(* what the pending action says about the state it was emitted from *)
Definition J (s : cst) (a : action) : Prop :=
  match a with
  | Call (KRead SErr n) => pc s = PReadErr /\ eref s = true /\ read_size s = Some n
  | Call (KRead SOut n) => (exists rerr, pc s = PReadOut rerr) /\ oref s = true /\ read_size s = Some n
  | Call (KRead SIn _) => False
  | Call (KWrite b) => (exists ro re, pc s = PWrite ro re) /\ c_in (cm s) = true
                       /\ b = firstn (N.to_nat WRITE_SIZE) (c_input (cm s))
  | Call KClose => (exists ro re, pc s = PClose ro re) /\ c_in (cm s) = true /\ c_input (cm s) = []
  | Call (KPoll fi fo fe t) => fi = c_in (cm s) /\ fo = oref s /\ fe = eref s
                               /\ (fi || fo || fe = true)
                               /\ ((pc s = PPoll None false /\ deadline s = None /\ t = (-1)%Z /\ limit_reached s = false)
                                   \/ (exists d ovf, pc s = PPoll (Some d) ovf /\ deadline s <> None /\ (0 <= t)%Z))
  | Call KClock => (exists tl, pc s = PStart tl)
                   \/ ((pc s = PClock1 \/ (exists t, pc s = PClock2 t) \/ (exists d, pc s = PClock3 d))
                       /\ deadline s <> None /\ (c_in (cm s) || oref s || eref s = true))
                   \/ (pc s = PEndClock /\ deadline s <> None)
  | Ret e => pc s = PReturned /\
             (e = None -> limit_reached s = true
                          \/ (c_in (cm s) = false /\ oref s = false /\ eref s = false))
  | Stuck => False
  end.

(* the data part of the state: everything but the program counter *)
Definition data (s : cst) := (cm s, oref s, eref s, outv s, errv s, limit s, deadline s, timed_out s).

Lemma set_pc_data s p : data (set_pc s p) = data s.
Proof. reflexivity. Qed.

Lemma read_size_data s s' : data s = data s' -> read_size s = read_size s'.
Proof. unfold data, read_size, total. intros H. injection H as H1 H2 H3 H4 H5 H6 H7 H8. rewrite H4, H5, H6. reflexivity. Qed.

Lemma io_err_spec rerr s s' c : io_err rerr s = Some (s', c) ->
  data s' = data s /\ J s' (Call c) /\ exists n, c = KRead SErr n.
Proof.
  unfold io_err. intros H. break_hyp H; try discriminate. injection H as <- <-.
  split; [reflexivity|]. split; [|eexists; reflexivity].
  cbn [J]. apply andb_true_iff in Heqb. destruct Heqb as [_ He]. auto.
Qed.

Lemma io_out_spec rout rerr s s' c : io_out rout rerr s = Some (s', c) ->
  data s' = data s /\ J s' (Call c) /\ exists st n, c = KRead st n /\ st <> SIn.
Proof.
  unfold io_out. intros H. destruct (rout && oref s) eqn:E.
  - destruct (read_size s) eqn:R.
    + injection H as <- <-. split; [reflexivity|]. split.
      * cbn [J]. apply andb_true_iff in E. destruct E as [_ Ho]. split; [eexists; reflexivity|]. auto.
      * eexists. eexists. split; [reflexivity|discriminate].
    + destruct (io_err_spec _ _ _ _ H) as [H1 [H2 [n ->]]]. split; [exact H1|]. split; [exact H2|].
      eexists. eexists. split; [reflexivity|discriminate].
  - destruct (io_err_spec _ _ _ _ H) as [H1 [H2 [n ->]]]. split; [exact H1|]. split; [exact H2|].
    eexists. eexists. split; [reflexivity|discriminate].
Qed.

Lemma io_in_spec rin rout rerr s s' c : io_in rin rout rerr s = Some (s', c) ->
  data s' = data s /\ J s' (Call c).
Proof.
  unfold io_in. intros H. destruct (rin && c_in (cm s)) eqn:E.
  - injection H as <- <-. split; [reflexivity|]. cbn [J]. apply andb_true_iff in E. destruct E as [_ Hi].
    split; [eexists; eexists; reflexivity|]. auto.
  - destruct (io_out_spec _ _ _ _ _ H) as [H1 [H2 _]]. auto.
Qed.

Lemma ret_spec s e : data (fst (ret s (Some e))) = data s /\ J (fst (ret s (Some e))) (snd (ret s (Some e))).
Proof. split; [reflexivity|]. cbn [J ret fst snd set_pc pc]. split; [reflexivity|discriminate]. Qed.

Lemma ret_none_spec s : limit_reached s = true \/ (c_in (cm s) = false /\ oref s = false /\ eref s = false) ->
  data (fst (ret s None)) = data s /\ J (fst (ret s None)) (snd (ret s None)).
Proof. intros H. split; [reflexivity|]. cbn [J ret fst snd set_pc pc]. split; [reflexivity|]. intros _. exact H. Qed.

(* the loop head never gets stuck: in the single-stream shortcut the one guarded I/O step does issue its call *)
Lemma from_head_spec s : data (fst (from_head s)) = data s /\ J (fst (from_head s)) (snd (from_head s)).
Proof.
  unfold from_head.
  destruct (limit_reached s) eqn:L; [apply ret_none_spec; left; exact L|].
  destruct (negb (c_in (cm s)) && negb (oref s) && negb (eref s)) eqn:N.
  { apply ret_none_spec. right. destruct (c_in (cm s)), (oref s), (eref s); try discriminate; auto. }
  destruct (timed_out s); [apply ret_spec|].
  destruct (deadline s) eqn:D.
  - split; [reflexivity|]. cbn [J fst snd set_pc pc deadline cm oref eref]. right. left.
    split; [auto|]. split; [rewrite D; discriminate|].
    destruct (c_in (cm s)), (oref s), (eref s); try reflexivity; discriminate.
  - assert (read_size s <> None) as Hrs.
    { unfold read_size. unfold limit_reached in L. destruct (limit s); [rewrite L|]; discriminate. }
    destruct (c_in (cm s)) eqn:Ci; destruct (oref s) eqn:Co; destruct (eref s) eqn:Ce;
      try discriminate;
      try (split; [reflexivity|]; cbn [J fst snd set_pc pc cm oref eref deadline]; rewrite ?Ci, ?Co, ?Ce, ?D;
           repeat split; try reflexivity; left; repeat split; auto).
    + (* stdin only *)
      unfold with_flags, io_in. rewrite Ci. cbn [andb fst snd]. split; [reflexivity|].
      cbn [J set_pc pc cm]. split; [eexists; eexists; reflexivity|]. auto.
    + (* stdout only *)
      unfold with_flags, io_in, io_out. rewrite Ci, Co. cbn [andb].
      destruct (read_size s) eqn:R; [|congruence]. cbn [fst snd]. split; [reflexivity|].
      cbn [J set_pc pc oref]. split; [eexists; reflexivity|]. auto.
    + (* stderr only *)
      unfold with_flags, io_in, io_out, io_err. rewrite Ci, Co, Ce. cbn [andb].
      destruct (read_size s) eqn:R; [|congruence]. cbn [fst snd]. split; [reflexivity|].
      cbn [J set_pc pc eref]. auto.
Qed.

Lemma end_iter_spec s : data (fst (end_iter s)) = data s /\ J (fst (end_iter s)) (snd (end_iter s)).
Proof.
  unfold end_iter. destruct (deadline s) eqn:D; [|apply from_head_spec].
  split; [reflexivity|]. cbn [J fst snd set_pc pc deadline]. right. right. split; [reflexivity|]. rewrite D. discriminate.
Qed.

Lemma cont_err_spec rerr s : data (fst (cont_err rerr s)) = data s /\ J (fst (cont_err rerr s)) (snd (cont_err rerr s)).
Proof.
  unfold cont_err. destruct (io_err rerr s) as [[s' c]|] eqn:E; [|apply end_iter_spec].
  destruct (io_err_spec _ _ _ _ E) as [H1 [H2 _]]. auto.
Qed.

Lemma cont_out_spec rout rerr s : data (fst (cont_out rout rerr s)) = data s /\ J (fst (cont_out rout rerr s)) (snd (cont_out rout rerr s)).
Proof.
  unfold cont_out. destruct (io_out rout rerr s) as [[s' c]|] eqn:E; [|apply end_iter_spec].
  destruct (io_out_spec _ _ _ _ _ E) as [H1 [H2 _]]. auto.
Qed.

Lemma after_flags_spec rin rout rerr s :
  data (fst (after_flags rin rout rerr s)) = data s /\ J (fst (after_flags rin rout rerr s)) (snd (after_flags rin rout rerr s)).
Proof.
  unfold after_flags. destruct (negb rin && negb rout && negb rerr); [apply ret_spec|].
  unfold with_flags. destruct (io_in rin rout rerr s) as [[s' c]|] eqn:E; [|apply end_iter_spec].
  destruct (io_in_spec _ _ _ _ _ _ E) as [H1 H2]. auto.
Qed.

Lemma emit_poll_spec s timeout pdl : deadline s <> None -> (c_in (cm s) || oref s || eref s = true) ->
  data (fst (emit_poll s timeout pdl)) = data s /\ J (fst (emit_poll s timeout pdl)) (snd (emit_poll s timeout pdl)).
Proof.
  intros Hd Hs. unfold emit_poll. destruct (ms_of_ns timeout <=? POLL_CLAMP_MS); cbn [fst snd]; (split; [reflexivity|]);
    cbn [J set_pc pc cm oref eref deadline]; repeat split; try exact Hs; right; eexists; eexists; (split; [reflexivity|split; [exact Hd|lia]]).
Qed.

Ltac Jinv Hj c :=
  destruct c as [?fi ?fo ?fe ?tm|?bb| |?st ?nn|]; try destruct st; cbn [J] in Hj;
  repeat match type of Hj with
         | _ /\ _ => let a := fresh "Hj" in destruct Hj as [a Hj]
         | _ \/ _ => destruct Hj as [Hj|Hj]
         | exists _, _ => let x := fresh "x" in destruct Hj as [x Hj]
         | False => destruct Hj
         end;
  repeat match goal with
         | H : _ /\ _ |- _ => destruct H
         | H : _ \/ _ |- _ => destruct H
         | H : exists _, _ |- _ => destruct H
         end.

Lemma J_clock_facts s c : J s (Call c) ->
  (pc s = PClock1 \/ (exists t, pc s = PClock2 t) \/ (exists d, pc s = PClock3 d)) ->
  deadline s <> None /\ (c_in (cm s) || oref s || eref s = true).
Proof.
  intros Hj Hp. Jinv Hj c; try congruence; auto.
Qed.

Lemma J_ppoll_some s c d ovf : J s (Call c) -> pc s = PPoll (Some d) ovf ->
  deadline s <> None /\ (c_in (cm s) || oref s || eref s = true).
Proof.
  intros Hj Hp. Jinv Hj c; try congruence; subst; auto.
Qed.

Lemma J_pwrite s c ro re : J s (Call c) -> pc s = PWrite ro re -> c_in (cm s) = true.
Proof. intros Hj Hp. Jinv Hj c; try congruence. Qed.

Ltac solve_spec :=
  first [apply ret_spec | apply cont_out_spec | apply cont_err_spec | apply end_iter_spec
        | apply from_head_spec | apply after_flags_spec].

(* one step of L: whatever result is fed, the new pending action matches the new state *)
Lemma step_J s c r : J s (Call c) -> J (fst (step s r)) (snd (step s r)).
Proof.
  intros Hj. unfold step.
  destruct (pc s) eqn:P; destruct r as [cnt ri ro re|n|b| |t|e]; try solve_spec.
  - (* PClock1, RNow *)
    destruct (J_clock_facts s c Hj (or_introl P)) as [Hd Hs].
    destruct (deadline s) eqn:D; [|congruence]. cbn [fst snd J set_pc pc deadline cm oref eref].
    right. left. split; [right; left; eexists; reflexivity|]. rewrite D. auto.
  - (* PClock2, RNow *)
    destruct (J_clock_facts s c Hj (or_intror (or_introl (ex_intro _ _ P)))) as [Hd Hs].
    apply emit_poll_spec; assumption.
  - (* PPoll, RPoll *)
    destruct (negb (cnt =? 0) || negb ovf); [apply after_flags_spec|].
    destruct pdl as [d|]; [|apply ret_spec].
    destruct (J_ppoll_some s c d ovf Hj P) as [Hd Hs].
    cbn [J fst snd set_pc pc deadline cm oref eref]. right. left. split; [right; right; eexists; reflexivity|]. auto.
  - (* PClock3, RNow *)
    destruct (J_clock_facts s c Hj (or_intror (or_intror (ex_intro _ _ P)))) as [Hd Hs].
    destruct (pdl <=? t); [apply after_flags_spec|]. apply emit_poll_spec; assumption.
  - (* PWrite, RWrote *)
    pose proof (J_pwrite s c _ _ Hj P) as Hi.
    destruct (skipn (N.to_nat n) (c_input (cm s))) eqn:Sk; [|apply cont_out_spec].
    cbn [fst snd J set_pc set_cm pc cm c_in c_input]. split; [eexists; eexists; reflexivity|]. auto.
  - (* PEndClock, RNow *) destruct (deadline s); [apply from_head_spec|apply ret_spec].
Qed.

Lemma start_J c lim tl : J (fst (start c lim tl)) (snd (start c lim tl)).
Proof.
  unfold start. destruct tl; [|apply from_head_spec]. cbn [fst snd J set_pc pc]. left. eexists. reflexivity.
Qed.

(* ---------- how one step changes the data ---------- *)

Definition set_input (c : comm) (i : list N) : comm :=
  {| c_in := c_in c; c_out := c_out c; c_err := c_err c; c_input := i |}.
Definition closed_in (c : comm) : comm :=
  {| c_in := false; c_out := c_out c; c_err := c_err c; c_input := [] |}.

Lemma step_err s r e : r = RErr e -> step s r = ret s (Some (EOs e)).
Proof. intros ->. unfold step. destruct (pc s); reflexivity. Qed.

Lemma step_write_data s b n : J s (Call (KWrite b)) ->
  data (fst (step s (RWrote n))) =
  (set_input (cm s) (skipn (N.to_nat n) (c_input (cm s))), oref s, eref s, outv s, errv s, limit s, deadline s, timed_out s)
  /\ (skipn (N.to_nat n) (c_input (cm s)) = [] -> snd (step s (RWrote n)) = Call KClose).
Proof.
  intros [[ro [re P]] _]. unfold step. rewrite P.
  destruct (skipn (N.to_nat n) (c_input (cm s))) eqn:Sk.
  - split; [reflexivity|reflexivity].
  - split; [|discriminate]. rewrite (proj1 (cont_out_spec _ _ _)). reflexivity.
Qed.

Lemma step_close_data s r : J s (Call KClose) -> (forall e, r <> RErr e) ->
  data (fst (step s r)) = (closed_in (cm s), oref s, eref s, outv s, errv s, limit s, deadline s, timed_out s).
Proof.
  intros [[ro [re P]] _] Hr. unfold step. rewrite P.
  destruct r; try (rewrite (proj1 (cont_out_spec _ _ _)); reflexivity). exfalso. exact (Hr _ eq_refl).
Qed.

Lemma step_readout_data s n b : J s (Call (KRead SOut n)) ->
  data (fst (step s (RData b))) =
  (cm s, match b with [] => false | _ => oref s end, eref s, outv s ++ b, errv s, limit s, deadline s, timed_out s).
Proof.
  intros [[re P] _]. unfold step. rewrite P. rewrite (proj1 (cont_err_spec _ _)).
  destruct b; [rewrite app_nil_r|]; reflexivity.
Qed.

Lemma step_readerr_data s n b : J s (Call (KRead SErr n)) ->
  data (fst (step s (RData b))) =
  (cm s, oref s, match b with [] => false | _ => eref s end, outv s, errv s ++ b, limit s, deadline s, timed_out s).
Proof.
  intros [P _]. unfold step. rewrite P. rewrite (proj1 (end_iter_spec _)).
  destruct b; [rewrite app_nil_r|]; reflexivity.
Qed.

Lemma step_poll_data s fi fo fe t cnt ri ro re : J s (Call (KPoll fi fo fe t)) ->
  data (fst (step s (RPoll cnt ri ro re))) = data s.
Proof.
  intros Hj. unfold step.
  assert (exists pdl ovf, pc s = PPoll pdl ovf) as [pdl [ovf P]].
  { cbn [J] in Hj. destruct Hj as [_ [_ [_ [_ [[P _]|[d [ovf [P _]]]]]]]]; eauto. }
  rewrite P. destruct (negb (cnt =? 0) || negb ovf); [apply after_flags_spec|].
  destruct pdl; reflexivity.
Qed.

Lemma data_fields s s' : data s' = data s ->
  cm s' = cm s /\ oref s' = oref s /\ eref s' = eref s /\ outv s' = outv s /\ errv s' = errv s /\ limit s' = limit s
  /\ deadline s' = deadline s /\ timed_out s' = timed_out s.
Proof. unfold data. intros H. repeat split; congruence. Qed.

(* clock readings change only deadline / timed_out *)
Lemma step_clock_data s t : J s (Call KClock) ->
  let s' := fst (step s (RNow t)) in
  cm s' = cm s /\ oref s' = oref s /\ eref s' = eref s /\ outv s' = outv s /\ errv s' = errv s /\ limit s' = limit s
  /\ ((exists tl, pc s = PStart tl) \/ deadline s' = deadline s).
Proof.
  intros Hj. cbn zeta. unfold step. cbn [J] in Hj.
  destruct Hj as [[tl P]|[[[P|[[tt P]|[d P]]] [Hd Hs]]|[P Hd]]]; rewrite P.
  - destruct (data_fields _ _ (proj1 (from_head_spec {| cm := cm s; oref := oref s; eref := eref s; outv := outv s; errv := errv s;
        limit := limit s; deadline := Some (t + tl); timed_out := false; pc := PStart tl |}))) as [H1 [H2 [H3 [H4 [H5 [H6 _]]]]]].
    cbn in *. repeat split; try assumption. left. eauto.
  - destruct (deadline s) eqn:D; [|congruence]. cbn. repeat split; auto.
  - destruct (data_fields _ _ (proj1 (emit_poll_spec s tt (t + tt) Hd Hs))) as [H1 [H2 [H3 [H4 [H5 [H6 [H7 _]]]]]]].
    repeat split; auto.
  - destruct (d <=? t).
    + destruct (data_fields _ _ (proj1 (after_flags_spec false false false s))) as [H1 [H2 [H3 [H4 [H5 [H6 [H7 _]]]]]]].
      repeat split; auto.
    + destruct (data_fields _ _ (proj1 (emit_poll_spec s (d - t) d Hd Hs))) as [H1 [H2 [H3 [H4 [H5 [H6 [H7 _]]]]]]].
      repeat split; auto.
  - destruct (deadline s) eqn:D; [|congruence].
    destruct (data_fields _ _ (proj1 (from_head_spec {| cm := cm s; oref := oref s; eref := eref s; outv := outv s; errv := errv s;
        limit := limit s; deadline := Some n; timed_out := n <=? t; pc := PEndClock |}))) as [H1 [H2 [H3 [H4 [H5 [H6 [H7 _]]]]]]].
    cbn in *. repeat split; auto.
Qed.
