(* The reachability invariant of the closed system G (Kernel/CommSys.v) and its preservation by every
   step of every party.  C01-C04 all stand on it. *)
From Coq Require Import List NArith ZArith Bool Arith Lia.
Require Import SP.Params SP.Lib.Comm SP.Kernel.CommK SP.Kernel.CommSys SP.Proofs.CommBase SP.Proofs.CommReady.
Import ListNotations.

(* ---------- structural part ---------- *)

Definition pipe_ok (p : pipe) : Prop := (length (buf p) <= cap p)%nat /\ (PIPE_BUF <= cap p)%nat.

Record InvB (s : cst) (w : world) : Prop := {
  b_cfg_out : c_out (cm s) = piped_out w;
  b_cfg_err : c_err (cm s) = piped_err w;
  b_cfg_in : c_in (cm s) = true -> piped_in w = true;
  b_oref : oref s = true -> c_out (cm s) = true;
  b_eref : eref s = true -> c_err (cm s) = true;
  b_pin : pipe_ok (pin w);
  b_pout : pipe_ok (pout w);
  b_perr : pipe_ok (perr w);
  b_rd_out : rd (pout w) = true;
  b_rd_err : rd (perr w) = true;
  b_wr_in : piped_in w = true -> wr (pin w) = c_in (cm s);
  b_eof_out : piped_out w = true -> oref s = false -> wr (pout w) = false /\ buf (pout w) = [];
  b_eof_err : piped_err w = true -> eref s = false -> wr (perr w) = false /\ buf (perr w) = [];
  b_dead : alive w = false -> rd (pin w) = false /\ wr (pout w) = false /\ wr (perr w) = false /\ prog w = [];
  b_limit : forall l, limit s = Some l -> (total s <= l)%N;
  b_in_empty : c_in (cm s) = false -> c_input (cm s) = [];
  b_ceof : piped_in w = true -> child_eof w = true -> buf (pin w) = [] /\ wr (pin w) = false
}.

(* ---------- ghost part: nothing lost, duplicated or reordered ---------- *)

Record InvC (g : gstate) : Prop := {
  c_out_bytes : piped_out (gw g) = true -> gdout g ++ outv (gl g) ++ buf (pout (gw g)) = wrote_out (gw g);
  c_err_bytes : piped_err (gw g) = true -> gderr g ++ errv (gl g) ++ buf (perr (gw g)) = wrote_err (gw g);
  c_in_bytes : piped_in (gw g) = true -> child_got (gw g) ++ buf (pin (gw g)) ++ c_input (cm (gl g)) = ginput0 g;
  c_no_out : piped_out (gw g) = false -> outv (gl g) = [];
  c_no_err : piped_err (gw g) = false -> errv (gl g) = []
}.

Record Inv (g : gstate) : Prop := {
  i_J : J (gl g) (ga g);
  i_ready : ready_of (gl g) (ga g) (gw g);
  i_B : InvB (gl g) (gw g);
  i_C : InvC g
}.

(* ---------- facts about K's transitions ---------- *)

Lemma pick_le k m : (pick k m <= m)%nat.
Proof. unfold pick. destruct (k =? 0)%nat; lia. Qed.

Lemma pick_pos k m : (1 <= m)%nat -> (1 <= pick k m)%nat.
Proof. unfold pick. destruct (k =? 0)%nat eqn:E; [lia|]. apply Nat.eqb_neq in E. lia. Qed.

Lemma firstn_skipn_app {A} n (l : list A) : firstn n l ++ skipn n l = l.
Proof. apply firstn_skipn. Qed.

(* k_write: either EPIPE, or m bytes (1 <= m <= n, or 0 of 0) appended to the stdin pipe *)
Lemma k_write_spec w b k w' r : k_write w b k = KDone w' r ->
  (r = RErr EPIPE /\ w' = w /\ rd (pin w) = false)
  \/ (exists m, r = RWrote (N.of_nat m) /\ (m <= length b)%nat /\ (b <> [] -> 1 <= m)%nat /\ rd (pin w) = true
       /\ (length b <= free (pin w) \/ b = [])%nat
       /\ pin w' = push (pin w) (firstn m b) /\ pout w' = pout w /\ perr w' = perr w
       /\ piped_in w' = piped_in w /\ piped_out w' = piped_out w /\ piped_err w' = piped_err w
       /\ prog w' = prog w /\ alive w' = alive w /\ now w' = now w
       /\ wrote_out w' = wrote_out w /\ wrote_err w' = wrote_err w /\ child_got w' = child_got w
       /\ child_eof w' = child_eof w).
Proof.
  unfold k_write. destruct (rd (pin w)) eqn:R; cbn [negb].
  2:{ intros H. injection H as <- <-. left. auto. }
  destruct b as [|b0 b].
  - intros H. injection H as <- <-. right. exists 0%nat. cbn. repeat split; auto; try lia.
    + intros H; congruence.
    + unfold push. cbn. rewrite app_nil_r. destruct (pin w); reflexivity.
  - destruct (length (b0 :: b) <=? free (pin w))%nat eqn:E; [|discriminate].
    intros H. injection H as <- <-. right. apply Nat.leb_le in E.
    exists (pick k (length (b0 :: b))). repeat split; auto; try apply pick_le.
    intros _. apply pick_pos. cbn. lia.
Qed.

Lemma k_read_spec w st n k w' r : k_read w st n k = KDone w' r -> st <> SIn -> (1 <= N.to_nat n)%nat ->
  let p := match st with SErr => perr w | _ => pout w end in
  (r = RData [] /\ w' = w /\ buf p = [] /\ wr p = false)
  \/ (exists m, r = RData (firstn m (buf p)) /\ (1 <= m <= length (buf p))%nat /\ (m <= N.to_nat n)%nat
       /\ pin w' = pin w
       /\ (match st with SErr => perr w' = pop p m /\ pout w' = pout w | _ => pout w' = pop p m /\ perr w' = perr w end)
       /\ piped_in w' = piped_in w /\ piped_out w' = piped_out w /\ piped_err w' = piped_err w
       /\ prog w' = prog w /\ alive w' = alive w /\ now w' = now w
       /\ wrote_out w' = wrote_out w /\ wrote_err w' = wrote_err w /\ child_got w' = child_got w
       /\ child_eof w' = child_eof w).
Proof.
  unfold k_read. intros H Hst Hn. cbn zeta.
  set (p := match st with SErr => perr w | _ => pout w end) in *.
  destruct (buf p) as [|x l] eqn:B.
  - destruct (wr p) eqn:W; [discriminate|]. injection H as <- <-. left. auto.
  - injection H as <- <-. right.
    set (m := pick k (Nat.min (N.to_nat n) (length (x :: l)))).
    exists m.
    assert (m <= Nat.min (N.to_nat n) (length (x :: l)))%nat as Hle by apply pick_le.
    assert (1 <= m)%nat as Hpos by (apply pick_pos; cbn [length]; lia).
    repeat split; auto; try lia; destruct st; try congruence; cbn; auto.
Qed.

Lemma read_chunk_pos : (1 <= N.to_nat READ_CHUNK)%nat.
Proof. apply Nat.leb_le. vm_compute. reflexivity. Qed.

Lemma read_size_pos s n : read_size s = Some n -> (1 <= N.to_nat n)%nat.
Proof.
  unfold read_size. pose proof read_chunk_pos as Hc. destruct (limit s) as [l|].
  - destruct (l <=? total s)%N eqn:E; [discriminate|]. apply N.leb_gt in E. intros H. injection H as <-. lia.
  - intros H. injection H as <-. exact Hc.
Qed.

(* ---------- invariance under "only the clock moved" ---------- *)

Lemma InvB_set_now s w t : InvB s w -> InvB s (set_now w t).
Proof. intros [? ? ? ? ? ? ? ? ? ? ? ? ? ? ? ? ?]. constructor; cbn; auto. Qed.

Lemma InvB_data s s' w : data s' = data s -> InvB s w -> InvB s' w.
Proof.
  intros Hd [? ? ? ? ? ? ? ? ? ? ? ? ? ? Hl ? ?].
  destruct (data_fields _ _ Hd) as [H1 [H2 [H3 [H4 [H5 [H6 [H7 H8]]]]]]].
  constructor; rewrite ?H1, ?H2, ?H3; auto.
  intros l Hs. unfold total. rewrite H4, H5. apply Hl. rewrite <- H6. exact Hs.
Qed.

Ltac wsimpl :=
  cbn [pin pout perr piped_in piped_out piped_err prog alive now wrote_out wrote_err child_got child_eof
       eof_at last_write_at closed_at set_prog upd_pipes child_dies set_now close_rd close_wr push pop
       buf cap wr rd k_close] in *.

(* ---------- the child's steps ---------- *)

Lemma pipe_ok_push p b : pipe_ok p -> (length b <= free p)%nat -> pipe_ok (push p b).
Proof. unfold pipe_ok, free. cbn. rewrite app_length. lia. Qed.

Lemma pipe_ok_pop p m : pipe_ok p -> pipe_ok (pop p m).
Proof. unfold pipe_ok. cbn. pose proof (length_skipn_le m (buf p)). lia. Qed.

Lemma firstn_le_length {A} n (l : list A) : (length (firstn n l) <= n)%nat.
Proof. rewrite firstn_length. lia. Qed.

Lemma child_step_InvB s w k w' : InvB s w -> child_step w k = CStep w' -> InvB s w'.
Proof.
  intros [B1 B2 B3 B4 B5 B6 B7 B8 B9 B10 B11 B12 B13 B14 B15 B16 B17] H. unfold child_step in H.
  destruct (alive w) eqn:A; cbn [negb] in H; [|discriminate].
  destruct (prog w) as [|op r] eqn:P.
  { injection H as <-. constructor; wsimpl; auto.
    - intros Hp Ho. destruct (B12 Hp Ho) as [H1 H2]. auto.
    - intros Hp Ho. destruct (B13 Hp Ho) as [H1 H2]. auto. }
  destruct op as [n|st bytes|st|ns|t|].
  - destruct (negb (piped_in w) || negb (rd (pin w))).
    { injection H as <-. constructor; wsimpl; auto. intros Ha. congruence. }
    destruct (buf (pin w)) eqn:Bf.
    + destruct (wr (pin w)) eqn:Wr; [discriminate|]. injection H as <-. constructor; wsimpl; auto.
      * intros Hp. rewrite Wr. auto.
      * intros Ha; congruence.
    + injection H as <-. constructor; wsimpl; auto.
      * apply pipe_ok_pop. exact B6.
      * intros Ha; congruence.
      * intros Hp He. destruct (B17 Hp He) as [Hx _]. congruence.
  - destruct bytes as [|b0 bytes]. { injection H as <-. constructor; wsimpl; auto. intros Ha; congruence. }
    remember (b0 :: bytes) as bs eqn:Hbs.
    destruct st; cbn [negb] in H.
    + destruct (negb (piped_out w) || negb (wr (pout w))) eqn:E1.
      { injection H as <-. constructor; wsimpl; auto. intros Ha; congruence. }
      destruct (negb (rd (pout w))) eqn:E2.
      { injection H as <-. constructor; wsimpl; auto.
        - intros Hp Ho. destruct (B12 Hp Ho) as [H1 H2]. auto.
        - intros Hp Ho. destruct (B13 Hp Ho) as [H1 H2]. auto. }
      destruct (free (pout w) =? 0)%nat eqn:E3; [discriminate|].
      apply orb_false_iff in E1. destruct E1 as [E1a E1b]. apply negb_false_iff in E1a. apply negb_false_iff in E1b.
      pose proof (pick_le k (Nat.min (length bs) (free (pout w)))) as Hpk.
      pose proof (firstn_le_length (pick k (Nat.min (length bs) (free (pout w)))) bs) as Hfl.
      injection H as <-. constructor; wsimpl; auto.
      * apply pipe_ok_push; [exact B7|lia].
      * intros Hp Ho. destruct (B12 Hp Ho) as [H1 H2]. congruence.
      * intros Ha; congruence.
    + destruct (negb (piped_out w) || negb (wr (pout w))) eqn:E1.
      { injection H as <-. constructor; wsimpl; auto. intros Ha; congruence. }
      destruct (negb (rd (pout w))) eqn:E2.
      { injection H as <-. constructor; wsimpl; auto.
        - intros Hp Ho. destruct (B12 Hp Ho) as [H1 H2]. auto.
        - intros Hp Ho. destruct (B13 Hp Ho) as [H1 H2]. auto. }
      destruct (free (pout w) =? 0)%nat eqn:E3; [discriminate|].
      apply orb_false_iff in E1. destruct E1 as [E1a E1b]. apply negb_false_iff in E1a. apply negb_false_iff in E1b.
      pose proof (pick_le k (Nat.min (length bs) (free (pout w)))) as Hpk.
      pose proof (firstn_le_length (pick k (Nat.min (length bs) (free (pout w)))) bs) as Hfl.
      injection H as <-. constructor; wsimpl; auto.
      * apply pipe_ok_push; [exact B7|lia].
      * intros Hp Ho. destruct (B12 Hp Ho) as [H1 H2]. congruence.
      * intros Ha; congruence.
    + destruct (negb (piped_err w) || negb (wr (perr w))) eqn:E1.
      { injection H as <-. constructor; wsimpl; auto. intros Ha; congruence. }
      destruct (negb (rd (perr w))) eqn:E2.
      { injection H as <-. constructor; wsimpl; auto.
        - intros Hp Ho. destruct (B12 Hp Ho) as [H1 H2]. auto.
        - intros Hp Ho. destruct (B13 Hp Ho) as [H1 H2]. auto. }
      destruct (free (perr w) =? 0)%nat eqn:E3; [discriminate|].
      apply orb_false_iff in E1. destruct E1 as [E1a E1b]. apply negb_false_iff in E1a. apply negb_false_iff in E1b.
      pose proof (pick_le k (Nat.min (length bs) (free (perr w)))) as Hpk.
      pose proof (firstn_le_length (pick k (Nat.min (length bs) (free (perr w)))) bs) as Hfl.
      injection H as <-. constructor; wsimpl; auto.
      * apply pipe_ok_push; [exact B8|lia].
      * intros Hp Ho. destruct (B13 Hp Ho) as [H1 H2]. congruence.
      * intros Ha; congruence.
  - injection H as <-. destruct st; constructor; wsimpl; auto; try (intros Ha; congruence).
    + intros Hp Ho. destruct (B12 Hp Ho) as [H1 H2]. auto.
    + intros Hp Ho. destruct (B13 Hp Ho) as [H1 H2]. auto.
  - injection H as <-. constructor; wsimpl; auto. intros Ha; congruence.
  - destruct (t <=? now w)%N; [|discriminate]. injection H as <-. constructor; wsimpl; auto. intros Ha; congruence.
  - injection H as <-. constructor; wsimpl; auto.
    + intros Hp Ho. destruct (B12 Hp Ho) as [H1 H2]. auto.
    + intros Hp Ho. destruct (B13 Hp Ho) as [H1 H2]. auto.
Qed.

Lemma child_step_InvC g k w' : InvC g -> child_step (gw g) k = CStep w' -> InvC (with_w g w').
Proof.
  intros [C1 C2 C3 C4 C5] H. unfold child_step in H. set (w := gw g) in *.
  destruct (alive w) eqn:A; cbn [negb] in H; [|discriminate].
  destruct (prog w) as [|op r] eqn:P.
  { injection H as <-. constructor; cbn [with_w gw gl gdout gderr ginput0]; wsimpl; auto. }
  destruct op as [n|st bytes|st|ns|t|].
  - destruct (negb (piped_in w) || negb (rd (pin w))).
    { injection H as <-. constructor; cbn [with_w gw gl gdout gderr ginput0]; wsimpl; auto. }
    destruct (buf (pin w)) eqn:Bf.
    + destruct (wr (pin w)) eqn:Wr; [discriminate|]. injection H as <-.
      constructor; cbn [with_w gw gl gdout gderr ginput0]; wsimpl; auto.
      intros Hp. fold w. rewrite ?Bf. exact (C3 Hp).
    + injection H as <-. constructor; cbn [with_w gw gl gdout gderr ginput0]; wsimpl; auto.
      intros Hp. fold w. rewrite ?Bf. rewrite <- (C3 Hp).
      rewrite <- !app_assoc. f_equal. rewrite !app_assoc. f_equal. apply firstn_skipn.
  - destruct bytes as [|b0 bytes]. { injection H as <-. constructor; cbn [with_w gw gl gdout gderr ginput0]; wsimpl; auto. }
    remember (b0 :: bytes) as bs eqn:Hbs.
    destruct st; cbn [negb] in H.
    + destruct (negb (piped_out w) || negb (wr (pout w))) eqn:E1.
      { injection H as <-. constructor; cbn [with_w gw gl gdout gderr ginput0]; wsimpl; auto. }
      destruct (negb (rd (pout w))) eqn:E2.
      { injection H as <-. constructor; cbn [with_w gw gl gdout gderr ginput0]; wsimpl; auto. }
      destruct (free (pout w) =? 0)%nat eqn:E3; [discriminate|].
      injection H as <-. constructor; cbn [with_w gw gl gdout gderr ginput0]; wsimpl; auto.
      intros Hp. rewrite <- (C1 Hp). fold w. rewrite <- !app_assoc. reflexivity.
    + destruct (negb (piped_out w) || negb (wr (pout w))) eqn:E1.
      { injection H as <-. constructor; cbn [with_w gw gl gdout gderr ginput0]; wsimpl; auto. }
      destruct (negb (rd (pout w))) eqn:E2.
      { injection H as <-. constructor; cbn [with_w gw gl gdout gderr ginput0]; wsimpl; auto. }
      destruct (free (pout w) =? 0)%nat eqn:E3; [discriminate|].
      injection H as <-. constructor; cbn [with_w gw gl gdout gderr ginput0]; wsimpl; auto.
      intros Hp. rewrite <- (C1 Hp). fold w. rewrite <- !app_assoc. reflexivity.
    + destruct (negb (piped_err w) || negb (wr (perr w))) eqn:E1.
      { injection H as <-. constructor; cbn [with_w gw gl gdout gderr ginput0]; wsimpl; auto. }
      destruct (negb (rd (perr w))) eqn:E2.
      { injection H as <-. constructor; cbn [with_w gw gl gdout gderr ginput0]; wsimpl; auto. }
      destruct (free (perr w) =? 0)%nat eqn:E3; [discriminate|].
      injection H as <-. constructor; cbn [with_w gw gl gdout gderr ginput0]; wsimpl; auto.
      intros Hp. rewrite <- (C2 Hp). fold w. rewrite <- !app_assoc. reflexivity.
  - injection H as <-. destruct st; constructor; cbn [with_w gw gl gdout gderr ginput0]; wsimpl; auto.
  - injection H as <-. constructor; cbn [with_w gw gl gdout gderr ginput0]; wsimpl; auto.
  - destruct (t <=? now w)%N; [|discriminate]. injection H as <-.
    constructor; cbn [with_w gw gl gdout gderr ginput0]; wsimpl; auto.
  - injection H as <-. constructor; cbn [with_w gw gl gdout gderr ginput0]; wsimpl; auto.
Qed.

Lemma InvC_set_now g t : InvC g -> InvC (with_w g (set_now (gw g) t)).
Proof. intros [C1 C2 C3 C4 C5]. constructor; cbn [with_w gw gl gdout gderr ginput0]; wsimpl; auto. Qed.

Lemma InvB_set_prog s w r : alive w = true -> InvB s w -> InvB s (set_prog w r).
Proof. intros A [? ? ? ? ? ? ? ? ? ? ? ? ? ? ? ? ?]. constructor; wsimpl; auto. intros H; congruence. Qed.

Lemma InvC_set_prog g r t : InvC g -> InvC (with_w g (set_now (set_prog (gw g) r) t)).
Proof. intros [C1 C2 C3 C4 C5]. constructor; cbn [with_w gw gl gdout gderr ginput0]; wsimpl; auto. Qed.

Lemma blocked_alive w k : child_step w k = CBlocked -> alive w = true.
Proof. unfold child_step. destruct (alive w); [reflexivity|discriminate]. Qed.

(* ---------- a child step preserves the whole invariant ---------- *)

Lemma inv_child g k g' : Inv g -> gstep g (GChild k) = Some g' -> Inv g'.
Proof.
  intros [HJ HR HB HC] H. cbn [gstep] in H.
  destruct (child_step (gw g) k) as [w'| |] eqn:E.
  - injection H as <-. constructor; cbn [with_w gl ga gw].
    + exact HJ.
    + eapply ready_of_mono; [eapply child_step_mono; exact E|exact HR].
    + eapply child_step_InvB; eassumption.
    + eapply child_step_InvC; eassumption.
  - destruct (prog (gw g)) as [|[| | | |t|] r]; try discriminate. injection H as <-.
    constructor; cbn [with_w gl ga gw].
    + exact HJ.
    + eapply ready_of_mono; [|exact HR]. apply mono_same; reflexivity.
    + apply InvB_set_now. apply InvB_set_prog; [exact (blocked_alive _ _ E)|exact HB].
    + apply InvC_set_prog. exact HC.
  - discriminate.
Qed.

(* ---------- read() is called again ---------- *)

Lemma start_fields c lim tl :
  let s' := fst (start c lim tl) in
  cm s' = c /\ oref s' = c_out c /\ eref s' = c_err c /\ outv s' = [] /\ errv s' = [] /\ limit s' = lim.
Proof.
  cbn zeta. unfold start. destruct tl.
  - cbn. repeat split; reflexivity.
  - destruct (data_fields _ _ (proj1 (from_head_spec {| cm := c; oref := c_out c; eref := c_err c; outv := []; errv := [];
        limit := lim; deadline := None; timed_out := false; pc := PReturned |}))) as [H1 [H2 [H3 [H4 [H5 [H6 _]]]]]].
    cbn in *. repeat split; assumption.
Qed.

Lemma start_ready c lim tl w : ready_of (fst (start c lim tl)) (snd (start c lim tl)) w.
Proof. unfold start. destruct tl; [split; exact I|apply from_head_ready]. Qed.

Lemma inv_start g lim tl g' : Inv g -> gstep g (GStart lim tl) = Some g' -> Inv g'.
Proof.
  intros [HJ HR HB HC] H. cbn [gstep] in H. destruct (ga g) as [c|e|]; try discriminate.
  destruct (start (cm (gl g)) lim tl) as [s' a'] eqn:E. injection H as <-.
  pose proof (start_fields (cm (gl g)) lim tl) as Hf. pose proof (start_J (cm (gl g)) lim tl) as Hj.
  pose proof (start_ready (cm (gl g)) lim tl (gw g)) as Hr. rewrite E in Hf, Hj, Hr. cbn [fst snd] in Hf, Hj, Hr.
  destruct Hf as [F1 [F2 [F3 [F4 [F5 F6]]]]].
  destruct HB as [B1 B2 B3 B4 B5 B6 B7 B8 B9 B10 B11 B12 B13 B14 B15 B16 B17].
  destruct HC as [C1 C2 C3 C4 C5].
  constructor; cbn [gl ga gw gdout gderr ginput0]; auto.
  - constructor; rewrite ?F1, ?F2, ?F3; auto.
    + intros Hp Ho. rewrite B1 in Ho. congruence.
    + intros Hp Ho. rewrite B2 in Ho. congruence.
    + intros l Hl. unfold total. rewrite F4, F5. cbn. lia.
  - constructor; cbn [gl ga gw gdout gderr ginput0]; rewrite ?F1, ?F4, ?F5; auto.
    + intros Hp. rewrite B1, Hp. rewrite <- app_assoc. cbn [app]. exact (C1 Hp).
    + intros Hp. rewrite B2, Hp. rewrite <- app_assoc. cbn [app]. exact (C2 Hp).
Qed.

(* ---------- the parent's calls ---------- *)

Lemma inv_now g t : Inv g -> Inv (with_w g (set_now (gw g) t)).
Proof.
  intros [HJ HR HB HC]. constructor; cbn [with_w gl ga gw].
  - exact HJ.
  - eapply ready_of_mono; [apply set_now_mono|exact HR].
  - apply InvB_set_now. exact HB.
  - apply InvC_set_now. exact HC.
Qed.

Lemma ret_inv g w e : Inv g -> gw g = w ->
  Inv (with_l g (fst (ret (gl g) (Some e))) (snd (ret (gl g) (Some e))) w).
Proof.
  intros [HJ HR HB HC] <-. constructor; cbn [with_l gl ga gw gdout gderr ginput0].
  - apply ret_spec.
  - apply ret_ready.
  - apply (InvB_data (gl g)); [reflexivity|exact HB].
  - destruct HC as [C1 C2 C3 C4 C5]. constructor; cbn [with_l gl ga gw gdout gderr ginput0]; auto.
Qed.

Lemma InvB_fields s s' w :
  cm s' = cm s -> oref s' = oref s -> eref s' = eref s -> outv s' = outv s -> errv s' = errv s -> limit s' = limit s ->
  InvB s w -> InvB s' w.
Proof.
  intros H1 H2 H3 H4 H5 H6 [? ? ? ? ? ? ? ? ? ? ? ? ? ? Hl ? ?].
  constructor; rewrite ?H1, ?H2, ?H3; auto.
  intros l Hs. unfold total. rewrite H4, H5. apply Hl. rewrite <- H6. exact Hs.
Qed.

Lemma InvC_with_l g s' a' w :
  cm s' = cm (gl g) -> outv s' = outv (gl g) -> errv s' = errv (gl g) ->
  pin w = pin (gw g) -> pout w = pout (gw g) -> perr w = perr (gw g) ->
  piped_in w = piped_in (gw g) -> piped_out w = piped_out (gw g) -> piped_err w = piped_err (gw g) ->
  wrote_out w = wrote_out (gw g) -> wrote_err w = wrote_err (gw g) -> child_got w = child_got (gw g) ->
  InvC g -> InvC (with_l g s' a' w).
Proof.
  intros H1 H2 H3 P1 P2 P3 Q1 Q2 Q3 W1 W2 W3 [C1 C2 C3 C4 C5].
  constructor; cbn [with_l gl ga gw gdout gderr ginput0]; rewrite ?H1, ?H2, ?H3, ?P1, ?P2, ?P3, ?Q1, ?Q2, ?Q3, ?W1, ?W2, ?W3; auto.
Qed.

(* clock *)
Lemma step_clock_ready s t w : J s (Call KClock) -> ready_of (fst (step s (RNow t))) (snd (step s (RNow t))) w.
Proof.
  intros Hj. unfold step. cbn [J] in Hj.
  destruct Hj as [[tl P]|[[[P|[[tt P]|[d P]]] [Hd Hs]]|[P Hd]]]; rewrite P.
  - apply from_head_ready.
  - destruct (deadline s); [split; exact I|apply ret_ready].
  - apply emit_poll_ready.
  - destruct (d <=? t)%N; [|apply emit_poll_ready].
    unfold after_flags. cbn [negb andb]. apply ret_ready.
  - destruct (deadline s); [apply from_head_ready|apply ret_ready].
Qed.

Lemma inv_clock g t : Inv g -> ga g = Call KClock ->
  Inv (with_l g (fst (step (gl g) (RNow t))) (snd (step (gl g) (RNow t))) (gw g)).
Proof.
  intros [HJ HR HB HC] Ha. rewrite Ha in HJ.
  destruct (step_clock_data (gl g) t HJ) as [H1 [H2 [H3 [H4 [H5 [H6 _]]]]]].
  constructor; cbn [with_l gl ga gw].
  - eapply step_J. exact HJ.
  - apply step_clock_ready. exact HJ.
  - eapply InvB_fields; eassumption.
  - apply InvC_with_l; auto.
Qed.

(* poll *)
Lemma write_chunk_fits : (N.to_nat WRITE_SIZE <= PIPE_BUF)%nat.
Proof. apply Nat.leb_le. vm_compute. reflexivity. Qed.

Lemma pollout_free p zone : pipe_ok p -> pollout_ok p zone = true -> (PIPE_BUF <= free p)%nat.
Proof.
  intros [_ Hc]. unfold pollout_ok. destruct (cap p <=? free p)%nat eqn:E1.
  - apply Nat.leb_le in E1. lia.
  - destruct (free p <? PIPE_BUF)%nat eqn:E2; [discriminate|]. apply Nat.ltb_ge in E2. auto.
Qed.

Lemma test_rev_in w zone : test (rev_in w zone) (N.lor POLLOUT (N.lor POLLHUP POLLERR)) = true ->
  pollout_ok (pin w) zone = true \/ rd (pin w) = false.
Proof.
  unfold rev_in. destruct (pollout_ok (pin w) zone); [left; reflexivity|]. destruct (rd (pin w)); [|right; reflexivity].
  vm_compute. discriminate.
Qed.

Lemma test_rev_rd p : test (rev_rd p) (N.lor POLLIN POLLHUP) = true -> readable p.
Proof.
  unfold rev_rd, readable. destruct (buf p); [|left; discriminate]. destruct (wr p); [|right; reflexivity].
  vm_compute. discriminate.
Qed.

Lemma test_zero m : test 0 m = false.
Proof. unfold test. rewrite N.land_0_l. reflexivity. Qed.

Lemma step_poll_ready s fi fo fe tmo cnt ri ro re w :
  J s (Call (KPoll fi fo fe tmo)) ->
  (test ri (N.lor POLLOUT (N.lor POLLHUP POLLERR)) && c_in (cm s) = true ->
     write_ok w (length (firstn (N.to_nat WRITE_SIZE) (c_input (cm s))))) ->
  (test ro (N.lor POLLIN POLLHUP) && oref s = true -> readable (pout w)) ->
  (test re (N.lor POLLIN POLLHUP) && eref s = true -> readable (perr w)) ->
  ready_of (fst (step s (RPoll cnt ri ro re))) (snd (step s (RPoll cnt ri ro re))) w.
Proof.
  intros Hj Hi Ho He. unfold step.
  assert (exists pdl ovf, pc s = PPoll pdl ovf) as [pdl [ovf P]].
  { cbn [J] in Hj. destruct Hj as [_ [_ [_ [_ [[P _]|[d [ovf [P _]]]]]]]]; eauto. }
  rewrite P. destruct (negb (cnt =? 0)%N || negb ovf).
  - apply after_flags_ready; assumption.
  - destruct pdl; [split; exact I|apply ret_ready].
Qed.

Lemma inv_poll g fi fo fe tmo k zone w' r :
  Inv g -> ga g = Call (KPoll fi fo fe tmo) ->
  parent_exec (gw g) (KPoll fi fo fe tmo) k zone (gissued g) = Some (w', r) ->
  Inv (with_l g (fst (step (gl g) r)) (snd (step (gl g) r)) w').
Proof.
  intros [HJ HR HB HC] Ha Hx. rewrite Ha in HJ. set (s := gl g) in *. set (w := gw g) in *.
  cbn [parent_exec] in Hx. unfold k_revents in Hx.
  set (ri := if fi then rev_in w zone else 0%N) in *.
  set (ro := if fo then rev_rd (pout w) else 0%N) in *.
  set (re := if fe then rev_rd (perr w) else 0%N) in *.
  assert (exists cnt ri' ro' re', r = RPoll cnt ri' ro' re' /\
          ((ri' = ri /\ ro' = ro /\ re' = re) \/ (ri' = 0 /\ ro' = 0 /\ re' = 0))%N /\
          pin w' = pin w /\ pout w' = pout w /\ perr w' = perr w /\
          piped_in w' = piped_in w /\ piped_out w' = piped_out w /\ piped_err w' = piped_err w /\
          wrote_out w' = wrote_out w /\ wrote_err w' = wrote_err w /\ child_got w' = child_got w /\
          prog w' = prog w /\ alive w' = alive w /\ child_eof w' = child_eof w) as [cnt [ri' [ro' [re' [-> [Hrev Hw]]]]]].
  { destruct ((nz ri + nz ro + nz re =? 0)%N).
    - destruct (tmo <? 0)%Z; [discriminate|]. injection Hx as <- <-.
      eexists. eexists. eexists. eexists. split; [reflexivity|]. split; [right; auto|]. cbn. repeat split; reflexivity.
    - injection Hx as <- <-. eexists. eexists. eexists. eexists. split; [reflexivity|]. split; [left; auto|]. repeat split; reflexivity. }
  destruct Hw as [P1 [P2 [P3 [Q1 [Q2 [Q3 [W1 [W2 [W3 [W4 [W5 W6]]]]]]]]]]].
  pose proof (step_poll_data s fi fo fe tmo cnt ri' ro' re' HJ) as Hd.
  destruct (data_fields _ _ Hd) as [D1 [D2 [D3 [D4 [D5 [D6 [D7 D8]]]]]]].
  assert (InvB s w') as HB'.
  { destruct HB as [B1 B2 B3 B4 B5 B6 B7 B8 B9 B10 B11 B12 B13 B14 B15 B16 B17].
    constructor; rewrite ?P1, ?P2, ?P3, ?Q1, ?Q2, ?Q3, ?W4, ?W5, ?W6; auto. }
  constructor; cbn [with_l gl ga gw].
  - eapply step_J. exact HJ.
  - apply (step_poll_ready s fi fo fe tmo); [exact HJ| | |].
    + intros Ht. apply andb_true_iff in Ht. destruct Ht as [Ht Hc].
      destruct Hrev as [[-> _]|[-> _]]; [|rewrite test_zero in Ht; discriminate].
      unfold ri in Ht. destruct fi; [|rewrite test_zero in Ht; discriminate].
      unfold write_ok. rewrite P1.
      destruct (test_rev_in w zone Ht) as [Hp|Hr]; [left|right; exact Hr].
      pose proof (pollout_free _ _ (b_pin _ _ HB) Hp). pose proof write_chunk_fits.
      pose proof (firstn_le_length (N.to_nat WRITE_SIZE) (c_input (cm s))). lia.
    + intros Ht. apply andb_true_iff in Ht. destruct Ht as [Ht Hc].
      destruct Hrev as [[_ [-> _]]|[_ [-> _]]]; [|rewrite test_zero in Ht; discriminate].
      unfold ro in Ht. destruct fo; [|rewrite test_zero in Ht; discriminate].
      rewrite P2. apply test_rev_rd. exact Ht.
    + intros Ht. apply andb_true_iff in Ht. destruct Ht as [Ht Hc].
      destruct Hrev as [[_ [_ ->]]|[_ [_ ->]]]; [|rewrite test_zero in Ht; discriminate].
      unfold re in Ht. destruct fe; [|rewrite test_zero in Ht; discriminate].
      rewrite P3. apply test_rev_rd. exact Ht.
  - eapply InvB_data; [exact Hd|exact HB'].
  - apply InvC_with_l; auto.
Qed.

(* write *)
Lemma firstn_firstn_le {A} m n (l : list A) : (m <= n)%nat -> firstn m (firstn n l) = firstn m l.
Proof. intros H. rewrite firstn_firstn. rewrite Nat.min_l by exact H. reflexivity. Qed.

Lemma inv_write g b k w' r :
  Inv g -> ga g = Call (KWrite b) -> k_write (gw g) b k = KDone w' r ->
  Inv (with_l g (fst (step (gl g) r)) (snd (step (gl g) r)) w').
Proof.
  intros Hinv Ha Hk. pose proof Hinv as [HJ HR HB HC]. rewrite Ha in HJ, HR.
  set (s := gl g) in *. set (w := gw g) in *.
  destruct (k_write_spec _ _ _ _ _ Hk) as [[-> [-> Hrd]]|[m [-> [Hm [Hpos [Hrd [Hfree Hw]]]]]]].
  { rewrite (step_err s _ EPIPE eq_refl). apply ret_inv; [exact Hinv|reflexivity]. }
  destruct Hw as [P1 [P2 [P3 [Q1 [Q2 [Q3 [W4 [W5 [W6 [W1 [W2 [W3 W7]]]]]]]]]]]].
  pose proof HJ as HJ'. cbn [J] in HJ'. destruct HJ' as [[ro [re P]] [Hci Hb]].
  destruct (step_write_data s b (N.of_nat m) HJ) as [Hd Hcl].
  assert (N.to_nat (N.of_nat m) = m) as Hnm by apply Nat2N.id. rewrite Hnm in Hd, Hcl.
  set (rest := skipn m (c_input (cm s))) in *.
  assert (forall x, data x = data (fst (step s (RWrote (N.of_nat m)))) ->
          cm x = set_input (cm s) rest /\ oref x = oref s /\ eref x = eref s /\ outv x = outv s /\ errv x = errv s /\ limit x = limit s) as Hf.
  { intros x Hx. rewrite Hd in Hx. unfold data in Hx. repeat split; congruence. }
  destruct (Hf _ eq_refl) as [F1 [F2 [F3 [F4 [F5 F6]]]]].
  destruct HB as [B1 B2 B3 B4 B5 B6 B7 B8 B9 B10 B11 B12 B13 B14 B15 B16 B17].
  destruct HR as [_ HRp]. unfold ready_pc in HRp. fold s in HRp. rewrite P in HRp. destruct HRp as [Ro Re].
  constructor; cbn [with_l gl ga gw].
  - eapply step_J. exact HJ.
  - unfold step. fold s. rewrite P. rewrite Hnm. fold rest.
    destruct rest eqn:Er.
    + cbn [fst snd]. split; [exact I|]. unfold ready_pc. cbn [set_pc set_cm pc oref eref]. rewrite P2, P3. auto.
    + apply cont_out_ready; cbn [set_cm oref eref]; rewrite ?P2, ?P3; auto.
  - constructor; rewrite ?F1, ?F2, ?F3, ?P1, ?P2, ?P3, ?Q1, ?Q2, ?Q3, ?W4, ?W5; cbn [set_input c_in c_out c_err]; auto.
    + apply pipe_ok_push; [exact B6|]. pose proof (firstn_le_length m b). destruct Hfree as [Hf1|Hf1]; [lia|rewrite Hf1, firstn_nil; cbn [length]; lia].
    + intros l Hl. unfold total. rewrite F4, F5. apply B15. rewrite <- F6. exact Hl.
    + intros Hx. congruence.
    + intros Hp He. rewrite W7 in He. destruct (B17 Hp He) as [_ Hx]. rewrite (B11 Hp) in Hx. congruence.
  - destruct HC as [C1 C2 C3 C4 C5].
    constructor; cbn [with_l gl ga gw gdout gderr ginput0]; rewrite ?F1, ?F4, ?F5, ?P1, ?P2, ?P3, ?Q1, ?Q2, ?Q3, ?W1, ?W2, ?W3; auto.
    intros Hp. cbn [set_input c_input push buf]. rewrite <- (C3 Hp). fold w s.
    rewrite <- !app_assoc. f_equal. f_equal. rewrite Hb. rewrite firstn_firstn_le.
    + unfold rest. apply firstn_skipn.
    + rewrite Hb in Hm. pose proof (firstn_le_length (N.to_nat WRITE_SIZE) (c_input (cm s))). lia.
Qed.

(* close *)
Lemma inv_close g :
  Inv g -> ga g = Call KClose ->
  Inv (with_l g (fst (step (gl g) RDone)) (snd (step (gl g) RDone)) (k_close (gw g))).
Proof.
  intros Hinv Ha. pose proof Hinv as [HJ HR HB HC]. rewrite Ha in HJ, HR.
  set (s := gl g) in *. set (w := gw g) in *.
  pose proof HJ as HJ'. cbn [J] in HJ'. destruct HJ' as [[ro [re P]] [Hci Hin]].
  assert (forall e, RDone <> RErr e) as Hne by (intros e He; discriminate He).
  pose proof (step_close_data s RDone HJ Hne) as Hd.
  assert (cm (fst (step s RDone)) = closed_in (cm s) /\ oref (fst (step s RDone)) = oref s /\ eref (fst (step s RDone)) = eref s
          /\ outv (fst (step s RDone)) = outv s /\ errv (fst (step s RDone)) = errv s /\ limit (fst (step s RDone)) = limit s)
    as [F1 [F2 [F3 [F4 [F5 F6]]]]] by (unfold data in Hd; repeat split; congruence).
  destruct HB as [B1 B2 B3 B4 B5 B6 B7 B8 B9 B10 B11 B12 B13 B14 B15 B16 B17].
  destruct HR as [_ HRp]. unfold ready_pc in HRp. fold s in HRp. rewrite P in HRp. destruct HRp as [Ro Re].
  constructor; cbn [with_l gl ga gw].
  - eapply step_J. exact HJ.
  - unfold step. fold s. rewrite P. apply cont_out_ready; cbn [set_cm oref eref]; wsimpl; auto.
  - constructor; rewrite ?F1, ?F2, ?F3; cbn [closed_in c_in c_out c_err]; wsimpl; auto.
    + intros l Hl. unfold total. rewrite F4, F5. apply B15. rewrite <- F6. exact Hl.
    + intros Hp He. destruct (B17 Hp He) as [Hx _]. auto.
  - destruct HC as [C1 C2 C3 C4 C5].
    constructor; cbn [with_l gl ga gw gdout gderr ginput0]; rewrite ?F1, ?F4, ?F5; cbn [closed_in c_input]; wsimpl; auto.
    intros Hp. rewrite <- (C3 Hp). fold s w. rewrite Hin. reflexivity.
Qed.

(* read *)
Lemma read_size_bound s n : read_size s = Some n -> forall l, limit s = Some l -> (total s + n <= l)%N.
Proof.
  unfold read_size. intros H l Hl. rewrite Hl in H. destruct (l <=? total s)%N eqn:E; [discriminate|].
  apply N.leb_gt in E. injection H as <-. lia.
Qed.

Lemma total_app_out s b s' : outv s' = outv s ++ b -> errv s' = errv s -> total s' = (total s + N.of_nat (length b))%N.
Proof. intros H1 H2. unfold total. rewrite H1, H2, app_length. lia. Qed.

Lemma total_app_err s b s' : outv s' = outv s -> errv s' = errv s ++ b -> total s' = (total s + N.of_nat (length b))%N.
Proof. intros H1 H2. unfold total. rewrite H1, H2, app_length. lia. Qed.

Lemma inv_read_out g n k w' r :
  Inv g -> ga g = Call (KRead SOut n) -> k_read (gw g) SOut n k = KDone w' r ->
  Inv (with_l g (fst (step (gl g) r)) (snd (step (gl g) r)) w').
Proof.
  intros Hinv Ha Hk. pose proof Hinv as [HJ HR HB HC]. rewrite Ha in HJ, HR.
  set (s := gl g) in *. set (w := gw g) in *.
  pose proof HJ as HJ'. cbn [J] in HJ'. destruct HJ' as [[re P] [Ho Hrs]].
  assert (SOut <> SIn) as Hne by discriminate.
  destruct HR as [_ HRp]. unfold ready_pc in HRp. fold s in HRp. rewrite P in HRp.
  destruct HB as [B1 B2 B3 B4 B5 B6 B7 B8 B9 B10 B11 B12 B13 B14 B15 B16 B17].
  destruct HC as [C1 C2 C3 C4 C5]. change (gw g) with w in C1, C2, C3, C4, C5. change (gl g) with s in C1, C2, C3, C4, C5.
  destruct (k_read_spec _ _ _ _ _ _ Hk Hne (read_size_pos _ _ Hrs)) as [[-> [-> [Hbuf Hwr]]]|[m [-> [Hm [Hmn Hw]]]]]; cbn zeta in *.
  - (* end of file *)
    pose proof (step_readout_data s n [] HJ) as Hd.
    assert (cm (fst (step s (RData []))) = cm s /\ oref (fst (step s (RData []))) = false /\ eref (fst (step s (RData []))) = eref s
            /\ outv (fst (step s (RData []))) = outv s /\ errv (fst (step s (RData []))) = errv s /\ limit (fst (step s (RData []))) = limit s)
      as [F1 [F2 [F3 [F4 [F5 F6]]]]] by (unfold data in Hd; rewrite app_nil_r in Hd; repeat split; congruence).
    constructor; cbn [with_l gl ga gw].
    + eapply step_J. exact HJ.
    + unfold step. fold s. rewrite P. apply cont_err_ready. cbn [eref]. exact HRp.
    + constructor; rewrite ?F1, ?F2, ?F3; auto; try (intros H; discriminate H).
      intros l Hl. unfold total. rewrite F4, F5. apply B15. rewrite <- F6. exact Hl.
    + constructor; cbn [with_l gl ga gw gdout gderr ginput0]; rewrite ?F1, ?F4, ?F5; auto.
  - (* m bytes *)
    destruct Hw as [P1 [[P2 P3] [Q1 [Q2 [Q3 [W4 [W5 [W6 [W1 [W2 [W3 W7]]]]]]]]]]].
    set (b := firstn m (buf (pout w))) in *.
    assert (length b = m) as Hlb by (unfold b; rewrite firstn_length; lia).
    assert (b <> []) as Hbne by (intros E; rewrite E in Hlb; cbn in Hlb; lia).
    pose proof (step_readout_data s n b HJ) as Hd.
    assert (cm (fst (step s (RData b))) = cm s /\ oref (fst (step s (RData b))) = oref s /\ eref (fst (step s (RData b))) = eref s
            /\ outv (fst (step s (RData b))) = outv s ++ b /\ errv (fst (step s (RData b))) = errv s /\ limit (fst (step s (RData b))) = limit s)
      as [F1 [F2 [F3 [F4 [F5 F6]]]]].
    { unfold data in Hd. destruct b; [congruence|]. repeat split; congruence. }
    constructor; cbn [with_l gl ga gw].
    + eapply step_J. exact HJ.
    + unfold step. fold s. rewrite P. apply cont_err_ready.
      destruct b; [congruence|]. cbn [eref]. rewrite P3. exact HRp.
    + constructor; rewrite ?F1, ?F2, ?F3, ?P1, ?P2, ?P3, ?Q1, ?Q2, ?Q3, ?W4, ?W5; wsimpl; auto.
      all: try (apply pipe_ok_pop; exact B7).
      all: try (intros Hp Hof; congruence).
      all: try (rewrite W7; exact B17).
      intros l Hl. rewrite (total_app_out s b _ F4 F5). rewrite F6 in Hl.
        pose proof (read_size_bound s n Hrs l Hl). lia.
    + constructor; cbn [with_l gl ga gw gdout gderr ginput0]; rewrite ?F1, ?F4, ?F5, ?P1, ?P2, ?P3, ?Q1, ?Q2, ?Q3, ?W1, ?W2, ?W3; wsimpl; auto.
      * intros Hp. rewrite <- (C1 Hp). rewrite <- !app_assoc. f_equal. f_equal. apply firstn_skipn.
      * intros Hp. exfalso. rewrite <- B1 in Hp. rewrite (B4 Ho) in Hp. discriminate.
Qed.

Lemma inv_read_err g n k w' r :
  Inv g -> ga g = Call (KRead SErr n) -> k_read (gw g) SErr n k = KDone w' r ->
  Inv (with_l g (fst (step (gl g) r)) (snd (step (gl g) r)) w').
Proof.
  intros Hinv Ha Hk. pose proof Hinv as [HJ HR HB HC]. rewrite Ha in HJ, HR.
  set (s := gl g) in *. set (w := gw g) in *.
  pose proof HJ as HJ'. cbn [J] in HJ'. destruct HJ' as [P [He Hrs]].
  assert (SErr <> SIn) as Hne by discriminate.
  destruct HB as [B1 B2 B3 B4 B5 B6 B7 B8 B9 B10 B11 B12 B13 B14 B15 B16 B17].
  destruct HC as [C1 C2 C3 C4 C5]. change (gw g) with w in C1, C2, C3, C4, C5. change (gl g) with s in C1, C2, C3, C4, C5.
  destruct (k_read_spec _ _ _ _ _ _ Hk Hne (read_size_pos _ _ Hrs)) as [[-> [-> [Hbuf Hwr]]]|[m [-> [Hm [Hmn Hw]]]]]; cbn zeta in *.
  - pose proof (step_readerr_data s n [] HJ) as Hd.
    assert (cm (fst (step s (RData []))) = cm s /\ oref (fst (step s (RData []))) = oref s /\ eref (fst (step s (RData []))) = false
            /\ outv (fst (step s (RData []))) = outv s /\ errv (fst (step s (RData []))) = errv s /\ limit (fst (step s (RData []))) = limit s)
      as [F1 [F2 [F3 [F4 [F5 F6]]]]] by (unfold data in Hd; rewrite app_nil_r in Hd; repeat split; congruence).
    constructor; cbn [with_l gl ga gw].
    + eapply step_J. exact HJ.
    + unfold step. fold s. rewrite P. apply end_iter_ready.
    + constructor; rewrite ?F1, ?F2, ?F3; auto; try (intros H; discriminate H).
      intros l Hl. unfold total. rewrite F4, F5. apply B15. rewrite <- F6. exact Hl.
    + constructor; cbn [with_l gl ga gw gdout gderr ginput0]; rewrite ?F1, ?F4, ?F5; auto.
  - destruct Hw as [P1 [[P3 P2] [Q1 [Q2 [Q3 [W4 [W5 [W6 [W1 [W2 [W3 W7]]]]]]]]]]].
    set (b := firstn m (buf (perr w))) in *.
    assert (length b = m) as Hlb by (unfold b; rewrite firstn_length; lia).
    assert (b <> []) as Hbne by (intros E; rewrite E in Hlb; cbn in Hlb; lia).
    pose proof (step_readerr_data s n b HJ) as Hd.
    assert (cm (fst (step s (RData b))) = cm s /\ oref (fst (step s (RData b))) = oref s /\ eref (fst (step s (RData b))) = eref s
            /\ outv (fst (step s (RData b))) = outv s /\ errv (fst (step s (RData b))) = errv s ++ b /\ limit (fst (step s (RData b))) = limit s)
      as [F1 [F2 [F3 [F4 [F5 F6]]]]].
    { unfold data in Hd. destruct b; [congruence|]. repeat split; congruence. }
    constructor; cbn [with_l gl ga gw].
    + eapply step_J. exact HJ.
    + unfold step. fold s. rewrite P. apply end_iter_ready.
    + constructor; rewrite ?F1, ?F2, ?F3, ?P1, ?P2, ?P3, ?Q1, ?Q2, ?Q3, ?W4, ?W5; wsimpl; auto.
      all: try (apply pipe_ok_pop; exact B8).
      all: try (intros Hp Hof; congruence).
      all: try (rewrite W7; exact B17).
      intros l Hl. rewrite (total_app_err s b _ F4 F5). rewrite F6 in Hl.
        pose proof (read_size_bound s n Hrs l Hl). lia.
    + constructor; cbn [with_l gl ga gw gdout gderr ginput0]; rewrite ?F1, ?F4, ?F5, ?P1, ?P2, ?P3, ?Q1, ?Q2, ?Q3, ?W1, ?W2, ?W3; wsimpl; auto.
      * intros Hp. rewrite <- (C2 Hp). rewrite <- !app_assoc. f_equal. f_equal. apply firstn_skipn.
      * intros Hp. exfalso. rewrite <- B2 in Hp. rewrite (B5 He) in Hp. discriminate.
Qed.

(* ---------- every step of every party preserves the invariant ---------- *)

Theorem inv_step g ch g' : Inv g -> gstep g ch = Some g' -> Inv g'.
Proof.
  intros Hinv H. destruct ch as [k zone dur|k|lim tl].
  - cbn [gstep] in H. destruct (ga g) as [c|e|] eqn:Ha; try discriminate.
    set (w1 := set_now (gw g) (now (gw g) + dur)%N) in *.
    pose proof (inv_now g (now (gw g) + dur)%N Hinv) as H1. fold w1 in H1.
    set (g1 := with_w g w1) in *.
    assert (ga g1 = Call c) as Ha1 by exact Ha.
    destruct (parent_exec w1 c k zone (gissued g)) as [[w' r]|] eqn:Ex; [|discriminate].
    destruct (step (gl g) r) as [s' a'] eqn:Es. injection H as <-.
    change (with_l g s' a' w') with (with_l g1 (fst (s', a')) (snd (s', a')) w'). rewrite <- Es.
    change (gl g) with (gl g1).
    destruct c as [fi fo fe tmo|b| |st n|].
    + eapply inv_poll; [exact H1|exact Ha1|exact Ex].
    + cbn [parent_exec] in Ex. destruct (k_write w1 b k) as [w2 r2|] eqn:Ek; [|discriminate]. injection Ex as <- <-.
      eapply inv_write; [exact H1|exact Ha1|exact Ek].
    + cbn [parent_exec] in Ex. injection Ex as <- <-. apply inv_close; [exact H1|exact Ha1].
    + cbn [parent_exec] in Ex. destruct (k_read w1 st n k) as [w2 r2|] eqn:Ek; [|discriminate]. injection Ex as <- <-.
      destruct st.
      * destruct H1 as [HJ _ _ _]. rewrite Ha1 in HJ. destruct HJ.
      * eapply inv_read_out; [exact H1|exact Ha1|exact Ek].
      * eapply inv_read_err; [exact H1|exact Ha1|exact Ek].
    + cbn [parent_exec] in Ex. injection Ex as <- <-. apply inv_clock; [exact H1|exact Ha1].
  - eapply inv_child; eassumption.
  - eapply inv_start; eassumption.
Qed.

Theorem inv_init pi po pe ci co ce child input lim tl :
  (PIPE_BUF <= ci)%nat -> (PIPE_BUF <= co)%nat -> (PIPE_BUF <= ce)%nat ->
  Inv (ginit pi po pe ci co ce child input lim tl).
Proof.
  intros H1 H2 H3. unfold ginit.
  set (c := {| c_in := pi; c_out := po; c_err := pe; c_input := if pi then input else [] |}).
  destruct (start c lim tl) as [s a] eqn:E.
  pose proof (start_fields c lim tl) as Hf. pose proof (start_J c lim tl) as Hj.
  pose proof (start_ready c lim tl (init_world pi po pe ci co ce child)) as Hr.
  rewrite E in Hf, Hj, Hr. cbn [fst snd] in Hf, Hj, Hr. destruct Hf as [F1 [F2 [F3 [F4 [F5 F6]]]]].
  constructor; cbn [gl ga gw gdout gderr ginput0]; auto.
  - constructor; rewrite ?F1, ?F2, ?F3; cbn; auto; try (unfold pipe_ok; cbn; lia); try discriminate.
    + intros Hp1 Hp2. congruence.
    + intros Hp1 Hp2. congruence.
    + intros l Hl. unfold total. rewrite F4, F5. cbn. lia.
    + intros ->. reflexivity.
  - constructor; cbn [gl ga gw gdout gderr ginput0]; rewrite ?F1, ?F4, ?F5; cbn; auto; try (intros ->; reflexivity).
Qed.

Corollary inv_reachable g0 chs g : Inv g0 -> grun g0 chs = Some g -> Inv g.
Proof.
  revert g0. induction chs as [|ch chs IH]; intros g0 H0 H; cbn [grun] in H.
  - injection H as <-. exact H0.
  - destruct (gstep g0 ch) as [g1|] eqn:E; [|discriminate]. exact (IH g1 (inv_step _ _ _ H0 E) H).
Qed.
