(* The "ready flags stay valid" invariant of the communicate loop: a call issued after a positive poll
   does not block, because between the poll and the call only the child moves, and the child can only
   make a readable pipe more readable and a writable pipe more writable. *)
From Coq Require Import List NArith ZArith Bool Arith Lia.
Require Import SP.Params SP.Lib.Comm SP.Kernel.CommK SP.Kernel.CommSys SP.Proofs.CommBase.
Import ListNotations.

Definition readable (p : pipe) : Prop := buf p <> [] \/ wr p = false.

Definition write_ok (w : world) (n : nat) : Prop := (n <= free (pin w))%nat \/ rd (pin w) = false.

Definition ready_call (s : cst) (a : action) (w : world) : Prop :=
  match a with
  | Call (KWrite b) => write_ok w (length b) \/ (deadline s = None /\ oref s = false /\ eref s = false)
  | Call (KRead SOut _) => readable (pout w) \/ (deadline s = None /\ c_in (cm s) = false /\ eref s = false)
  | Call (KRead SErr _) => readable (perr w) \/ (deadline s = None /\ c_in (cm s) = false /\ oref s = false)
  | _ => True
  end.

Definition ready_pc (s : cst) (w : world) : Prop :=
  match pc s with
  | PWrite ro re | PClose ro re =>
      (ro && oref s = true -> readable (pout w)) /\ (re && eref s = true -> readable (perr w))
  | PReadOut re => re && eref s = true -> readable (perr w)
  | _ => True
  end.

Definition ready_of (s : cst) (a : action) (w : world) : Prop := ready_call s a w /\ ready_pc s w.

Lemma io_err_ready rerr s s' c w : io_err rerr s = Some (s', c) ->
  (rerr && eref s = true -> readable (perr w)) -> ready_of s' (Call c) w.
Proof.
  unfold io_err. intros H Hr. destruct (rerr && eref s) eqn:E; [|discriminate].
  destruct (read_size s); [|discriminate]. injection H as <- <-.
  split; [left; auto|exact I].
Qed.

Lemma io_out_ready rout rerr s s' c w : io_out rout rerr s = Some (s', c) ->
  (rout && oref s = true -> readable (pout w)) -> (rerr && eref s = true -> readable (perr w)) ->
  ready_of s' (Call c) w.
Proof.
  unfold io_out. intros H Ho He. destruct (rout && oref s) eqn:E.
  - destruct (read_size s).
    + injection H as <- <-. split; [left; auto|]. unfold ready_pc. cbn [set_pc pc eref]. exact He.
    + eapply io_err_ready; eassumption.
  - eapply io_err_ready; eassumption.
Qed.

Lemma io_in_ready rin rout rerr s s' c w : io_in rin rout rerr s = Some (s', c) ->
  (rin && c_in (cm s) = true -> write_ok w (length (firstn (N.to_nat WRITE_SIZE) (c_input (cm s))))) ->
  (rout && oref s = true -> readable (pout w)) -> (rerr && eref s = true -> readable (perr w)) ->
  ready_of s' (Call c) w.
Proof.
  unfold io_in. intros H Hi Ho He. destruct (rin && c_in (cm s)) eqn:E.
  - injection H as <- <-. split; [left; auto|]. unfold ready_pc. cbn [set_pc pc oref eref]. auto.
  - eapply io_out_ready; eassumption.
Qed.

Lemma ret_ready s e w : ready_of (fst (ret s e)) (snd (ret s e)) w.
Proof. split; exact I. Qed.

Lemma from_head_ready s w : ready_of (fst (from_head s)) (snd (from_head s)) w.
Proof.
  unfold from_head.
  destruct (limit_reached s) eqn:L; [apply ret_ready|].
  destruct (negb (c_in (cm s)) && negb (oref s) && negb (eref s)) eqn:N; [apply ret_ready|].
  destruct (timed_out s); [apply ret_ready|].
  destruct (deadline s) eqn:D; [split; exact I|].
  assert (read_size s <> None) as Hrs.
  { unfold read_size. unfold limit_reached in L. destruct (limit s); [rewrite L|]; discriminate. }
  destruct (c_in (cm s)) eqn:Ci; destruct (oref s) eqn:Co; destruct (eref s) eqn:Ce;
    try discriminate; try (split; exact I).
  - unfold with_flags, io_in. rewrite Ci. cbn [andb fst snd]. split.
    + right. cbn [set_pc deadline oref eref]. auto.
    + unfold ready_pc. cbn [set_pc pc]. split; discriminate.
  - unfold with_flags, io_in, io_out. rewrite Ci, Co. cbn [andb].
    destruct (read_size s); cbn [fst snd]; [|congruence]. split.
    + right. cbn [set_pc deadline cm eref]. auto.
    + unfold ready_pc. cbn [set_pc pc]. discriminate.
  - unfold with_flags, io_in, io_out, io_err. rewrite Ci, Co, Ce. cbn [andb].
    destruct (read_size s); cbn [fst snd]; [|congruence]. split; [|exact I].
    right. cbn [set_pc deadline cm oref]. auto.
Qed.

Lemma end_iter_ready s w : ready_of (fst (end_iter s)) (snd (end_iter s)) w.
Proof. unfold end_iter. destruct (deadline s); [split; exact I|apply from_head_ready]. Qed.

Lemma cont_err_ready rerr s w : (rerr && eref s = true -> readable (perr w)) ->
  ready_of (fst (cont_err rerr s)) (snd (cont_err rerr s)) w.
Proof.
  intros He. unfold cont_err. destruct (io_err rerr s) as [[s' c]|] eqn:E; [|apply end_iter_ready].
  eapply io_err_ready; eassumption.
Qed.

Lemma cont_out_ready rout rerr s w :
  (rout && oref s = true -> readable (pout w)) -> (rerr && eref s = true -> readable (perr w)) ->
  ready_of (fst (cont_out rout rerr s)) (snd (cont_out rout rerr s)) w.
Proof.
  intros Ho He. unfold cont_out. destruct (io_out rout rerr s) as [[s' c]|] eqn:E; [|apply end_iter_ready].
  eapply io_out_ready; eassumption.
Qed.

Lemma after_flags_ready rin rout rerr s w :
  (rin && c_in (cm s) = true -> write_ok w (length (firstn (N.to_nat WRITE_SIZE) (c_input (cm s))))) ->
  (rout && oref s = true -> readable (pout w)) -> (rerr && eref s = true -> readable (perr w)) ->
  ready_of (fst (after_flags rin rout rerr s)) (snd (after_flags rin rout rerr s)) w.
Proof.
  intros Hi Ho He. unfold after_flags. destruct (negb rin && negb rout && negb rerr); [apply ret_ready|].
  unfold with_flags. destruct (io_in rin rout rerr s) as [[s' c]|] eqn:E; [|apply end_iter_ready].
  eapply io_in_ready; eassumption.
Qed.

Lemma emit_poll_ready s t d w : ready_of (fst (emit_poll s t d)) (snd (emit_poll s t d)) w.
Proof. unfold emit_poll. destruct (ms_of_ns t <=? POLL_CLAMP_MS)%N; split; exact I. Qed.

(* ---------- monotonicity in the world ---------- *)

(* w' is w after steps of the child (or of the parent on other pipes): what was ready stays ready *)
Record mono (w w' : world) : Prop := {
  m_free : (free (pin w) <= free (pin w'))%nat;
  m_rd : rd (pin w) = false -> rd (pin w') = false;
  m_out : readable (pout w) -> readable (pout w');
  m_err : readable (perr w) -> readable (perr w')
}.

Lemma mono_refl w : mono w w.
Proof. constructor; auto. Qed.

Lemma ready_of_mono s a w w' : mono w w' -> ready_of s a w -> ready_of s a w'.
Proof.
  intros [Hf Hr Ho He] [Hc Hp]. split.
  - destruct a as [c| |]; try exact I. destruct c as [| | |st n|]; try exact I; cbn [ready_call] in *.
    + destruct Hc as [[H|H]|H]; [left; left; lia|left; right; auto|right; exact H].
    + destruct st; try exact I; (destruct Hc as [H|H]; [left; auto|right; exact H]).
  - unfold ready_pc in *. destruct (pc s); try exact I; try (destruct Hp as [H1 H2]; split); auto.
Qed.

Lemma mono_same w w' : pin w' = pin w -> pout w' = pout w -> perr w' = perr w -> mono w w'.
Proof. intros A B C. constructor; rewrite ?A, ?B, ?C; auto. Qed.

Lemma push_nonempty (p : pipe) b : buf p <> [] -> buf (push p b) <> [].
Proof. cbn. destruct (buf p); [congruence|discriminate]. Qed.

Lemma length_skipn_le {A} n (l : list A) : (length (skipn n l) <= length l)%nat.
Proof. rewrite skipn_length. lia. Qed.

Ltac same_pipes := apply mono_same; reflexivity.

Lemma child_step_mono w k w' : child_step w k = CStep w' -> mono w w'.
Proof.
  unfold child_step. intros H.
  destruct (alive w); cbn [negb] in H; [|discriminate].
  destruct (prog w) as [|op r].
  { injection H as <-. constructor; cbn; unfold readable, free; cbn; auto. }
  destruct op as [n|st bytes|st|ns|t|].
  - (* CRead *)
    destruct (negb (piped_in w) || negb (rd (pin w))).
    { injection H as <-. same_pipes. }
    destruct (buf (pin w)) eqn:B.
    + destruct (wr (pin w)); [discriminate|]. injection H as <-. same_pipes.
    + injection H as <-. constructor; cbn; auto. unfold free. cbn. rewrite B.
      apply Nat.sub_le_mono_l. apply length_skipn_le.
  - (* CWrite *)
    destruct bytes as [|b0 bytes]. { injection H as <-. same_pipes. }
    destruct st; cbn [negb] in H.
    + destruct (negb (piped_out w) || negb (wr (pout w))) eqn:E. { injection H as <-. same_pipes. }
      destruct (negb (rd (pout w))). { injection H as <-. constructor; cbn; unfold readable; cbn; auto. }
      destruct (free (pout w) =? 0)%nat; [discriminate|]. injection H as <-.
      constructor; cbn; auto. unfold readable. cbn. intros [Hb|Hw]; [left|right; exact Hw].
      destruct (buf (pout w)); [congruence|discriminate].
    + destruct (negb (piped_out w) || negb (wr (pout w))) eqn:E. { injection H as <-. same_pipes. }
      destruct (negb (rd (pout w))). { injection H as <-. constructor; cbn; unfold readable; cbn; auto. }
      destruct (free (pout w) =? 0)%nat; [discriminate|]. injection H as <-.
      constructor; cbn; auto. unfold readable. cbn. intros [Hb|Hw]; [left|right; exact Hw].
      destruct (buf (pout w)); [congruence|discriminate].
    + destruct (negb (piped_err w) || negb (wr (perr w))) eqn:E. { injection H as <-. same_pipes. }
      destruct (negb (rd (perr w))). { injection H as <-. constructor; cbn; unfold readable; cbn; auto. }
      destruct (free (perr w) =? 0)%nat; [discriminate|]. injection H as <-.
      constructor; cbn; auto. unfold readable. cbn. intros [Hb|Hw]; [left|right; exact Hw].
      destruct (buf (perr w)); [congruence|discriminate].
  - (* CCloseS *)
    injection H as <-. destruct st; constructor; cbn; unfold readable; cbn; auto.
  - injection H as <-. same_pipes.
  - destruct (t <=? now w)%N; [|discriminate]. injection H as <-. same_pipes.
  - injection H as <-. constructor; cbn; unfold readable; cbn; auto.
Qed.

Lemma set_now_mono w t : mono w (set_now w t).
Proof. constructor; auto. Qed.

Lemma mono_trans a b c : mono a b -> mono b c -> mono a c.
Proof. intros [A1 A2 A3 A4] [B1 B2 B3 B4]. constructor; auto; lia. Qed.
