(* C01: every step of either party strictly decreases a natural-number measure (so every schedule is
   finite, no fairness needed) and no reachable state with the parent inside the call is stuck (so the
   parent is never blocked on one pipe while the child is blocked on another). *)
From Coq Require Import List NArith ZArith Bool Arith Lia.
Require Import SP.Params SP.Lib.Comm SP.Kernel.CommK SP.Kernel.CommSys
               SP.Proofs.CommBase SP.Proofs.CommReady SP.Proofs.CommInv.
Import ListNotations.

Definition b2n (b : bool) : nat := if b then 1 else 0.

Definition cop_w (o : cop) : nat :=
  match o with CWrite _ b => 1 + 2 * length b | CSleep _ => 2 | _ => 1 end.
Fixpoint prog_w (p : list cop) : nat := match p with [] => 0 | o :: r => cop_w o + prog_w r end.

Definition Mw (w : world) : nat :=
  prog_w (prog w) + b2n (alive w) + length (buf (pin w)) + length (buf (pout w)) + length (buf (perr w)).
Definition Ml (s : cst) : nat :=
  2 * length (c_input (cm s)) + b2n (c_in (cm s)) + b2n (oref s) + b2n (eref s).
Definition rank (a : action) : nat :=
  match a with Call (KPoll _ _ _ _) => 2 | Call (KWrite _) => 1 | _ => 0 end.
Definition mu (g : gstate) : nat := 3 * (Ml (gl g) + Mw (gw g)) + rank (ga g).

Lemma rank_le2 a : (rank a <= 2)%nat.
Proof. destruct a as [[]| |]; cbn; lia. Qed.

(* ---------- the child ---------- *)

Lemma skipn_firstn_len {A} m (l : list A) : (m <= length l)%nat -> (length (firstn m l) = m /\ length (skipn m l) = length l - m)%nat.
Proof. intros H. rewrite firstn_length, skipn_length. lia. Qed.

Lemma child_step_Mw w k w' : child_step w k = CStep w' -> (Mw w' < Mw w)%nat.
Proof.
  unfold child_step. intros H.
  destruct (alive w) eqn:A; cbn [negb] in H; [|discriminate].
  destruct (prog w) as [|op r] eqn:P.
  { injection H as <-. unfold Mw. wsimpl. rewrite A, P. cbn. lia. }
  destruct op as [n|st bytes|st|ns|t|].
  - destruct (negb (piped_in w) || negb (rd (pin w))).
    { injection H as <-. unfold Mw. wsimpl. rewrite A, P. cbn. lia. }
    destruct (buf (pin w)) eqn:Bf.
    + destruct (wr (pin w)); [discriminate|]. injection H as <-. unfold Mw. wsimpl. rewrite A, P, Bf. cbn. lia.
    + injection H as <-. unfold Mw. wsimpl. rewrite A, P, Bf.
      match goal with |- context [skipn ?m (n0 :: l)] => pose proof (length_skipn_le m (n0 :: l)) end.
      cbn [prog_w cop_w b2n] in *. lia.
  - destruct bytes as [|b0 bytes]. { injection H as <-. unfold Mw. wsimpl. rewrite A, P. cbn. lia. }
    remember (b0 :: bytes) as bs eqn:Hbs.
    assert (1 <= length bs)%nat as Hl1 by (subst bs; cbn; lia).
    destruct st; cbn [negb] in H.
    + destruct (negb (piped_out w) || negb (wr (pout w))).
      { injection H as <-. unfold Mw. wsimpl. rewrite A, P. cbn [prog_w cop_w b2n]. lia. }
      destruct (negb (rd (pout w))).
      { injection H as <-. unfold Mw. wsimpl. rewrite A, P. cbn [prog_w cop_w b2n]. lia. }
      destruct (free (pout w) =? 0)%nat eqn:E3; [discriminate|]. apply Nat.eqb_neq in E3.
      injection H as <-. unfold Mw. wsimpl. rewrite A, P.
      set (m := pick k (Nat.min (length bs) (free (pout w)))).
      assert (1 <= m <= length bs)%nat as Hm.
      { split; [apply pick_pos; lia|]. pose proof (pick_le k (Nat.min (length bs) (free (pout w)))). unfold m. lia. }
      destruct (skipn_firstn_len m bs (proj2 Hm)) as [L1 L2].
      rewrite app_length, L1. destruct (skipn m bs) eqn:Sk; cbn [prog_w cop_w b2n length] in *; lia.
    + destruct (negb (piped_out w) || negb (wr (pout w))).
      { injection H as <-. unfold Mw. wsimpl. rewrite A, P. cbn [prog_w cop_w b2n]. lia. }
      destruct (negb (rd (pout w))).
      { injection H as <-. unfold Mw. wsimpl. rewrite A, P. cbn [prog_w cop_w b2n]. lia. }
      destruct (free (pout w) =? 0)%nat eqn:E3; [discriminate|]. apply Nat.eqb_neq in E3.
      injection H as <-. unfold Mw. wsimpl. rewrite A, P.
      set (m := pick k (Nat.min (length bs) (free (pout w)))).
      assert (1 <= m <= length bs)%nat as Hm.
      { split; [apply pick_pos; lia|]. pose proof (pick_le k (Nat.min (length bs) (free (pout w)))). unfold m. lia. }
      destruct (skipn_firstn_len m bs (proj2 Hm)) as [L1 L2].
      rewrite app_length, L1. destruct (skipn m bs) eqn:Sk; cbn [prog_w cop_w b2n length] in *; lia.
    + destruct (negb (piped_err w) || negb (wr (perr w))).
      { injection H as <-. unfold Mw. wsimpl. rewrite A, P. cbn [prog_w cop_w b2n]. lia. }
      destruct (negb (rd (perr w))).
      { injection H as <-. unfold Mw. wsimpl. rewrite A, P. cbn [prog_w cop_w b2n]. lia. }
      destruct (free (perr w) =? 0)%nat eqn:E3; [discriminate|]. apply Nat.eqb_neq in E3.
      injection H as <-. unfold Mw. wsimpl. rewrite A, P.
      set (m := pick k (Nat.min (length bs) (free (perr w)))).
      assert (1 <= m <= length bs)%nat as Hm.
      { split; [apply pick_pos; lia|]. pose proof (pick_le k (Nat.min (length bs) (free (perr w)))). unfold m. lia. }
      destruct (skipn_firstn_len m bs (proj2 Hm)) as [L1 L2].
      rewrite app_length, L1. destruct (skipn m bs) eqn:Sk; cbn [prog_w cop_w b2n length] in *; lia.
  - injection H as <-. destruct st; unfold Mw; wsimpl; rewrite A, P; cbn [prog_w cop_w b2n]; lia.
  - injection H as <-. unfold Mw. wsimpl. rewrite A, P. cbn [prog_w cop_w b2n]. lia.
  - destruct (t <=? now w)%N; [|discriminate]. injection H as <-. unfold Mw. wsimpl. rewrite A, P. cbn [prog_w cop_w b2n]. lia.
  - injection H as <-. unfold Mw. wsimpl. rewrite A, P. cbn [prog_w cop_w b2n]. lia.
Qed.

Theorem child_mu g k g' : gstep g (GChild k) = Some g' ->
  (mu g' < mu g)%nat /\ gl g' = gl g /\ ga g' = ga g.
Proof.
  cbn [gstep]. intros H. destruct (child_step (gw g) k) as [w'| |] eqn:E.
  - injection H as <-. pose proof (child_step_Mw _ _ _ E). unfold mu. cbn [with_w gl ga gw]. split; [lia|auto].
  - destruct (prog (gw g)) as [|[| | | |t|] r] eqn:P; try discriminate. injection H as <-.
    unfold mu, Mw. cbn [with_w gl ga gw]. wsimpl. rewrite P. cbn [prog_w cop_w]. split; [lia|auto].
  - discriminate.
Qed.

(* ---------- the parent, when no time limit is set ---------- *)

Definition noclock (a : action) : Prop := a <> Call KClock.

Lemma io_in_noclock rin rout rerr s s' c : io_in rin rout rerr s = Some (s', c) -> c <> KClock /\ (forall a b d t, c <> KPoll a b d t).
Proof.
  unfold io_in, io_out, io_err. intros H. break_hyp H; try discriminate; injection H as <- <-; split; try discriminate; intros; discriminate.
Qed.

Lemma from_head_nd s : deadline s = None -> noclock (snd (from_head s)) /\ deadline (fst (from_head s)) = None.
Proof.
  intros D. split.
  2:{ destruct (data_fields _ _ (proj1 (from_head_spec s))) as [_ [_ [_ [_ [_ [_ [H7 _]]]]]]]. congruence. }
  unfold from_head, noclock. break_match; cbn [snd ret with_flags stuck]; try discriminate; try congruence.
  all: unfold with_flags; match goal with |- context [io_in ?a ?b ?c ?s] => destruct (io_in a b c s) as [[s' c']|] eqn:E end;
    cbn [snd stuck]; [destruct (io_in_noclock _ _ _ _ _ _ E) as [Hc _]; congruence|discriminate].
Qed.

Lemma end_iter_nd s : deadline s = None -> noclock (snd (end_iter s)) /\ deadline (fst (end_iter s)) = None.
Proof. intros D. unfold end_iter. rewrite D. apply from_head_nd. exact D. Qed.

Lemma cont_err_nd rerr s : deadline s = None -> noclock (snd (cont_err rerr s)) /\ deadline (fst (cont_err rerr s)) = None.
Proof.
  intros D. unfold cont_err. destruct (io_err rerr s) as [[s' c]|] eqn:E; [|apply end_iter_nd; exact D].
  cbn [fst snd]. destruct (io_err_spec _ _ _ _ E) as [Hd [_ [n ->]]]. split; [discriminate|].
  destruct (data_fields _ _ Hd) as [_ [_ [_ [_ [_ [_ [H7 _]]]]]]]. congruence.
Qed.

Lemma cont_out_nd rout rerr s : deadline s = None -> noclock (snd (cont_out rout rerr s)) /\ deadline (fst (cont_out rout rerr s)) = None.
Proof.
  intros D. unfold cont_out. destruct (io_out rout rerr s) as [[s' c]|] eqn:E; [|apply end_iter_nd; exact D].
  cbn [fst snd]. destruct (io_out_spec _ _ _ _ _ E) as [Hd [_ [st [n [-> _]]]]]. split; [discriminate|].
  destruct (data_fields _ _ Hd) as [_ [_ [_ [_ [_ [_ [H7 _]]]]]]]. congruence.
Qed.

(* after a poll without timeout whose answer is consistent with the request, the next action is an I/O
   call or the return -- never another poll *)
Lemma after_flags_progress rin rout rerr s :
  deadline s = None -> limit_reached s = false ->
  (rin = true -> c_in (cm s) = true) -> (rout = true -> oref s = true) -> (rerr = true -> eref s = true) ->
  let a := snd (after_flags rin rout rerr s) in
  noclock a /\ (rank a <= 1)%nat /\ deadline (fst (after_flags rin rout rerr s)) = None.
Proof.
  intros D L Hi Ho He. cbn zeta.
  assert (deadline (fst (after_flags rin rout rerr s)) = None) as Hd.
  { destruct (data_fields _ _ (proj1 (after_flags_spec rin rout rerr s))) as [_ [_ [_ [_ [_ [_ [H7 _]]]]]]]. congruence. }
  split; [|split; [|exact Hd]].
  - unfold after_flags, noclock. destruct (negb rin && negb rout && negb rerr); [discriminate|].
    unfold with_flags. destruct (io_in rin rout rerr s) as [[s' c]|] eqn:E.
    + cbn [snd]. destruct (io_in_noclock _ _ _ _ _ _ E) as [Hc _]. congruence.
    + apply end_iter_nd. exact D.
  - unfold after_flags. destruct (negb rin && negb rout && negb rerr) eqn:N; [cbn; lia|].
    assert (read_size s <> None) as Hrs.
    { unfold read_size. unfold limit_reached in L. destruct (limit s); [rewrite L|]; discriminate. }
    unfold with_flags, io_in, io_out, io_err.
    destruct rin; [rewrite (Hi eq_refl); cbn; lia|]. cbn [andb].
    destruct rout; [rewrite (Ho eq_refl); cbn [andb]; destruct (read_size s); [cbn; lia|congruence]|]. cbn [andb].
    destruct rerr; [rewrite (He eq_refl); cbn [andb]; destruct (read_size s); [cbn; lia|congruence]|].
    discriminate.
Qed.

Lemma after_flags_nd rin rout rerr s : deadline s = None ->
  noclock (snd (after_flags rin rout rerr s)) /\ deadline (fst (after_flags rin rout rerr s)) = None.
Proof.
  intros D. split.
  2:{ destruct (data_fields _ _ (proj1 (after_flags_spec rin rout rerr s))) as [_ [_ [_ [_ [_ [_ [H7 _]]]]]]]. congruence. }
  unfold after_flags, noclock. destruct (negb rin && negb rout && negb rerr); [discriminate|].
  unfold with_flags. destruct (io_in rin rout rerr s) as [[s' c]|] eqn:E.
  - cbn [snd]. destruct (io_in_noclock _ _ _ _ _ _ E) as [Hc _]. congruence.
  - apply end_iter_nd. exact D.
Qed.

(* without a time limit L never looks at the clock *)
Lemma step_nd s c r : J s (Call c) -> deadline s = None -> c <> KClock ->
  noclock (snd (step s r)) /\ deadline (fst (step s r)) = None.
Proof.
  intros Hj D Hc.
  destruct r as [cnt ri ro re|n|b| |t|e].
  6:{ rewrite (step_err s _ e eq_refl). split; [discriminate|exact D]. }
  all: unfold step; destruct c as [fi fo fe tmo|bb| |st nn|]; try congruence.
  all: try (cbn [J] in Hj; destruct Hj as [_ [_ [_ [_ [[P _]|[d [ovf [_ [Hd _]]]]]]]]]; [rewrite P|congruence]).
  all: try (cbn [J] in Hj; destruct Hj as [[ro' [re' P]] _]; rewrite P).
  all: try (destruct st; cbn [J] in Hj; [destruct Hj|destruct Hj as [[re' P] _]; rewrite P|destruct Hj as [P _]; rewrite P]).
  all: try (split; [discriminate|exact D]).
  all: try (apply after_flags_nd; exact D).
  all: try (cbn [negb orb]; rewrite orb_true_r; apply after_flags_nd; exact D).
  all: try (apply cont_out_nd; exact D).
  all: try (destruct (skipn (N.to_nat n) (c_input (cm s))); [split; [discriminate|exact D]|apply cont_out_nd; exact D]).
  all: try (destruct b; apply cont_err_nd; exact D).
  all: try (destruct b; apply end_iter_nd; exact D).
Qed.

Lemma write_size_pos : (1 <= N.to_nat WRITE_SIZE)%nat.
Proof. apply Nat.leb_le. vm_compute. reflexivity. Qed.

Lemma test_nonzero x m : test x m = true -> x <> 0%N.
Proof. unfold test. intros H ->. rewrite N.land_0_l in H. discriminate. Qed.

Theorem parent_mu g k zone dur g' :
  Inv g -> deadline (gl g) = None -> noclock (ga g) ->
  gstep g (GParent k zone dur) = Some g' ->
  (mu g' < mu g)%nat /\ deadline (gl g') = None /\ noclock (ga g').
Proof.
  intros Hinv D Hnc H. cbn [gstep] in H. destruct (ga g) as [c|e|] eqn:Ha; try discriminate.
  assert (c <> KClock) as Hc by (intros ->; apply Hnc; reflexivity).
  set (w1 := set_now (gw g) (now (gw g) + dur)%N) in *.
  pose proof (inv_now g (now (gw g) + dur)%N Hinv) as H1. fold w1 in H1.
  destruct H1 as [HJ HR HB HC]. cbn [with_w gl ga gw] in HJ, HR, HB. rewrite Ha in HJ, HR.
  assert (Mw w1 = Mw (gw g)) as Hw1 by reflexivity.
  destruct (parent_exec w1 c k zone (gissued g)) as [[w' r]|] eqn:Ex; [|discriminate].
  destruct (step (gl g) r) as [s' a'] eqn:Es. injection H as <-.
  destruct (step_nd (gl g) c r HJ D Hc) as [Hn' Hd']. rewrite Es in Hn', Hd'. cbn [fst snd] in Hn', Hd'.
  cbn [with_l gl ga gw]. split; [|split; assumption].
  unfold mu. cbn [with_l gl ga gw]. rewrite Ha. set (s := gl g) in *.
  destruct c as [fi fo fe tmo|b| |st n|]; try congruence.
  - (* poll *)
    cbn [parent_exec] in Ex. unfold k_revents in Ex.
    set (ri := if fi then rev_in w1 zone else 0%N) in *.
    set (ro := if fo then rev_rd (pout w1) else 0%N) in *.
    set (re := if fe then rev_rd (perr w1) else 0%N) in *.
    pose proof HJ as HJ'. cbn [J] in HJ'.
    destruct HJ' as [Hfi [Hfo [Hfe [_ [[P [_ [Ht L]]]|[d [ovf [_ [Hdd _]]]]]]]]]; [|congruence].
    subst tmo. destruct ((nz ri + nz ro + nz re =? 0)%N) eqn:Ec; [discriminate|]. injection Ex as <- <-.
    pose proof (step_poll_data s fi fo fe (-1)%Z (nz ri + nz ro + nz re)%N ri ro re HJ) as Hdat. rewrite Es in Hdat. cbn [fst] in Hdat.
    assert (Ml s' = Ml s) as HMl.
    { destruct (data_fields _ _ Hdat) as [F1 [F2 [F3 _]]]. unfold Ml. rewrite F1, F2, F3. reflexivity. }
    assert (rank a' <= 1)%nat as Hr.
    { assert (snd (step s (RPoll (nz ri + nz ro + nz re) ri ro re)) = a') as <- by (rewrite Es; reflexivity).
      unfold step. rewrite P. rewrite Ec. cbn [negb orb].
      apply after_flags_progress; auto.
      - intros Ht. apply test_nonzero in Ht. unfold ri in Ht. destruct fi; [auto|congruence].
      - intros Ht. apply test_nonzero in Ht. unfold ro in Ht. destruct fo; [auto|congruence].
      - intros Ht. apply test_nonzero in Ht. unfold re in Ht. destruct fe; [auto|congruence]. }
    rewrite HMl, Hw1. cbn [rank]. lia.
  - (* write *)
    cbn [parent_exec] in Ex. destruct (k_write w1 b k) as [w2 r2|] eqn:Ek; [|discriminate]. injection Ex as <- <-.
    destruct (k_write_spec _ _ _ _ _ Ek) as [[-> [-> Hrd]]|[m [-> [Hm [Hpos [Hrd [Hfree Hw]]]]]]].
    + rewrite (step_err s _ EPIPE eq_refl) in Es. injection Es as <- <-. cbn [ret fst snd rank]. rewrite Hw1.
      unfold Ml. cbn [set_pc cm oref eref]. lia.
    + destruct Hw as [P1 [P2 [P3 [Q1 [Q2 [Q3 [W4 [W5 _]]]]]]]].
      destruct (step_write_data s b (N.of_nat m) HJ) as [Hdat Hcl]. rewrite Nat2N.id in Hdat, Hcl. rewrite Es in Hdat, Hcl.
      cbn [fst snd] in Hdat, Hcl.
      assert (cm s' = set_input (cm s) (skipn m (c_input (cm s))) /\ oref s' = oref s /\ eref s' = eref s) as [F1 [F2 F3]]
        by (unfold data in Hdat; repeat split; congruence).
      pose proof HJ as HJ'. cbn [J] in HJ'. destruct HJ' as [_ [_ Hb]].
      assert (m <= length (c_input (cm s)))%nat as Hmi.
      { rewrite Hb in Hm. pose proof (firstn_le_length (N.to_nat WRITE_SIZE) (c_input (cm s))).
        rewrite firstn_length in Hm. lia. }
      assert (Ml s' + 2 * m = Ml s)%nat as HMl.
      { unfold Ml. rewrite F1, F2, F3. cbn [set_input c_input c_in]. rewrite skipn_length. lia. }
      assert (Mw w2 = Mw (gw g) + m)%nat as HMw.
      { unfold Mw. rewrite P1, P2, P3, W4, W5. wsimpl. rewrite app_length. rewrite firstn_length.
        unfold w1. wsimpl. lia. }
      destruct (Nat.eq_dec m 0) as [->|Hnz].
      * assert (c_input (cm s) = []) as Hin.
        { destruct b as [|x b']; [|specialize (Hpos ltac:(discriminate)); lia].
          pose proof write_size_pos. destruct (c_input (cm s)); [reflexivity|].
          destruct (N.to_nat WRITE_SIZE); [lia|discriminate]. }
        rewrite Hin in Hcl. cbn [skipn] in Hcl. rewrite (Hcl eq_refl). cbn [rank]. lia.
      * pose proof (rank_le2 a'). cbn [rank]. lia.
  - (* close *)
    cbn [parent_exec] in Ex. injection Ex as <- <-.
    assert (forall e, RDone <> RErr e) as Hne by (intros e He; discriminate He).
    pose proof (step_close_data s RDone HJ Hne) as Hdat. rewrite Es in Hdat. cbn [fst] in Hdat.
    assert (cm s' = closed_in (cm s) /\ oref s' = oref s /\ eref s' = eref s) as [F1 [F2 F3]]
      by (unfold data in Hdat; repeat split; congruence).
    pose proof HJ as HJ'. cbn [J] in HJ'. destruct HJ' as [_ [Hci Hin]].
    assert (Ml s' + 1 = Ml s)%nat as HMl.
    { unfold Ml. rewrite F1, F2, F3. cbn [closed_in c_input c_in length]. rewrite Hci, Hin. cbn. lia. }
    assert (Mw (k_close w1) = Mw (gw g)) as HMw by reflexivity.
    pose proof (rank_le2 a'). rewrite HMw. cbn [rank]. lia.
  - (* read *)
    cbn [parent_exec] in Ex. destruct (k_read w1 st n k) as [w2 r2|] eqn:Ek; [|discriminate]. injection Ex as <- <-.
    assert (st <> SIn) as Hst by (intros ->; cbn [J] in HJ; exact HJ).
    assert (read_size s = Some n) as Hrs by (destruct st; cbn [J] in HJ; tauto).
    destruct (k_read_spec _ _ _ _ _ _ Ek Hst (read_size_pos _ _ Hrs)) as [[-> [-> [Hbuf Hwr]]]|[m [-> [Hm [Hmn Hw]]]]]; cbn zeta in *.
    + (* end of file: the stream is retired *)
      assert (Ml s' + 1 = Ml s)%nat as HMl.
      { destruct st; [congruence| |].
        - pose proof (step_readout_data s n [] HJ) as Hdat. rewrite Es in Hdat. cbn [fst] in Hdat.
          cbn [J] in HJ. destruct HJ as [_ [Ho _]].
          assert (cm s' = cm s /\ oref s' = false /\ eref s' = eref s) as [F1 [F2 F3]] by (unfold data in Hdat; repeat split; congruence).
          unfold Ml. rewrite F1, F2, F3, Ho. cbn. lia.
        - pose proof (step_readerr_data s n [] HJ) as Hdat. rewrite Es in Hdat. cbn [fst] in Hdat.
          cbn [J] in HJ. destruct HJ as [_ [He _]].
          assert (cm s' = cm s /\ oref s' = oref s /\ eref s' = false) as [F1 [F2 F3]] by (unfold data in Hdat; repeat split; congruence).
          unfold Ml. rewrite F1, F2, F3, He. cbn. lia. }
      pose proof (rank_le2 a'). rewrite Hw1. cbn [rank]. lia.
    + destruct Hw as [P1 [Hpp [Q1 [Q2 [Q3 [W4 [W5 _]]]]]]].
      assert (Ml s' = Ml s) as HMl.
      { destruct st; [congruence| |].
        - pose proof (step_readout_data s n (firstn m (buf (pout w1))) HJ) as Hdat. rewrite Es in Hdat. cbn [fst] in Hdat.
          assert (firstn m (buf (pout w1)) <> []) as Hne.
          { intros E. apply (f_equal (@length _)) in E. rewrite firstn_length in E. cbn [length] in E. lia. }
          destruct (firstn m (buf (pout w1))); [congruence|].
          assert (cm s' = cm s /\ oref s' = oref s /\ eref s' = eref s) as [F1 [F2 F3]] by (unfold data in Hdat; repeat split; congruence).
          unfold Ml. rewrite F1, F2, F3. reflexivity.
        - pose proof (step_readerr_data s n (firstn m (buf (perr w1))) HJ) as Hdat. rewrite Es in Hdat. cbn [fst] in Hdat.
          assert (firstn m (buf (perr w1)) <> []) as Hne.
          { intros E. apply (f_equal (@length _)) in E. rewrite firstn_length in E. cbn [length] in E. lia. }
          destruct (firstn m (buf (perr w1))); [congruence|].
          assert (cm s' = cm s /\ oref s' = oref s /\ eref s' = eref s) as [F1 [F2 F3]] by (unfold data in Hdat; repeat split; congruence).
          unfold Ml. rewrite F1, F2, F3. reflexivity. }
      assert (Mw w2 + m = Mw (gw g))%nat as HMw.
      { unfold Mw. rewrite P1, W4, W5. destruct st; [congruence| |]; destruct Hpp as [-> ->]; wsimpl; rewrite skipn_length; unfold w1 in *; wsimpl; lia. }
      pose proof (rank_le2 a'). cbn [rank]. lia.
Qed.

(* ---------- no reachable state inside the call is stuck ---------- *)

Lemma child_can_step g :
  alive (gw g) = true ->
  (piped_in (gw g) = true -> rd (pin (gw g)) = true -> buf (pin (gw g)) <> [] \/ wr (pin (gw g)) = false) ->
  (piped_out (gw g) = true -> wr (pout (gw g)) = true -> free (pout (gw g)) <> 0%nat) ->
  (piped_err (gw g) = true -> wr (perr (gw g)) = true -> free (perr (gw g)) <> 0%nat) ->
  exists g', gstep g (GChild 0) = Some g'.
Proof.
  intros A Hin Hout Herr. cbn [gstep]. unfold child_step. set (w := gw g) in *. rewrite A. cbn [negb].
  destruct (prog w) as [|op r]; [eexists; reflexivity|].
  destruct op as [n|st bytes|st|ns|t|]; try (eexists; reflexivity).
  - destruct (piped_in w) eqn:Pi; cbn [negb orb]; [|eexists; reflexivity].
    destruct (rd (pin w)) eqn:Rd; cbn [negb]; [|eexists; reflexivity].
    destruct (buf (pin w)) eqn:Bf; [|eexists; reflexivity].
    destruct (Hin eq_refl eq_refl) as [Hb|Hw]; [congruence|]. rewrite Hw. eexists; reflexivity.
  - destruct bytes as [|b0 bytes]; [eexists; reflexivity|].
    destruct st; cbn [negb].
    + destruct (piped_out w) eqn:Po; cbn [negb orb]; [|eexists; reflexivity].
      destruct (wr (pout w)) eqn:Wo; cbn [negb]; [|eexists; reflexivity].
      destruct (rd (pout w)); cbn [negb]; [|eexists; reflexivity].
      pose proof (Hout eq_refl eq_refl) as Hf. apply Nat.eqb_neq in Hf. rewrite Hf. eexists; reflexivity.
    + destruct (piped_out w) eqn:Po; cbn [negb orb]; [|eexists; reflexivity].
      destruct (wr (pout w)) eqn:Wo; cbn [negb]; [|eexists; reflexivity].
      destruct (rd (pout w)); cbn [negb]; [|eexists; reflexivity].
      pose proof (Hout eq_refl eq_refl) as Hf. apply Nat.eqb_neq in Hf. rewrite Hf. eexists; reflexivity.
    + destruct (piped_err w) eqn:Pe; cbn [negb orb]; [|eexists; reflexivity].
      destruct (wr (perr w)) eqn:We; cbn [negb]; [|eexists; reflexivity].
      destruct (rd (perr w)); cbn [negb]; [|eexists; reflexivity].
      pose proof (Herr eq_refl eq_refl) as Hf. apply Nat.eqb_neq in Hf. rewrite Hf. eexists; reflexivity.
  - destruct (t <=? now w)%N; eexists; reflexivity.
Qed.

Lemma pipe_buf_pos : (1 <= PIPE_BUF)%nat.
Proof. unfold PIPE_BUF. lia. Qed.

Lemma free_empty p : pipe_ok p -> buf p = [] -> free p <> 0%nat.
Proof. intros [_ Hc] Hb. unfold free. rewrite Hb. cbn. pose proof pipe_buf_pos. lia. Qed.

Lemma rev_rd_zero p : rev_rd p = 0%N -> buf p = [] /\ wr p = true.
Proof. unfold rev_rd. destruct (buf p); destruct (wr p); vm_compute; intros H; try discriminate; auto. Qed.

Lemma rev_in_zero w zone : rev_in w zone = 0%N -> pollout_ok (pin w) zone = false /\ rd (pin w) = true.
Proof. unfold rev_in. destruct (pollout_ok (pin w) zone); destruct (rd (pin w)); vm_compute; intros H; try discriminate; auto. Qed.

Lemma pollout_false_nonempty p zone : pollout_ok p zone = false -> buf p <> [].
Proof.
  unfold pollout_ok, free. intros H Hb. rewrite Hb in H. cbn [length] in H. rewrite Nat.sub_0_r in H.
  rewrite Nat.leb_refl in H. discriminate.
Qed.

Lemma nz_sum_zero a b c : (nz a + nz b + nz c =? 0)%N = true -> a = 0%N /\ b = 0%N /\ c = 0%N.
Proof.
  unfold nz. destruct (a =? 0)%N eqn:A; destruct (b =? 0)%N eqn:B; destruct (c =? 0)%N eqn:C; cbn; intros H; try discriminate.
  apply N.eqb_eq in A. apply N.eqb_eq in B. apply N.eqb_eq in C. auto.
Qed.

Theorem never_stuck g c :
  Inv g -> deadline (gl g) = None -> ga g = Call c -> c <> KClock ->
  (exists k zone g', gstep g (GParent k zone 0) = Some g') \/ (exists g', gstep g (GChild 0) = Some g').
Proof.
  intros [HJ HR HB HC] D Ha Hc. rewrite Ha in HJ, HR. set (s := gl g) in *. set (w := gw g) in *.
  assert (set_now w (now w + 0)%N = w) as Hw0.
  { unfold set_now. rewrite N.add_0_r. destruct w; reflexivity. }
  assert (forall k zone w' r, parent_exec w c k zone (gissued g) = Some (w', r) -> exists g', gstep g (GParent k zone 0) = Some g') as Hleft.
  { intros k zone w' r Ex. cbn [gstep]. rewrite Ha. fold w. rewrite Hw0. rewrite Ex.
    destruct (step (gl g) r). eexists. reflexivity. }
  destruct HB as [B1 B2 B3 B4 B5 B6 B7 B8 B9 B10 B11 B12 B13 B14 B15].
  destruct HR as [HRc _].
  destruct c as [fi fo fe tmo|b| |st n|]; try congruence.
  - (* poll without timeout *)
    cbn [J] in HJ. destruct HJ as [Hfi [Hfo [Hfe [Hs [[P [_ [Ht L]]]|[d [ovf [_ [Hd _]]]]]]]]]; [|congruence]. subst tmo.
    destruct ((nz (if fi then rev_in w true else 0) + nz (if fo then rev_rd (pout w) else 0) + nz (if fe then rev_rd (perr w) else 0) =? 0)%N) eqn:Ec.
    2:{ left. exists 0%nat, true. eapply Hleft. cbn [parent_exec]. unfold k_revents. rewrite Ec. reflexivity. }
    right. destruct (nz_sum_zero _ _ _ Ec) as [Zi [Zo Ze]].
    assert (fi = true -> pollout_ok (pin w) true = false /\ rd (pin w) = true) as Ki by (intros ->; apply rev_in_zero; exact Zi).
    assert (fo = true -> buf (pout w) = [] /\ wr (pout w) = true) as Ko by (intros ->; apply rev_rd_zero; exact Zo).
    assert (fe = true -> buf (perr w) = [] /\ wr (perr w) = true) as Ke by (intros ->; apply rev_rd_zero; exact Ze).
    assert (alive w = true) as A.
    { destruct (alive w) eqn:A; [reflexivity|]. destruct (B14 eq_refl) as [D1 [D2 [D3 _]]].
      destruct fi; [destruct (Ki eq_refl); congruence|]. destruct fo; [destruct (Ko eq_refl); congruence|].
      destruct fe; [destruct (Ke eq_refl); congruence|]. discriminate. }
    apply child_can_step; fold w; auto.
    + intros Pi Rd. destruct fi.
      * left. eapply pollout_false_nonempty. exact (proj1 (Ki eq_refl)).
      * right. rewrite (B11 Pi). auto.
    + intros Po Wo. destruct fo.
      * apply free_empty; [exact B7|exact (proj1 (Ko eq_refl))].
      * destruct (B12 Po (eq_sym Hfo)) as [Hx _]. congruence.
    + intros Pe We. destruct fe.
      * apply free_empty; [exact B8|exact (proj1 (Ke eq_refl))].
      * destruct (B13 Pe (eq_sym Hfe)) as [Hx _]. congruence.
  - (* write *)
    destruct (k_write w b 0) as [w' r|] eqn:Ek.
    { left. exists 0%nat, true. eapply Hleft. cbn [parent_exec]. rewrite Ek. reflexivity. }
    right. unfold k_write in Ek. destruct (rd (pin w)) eqn:Rd; cbn [negb] in Ek; [|discriminate].
    destruct b as [|b0 b']; [discriminate|]. destruct (length (b0 :: b') <=? free (pin w))%nat eqn:El; [discriminate|].
    apply Nat.leb_gt in El.
    cbn [J] in HJ. destruct HJ as [_ [Hci Hb]].
    assert (length (b0 :: b') <= N.to_nat WRITE_SIZE)%nat as Hlen by (rewrite Hb; apply firstn_le_length).
    cbn [ready_call] in HRc. destruct HRc as [[Hok|Hok]|[_ [Ho He]]]; [lia|congruence|].
    assert (alive w = true) as A.
    { destruct (alive w) eqn:A; [reflexivity|]. destruct (B14 eq_refl) as [D1 _]. congruence. }
    apply child_can_step; fold w; auto.
    + intros Pi _. left. intros Hb0. destruct B6 as [_ Hcap]. unfold free in El. rewrite Hb0 in El. cbn [length] in El.
      pose proof write_chunk_fits. cbn [length] in Hlen. lia.
    + intros Po Wo. destruct (B12 Po Ho) as [Hx _]. congruence.
    + intros Pe We. destruct (B13 Pe He) as [Hx _]. congruence.
  - (* close *)
    left. exists 0%nat, true. eapply Hleft. reflexivity.
  - (* read *)
    destruct (k_read w st n 0) as [w' r|] eqn:Ek.
    { left. exists 0%nat, true. eapply Hleft. cbn [parent_exec]. rewrite Ek. reflexivity. }
    right. unfold k_read in Ek.
    destruct st; [cbn [J] in HJ; destruct HJ| |].
    + destruct (buf (pout w)) eqn:Bo; [|discriminate]. destruct (wr (pout w)) eqn:Wo; [|discriminate].
      cbn [ready_call] in HRc. destruct HRc as [[Hr|Hr]|[_ [Hci He]]]; [congruence|congruence|].
      assert (alive w = true) as A.
      { destruct (alive w) eqn:A; [reflexivity|]. destruct (B14 eq_refl) as [_ [D2 _]]. congruence. }
      apply child_can_step; fold w; auto.
      * intros Pi _. right. rewrite (B11 Pi). exact Hci.
      * intros _ _. apply free_empty; [exact B7|exact Bo].
      * intros Pe We. destruct (B13 Pe He) as [Hx _]. congruence.
    + destruct (buf (perr w)) eqn:Be; [|discriminate]. destruct (wr (perr w)) eqn:We; [|discriminate].
      cbn [ready_call] in HRc. destruct HRc as [[Hr|Hr]|[_ [Hci Ho]]]; [congruence|congruence|].
      assert (alive w = true) as A.
      { destruct (alive w) eqn:A; [reflexivity|]. destruct (B14 eq_refl) as [_ [_ [D3 _]]]. congruence. }
      apply child_can_step; fold w; auto.
      * intros Pi _. right. rewrite (B11 Pi). exact Hci.
      * intros Po Wo. destruct (B12 Po Ho) as [Hx _]. congruence.
      * intros _ _. apply free_empty; [exact B8|exact Be].
Qed.
