(* The statements of C01-C04 about the closed system G, derived from the invariant (CommInv), the
   measure and the progress theorem (CommTerm). *)
From Coq Require Import List NArith ZArith Bool Arith Lia.
Require Import SP.Params SP.Lib.Comm SP.Kernel.CommK SP.Kernel.CommSys
               SP.Proofs.CommBase SP.Proofs.CommReady SP.Proofs.CommInv SP.Proofs.CommTerm.
Import ListNotations.

(* steps inside one read() call *)
Definition in_call (ch : gchoice) : Prop := match ch with GStart _ _ => False | _ => True end.

(* a call made without time limit *)
Definition NoLimit (g : gstate) : Prop := deadline (gl g) = None /\ noclock (ga g).

Lemma step_nolimit g ch g' : Inv g -> NoLimit g -> in_call ch -> gstep g ch = Some g' ->
  NoLimit g' /\ (mu g' < mu g)%nat.
Proof.
  intros Hinv [D Hn] Hc H. destruct ch as [k zone dur|k|lim tl]; [| |destruct Hc].
  - destruct (parent_mu g k zone dur g' Hinv D Hn H) as [Hm [D' Hn']]. split; [split|]; assumption.
  - destruct (child_mu g k g' H) as [Hm [Hl Ha]]. split; [split|exact Hm]; rewrite ?Hl, ?Ha; assumption.
Qed.

(* C01: every schedule of a call without time limit is finite, with an explicit bound *)
Theorem comm_run_bounded g chs g' :
  Inv g -> NoLimit g -> Forall in_call chs -> grun g chs = Some g' ->
  (length chs + mu g' <= mu g)%nat /\ Inv g' /\ NoLimit g'.
Proof.
  revert g. induction chs as [|ch chs IH]; intros g Hinv Hn Hall H; cbn [grun] in H.
  - injection H as <-. cbn. auto.
  - destruct (gstep g ch) as [g1|] eqn:E; [|discriminate].
    inversion Hall as [|? ? Hc Hrest]; subst.
    destruct (step_nolimit g ch g1 Hinv Hn Hc E) as [Hn1 Hm].
    destruct (IH g1 (inv_step _ _ _ Hinv E) Hn1 Hrest H) as [Hb [Hi' Hn']].
    cbn [length]. split; [lia|auto].
Qed.

Corollary comm_no_infinite_schedule g chs :
  Inv g -> NoLimit g -> Forall in_call chs -> (mu g < length chs)%nat -> grun g chs = None.
Proof.
  intros Hinv Hn Hall Hlen. destruct (grun g chs) as [g'|] eqn:E; [|reflexivity].
  destruct (comm_run_bounded g chs g' Hinv Hn Hall E) as [Hb _]. lia.
Qed.

(* C01: inside the call somebody can always move: the parent is never blocked while the child is *)
Theorem comm_never_stuck g c :
  Inv g -> NoLimit g -> ga g = Call c ->
  (exists k zone g', gstep g (GParent k zone 0) = Some g') \/ (exists g', gstep g (GChild 0) = Some g').
Proof.
  intros Hinv [D Hn] Ha. apply (never_stuck g c Hinv D Ha). intros ->. apply Hn. exact Ha.
Qed.

(* C01: once the child is gone the parent itself is never blocked: it runs to its return *)
Theorem comm_parent_runs_after_child_done g c :
  Inv g -> NoLimit g -> ga g = Call c -> alive (gw g) = false ->
  exists k zone g', gstep g (GParent k zone 0) = Some g'.
Proof.
  intros Hinv Hn Ha Hdead. destruct (comm_never_stuck g c Hinv Hn Ha) as [H|[g' H]]; [exact H|].
  exfalso. cbn [gstep] in H. unfold child_step in H. rewrite Hdead in H. cbn in H. discriminate.
Qed.

Lemma init_nolimit pi po pe ci co ce child input lim :
  NoLimit (ginit pi po pe ci co ce child input lim None).
Proof.
  unfold ginit, start. cbn [set_pc].
  set (s0 := {| cm := _; oref := _; eref := _; outv := _; errv := _; limit := _; deadline := None; timed_out := _; pc := _ |}).
  destruct (from_head s0) as [s a] eqn:E. unfold NoLimit. cbn [gl ga].
  destruct (from_head_nd s0 eq_refl) as [H1 H2]. rewrite E in H1, H2. auto.
Qed.

(* ---------- a retired stream is never polled or read again within the call ---------- *)

Lemma step_oref_mono s r : oref s = false -> oref (fst (step s r)) = false.
Proof.
  intros H. unfold step.
  destruct (pc s) eqn:P; destruct r as [cnt ri ro re|n|b| |t|e];
    repeat match goal with
           | |- context [match ?x with _ => _ end] => destruct x eqn:?
           end;
    try (cbn [fst ret set_pc oref]; exact H);
    match goal with
    | |- oref (fst (?f _ _ _ ?s')) = false =>
        first [ rewrite (proj1 (proj2 (data_fields _ _ (proj1 (after_flags_spec _ _ _ s')))))
              | idtac ]
    | _ => idtac
    end;
    try (rewrite (proj1 (proj2 (data_fields _ _ (proj1 (from_head_spec _))))));
    try (rewrite (proj1 (proj2 (data_fields _ _ (proj1 (end_iter_spec _))))));
    try (rewrite (proj1 (proj2 (data_fields _ _ (proj1 (cont_err_spec _ _))))));
    try (rewrite (proj1 (proj2 (data_fields _ _ (proj1 (cont_out_spec _ _ _))))));
    try (unfold emit_poll; break_match; cbn [fst set_pc oref]);
    cbn [oref set_cm set_pc]; auto.
Qed.

Lemma step_eref_mono s r : eref s = false -> eref (fst (step s r)) = false.
Proof.
  intros H. unfold step.
  destruct (pc s) eqn:P; destruct r as [cnt ri ro re|n|b| |t|e];
    repeat match goal with
           | |- context [match ?x with _ => _ end] => destruct x eqn:?
           end;
    try (cbn [fst ret set_pc eref]; exact H);
    try (rewrite (proj1 (proj2 (proj2 (data_fields _ _ (proj1 (after_flags_spec _ _ _ _)))))));
    try (rewrite (proj1 (proj2 (proj2 (data_fields _ _ (proj1 (from_head_spec _)))))));
    try (rewrite (proj1 (proj2 (proj2 (data_fields _ _ (proj1 (end_iter_spec _)))))));
    try (rewrite (proj1 (proj2 (proj2 (data_fields _ _ (proj1 (cont_err_spec _ _)))))));
    try (rewrite (proj1 (proj2 (proj2 (data_fields _ _ (proj1 (cont_out_spec _ _ _)))))));
    try (unfold emit_poll; break_match; cbn [fst set_pc eref]);
    cbn [eref set_cm set_pc]; auto.
Qed.

(* within a call, a stream on which a 0-byte read was seen stays retired ... *)
Theorem retired_stays_retired g ch g' : in_call ch -> gstep g ch = Some g' ->
  (oref (gl g) = false -> oref (gl g') = false) /\ (eref (gl g) = false -> eref (gl g') = false).
Proof.
  intros Hc H. destruct ch as [k zone dur|k|lim tl]; [| |destruct Hc].
  - cbn [gstep] in H. destruct (ga g); try discriminate.
    destruct (parent_exec _ _ _ _ _) as [[w' r]|]; [|discriminate].
    destruct (step (gl g) r) as [s' a'] eqn:E. injection H as <-. cbn [with_l gl].
    split; intros Ho.
    + pose proof (step_oref_mono (gl g) r Ho) as H1. rewrite E in H1. exact H1.
    + pose proof (step_eref_mono (gl g) r Ho) as H1. rewrite E in H1. exact H1.
  - destruct (child_mu g k g' H) as [_ [-> _]]. auto.
Qed.

(* ... and is neither polled nor read: the poll set and the reads name only live streams *)
Theorem no_io_on_retired_stream g :
  Inv g ->
  (forall fi fo fe t, ga g = Call (KPoll fi fo fe t) -> fo = oref (gl g) /\ fe = eref (gl g) /\ fi = c_in (cm (gl g))) /\
  (forall n, ga g = Call (KRead SOut n) -> oref (gl g) = true) /\
  (forall n, ga g = Call (KRead SErr n) -> eref (gl g) = true) /\
  (forall b, ga g = Call (KWrite b) -> c_in (cm (gl g)) = true).
Proof.
  intros [HJ _ _ _]. repeat split; intros; rewrite H in HJ; cbn [J] in HJ; tauto.
Qed.

(* ---------- C02 ---------- *)

Theorem bytes_exact_everywhere g : Inv g -> InvC g.
Proof. intros [_ _ _ HC]. exact HC. Qed.

(* an unlimited read that returns Ok has delivered exactly what the child wrote, every captured stream
   is at end-of-file, stdin is closed and the whole input has been handed to the pipe *)
Theorem ok_unlimited_is_complete g :
  Inv g -> ga g = Ret None -> limit (gl g) = None ->
  (piped_out (gw g) = true -> gdout g ++ outv (gl g) = wrote_out (gw g) /\ wr (pout (gw g)) = false /\ buf (pout (gw g)) = []) /\
  (piped_err (gw g) = true -> gderr g ++ errv (gl g) = wrote_err (gw g) /\ wr (perr (gw g)) = false /\ buf (perr (gw g)) = []) /\
  (piped_in (gw g) = true -> wr (pin (gw g)) = false /\ c_input (cm (gl g)) = [] /\ child_got (gw g) ++ buf (pin (gw g)) = ginput0 g) /\
  (piped_in (gw g) = true -> child_eof (gw g) = true -> child_got (gw g) = ginput0 g).
Proof.
  intros [HJ _ HB HC] Ha Hl. rewrite Ha in HJ. cbn [J] in HJ. destruct HJ as [_ Hg].
  destruct (Hg eq_refl) as [Hr|[Hi [Ho He]]].
  { unfold limit_reached in Hr. rewrite Hl in Hr. discriminate. }
  destruct HB as [B1 B2 B3 B4 B5 B6 B7 B8 B9 B10 B11 B12 B13 B14 B15 B16 B17].
  destruct HC as [C1 C2 C3 C4 C5].
  assert (piped_in (gw g) = true -> wr (pin (gw g)) = false /\ c_input (cm (gl g)) = [] /\ child_got (gw g) ++ buf (pin (gw g)) = ginput0 g) as Hin.
  { intros Hp. split; [rewrite (B11 Hp); exact Hi|]. split; [exact (B16 Hi)|].
    rewrite <- (C3 Hp). rewrite (B16 Hi). rewrite app_nil_r. reflexivity. }
  repeat split.
  - destruct (B12 H Ho) as [_ Hb]. rewrite <- (C1 H), Hb, app_nil_r. reflexivity.
  - exact (proj1 (B12 H Ho)).
  - exact (proj2 (B12 H Ho)).
  - destruct (B13 H He) as [_ Hb]. rewrite <- (C2 H), Hb, app_nil_r. reflexivity.
  - exact (proj1 (B13 H He)).
  - exact (proj2 (B13 H He)).
  - exact (proj1 (Hin H)).
  - exact (proj1 (proj2 (Hin H))).
  - exact (proj2 (proj2 (Hin H))).
  - intros Hp Hce. destruct (Hin Hp) as [_ [_ E]]. destruct (B17 Hp Hce) as [Hb _]. rewrite Hb, app_nil_r in E. exact E.
Qed.

(* the result is Some for exactly the streams that were piped *)
Theorem optionness g : Inv g ->
  (fst (output (gl g)) = None <-> piped_out (gw g) = false) /\ (snd (output (gl g)) = None <-> piped_err (gw g) = false).
Proof.
  intros [_ _ HB _]. unfold output. cbn [fst snd]. rewrite <- (b_cfg_out _ _ HB), <- (b_cfg_err _ _ HB).
  destruct (c_out (cm (gl g))), (c_err (cm (gl g))); split; split; intros H; try discriminate; reflexivity.
Qed.

(* end-of-file follows the last input byte immediately: the call issued right after the write that
   exhausted the input is close(stdin) *)
Theorem eof_immediately g k zone dur g' b :
  Inv g -> ga g = Call (KWrite b) -> gstep g (GParent k zone dur) = Some g' ->
  (forall e, ga g' <> Ret e) -> c_input (cm (gl g')) = [] -> c_in (cm (gl g')) = true ->
  ga g' = Call KClose.
Proof.
  intros Hinv Ha H Hnr Hin Hci. pose proof Hinv as [HJ _ _ _]. rewrite Ha in HJ.
  cbn [gstep] in H. rewrite Ha in H. cbn [parent_exec] in H.
  destruct (k_write _ b k) as [w' r|] eqn:Ek; [|discriminate].
  destruct (step (gl g) r) as [s' a'] eqn:Es. injection H as <-. cbn [with_l gl ga] in *.
  destruct (k_write_spec _ _ _ _ _ Ek) as [[-> _]|[m [-> _]]].
  - rewrite (step_err (gl g) _ EPIPE eq_refl) in Es. injection Es as <- <-. exfalso. exact (Hnr _ eq_refl).
  - destruct (step_write_data (gl g) b (N.of_nat m) HJ) as [Hd Hcl]. rewrite Es in Hd, Hcl. cbn [fst snd] in Hd, Hcl.
    apply Hcl. assert (cm s' = set_input (cm (gl g)) (skipn (N.to_nat (N.of_nat m)) (c_input (cm (gl g))))) as E
      by (unfold data in Hd; congruence).
    rewrite E in Hin. exact Hin.
Qed.

(* ---------- C03 ---------- *)

Theorem limit_respected g l : Inv g -> limit (gl g) = Some l -> (total (gl g) <= l)%N.
Proof. intros [_ _ HB _] H. exact (b_limit _ _ HB l H). Qed.

(* a successful read with a limit n >= 1 returns all-empty data only at end-of-file of everything *)
Theorem empty_means_eof g l :
  Inv g -> ga g = Ret None -> limit (gl g) = Some l -> (1 <= l)%N -> outv (gl g) = [] -> errv (gl g) = [] ->
  c_in (cm (gl g)) = false /\
  (piped_out (gw g) = true -> wr (pout (gw g)) = false /\ buf (pout (gw g)) = []) /\
  (piped_err (gw g) = true -> wr (perr (gw g)) = false /\ buf (perr (gw g)) = []).
Proof.
  intros [HJ _ HB _] Ha Hl H1 Ho He. rewrite Ha in HJ. cbn [J] in HJ. destruct HJ as [_ Hg].
  destruct (Hg eq_refl) as [Hr|[Hi [Hoo Hee]]].
  { unfold limit_reached in Hr. rewrite Hl in Hr. unfold total in Hr. rewrite Ho, He in Hr. cbn in Hr.
    apply N.leb_le in Hr. lia. }
  split; [exact Hi|]. split; intros Hp.
  - exact (b_eof_out _ _ HB Hp Hoo).
  - exact (b_eof_err _ _ HB Hp Hee).
Qed.

(* ---------- C04 ---------- *)

Lemma from_head_nt s : timed_out s = false -> snd (from_head s) <> Ret (Some ETimedOut).
Proof.
  intros T. unfold from_head. rewrite T. break_match; cbn [snd ret with_flags stuck]; try discriminate.
  all: unfold with_flags; match goal with |- context [io_in ?a ?b ?c ?s] => destruct (io_in a b c s) as [[s' c']|] end; discriminate.
Qed.

Lemma rev_in_test w zone : rev_in w zone <> 0%N -> test (rev_in w zone) (N.lor POLLOUT (N.lor POLLHUP POLLERR)) = true.
Proof. unfold rev_in. destruct (pollout_ok (pin w) zone); destruct (rd (pin w)); vm_compute; congruence. Qed.

Lemma rev_rd_test p : rev_rd p <> 0%N -> test (rev_rd p) (N.lor POLLIN POLLHUP) = true.
Proof. unfold rev_rd. destruct (buf p); destruct (wr p); vm_compute; congruence. Qed.

(* no time limit set: read() never reports a timeout, whatever the child and the kernel do *)
Definition NT (g : gstate) : Prop := NoLimit g /\ timed_out (gl g) = false /\ ga g <> Ret (Some ETimedOut).

Lemma timed_out_data s s' : data s' = data s -> timed_out s' = timed_out s.
Proof. intros H. exact (proj2 (proj2 (proj2 (proj2 (proj2 (proj2 (proj2 (data_fields _ _ H)))))))). Qed.

Lemma end_iter_nt s : deadline s = None -> timed_out s = false -> snd (end_iter s) <> Ret (Some ETimedOut).
Proof. intros D T. unfold end_iter. rewrite D. apply from_head_nt. exact T. Qed.

Lemma cont_err_nt rerr s : deadline s = None -> timed_out s = false -> snd (cont_err rerr s) <> Ret (Some ETimedOut).
Proof. intros D T. unfold cont_err. destruct (io_err rerr s) as [[s' c]|]; [discriminate|apply end_iter_nt; assumption]. Qed.

Lemma cont_out_nt rout rerr s : deadline s = None -> timed_out s = false -> snd (cont_out rout rerr s) <> Ret (Some ETimedOut).
Proof. intros D T. unfold cont_out. destruct (io_out rout rerr s) as [[s' c]|]; [discriminate|apply end_iter_nt; assumption]. Qed.

Theorem never_timeout_without_limit g ch g' :
  Inv g -> NT g -> in_call ch -> gstep g ch = Some g' -> NT g'.
Proof.
  intros Hinv [Hnl [T Hr]] Hc H. destruct (step_nolimit g ch g' Hinv Hnl Hc H) as [Hnl' _].
  destruct ch as [k zone dur|k|lim tl]; [| |destruct Hc].
  2:{ destruct (child_mu g k g' H) as [_ [Hl Ha]]. split; [exact Hnl'|]. rewrite Hl, Ha. auto. }
  destruct Hnl as [D Hn]. pose proof Hinv as [HJ _ HB _].
  cbn [gstep] in H. destruct (ga g) as [c|e|] eqn:Ha; try discriminate.
  set (w1 := set_now (gw g) (now (gw g) + dur)%N) in *.
  destruct (parent_exec w1 c k zone (gissued g)) as [[w' r]|] eqn:Ex; [|discriminate].
  destruct (step (gl g) r) as [s' a'] eqn:Es. injection H as <-. cbn [with_l gl ga].
  split; [exact Hnl'|]. set (s := gl g) in *.
  change (timed_out s' = false /\ a' <> Ret (Some ETimedOut)).
  assert (forall e, r = RErr e -> timed_out s' = false /\ a' <> Ret (Some ETimedOut)) as Herr.
  { intros e ->. rewrite (step_err s _ e eq_refl) in Es. injection Es as <- <-. split; [exact T|discriminate]. }
  destruct c as [fi fo fe tmo|b| |st n|].
  - cbn [parent_exec] in Ex. unfold k_revents in Ex.
    set (ri := if fi then rev_in w1 zone else 0%N) in *.
    set (ro := if fo then rev_rd (pout w1) else 0%N) in *.
    set (re := if fe then rev_rd (perr w1) else 0%N) in *.
    pose proof HJ as HJ'. cbn [J] in HJ'.
    destruct HJ' as [_ [_ [_ [_ [[P [_ [Ht L]]]|[d [ovf [_ [Hdd _]]]]]]]]]; [|congruence].
    subst tmo. destruct ((nz ri + nz ro + nz re =? 0)%N) eqn:Ec; [discriminate|]. injection Ex as <- <-.
    pose proof (step_poll_data s fi fo fe (-1)%Z (nz ri + nz ro + nz re)%N ri ro re HJ) as Hdat. rewrite Es in Hdat. cbn [fst] in Hdat.
    split; [rewrite (timed_out_data _ _ Hdat); exact T|].
    assert (snd (step s (RPoll (nz ri + nz ro + nz re) ri ro re)) = a') as <- by (rewrite Es; reflexivity).
    unfold step. rewrite P, Ec. cbn [negb orb]. unfold after_flags.
    assert (negb (test ri (N.lor POLLOUT (N.lor POLLHUP POLLERR))) && negb (test ro (N.lor POLLIN POLLHUP))
            && negb (test re (N.lor POLLIN POLLHUP)) = false) as ->.
    { destruct (N.eq_dec ri 0) as [Zi|Ni].
      - destruct (N.eq_dec ro 0) as [Zo|No].
        + destruct (N.eq_dec re 0) as [Ze|Ne].
          * exfalso. rewrite Zi, Zo, Ze in Ec. discriminate.
          * unfold re in *. destruct fe; [|congruence]. rewrite (rev_rd_test _ Ne). cbn. apply andb_false_r.
        + unfold ro in *. destruct fo; [|congruence]. rewrite (rev_rd_test _ No). cbn. rewrite andb_false_r. reflexivity.
      - unfold ri in *. destruct fi; [|congruence]. rewrite (rev_in_test _ _ Ni). reflexivity. }
    unfold with_flags. destruct (io_in _ _ _ s) as [[s2 c2]|]; [discriminate|]. apply end_iter_nt; assumption.
  - cbn [parent_exec] in Ex. destruct (k_write w1 b k) as [w2 r2|] eqn:Ek; [|discriminate]. injection Ex as <- <-.
    destruct (k_write_spec _ _ _ _ _ Ek) as [[-> _]|[m [-> _]]]; [eapply Herr; reflexivity|].
    destruct (step_write_data s b (N.of_nat m) HJ) as [Hdat _]. rewrite Es in Hdat. cbn [fst] in Hdat.
    split; [unfold data in Hdat; congruence|].
    assert (snd (step s (RWrote (N.of_nat m))) = a') as <- by (rewrite Es; reflexivity).
    pose proof HJ as HJ'. cbn [J] in HJ'. destruct HJ' as [[ro [re P]] _]. unfold step. rewrite P.
    destruct (skipn _ _); [discriminate|]. apply cont_out_nt; assumption.
  - cbn [parent_exec] in Ex. injection Ex as <- <-.
    assert (forall e, RDone <> RErr e) as Hne by (intros e He; discriminate He).
    pose proof (step_close_data s RDone HJ Hne) as Hdat. rewrite Es in Hdat. cbn [fst] in Hdat.
    split; [unfold data in Hdat; congruence|].
    assert (snd (step s RDone) = a') as <- by (rewrite Es; reflexivity).
    pose proof HJ as HJ'. cbn [J] in HJ'. destruct HJ' as [[ro [re P]] _]. unfold step. rewrite P.
    apply cont_out_nt; assumption.
  - cbn [parent_exec] in Ex. destruct (k_read w1 st n k) as [w2 r2|] eqn:Ek; [|discriminate]. injection Ex as <- <-.
    assert (exists b, r2 = RData b) as [b ->].
    { unfold k_read in Ek. break_hyp Ek; try discriminate; injection Ek as _ <-; eexists; reflexivity. }
    destruct st; [cbn [J] in HJ; destruct HJ| |].
    + pose proof (step_readout_data s n b HJ) as Hdat. rewrite Es in Hdat. cbn [fst] in Hdat.
      split; [unfold data in Hdat; congruence|].
      assert (snd (step s (RData b)) = a') as <- by (rewrite Es; reflexivity).
      pose proof HJ as HJ'. cbn [J] in HJ'. destruct HJ' as [[re P] _]. unfold step. rewrite P.
      destruct b; apply cont_err_nt; assumption.
    + pose proof (step_readerr_data s n b HJ) as Hdat. rewrite Es in Hdat. cbn [fst] in Hdat.
      split; [unfold data in Hdat; congruence|].
      assert (snd (step s (RData b)) = a') as <- by (rewrite Es; reflexivity).
      pose proof HJ as HJ'. cbn [J] in HJ'. destruct HJ' as [P _]. unfold step. rewrite P.
      destruct b; apply end_iter_nt; assumption.
  - exfalso. apply Hn. reflexivity.
Qed.

Lemma init_nt pi po pe ci co ce child input lim : NT (ginit pi po pe ci co ce child input lim None).
Proof.
  split; [apply init_nolimit|]. unfold ginit, start. cbn [set_pc].
  set (s0 := {| cm := _; oref := _; eref := _; outv := _; errv := _; limit := _; deadline := None; timed_out := false; pc := _ |}).
  destruct (from_head s0) as [s a] eqn:E. cbn [gl ga]. split.
  - pose proof (timed_out_data _ _ (proj1 (from_head_spec s0))) as H. rewrite E in H. exact H.
  - pose proof (from_head_nt s0 eq_refl) as H. rewrite E in H. exact H.
Qed.

Corollary no_limit_no_timeout pi po pe ci co ce child input lim chs g :
  (PIPE_BUF <= ci)%nat -> (PIPE_BUF <= co)%nat -> (PIPE_BUF <= ce)%nat -> Forall in_call chs ->
  grun (ginit pi po pe ci co ce child input lim None) chs = Some g -> ga g <> Ret (Some ETimedOut).
Proof.
  intros H1 H2 H3 Hall H.
  assert (forall g0, Forall in_call chs -> Inv g0 -> NT g0 -> grun g0 chs = Some g -> NT g) as Hgen.
  { clear H Hall. induction chs as [|ch chs IH]; intros g0 Hall Hi Hn Hr; cbn [grun] in Hr.
    - injection Hr as <-. exact Hn.
    - destruct (gstep g0 ch) as [g1|] eqn:E; [|discriminate]. inversion Hall as [|? ? Hc Hrest]; subst.
      apply (IH g1 Hrest (inv_step _ _ _ Hi E) (never_timeout_without_limit _ _ _ Hi Hn Hc E) Hr). }
  exact (proj2 (proj2 (Hgen _ Hall (inv_init _ _ _ _ _ _ _ _ _ _ H1 H2 H3) (init_nt _ _ _ _ _ _ _ _ _) H))).
Qed.

(* posix::poll never hands the kernel a negative timeout or one above i32::MAX *)
Theorem poll_argument_in_range s t d :
  match snd (emit_poll s t d) with
  | Call (KPoll _ _ _ ms) => (0 <= ms <= Z.of_N POLL_CLAMP_MS)%Z
  | _ => False
  end.
Proof.
  unfold emit_poll. destruct (ms_of_ns t <=? POLL_CLAMP_MS)%N eqn:E; cbn [snd].
  - apply N.leb_le in E. lia.
  - lia.
Qed.

(* input is never withheld while output is being produced: whenever poll reports stdin writable (and it is
   still open, i.e. input remains), the very next call is the write of the next chunk -- whatever the other two
   streams report *)
Theorem writable_stdin_is_written : forall s pdl ovf cnt rin rout rerr,
  pc s = PPoll pdl ovf -> c_in (cm s) = true -> (cnt <> 0%N \/ ovf = false) ->
  test rin (N.lor POLLOUT (N.lor POLLHUP POLLERR)) = true ->
  exists s', step s (RPoll cnt rin rout rerr) = (s', Call (KWrite (firstn (N.to_nat WRITE_SIZE) (c_input (cm s))))).
Proof.
  intros s pdl ovf cnt rin rout rerr Hpc Hin Hc Hr. unfold step. rewrite Hpc.
  assert (negb (cnt =? 0)%N || negb ovf = true) as ->.
  { destruct Hc as [Hc| ->]; [|apply orb_true_r]. apply N.eqb_neq in Hc. rewrite Hc. reflexivity. }
  unfold after_flags. rewrite Hr. cbn [negb andb]. unfold with_flags, io_in. rewrite Hin. cbn [andb].
  eexists. reflexivity.
Qed.

(* a system call that fails -- poll interrupted by a signal handler of the caller (EINTR) included -- ends the read
   with that error at once: it is never turned into a timeout and never answered by waiting again *)
Theorem syscall_error_ends_read : forall s e, step s (RErr e) = ret s (Some (EOs e)).
Proof. intros s e. unfold step. destruct (pc s); reflexivity. Qed.
