(* C04, quantitative half: a timeout is reported only if the time limit has really elapsed, to the
   millisecond granularity of the OS wait.  Time is K's clock: a call takes an arbitrary duration, a poll
   that finds nothing ready returns no earlier than its timeout. *)
From Coq Require Import List NArith ZArith Bool Lia.
Require Import SP.Params SP.Lib.Comm SP.Kernel.CommK SP.Kernel.CommSys SP.Proofs.CommBase SP.Proofs.CommReady SP.Proofs.CommInv.
Import ListNotations.
Open Scope N_scope.

Definition MS : N := 1000000.

Definition tl_ok (s : cst) (nw : N) : Prop := timed_out s = true -> forall d, deadline s = Some d -> d <= nw.

(* what is known, relative to the instant nw at which the pending action was issued *)
Definition tclause (s : cst) (a : action) (nw : N) : Prop :=
  tl_ok s nw /\
  match pc s with
  | PClock2 timeout => forall d, deadline s = Some d -> d <= nw + timeout
  | PPoll (Some pdl) ovf =>
      forall d, deadline s = Some d ->
        d <= pdl /\ exists timeout, pdl <= nw + timeout /\
          (ovf = false -> forall fi fo fe ms, a = Call (KPoll fi fo fe ms) -> timeout < (Z.to_N ms + 1) * MS)
  | PClock3 pdl => forall d, deadline s = Some d -> d <= pdl
  | PReturned => a = Ret (Some ETimedOut) -> forall d, deadline s = Some d -> d < nw + MS
  | _ => True
  end.

Record TInv (g : gstate) : Prop := {
  t_issued : gissued g <= now (gw g);
  t_clause : tclause (gl g) (ga g) (gissued g)
}.

Lemma tl_ok_data s s' nw : data s' = data s -> tl_ok s nw -> tl_ok s' nw.
Proof.
  intros D H. destruct (data_fields _ _ D) as [_ [_ [_ [_ [_ [_ [Hd Ht]]]]]]]. unfold tl_ok. rewrite Hd, Ht. exact H.
Qed.

Lemma tl_ok_mono s a b : a <= b -> tl_ok s a -> tl_ok s b.
Proof. intros L H T d D. specialize (H T d D). lia. Qed.

(* with no deadline nothing is claimed *)
Lemma tclause_no_deadline s a nw : deadline s = None -> tclause s a nw.
Proof.
  intros D. unfold tclause, tl_ok. split; [intros _ d E; congruence|].
  destruct (pc s) as [| | |[pdl|] ovf| | | | | | |]; try exact I; intros; congruence.
Qed.

Ltac tfin :=
  unfold tclause, tl_ok in *; cbn [fst snd pc deadline timed_out set_pc ret stuck] in *;
  repeat match goal with
         | |- _ /\ _ => split
         | |- True => exact I
         | |- forall _, _ => intro
         | H : Ret _ = Ret _ |- _ => injection H as H
         | H : Some _ = Some _ |- _ => injection H as H
         | H : Call _ = Ret _ |- _ => discriminate H
         | H : Stuck = Ret _ |- _ => discriminate H
         | H : None = Some _ |- _ => discriminate H
         | H : Some _ = None |- _ => discriminate H
         end; subst; try congruence; try discriminate; try lia; eauto.

(* ---------- the helpers ---------- *)

Lemma io_pcs s rin rout rerr s' c : io_in rin rout rerr s = Some (s', c) ->
  data s' = data s /\ (exists a b, pc s' = PWrite a b) \/ data s' = data s /\ (exists a, pc s' = PReadOut a) \/ data s' = data s /\ pc s' = PReadErr.
Proof.
  unfold io_in, io_out, io_err. intros H. break_hyp H; try discriminate; injection H as <- <-; cbn; eauto 6.
Qed.

Lemma io_out_pcs s rout rerr s' c : io_out rout rerr s = Some (s', c) ->
  data s' = data s /\ ((exists a, pc s' = PReadOut a) \/ pc s' = PReadErr).
Proof. unfold io_out, io_err. intros H. break_hyp H; try discriminate; injection H as <- <-; cbn; eauto 6. Qed.

Lemma io_err_pcs s rerr s' c : io_err rerr s = Some (s', c) -> data s' = data s /\ pc s' = PReadErr.
Proof. unfold io_err. intros H. break_hyp H; try discriminate; injection H as <- <-; cbn; eauto. Qed.

Lemma harmless_pc s a nw : tl_ok s nw ->
  ((exists x y, pc s = PWrite x y) \/ (exists x, pc s = PReadOut x) \/ pc s = PReadErr \/ pc s = PClock1 \/ pc s = PEndClock
   \/ pc s = PPoll None false \/ (exists x y, pc s = PClose x y)) -> tclause s a nw.
Proof.
  intros T H. unfold tclause. split; [exact T|].
  destruct H as [[x [y ->]]|[[x ->]|[->|[->|[->|[->|[x [y ->]]]]]]]]; exact I.
Qed.

Lemma from_head_t s nw : tl_ok s nw -> tclause (fst (from_head s)) (snd (from_head s)) nw.
Proof.
  intros T. unfold from_head.
  destruct (limit_reached s); [tfin|].
  destruct (negb (c_in (cm s)) && negb (oref s) && negb (eref s)); [tfin|].
  destruct (timed_out s) eqn:TO.
  - unfold tclause. cbn. split; [exact T|]. intros _ d D. specialize (T TO d D). unfold MS. lia.
  - destruct (deadline s) eqn:D; [tfin|].
    assert (forall s' a', deadline s' = None -> tclause s' a' nw) as G by (intros; apply tclause_no_deadline; assumption).
    destruct (c_in (cm s)), (oref s), (eref s); cbn [fst snd];
      try (apply G; cbn; exact D);
      try (unfold with_flags; match goal with |- context [io_in ?a ?b ?c s] => destruct (io_in a b c s) as [[s' c']|] eqn:E end;
       [cbn [fst snd]; apply G; destruct (io_pcs _ _ _ _ _ _ E) as [[Dd _]|[[Dd _]|[Dd _]]];
        destruct (data_fields _ _ Dd) as [_ [_ [_ [_ [_ [_ [Hd _]]]]]]]; congruence
       |cbn [fst snd stuck]; apply G; exact D]).
Qed.

Lemma end_iter_t s nw : tl_ok s nw -> tclause (fst (end_iter s)) (snd (end_iter s)) nw.
Proof.
  intros T. unfold end_iter. destruct (deadline s) eqn:D; [|apply from_head_t; exact T].
  cbn [fst snd]. apply harmless_pc; [exact T|]. cbn. tauto.
Qed.

Lemma cont_err_t rerr s nw : tl_ok s nw -> tclause (fst (cont_err rerr s)) (snd (cont_err rerr s)) nw.
Proof.
  intros T. unfold cont_err. destruct (io_err rerr s) as [[s' c]|] eqn:E; [|apply end_iter_t; exact T].
  destruct (io_err_pcs _ _ _ _ E) as [D P]. cbn [fst snd]. apply harmless_pc; [eapply tl_ok_data; eassumption|tauto].
Qed.

Lemma cont_out_t rout rerr s nw : tl_ok s nw -> tclause (fst (cont_out rout rerr s)) (snd (cont_out rout rerr s)) nw.
Proof.
  intros T. unfold cont_out. destruct (io_out rout rerr s) as [[s' c]|] eqn:E; [|apply end_iter_t; exact T].
  destruct (io_out_pcs _ _ _ _ _ E) as [D P]. cbn [fst snd]. apply harmless_pc; [eapply tl_ok_data; eassumption|tauto].
Qed.

(* after_flags reports a timeout only when no flag is set *)
Lemma after_flags_t rin rout rerr s nw : tl_ok s nw ->
  (rin = false -> rout = false -> rerr = false -> forall d, deadline s = Some d -> d < nw + MS) ->
  tclause (fst (after_flags rin rout rerr s)) (snd (after_flags rin rout rerr s)) nw.
Proof.
  intros T K. unfold after_flags. destruct (negb rin && negb rout && negb rerr) eqn:F.
  - destruct rin, rout, rerr; try discriminate. unfold tclause. cbn. split; [exact T|]. intros _ d D. apply K; auto.
  - unfold with_flags. destruct (io_in rin rout rerr s) as [[s' c]|] eqn:E; [|apply end_iter_t; exact T].
    cbn [fst snd]. destruct (io_pcs _ _ _ _ _ _ E) as [[D P]|[[D P]|[D P]]]; (apply harmless_pc; [eapply tl_ok_data; eassumption|tauto]).
Qed.

Lemma emit_poll_t s timeout pdl nw : tl_ok s nw -> (forall d, deadline s = Some d -> d <= pdl) -> pdl <= nw + timeout ->
  tclause (fst (emit_poll s timeout pdl)) (snd (emit_poll s timeout pdl)) nw.
Proof.
  intros T Hd Hp. unfold emit_poll, ms_of_ns. destruct (timeout / 1000000 <=? POLL_CLAMP_MS) eqn:C; cbn [fst snd]; unfold tclause; cbn [pc set_pc deadline timed_out].
  - split; [exact T|]. intros d D. split; [apply Hd; exact D|]. exists timeout. split; [exact Hp|].
    intros _ fi fo fe ms E. injection E as _ _ _ <-. rewrite Z2N.inj_pos || rewrite N2Z.id. unfold MS.
    pose proof (N.div_mod timeout 1000000). pose proof (N.mod_lt timeout 1000000). lia.
  - split; [exact T|]. intros d D. split; [apply Hd; exact D|]. exists timeout. split; [exact Hp|]. intros X; discriminate X.
Qed.

(* ---------- K's clock ---------- *)

Lemma k_write_now w b k w' r : k_write w b k = KDone w' r -> now w' = now w.
Proof. unfold k_write. intros H. break_hyp H; try discriminate; injection H as <- <-; reflexivity. Qed.

Lemma k_read_now w st n k w' r : k_read w st n k = KDone w' r -> now w' = now w.
Proof. unfold k_read. intros H. break_hyp H; try discriminate; injection H as <- <-; destruct st; reflexivity. Qed.

Lemma test_rev_in w zone : rev_in w zone <> 0 -> test (rev_in w zone) (N.lor POLLOUT (N.lor POLLHUP POLLERR)) = true.
Proof. unfold rev_in, test. destruct (pollout_ok (pin w) zone), (rd (pin w)); vm_compute; congruence. Qed.

Lemma test_rev_rd p : rev_rd p <> 0 -> test (rev_rd p) (N.lor POLLIN POLLHUP) = true.
Proof. unfold rev_rd, test. destruct (buf p), (wr p); vm_compute; congruence. Qed.

Lemma nz_zero x : nz x = 0 -> x = 0.
Proof. unfold nz. destruct (x =? 0) eqn:E; [apply N.eqb_eq in E; auto|discriminate]. Qed.

(* what a completed call tells about time and about its result *)
Lemma parent_exec_facts w c k zone gi w' r : parent_exec w c k zone gi = Some (w', r) ->
  now w <= now w'
  /\ (forall t, r = RNow t -> t = now w')
  /\ (forall cnt ri ro re, r = RPoll cnt ri ro re ->
        exists fi fo fe tmo, c = KPoll fi fo fe tmo
          /\ (cnt = 0 -> (0 <= tmo)%Z /\ gi + Z.to_N tmo * MS <= now w')
          /\ (cnt <> 0 -> test ri (N.lor POLLOUT (N.lor POLLHUP POLLERR)) = true \/ test ro (N.lor POLLIN POLLHUP) = true
                          \/ test re (N.lor POLLIN POLLHUP) = true)).
Proof.
  destruct c as [fi fo fe tmo|b| |st n|]; cbn [parent_exec]; intros H.
  - unfold k_revents in H.
    set (ri := if fi then rev_in w zone else 0) in *. set (ro := if fo then rev_rd (pout w) else 0) in *.
    set (re := if fe then rev_rd (perr w) else 0) in *.
    destruct (nz ri + nz ro + nz re =? 0) eqn:E.
    + destruct (tmo <? 0)%Z eqn:Tm; [discriminate|]. injection H as <- <-. cbn [now set_now].
      split; [lia|]. split; [intros t X; discriminate X|].
      intros cnt a b c X. injection X as <- <- <- <-. exists fi, fo, fe, tmo. split; [reflexivity|]. split.
      * intros _. apply Z.ltb_ge in Tm. split; [exact Tm|]. unfold ms_to_ns, MS. lia.
      * intros X. congruence.
    + injection H as <- <-. split; [lia|]. split; [intros t X; discriminate X|].
      intros cnt a b c X. injection X as <- <- <- <-. exists fi, fo, fe, tmo. split; [reflexivity|]. split.
      * intros X. rewrite X in E. discriminate.
      * intros _. apply N.eqb_neq in E.
        destruct (N.eq_dec ri 0) as [Zi|Ni].
        -- destruct (N.eq_dec ro 0) as [Zo|No].
           ++ destruct (N.eq_dec re 0) as [Ze|Ne]; [exfalso; apply E; rewrite Zi, Zo, Ze; reflexivity|].
              right. right. subst re. destruct fe; [apply test_rev_rd; exact Ne|congruence].
           ++ right. left. subst ro. destruct fo; [apply test_rev_rd; exact No|congruence].
        -- left. subst ri. destruct fi; [apply test_rev_in; exact Ni|congruence].
  - destruct (k_write w b k) as [w2 r2|] eqn:E; [|discriminate]. injection H as <- <-.
    rewrite (k_write_now _ _ _ _ _ E). split; [lia|]. split.
    + intros t X. unfold k_write in E. break_hyp E; try discriminate; injection E as <- <-; discriminate X.
    + intros cnt a b' c X. unfold k_write in E. break_hyp E; try discriminate; injection E as <- <-; discriminate X.
  - injection H as <- <-. split; [cbn; lia|]. split; intros; discriminate.
  - destruct (k_read w st n k) as [w2 r2|] eqn:E; [|discriminate]. injection H as <- <-.
    rewrite (k_read_now _ _ _ _ _ _ E). split; [lia|]. split.
    + intros t X. unfold k_read in E. break_hyp E; try discriminate; injection E as <- <-; discriminate X.
    + intros cnt a b' c X. unfold k_read in E. break_hyp E; try discriminate; injection E as <- <-; discriminate X.
  - injection H as <- <-. split; [lia|]. split; [intros t X; injection X as <-; reflexivity|intros; discriminate].
Qed.

(* ---------- one step of the parent ---------- *)

Lemma ret_other_t s e nw : e <> Some ETimedOut -> tl_ok s nw -> tclause (fst (ret s e)) (snd (ret s e)) nw.
Proof. intros N T. unfold tclause, ret. cbn. split; [exact T|]. intros X. injection X as X. congruence. Qed.

Lemma tl_ok_fields s s' nw : deadline s' = deadline s -> timed_out s' = timed_out s -> tl_ok s nw -> tl_ok s' nw.
Proof. intros D T H. unfold tl_ok. rewrite D, T. exact H. Qed.

Lemma step_t s a r gi nw :
  J s a -> tclause s a gi -> gi <= nw ->
  (forall t, r = RNow t -> t = nw) ->
  (forall cnt ri ro re, r = RPoll cnt ri ro re ->
        exists fi fo fe tmo, a = Call (KPoll fi fo fe tmo)
          /\ (cnt = 0 -> (0 <= tmo)%Z /\ gi + Z.to_N tmo * MS <= nw)
          /\ (cnt <> 0 -> test ri (N.lor POLLOUT (N.lor POLLHUP POLLERR)) = true \/ test ro (N.lor POLLIN POLLHUP) = true
                          \/ test re (N.lor POLLIN POLLHUP) = true)) ->
  tclause (fst (step s r)) (snd (step s r)) nw.
Proof.
  intros HJ [T C] L Hnow Hpoll. pose proof (tl_ok_mono s gi nw L T) as T'.
  assert (forall e, e <> Some ETimedOut -> tclause (fst (ret s e)) (snd (ret s e)) nw) as Rm by (intros; apply ret_other_t; assumption).
  assert (forall ro re, tclause (fst (cont_out ro re (set_cm s {| c_in := false; c_out := c_out (cm s); c_err := c_err (cm s); c_input := [] |})))
                               (snd (cont_out ro re (set_cm s {| c_in := false; c_out := c_out (cm s); c_err := c_err (cm s); c_input := [] |}))) nw) as Hclose.
  { intros ro re. apply cont_out_t. apply (tl_ok_fields s); [reflexivity|reflexivity|exact T']. }
  destruct r as [cnt ri ro re|n|b| |t|e]; unfold step.
  - (* poll result *)
    destruct (Hpoll cnt ri ro re eq_refl) as [fi [fo [fe [tmo [Ea [H0 H1]]]]]].
    destruct (pc s) as [| | |pdl ovf| | | | | | |] eqn:P; try (apply Rm; discriminate); try apply Hclose.
    destruct (negb (cnt =? 0) || negb ovf) eqn:G.
    + apply after_flags_t; [exact T'|]. intros F1 F2 F3 d D.
      destruct (cnt =? 0) eqn:Z.
      * apply N.eqb_eq in Z. destruct ovf; [discriminate|]. destruct (H0 Z) as [Hz Ht].
        destruct pdl as [p|].
        -- destruct (C d D) as [Dp [timeout [Hp Hms]]]. specialize (Hms eq_refl fi fo fe tmo Ea). lia.
        -- rewrite Ea in HJ. cbn [J] in HJ. destruct HJ as [_ [_ [_ [_ [[_ [Dn _]]|[d0 [o0 [Pq _]]]]]]]]; congruence.
      * apply N.eqb_neq in Z. destruct (H1 Z) as [X|[X|X]]; congruence.
    + destruct pdl as [p|]; [|apply Rm; discriminate]. cbn [fst snd]. unfold tclause. cbn [pc set_pc deadline timed_out].
      split; [exact T'|]. intros d D. exact (proj1 (C d D)).
  - (* write result *)
    destruct (pc s) as [| | | | |ro re| | | | |] eqn:P; try (apply Rm; discriminate); try apply Hclose.
    set (s' := set_cm s _).
    assert (tl_ok s' nw) as Ts by (apply (tl_ok_fields s); [reflexivity|reflexivity|exact T']).
    destruct (skipn (N.to_nat n) (c_input (cm s))); [|apply cont_out_t; exact Ts].
    cbn [fst snd]. apply harmless_pc; [exact Ts|]. cbn. eauto 12.
  - (* read result *)
    destruct (pc s) as [| | | | | | |rerr| | |] eqn:P; try (apply Rm; discriminate); try apply Hclose.
    + apply cont_err_t. destruct b; (apply (tl_ok_fields s); [reflexivity|reflexivity|exact T']).
    + apply end_iter_t. destruct b; (apply (tl_ok_fields s); [reflexivity|reflexivity|exact T']).
  - (* close *)
    destruct (pc s) as [| | | | | |ro re| | | |] eqn:P; try (apply Rm; discriminate); try apply Hclose.
  - (* clock reading *)
    specialize (Hnow t eq_refl). subst t.
    destruct (pc s) as [tl| |timeout| |pdl| | | | | |] eqn:P; try (apply Rm; discriminate); try apply Hclose.
    + apply from_head_t. intros X. cbn in X. discriminate.
    + destruct (deadline s) as [d|] eqn:D; [|apply Rm; discriminate]. cbn [fst snd]. unfold tclause. cbn [pc set_pc deadline timed_out].
      split; [exact T'|]. intros d' D'. rewrite D in D'. injection D' as <-. destruct (d <=? nw) eqn:E; [apply N.leb_le in E|apply N.leb_gt in E]; lia.
    + apply emit_poll_t; [exact T'| |lia]. intros d D. specialize (C d D). lia.
    + destruct (pdl <=? nw) eqn:E.
      * apply N.leb_le in E. apply after_flags_t; [exact T'|]. intros _ _ _ d D. specialize (C d D). unfold MS. lia.
      * apply N.leb_gt in E. apply emit_poll_t; [exact T'|exact C|lia].
    + destruct (deadline s) as [d|] eqn:D; [|apply Rm; discriminate].
      apply from_head_t. intros X d' D'. cbn in X, D'. injection D' as <-. apply N.leb_le in X. exact X.
  - destruct (pc s); apply Rm; discriminate.
Qed.

(* ---------- the closed system ---------- *)

Lemma child_step_now w k w' : child_step w k = CStep w' -> now w' = now w.
Proof.
  unfold child_step. intros H. break_hyp H; try discriminate; injection H as <-; try reflexivity;
    repeat match goal with s : stream |- _ => destruct s end; reflexivity.
Qed.

Theorem tinv_step g ch g' : Inv g -> TInv g -> gstep g ch = Some g' -> TInv g'.
Proof.
  intros HI [Ti Tc] H. destruct ch as [k zone dur|k|lim tl]; cbn [gstep] in H.
  - destruct (ga g) as [c|e|] eqn:Ha; try discriminate.
    set (w1 := set_now (gw g) (now (gw g) + dur)) in *.
    destruct (parent_exec w1 c k zone (gissued g)) as [[w' r]|] eqn:E; [|discriminate].
    destruct (step (gl g) r) as [s' a'] eqn:S. injection H as <-.
    destruct (parent_exec_facts _ _ _ _ _ _ _ E) as [F1 [F2 F3]].
    assert (now (gw g) <= now w1) as L1 by (unfold w1; cbn; lia).
    constructor; cbn [with_l gissued gw gl ga]; [lia|].
    pose proof (step_t (gl g) (ga g) r (gissued g) (now w')) as P. rewrite S in P. cbn [fst snd] in P. rewrite Ha in P. apply P.
    + pose proof (i_J g HI) as HJ. rewrite Ha in HJ. exact HJ.
    + exact Tc.
    + lia.
    + exact F2.
    + intros cnt ri ro re X. destruct (F3 cnt ri ro re X) as [fi [fo [fe [tmo [Ec R]]]]].
      exists fi, fo, fe, tmo. split; [rewrite Ec; reflexivity|exact R].
  - destruct (child_step (gw g) k) as [w'| |] eqn:E.
    + injection H as <-. constructor; cbn [with_w gissued gw gl ga]; [rewrite (child_step_now _ _ _ E); exact Ti|exact Tc].
    + destruct (prog (gw g)) as [|o r] eqn:Pg; [discriminate|]. destruct o as [n|st bs|st|ns|t|]; try discriminate. injection H as <-.
      constructor; cbn [with_w gissued gw gl ga set_now set_prog now]; [|exact Tc].
      unfold child_step in E. rewrite Pg in E. destruct (negb (alive (gw g))); [discriminate|].
      destruct (t <=? now (gw g)) eqn:Le; [discriminate|]. apply N.leb_gt in Le. lia.
    + discriminate.
  - destruct (ga g) as [c|e|] eqn:Ha; try discriminate.
    destruct (start (cm (gl g)) lim tl) as [s' a'] eqn:S. injection H as <-.
    constructor; cbn [gissued gw gl ga]; [lia|].
    unfold start in S. destruct tl as [t|].
    + injection S as <- <-. unfold tclause, tl_ok. cbn. split; [intros X; discriminate X|exact I].
    + pose proof (from_head_t {| cm := cm (gl g); oref := c_out (cm (gl g)); eref := c_err (cm (gl g)); outv := []; errv := [];
                                 limit := lim; deadline := None; timed_out := false; pc := PReturned |} (now (gw g))) as P.
      rewrite S in P. cbn [fst snd] in P. apply P. intros X. cbn in X. discriminate.
Qed.

Theorem tinv_init pi po pe ci co ce child input lim tl : TInv (ginit pi po pe ci co ce child input lim tl).
Proof.
  unfold ginit. destruct (start _ lim tl) as [s a] eqn:S. constructor; cbn [gissued gw gl ga init_world now]; [lia|].
  unfold start in S. destruct tl as [t|].
  - injection S as <- <-. unfold tclause, tl_ok. cbn. split; [intros X; discriminate X|exact I].
  - match type of S with from_head ?s0 = _ => pose proof (from_head_t s0 0) as P end.
    rewrite S in P. cbn [fst snd] in P. apply P. intros X. cbn in X. discriminate.
Qed.

Theorem tinv_reachable g0 : Inv g0 -> TInv g0 -> forall chs g, grun g0 chs = Some g -> TInv g.
Proof.
  intros HI HT chs. revert g0 HI HT. induction chs as [|ch r IH]; intros g0 HI HT g H; cbn [grun] in H.
  - injection H as <-. exact HT.
  - destruct (gstep g0 ch) as [g1|] eqn:E; [|discriminate].
    apply (IH g1); [eapply inv_step; eassumption|eapply tinv_step; eassumption|exact H].
Qed.

(* a timeout is reported only if the limit has really elapsed, to the millisecond granularity of the wait:
   at the instant the call returns TimedOut, less than one millisecond is missing to the deadline *)
Theorem timeout_truthful pi po pe ci co ce child input lim tl chs g :
  (PIPE_BUF <= ci)%nat -> (PIPE_BUF <= co)%nat -> (PIPE_BUF <= ce)%nat ->
  grun (ginit pi po pe ci co ce child input lim tl) chs = Some g ->
  ga g = Ret (Some ETimedOut) ->
  forall d, deadline (gl g) = Some d -> d < now (gw g) + MS.
Proof.
  intros H1 H2 H3 Hr Ha d D.
  pose proof (tinv_reachable _ (inv_init pi po pe ci co ce child input lim tl H1 H2 H3) (tinv_init _ _ _ _ _ _ _ _ _ _) chs g Hr) as [Ti [_ Tc]].
  pose proof (i_J g (inv_reachable _ chs g (inv_init pi po pe ci co ce child input lim tl H1 H2 H3) Hr)) as HJ.
  rewrite Ha in HJ. cbn [J] in HJ. destruct HJ as [P _]. rewrite P in Tc. specialize (Tc Ha d D). lia.
Qed.

(* the deadline of a call is the first clock reading of the call plus the limit *)
Theorem deadline_is_start_plus_limit g k zone dur g' tl :
  pc (gl g) = PStart tl -> ga g = Call KClock -> gstep g (GParent k zone dur) = Some g' ->
  deadline (gl g') = Some (now (gw g) + dur + tl).
Proof.
  intros P A H. cbn [gstep] in H. rewrite A in H. cbn [parent_exec] in H. unfold step in H. rewrite P in H.
  match type of H with context [from_head ?s0] => destruct (from_head s0) as [s' a'] eqn:F;
    pose proof (proj1 (from_head_spec s0)) as Dd; rewrite F in Dd end.
  injection H as <-. cbn [with_l gl]. cbn [fst] in Dd.
  destruct (data_fields _ _ Dd) as [_ [_ [_ [_ [_ [_ [Hd _]]]]]]]. rewrite Hd. reflexivity.
Qed.
