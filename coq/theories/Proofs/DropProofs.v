(* C12 / C14: dropping a handle reaps every child and never deadlocks on the handle's own pipes. *)
From Coq Require Import List Bool Arith Lia.
Require Import SP.Lib.DropOrder.
Import ListNotations.

Definition sub (c c' : nat -> nat -> bool) : Prop := forall i s, c i s = true -> c' i s = true.

Lemma exits_mono w c c' i : sub c c' -> exits w c i -> exits w c' i.
Proof.
  intros S E. induction E.
  - apply ex_exit; assumption.
  - apply ex_eof0; auto.
  - apply ex_eofS; assumption.
  - apply ex_pipe_last; auto. destruct H1 as [[P C]|D]; [left; split; auto|right; exact D].
  - apply ex_pipe_inner; assumption.
  - apply ex_err; auto.
Qed.

Definition waits_below (n : nat) (l : list act) : Prop := forall i, In (AWait i) l -> i < n.

(* if every stage can exit already, any further closes and waits run to completion *)
Lemma completes_of_all_exit w : forall l c, (forall i, i < w_n w -> exits w c i) -> waits_below (w_n w) l -> completes w c l.
Proof.
  induction l as [|a r IH]; intros c E W; [exact I|].
  destruct a as [i s|i]; cbn [completes].
  - apply IH.
    + intros j Hj. eapply exits_mono; [|apply E; exact Hj]. intros i' s' H. rewrite H. apply orb_true_r.
    + intros j Hj. apply W. right. exact Hj.
  - split.
    + apply E. apply W. left. reflexivity.
    + apply IH; [exact E|]. intros j Hj. apply W. right. exact Hj.
Qed.

(* ---------- the two chains ---------- *)

(* downstream: once the last stage's output has no reader, writers and filters exit from the last to the first *)
Lemma chain_down w c :
  (forall i, i < w_n w -> w_cls w i = KExit \/ w_cls w i = KWriter 1 \/ w_cls w i = KFilter) ->
  (w_piped w (w_n w - 1) 1 = true /\ c (w_n w - 1) 1 = true \/ w_down_closed w = true) ->
  forall d i, i + d = w_n w - 1 -> 0 < w_n w -> exits w c i.
Proof.
  intros K L. induction d as [|d IH]; intros i E P.
  - assert (i = w_n w - 1) as -> by lia. destruct (K (w_n w - 1)) as [H|H]; [lia| |].
    + apply ex_exit; [lia|exact H].
    + apply ex_pipe_last; [lia|tauto|exact L].
  - destruct (K i) as [H|H]; [lia| |].
    + apply ex_exit; [lia|exact H].
    + apply ex_pipe_inner; [lia|tauto|]. apply IH; lia.
Qed.

(* upstream: once the first stage's stdin is at end-of-file, readers and filters exit from the first to the last *)
Lemma chain_up w c :
  (forall i, i < w_n w -> w_cls w i = KExit \/ w_cls w i = KReadEOF \/ w_cls w i = KFilter) ->
  (w_piped w 0 0 = true -> c 0 0 = true) ->
  forall i, i < w_n w -> exits w c i.
Proof.
  intros K L. induction i as [|i IH]; intros P.
  - destruct (K 0 P) as [H|H]; [apply ex_exit; assumption|]. apply ex_eof0; [exact P|tauto|exact L].
  - destruct (K (S i) P) as [H|H]; [apply ex_exit; assumption|]. apply ex_eofS; [exact P|tauto|apply IH; lia].
Qed.

(* ---------- which waits a handle issues ---------- *)

Lemma popen_drop_waits d f i held j : In (AWait j) (popen_drop d f i held) -> j = i /\ d = false /\ f = false.
Proof.
  unfold popen_drop. intros H. apply in_app_or in H. destruct H as [H|H].
  - destruct d, f; cbn in H; try contradiction. destruct H as [H|[]]. injection H as <-. auto.
  - apply in_map_iff in H. destruct H as [x [Hx _]]. discriminate.
Qed.

Lemma vec_drop_waits d fin : forall held i j, In (AWait j) (vec_drop d i held fin) -> i <= j < i + length held /\ d = false /\ fin j = false.
Proof.
  induction held as [|h r IH]; intros i j H; [destruct H|].
  cbn [vec_drop] in H. apply in_app_or in H. destruct H as [H|H].
  - apply popen_drop_waits in H. destruct H as [-> [-> F]]. cbn [length]. split; [lia|auto].
  - destruct (IH (S i) j H) as [B R]. cbn [length]. split; [lia|exact R].
Qed.

Lemma vec_drop_has_wait fin : forall held i j, i <= j < i + length held -> fin j = false -> In (AWait j) (vec_drop false i held fin).
Proof.
  induction held as [|h r IH]; intros i j B F; [cbn in B; lia|].
  cbn [vec_drop]. apply in_or_app. destruct (Nat.eq_dec i j) as [->|N].
  - left. unfold popen_drop. rewrite F. cbn. left. reflexivity.
  - right. apply IH; [cbn [length] in B; lia|exact F].
Qed.

Lemma update_nth_length {A} (f : A -> A) : forall l n, length (update_nth n f l) = length l.
Proof. induction l as [|x r IH]; intros n; [destruct n; reflexivity|]. destruct n; cbn; [reflexivity|rewrite IH; reflexivity]. Qed.

(* a detached handle never waits (apart from the explicit wait of join) *)
Theorem detached_never_waits h :
  match h with
  | HPopen true _ | HReadOut true _ | HReadErr true _ | HWrite true _ | HVec true _ | HReadPipe true _ | HWritePipe true _ | HFailed true _ =>
    forall j, ~ In (AWait j) (acts h)
  | _ => True
  end.
Proof.
  destruct h as [d held|d held|d held|d held|held|d held|d held|d held|d held|d held]; try exact I; destruct d; try exact I; intros j H; cbn [acts] in H.
  - apply popen_drop_waits in H. destruct H as [_ [H _]]. discriminate.
  - destruct H as [H|H]; [discriminate|]. apply popen_drop_waits in H. destruct H as [_ [H _]]. discriminate.
  - destruct H as [H|H]; [discriminate|]. apply popen_drop_waits in H. destruct H as [_ [H _]]. discriminate.
  - destruct H as [H|H]; [discriminate|]. apply popen_drop_waits in H. destruct H as [_ [H _]]. discriminate.
  - apply vec_drop_waits in H. destruct H as [_ [H _]]. discriminate.
  - destruct H as [H|H]; [discriminate|]. apply vec_drop_waits in H. destruct H as [_ [H _]]. discriminate.
  - destruct H as [H|H]; [discriminate|]. apply vec_drop_waits in H. destruct H as [_ [H _]]. discriminate.
  - apply in_app_or in H. destruct H as [H|H].
    + apply in_concat in H. destruct H as [l [Hl Hj]]. apply in_map_iff in Hl. destruct Hl as [x [<- _]].
      apply in_map_iff in Hj. destruct Hj as [y [Hy _]]. discriminate.
    + apply vec_drop_waits in H. destruct H as [_ [H _]]. discriminate.
Qed.

(* a non-detached handle waits for every command it started *)
Theorem nondetached_waits_for_all h :
  match h with
  | HPopen false _ | HReadOut false _ | HReadErr false _ | HWrite false _ | HJoin _ => In (AWait 0) (acts h)
  | HVec false held | HReadPipe false held | HWritePipe false held | HJoinPipe false held | HFailed false held =>
    forall j, j < length held -> In (AWait j) (acts h)
  | _ => True
  end.
Proof.
  destruct h as [d held|d held|d held|d held|held|d held|d held|d held|d held|d held]; try (destruct d; try exact I); cbn [acts].
  - left. reflexivity.
  - right. left. reflexivity.
  - right. left. reflexivity.
  - right. left. reflexivity.
  - left. reflexivity.
  - intros j Hj. apply vec_drop_has_wait; [lia|reflexivity].
  - intros j Hj. right. apply vec_drop_has_wait; [rewrite update_nth_length; lia|reflexivity].
  - intros j Hj. right. apply vec_drop_has_wait; [rewrite update_nth_length; lia|reflexivity].
  - intros j Hj. destruct (Nat.eq_dec j (last_index held)) as [->|N]; [left; reflexivity|].
    right. apply vec_drop_has_wait; [lia|]. apply Nat.eqb_neq. exact N.
  - intros j Hj. apply in_or_app. right. apply vec_drop_has_wait; [rewrite map_length; lia|reflexivity].
Qed.

(* ---------- no self-inflicted deadlock ---------- *)

(* the reader of a pipeline's (or, with one stage, a command's) stdout is dropped: whatever the commands are
   still writing, the drop completes *)
Theorem read_adapter_drop_completes w d held :
  w_n w = length held -> 0 < length held ->
  (forall i, i < w_n w -> w_cls w i = KExit \/ w_cls w i = KWriter 1 \/ w_cls w i = KFilter) ->
  w_piped w (last_index held) 1 = true ->
  completes w none_closed (acts (HReadPipe d held)).
Proof.
  intros N P K Pi. cbn [acts completes].
  apply completes_of_all_exit.
  - intros i Hi. apply (chain_down w _ K) with (d := w_n w - 1 - i); try lia.
    left. unfold last_index in *. rewrite N. split; [exact Pi|]. rewrite !Nat.eqb_refl. reflexivity.
  - intros j Hj. apply vec_drop_waits in Hj. rewrite update_nth_length in Hj. lia.
Qed.

Corollary stream_stdout_drop_completes w d held :
  w_n w = 1 -> (w_cls w 0 = KExit \/ w_cls w 0 = KWriter 1 \/ w_cls w 0 = KFilter) -> w_piped w 0 1 = true ->
  completes w none_closed (acts (HReadOut d held)).
Proof.
  intros N K Pi. cbn [acts completes]. apply completes_of_all_exit.
  - intros i Hi. assert (i = 0) as -> by lia. apply (chain_down w _) with (d := 0); try lia.
    + intros j Hj. assert (j = 0) as -> by lia. exact K.
    + left. rewrite N. cbn. split; [exact Pi|reflexivity].
  - intros j Hj. apply popen_drop_waits in Hj. lia.
Qed.

Theorem stream_stderr_drop_completes w d held :
  w_n w = 1 -> (w_cls w 0 = KExit \/ w_cls w 0 = KWriter 2) -> w_piped w 0 2 = true ->
  completes w none_closed (acts (HReadErr d held)).
Proof.
  intros N K Pi. cbn [acts completes]. apply completes_of_all_exit.
  - intros i Hi. assert (i = 0) as -> by lia. destruct K as [K|K]; [apply ex_exit; [lia|exact K]|].
    apply ex_err; [lia|exact K|exact Pi|reflexivity].
  - intros j Hj. apply popen_drop_waits in Hj. lia.
Qed.

(* the writer to a pipeline's (or command's) stdin is dropped: commands waiting for end-of-file are released *)
Theorem write_adapter_drop_completes w d held :
  w_n w = length held -> 0 < length held ->
  (forall i, i < w_n w -> w_cls w i = KExit \/ w_cls w i = KReadEOF \/ w_cls w i = KFilter) ->
  completes w none_closed (acts (HWritePipe d held)).
Proof.
  intros N P K. cbn [acts completes]. apply completes_of_all_exit.
  - intros i Hi. apply (chain_up w _ K); [|exact Hi]. intros _. reflexivity.
  - intros j Hj. apply vec_drop_waits in Hj. rewrite update_nth_length in Hj. lia.
Qed.

Corollary stream_stdin_drop_completes w d held :
  w_n w = 1 -> (w_cls w 0 = KExit \/ w_cls w 0 = KReadEOF \/ w_cls w 0 = KFilter) ->
  completes w none_closed (acts (HWrite d held)).
Proof.
  intros N K. cbn [acts completes]. apply completes_of_all_exit.
  - intros i Hi. apply (chain_up w); [|intros _; reflexivity|exact Hi]. intros j Hj. assert (j = 0) as -> by lia. exact K.
  - intros j Hj. apply popen_drop_waits in Hj. lia.
Qed.

(* ---------- C14: the error path of Pipeline::popen ---------- *)

Lemma closes_then (w : world) (rest : list act) : forall (cl : list act) c,
  (forall a, In a cl -> exists i s, a = AClose i s) ->
  (forall c', sub c c' -> (forall i s, In (AClose i s) cl -> c' i s = true) -> completes w c' rest) ->
  completes w c (cl ++ rest).
Proof.
  induction cl as [|a r IH]; intros c Hc Hk.
  - cbn. apply Hk; [intros i s H; exact H|intros i s []].
  - destruct (Hc a (or_introl eq_refl)) as [i [s ->]]. cbn [app completes]. apply IH.
    + intros b Hb. apply Hc. right. exact Hb.
    + intros c' S A. apply Hk.
      * intros i' s' H. apply S. rewrite H. apply orb_true_r.
      * intros i' s' [H|H]; [|apply A; exact H]. injection H as <- <-. apply S. rewrite !Nat.eqb_refl. reflexivity.
Qed.

Lemma in_failed_closes held i s : i < length held -> In s (nth i held []) -> s < 2 ->
  In (AClose i s) (concat (map (fun ih => map (AClose (fst ih)) (filter (fun s => Nat.ltb s 2) (snd ih))) (combine (seq 0 (length held)) held))).
Proof.
  intros Hi Hs H2. apply in_concat. exists (map (AClose i) (filter (fun s => Nat.ltb s 2) (nth i held []))). split.
  - apply in_map_iff. exists (i, nth i held []). split; [reflexivity|].
    assert (forall (l : list (list nat)) b j, j < length l -> In (b + j, nth j l []) (combine (seq b (length l)) l)) as G.
    { induction l as [|h r IH]; intros b j Hj; [cbn in Hj; lia|]. destruct j as [|j]; cbn.
      - left. rewrite Nat.add_0_r. reflexivity.
      - right. replace (b + S j) with (S b + j) by lia. apply IH. cbn in Hj. lia. }
    exact (G held 0 i Hi).
  - apply in_map. apply filter_In. split; [exact Hs|]. apply Nat.ltb_lt. exact H2.
Qed.

(* k commands were started, the next one failed: the started ones are released and waited for *)
Theorem failed_start_completes w d held :
  w_n w = length held -> 0 < length held ->
  (forall i s, i < length held -> w_piped w i s = true -> In s (nth i held [])) ->
  ((forall i, i < w_n w -> w_cls w i = KExit \/ w_cls w i = KReadEOF \/ w_cls w i = KFilter)
   \/ ((forall i, i < w_n w -> w_cls w i = KExit \/ w_cls w i = KWriter 1 \/ w_cls w i = KFilter) /\ w_down_closed w = true)) ->
  completes w none_closed (acts (HFailed d held)).
Proof.
  intros N P Hp K. cbn [acts]. apply closes_then.
  - intros a Ha. apply in_concat in Ha. destruct Ha as [l [Hl Ha]]. apply in_map_iff in Hl. destruct Hl as [x [<- _]].
    apply in_map_iff in Ha. destruct Ha as [y [<- _]]. eauto.
  - intros c' _ A. apply completes_of_all_exit.
    + intros i Hi. destruct K as [K|[K D]].
      * apply (chain_up w _ K); [|exact Hi]. intros Pi. apply A. apply in_failed_closes; [lia|apply Hp; [lia|exact Pi]|lia].
      * apply (chain_down w _ K) with (d := w_n w - 1 - i); try lia. right. exact D.
    + intros j Hj. apply vec_drop_waits in Hj. rewrite map_length in Hj. lia.
Qed.
