(* Proofs about format_env / format_env_block (C06, C16). *)
From Coq Require Import List NArith Bool Lia.
Require Import SP.Base.Str SP.Base.StrFacts SP.Lib.Env.
Import ListNotations.
Open Scope N_scope.

Section Dedup.
Variable eq : str -> str -> bool.
Hypothesis eq_trans : forall a b c, eq a b = true -> eq b c = true -> eq a c = true.

Definition covered (k : str) (seen : list str) : bool := existsb (eq k) seen.

(* entries with no later equal key in env and no equal key in `seen` *)
Fixpoint keep_wrt (env : envlist) (seen : list str) : envlist :=
  match env with
  | [] => []
  | (k, v) :: r =>
    if existsb (fun kv => eq k (fst kv)) r || covered k seen then keep_wrt r seen
    else (k, v) :: keep_wrt r seen
  end.

Lemma keep_wrt_ext env : forall s1 s2, (forall k, covered k s1 = covered k s2) -> keep_wrt env s1 = keep_wrt env s2.
Proof.
  induction env as [|[k v] env IH]; intros s1 s2 H; [reflexivity|].
  cbn [keep_wrt]. rewrite H. rewrite (IH s1 s2 H). reflexivity.
Qed.

Lemma covered_absorb k seen : covered k seen = true -> forall k', covered k' (k :: seen) = covered k' seen.
Proof.
  intros Hk k'. unfold covered. cbn [existsb]. destruct (eq k' k) eqn:E; [|reflexivity].
  cbn [orb]. symmetry. unfold covered in Hk. apply existsb_exists in Hk. destruct Hk as [s [Hs Es]].
  apply existsb_exists. exists s. split; [exact Hs|]. exact (eq_trans _ _ _ E Es).
Qed.

Lemma keep_wrt_snoc env k v : forall seen,
  keep_wrt (env ++ [(k, v)]) seen = keep_wrt env (k :: seen) ++ (if covered k seen then [] else [(k, v)]).
Proof.
  induction env as [|[k0 v0] env IH]; intros seen.
  - cbn [app keep_wrt existsb orb]. destruct (covered k seen); reflexivity.
  - cbn [app keep_wrt]. rewrite existsb_app. cbn [existsb fst]. rewrite orb_false_r.
    rewrite IH. change (covered k0 (k :: seen)) with (eq k0 k || covered k0 seen). rewrite orb_assoc.
    destruct (existsb (fun kv => eq k0 (fst kv)) env || eq k0 k || covered k0 seen); reflexivity.
Qed.

Lemma dedup_rev_keep env : forall seen, rev (dedup_seen eq (rev env) seen) = keep_wrt env seen.
Proof.
  induction env as [|[k v] env IH] using rev_ind; intros seen; [reflexivity|].
  rewrite rev_app_distr. cbn [rev app dedup_seen]. rewrite keep_wrt_snoc. fold (covered k seen).
  destruct (covered k seen) eqn:E.
  - rewrite app_nil_r. rewrite IH. apply keep_wrt_ext. intros k'. symmetry. apply covered_absorb. exact E.
  - cbn [rev]. rewrite IH. reflexivity.
Qed.

Lemma keep_wrt_nil env : keep_wrt env [] = keep_last eq env.
Proof.
  induction env as [|[k v] env IH]; [reflexivity|].
  cbn [keep_wrt keep_last covered existsb]. rewrite orb_false_r. rewrite IH. reflexivity.
Qed.

Theorem dedup_is_keep_last env : rev (dedup_seen eq (rev env) []) = keep_last eq env.
Proof. rewrite dedup_rev_keep. apply keep_wrt_nil. Qed.

(* what keep_last means: survivors have pairwise unequal keys, each survivor is the last binding of
   its key, and every key of env keeps a binding *)
Lemma keep_last_sub env : forall kv, In kv (keep_last eq env) -> In kv env.
Proof.
  induction env as [|[k v] env IH]; intros kv H; [destruct H|].
  cbn [keep_last] in H. destruct (existsb (fun kv0 => eq k (fst kv0)) env).
  - right. auto.
  - destruct H as [<-|H]; [left; reflexivity|right; auto].
Qed.

Theorem keep_last_nodup env : forall k v rest pre,
  keep_last eq env = pre ++ (k, v) :: rest -> existsb (fun kv => eq k (fst kv)) rest = false.
Proof.
  induction env as [|[k0 v0] env IH]; intros k v rest pre H.
  - destruct pre; discriminate.
  - cbn [keep_last] in H. destruct (existsb (fun kv => eq k0 (fst kv)) env) eqn:E.
    + eauto.
    + destruct pre as [|p pre]; cbn [app] in H.
      * injection H as -> -> <-.
        destruct (existsb (fun kv => eq k (fst kv)) (keep_last eq env)) eqn:E2; [|reflexivity].
        apply existsb_exists in E2. destruct E2 as [kv [Hin He]].
        apply keep_last_sub in Hin. rewrite <- E. symmetry. apply existsb_exists. exists kv. split; assumption.
      * injection H as _ H. eauto.
Qed.

End Dedup.

Lemma str_eqb_trans a b c : str_eqb a b = true -> str_eqb b c = true -> str_eqb a c = true.
Proof. intros H1 H2. apply str_eqb_eq in H1. apply str_eqb_eq in H2. subst. apply str_eqb_refl. Qed.

Lemma ci_eqb_trans a b c : ci_eqb a b = true -> ci_eqb b c = true -> ci_eqb a c = true.
Proof. unfold ci_eqb. intros H1 H2. apply str_eqb_eq in H1. apply str_eqb_eq in H2. rewrite H1, H2. apply str_eqb_refl. Qed.

Theorem format_env_spec env : format_env env = map fmt_kv (keep_last str_eqb env).
Proof.
  unfold format_env. rewrite <- map_rev. rewrite (dedup_is_keep_last str_eqb str_eqb_trans). reflexivity.
Qed.

Theorem format_env_block_spec env :
  format_env_block env = concat (map (fun kv => fmt_kv kv ++ [0]) (keep_last ci_eqb env)) ++ [0].
Proof. unfold format_env_block. rewrite (dedup_is_keep_last ci_eqb ci_eqb_trans). reflexivity. Qed.

(* last binding wins: the value kept for a key is that of its last occurrence *)
Fixpoint last_binding (k : str) (env : envlist) : option str :=
  match env with
  | [] => None
  | (k0, v0) :: r => match last_binding k r with
                     | Some v => Some v
                     | None => if str_eqb k k0 then Some v0 else None
                     end
  end.

Fixpoint lookup (k : str) (env : envlist) : option str :=
  match env with
  | [] => None
  | (k0, v0) :: r => if str_eqb k k0 then Some v0 else lookup k r
  end.

Lemma last_binding_none k env : last_binding k env = None <-> existsb (fun kv => str_eqb k (fst kv)) env = false.
Proof.
  induction env as [|[k0 v0] env IH]; [split; reflexivity|].
  cbn [last_binding existsb fst]. destruct (last_binding k env) eqn:L.
  - split; [discriminate|]. intros H. apply orb_false_iff in H. destruct H as [_ H]. apply IH in H. discriminate.
  - destruct (str_eqb k k0); [split; discriminate|]. cbn [orb]. rewrite <- IH. split; reflexivity.
Qed.

Theorem keep_last_lookup k env : lookup k (keep_last str_eqb env) = last_binding k env.
Proof.
  induction env as [|[k0 v0] env IH]; [reflexivity|].
  cbn [keep_last last_binding]. destruct (existsb (fun kv => str_eqb k0 (fst kv)) env) eqn:E.
  - rewrite IH. destruct (last_binding k env) eqn:L; [reflexivity|].
    destruct (str_eqb k k0) eqn:E0; [|reflexivity]. exfalso.
    apply str_eqb_eq in E0. subst k0. apply last_binding_none in L. rewrite L in E. discriminate.
  - cbn [lookup]. destruct (str_eqb k k0) eqn:E0.
    + apply str_eqb_eq in E0. subst k0.
      assert (last_binding k env = None) as -> by (apply last_binding_none; exact E). reflexivity.
    + rewrite IH. destruct (last_binding k env); reflexivity.
Qed.
