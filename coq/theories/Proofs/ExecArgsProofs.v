(* C06: what the child is given.  prepare is exact or refuses; the environment block means what the
   request says; NUL anywhere is refused before anything is started. *)
From Coq Require Import List NArith Bool Lia.
Require Import SP.Base.Str SP.Base.StrFacts SP.Lib.Env SP.Lib.Path SP.Lib.ExecArgs SP.Proofs.EnvProofs SP.Proofs.PathProofs.
Import ListNotations.
Local Open Scope N_scope.

(* ---------- exactness ---------- *)

Theorem prepare_exact r p :
  prepare r = PPlan p ->
  p_argv p = r_argv r
  /\ p_envp p = option_map (fun env => map fmt_kv (keep_last str_eqb env)) (r_env r)
  /\ p_cwd p = r_cwd r
  /\ exists a0 rest, r_argv r = a0 :: rest
     /\ let cmd := match r_exe r with Some e => e | None => a0 end in
        p_cands p = candidates cmd (search_path_of cmd (r_path r)).
Proof.
  unfold prepare. destruct (r_argv r) as [|a0 rest] eqn:A; [discriminate|].
  destruct (has_nul _); [discriminate|]. destruct (existsb has_nul (a0 :: rest)); [discriminate|].
  destruct (match option_map format_env (r_env r) with Some l => existsb has_nul l | None => false end); [discriminate|].
  destruct (match r_cwd r with Some d => has_nul d | None => false end); [discriminate|].
  intros H. injection H as <-. cbn [p_argv p_envp p_cwd p_cands]. repeat split.
  - destruct (r_env r) as [env|]; [|reflexivity]. cbn [option_map]. rewrite format_env_spec. reflexivity.
  - exists a0, rest. split; reflexivity.
Qed.

(* the program name the child sees is the first argument, whatever is executed *)
Corollary argv0_is_program_name r p : prepare r = PPlan p -> hd_error (p_argv p) = hd_error (r_argv r).
Proof. intros H. apply prepare_exact in H. destruct H as [-> _]. reflexivity. Qed.

(* ---------- refusal ---------- *)

Lemma has_nul_app a b : has_nul (a ++ b) = has_nul a || has_nul b.
Proof. unfold has_nul. apply existsb_app. Qed.

Lemma fmt_kv_nul kv : has_nul (fmt_kv kv) = has_nul (fst kv) || has_nul (snd kv).
Proof. unfold fmt_kv. rewrite !has_nul_app. cbn. reflexivity. Qed.

Lemma existsb_In_true {A} (f : A -> bool) l x : In x l -> f x = true -> existsb f l = true.
Proof. intros Hi Hf. apply existsb_exists. exists x. split; assumption. Qed.

(* a NUL in a key that survives de-duplication, or in any value that survives, poisons the block; a NUL in
   a key always survives under that key's last binding *)
Lemma keep_last_keeps_key env : forall k v, In (k, v) env -> exists v', In (k, v') (keep_last str_eqb env).
Proof.
  induction env as [|[k0 v0] env IH]; intros k v H; [destruct H|].
  cbn [keep_last]. destruct H as [H|H].
  - injection H as -> ->. destruct (existsb (fun kv => str_eqb k (fst kv)) env) eqn:E.
    + apply existsb_exists in E. destruct E as [[k1 v1] [Hin He]]. cbn [fst] in He. apply str_eqb_eq in He. subst k1.
      eapply IH. exact Hin.
    + exists v. left. reflexivity.
  - destruct (IH k v H) as [v' Hv]. exists v'. destruct (existsb _ env); [exact Hv|right; exact Hv].
Qed.

Theorem nul_rejected r :
  r_argv r <> [] ->
  (exists a, In a (r_argv r) /\ has_nul a = true)
  \/ (exists e, r_exe r = Some e /\ has_nul e = true)
  \/ (exists env k v, r_env r = Some env /\ In (k, v) env /\ has_nul k = true)
  \/ (exists env k v, r_env r = Some env /\ In (k, v) (keep_last str_eqb env) /\ has_nul v = true)
  \/ (exists d, r_cwd r = Some d /\ has_nul d = true) ->
  prepare r = PInval.
Proof.
  intros Hne H. unfold prepare. destruct (r_argv r) as [|a0 rest] eqn:A; [congruence|].
  destruct (has_nul (match r_exe r with Some e => e | None => a0 end)) eqn:E1; [reflexivity|].
  destruct (existsb has_nul (a0 :: rest)) eqn:E2; [reflexivity|].
  destruct (match option_map format_env (r_env r) with Some l => existsb has_nul l | None => false end) eqn:E3; [reflexivity|].
  destruct (match r_cwd r with Some d => has_nul d | None => false end) eqn:E4; [reflexivity|].
  exfalso. destruct H as [[a [Ha Hn]]|[[e [He Hn]]|[[env [k [v [He [Hin Hn]]]]]|[[env [k [v [He [Hin Hn]]]]]|[d [Hd Hn]]]]]].
  - rewrite (existsb_In_true has_nul _ a Ha Hn) in E2. discriminate.
  - rewrite He in E1. congruence.
  - rewrite He in E3. cbn [option_map] in E3. rewrite format_env_spec in E3.
    destruct (keep_last_keeps_key env k v Hin) as [v' Hv].
    rewrite (existsb_In_true has_nul _ (fmt_kv (k, v'))) in E3; [discriminate| |].
    + apply in_map. exact Hv.
    + rewrite fmt_kv_nul. cbn [fst]. rewrite Hn. reflexivity.
  - rewrite He in E3. cbn [option_map] in E3. rewrite format_env_spec in E3.
    rewrite (existsb_In_true has_nul _ (fmt_kv (k, v))) in E3; [discriminate| |].
    + apply in_map. exact Hin.
    + rewrite fmt_kv_nul. cbn [snd]. rewrite Hn. apply orb_true_r.
  - rewrite Hd in E4. congruence.
Qed.

(* a refused request starts nothing: launch has no exec at all *)
Corollary refused_starts_nothing fs r : prepare r = PInval \/ prepare r = PLogic -> launch fs r = None.
Proof. unfold launch. intros [-> | ->]; reflexivity. Qed.

(* and conversely a plan is made whenever nothing contains NUL *)
Theorem clean_request_accepted r :
  r_argv r <> [] ->
  forallb (fun a => negb (has_nul a)) (r_argv r) = true ->
  match r_exe r with Some e => has_nul e = false | None => True end ->
  match r_env r with Some env => forallb (fun kv => negb (has_nul (fst kv)) && negb (has_nul (snd kv))) env = true | None => True end ->
  match r_cwd r with Some d => has_nul d = false | None => True end ->
  exists p, prepare r = PPlan p.
Proof.
  intros Hne Ha He Hv Hd. unfold prepare. destruct (r_argv r) as [|a0 rest] eqn:A; [congruence|].
  assert (existsb has_nul (a0 :: rest) = false) as ->.
  { destruct (existsb has_nul (a0 :: rest)) eqn:E; [|reflexivity]. apply existsb_exists in E. destruct E as [x [Hx Hn]].
    rewrite forallb_forall in Ha. specialize (Ha x Hx). rewrite Hn in Ha. discriminate. }
  assert (has_nul (match r_exe r with Some e => e | None => a0 end) = false) as ->.
  { destruct (r_exe r); [exact He|]. cbn [forallb] in Ha. apply andb_true_iff in Ha. destruct Ha as [Ha _].
    destruct (has_nul a0); [discriminate|reflexivity]. }
  assert (match option_map format_env (r_env r) with Some l => existsb has_nul l | None => false end = false) as ->.
  { destruct (r_env r) as [env|]; [|reflexivity]. cbn [option_map]. rewrite format_env_spec.
    destruct (existsb has_nul _) eqn:E; [|reflexivity]. apply existsb_exists in E. destruct E as [x [Hx Hn]].
    apply in_map_iff in Hx. destruct Hx as [kv [<- Hin]]. apply keep_last_sub in Hin.
    rewrite forallb_forall in Hv. specialize (Hv kv Hin). rewrite fmt_kv_nul in Hn.
    destruct (has_nul (fst kv)), (has_nul (snd kv)); discriminate. }
  assert (match r_cwd r with Some d => has_nul d | None => false end = false) as ->.
  { destruct (r_cwd r); [exact Hd|reflexivity]. }
  eexists. reflexivity.
Qed.

(* ---------- what the environment block means to the child ---------- *)

Lemma strip_prefix_app p s : strip_prefix p (p ++ s) = Some s.
Proof. induction p as [|c p IH]; [reflexivity|]. cbn. rewrite N.eqb_refl. exact IH. Qed.

Lemma strip_prefix_sound p : forall s v, strip_prefix p s = Some v -> s = p ++ v.
Proof.
  induction p as [|c p IH]; intros s v H; [cbn in H; injection H as ->; reflexivity|].
  destruct s as [|d s]; [discriminate|]. cbn in H. destruct (c =? d) eqn:E; [|discriminate].
  apply N.eqb_eq in E. subst d. cbn. f_equal. apply IH. exact H.
Qed.

Lemma key_split (k k0 : str) : forall x y, ~ In 61 k -> ~ In 61 k0 -> k ++ 61 :: x = k0 ++ 61 :: y -> k = k0 /\ x = y.
Proof.
  revert k0. induction k as [|c k IH]; intros k0 x y H1 H2 E.
  - destruct k0 as [|c0 k0]; [injection E as ->; split; reflexivity|].
    cbn in E. injection E as <- _. exfalso. apply H2. left. reflexivity.
  - destruct k0 as [|c0 k0].
    + cbn in E. injection E as -> _. exfalso. apply H1. left. reflexivity.
    + cbn in E. injection E as -> E. destruct (IH k0 x y) as [-> ->]; try exact E.
      * intros Hi. apply H1. right. exact Hi.
      * intros Hi. apply H2. right. exact Hi.
      * split; reflexivity.
Qed.

Lemma str_eqb_neq a b : a <> b -> str_eqb a b = false.
Proof. intros H. destruct (str_eqb a b) eqn:E; [|reflexivity]. apply str_eqb_eq in E. contradiction. Qed.

(* for names without '=', getenv on the formatted block is lookup in the association list *)
Lemma getenv_lookup k l : ~ In 61 k -> Forall (fun kv => ~ In 61 (fst kv)) l -> getenv k (map fmt_kv l) = lookup k l.
Proof.
  intros Hk. induction l as [|[k0 v0] l IH]; intros Hl; [reflexivity|].
  inversion Hl as [|? ? H0 Hr]; subst. cbn [map getenv lookup]. cbn [fst] in H0.
  destruct (strip_prefix (k ++ [61]) (fmt_kv (k0, v0))) as [v|] eqn:S.
  - apply strip_prefix_sound in S. unfold fmt_kv in S. cbn [fst snd] in S. rewrite <- app_assoc in S. cbn [app] in S.
    symmetry in S. apply key_split in S; try assumption. destruct S as [-> ->]. rewrite str_eqb_refl. reflexivity.
  - destruct (str_eqb k k0) eqn:E.
    + apply str_eqb_eq in E. subst k0. unfold fmt_kv in S. cbn [fst snd] in S.
      change (k ++ [61] ++ v0) with (k ++ ([61] ++ v0)) in S. rewrite app_assoc in S. rewrite strip_prefix_app in S. discriminate.
    + apply IH. exact Hr.
Qed.

(* the child's view of every variable: the value of the last binding of that name in the request, and
   nothing for a name that was not listed *)
Theorem child_env_view r p env k :
  prepare r = PPlan p -> r_env r = Some env ->
  Forall (fun kv => ~ In 61 (fst kv)) env -> ~ In 61 k ->
  exists envp, p_envp p = Some envp /\ getenv k envp = last_binding k env.
Proof.
  intros Hp He Hl Hk. apply prepare_exact in Hp. destruct Hp as [_ [Hp _]]. rewrite He in Hp. cbn [option_map] in Hp.
  eexists. split; [exact Hp|]. rewrite getenv_lookup; [apply keep_last_lookup|exact Hk|].
  apply Forall_forall. intros kv Hin. apply (keep_last_sub str_eqb) in Hin. rewrite Forall_forall in Hl. apply Hl. exact Hin.
Qed.

(* exactly the listed variables: one entry per distinct name, no entry repeated *)
Theorem child_env_exact r p env :
  prepare r = PPlan p -> r_env r = Some env ->
  p_envp p = Some (map fmt_kv (keep_last str_eqb env))
  /\ (forall k v pre rest, keep_last str_eqb env = pre ++ (k, v) :: rest -> existsb (fun kv => str_eqb k (fst kv)) rest = false)
  /\ (forall kv, In kv (keep_last str_eqb env) -> In kv env).
Proof.
  intros Hp He. apply prepare_exact in Hp. destruct Hp as [_ [Hp _]]. rewrite He in Hp. split; [exact Hp|]. split.
  - intros k v pre rest H. eapply keep_last_nodup. exact H.
  - apply keep_last_sub.
Qed.

(* unspecified environment: execv, the parent's environ is passed on untouched *)
Theorem inherit_env r p : prepare r = PPlan p -> r_env r = None -> p_envp p = None.
Proof. intros Hp He. apply prepare_exact in Hp. destruct Hp as [_ [Hp _]]. rewrite He in Hp. exact Hp. Qed.

(* ---------- lookup (C15) through the whole launch ---------- *)

Theorem launch_lookup fs r p :
  prepare r = PPlan p ->
  launch fs r = Some (exec_loop fs (p_cands p) ENOENT).
Proof. unfold launch. intros ->. reflexivity. Qed.

(* the executable override goes through the same lookup: a request with executable e tries exactly what a
   request whose first argument is e tries *)
Theorem override_same_rules fs r e a0 rest :
  r_argv r = a0 :: rest -> r_exe r = Some e ->
  forall p, prepare r = PPlan p ->
  forall p', prepare (mkreq (e :: rest) None (r_env r) (r_cwd r) (r_path r)) = PPlan p' ->
  p_cands p = p_cands p' /\ launch fs r = launch fs (mkreq (e :: rest) None (r_env r) (r_cwd r) (r_path r)).
Proof.
  intros Ha He p Hp p' Hp'. pose proof Hp as Hq. pose proof Hp' as Hq'.
  apply prepare_exact in Hp. apply prepare_exact in Hp'.
  destruct Hp as [_ [_ [_ [x [xs [Hx Hc]]]]]]. destruct Hp' as [_ [_ [_ [y [ys [Hy Hc']]]]]].
  cbn [r_argv r_exe r_path] in *. rewrite He in Hc. injection Hy as <- <-. cbv zeta in *.
  assert (p_cands p = p_cands p') as E by (rewrite Hc, Hc'; reflexivity).
  split; [exact E|]. rewrite (launch_lookup fs _ _ Hq), (launch_lookup fs _ _ Hq'), E. reflexivity.
Qed.

(* the search is made against the PARENT's PATH: whatever environment (a PATH of its own included) is requested
   for the child, an accepted request has the same candidate list, hence tries the same paths with the same outcome *)
Theorem lookup_ignores_child_env r env' p p' :
  prepare r = PPlan p -> prepare (mkreq (r_argv r) (r_exe r) env' (r_cwd r) (r_path r)) = PPlan p' ->
  p_cands p' = p_cands p /\ forall fs, exec_loop fs (p_cands p') ENOENT = exec_loop fs (p_cands p) ENOENT.
Proof.
  unfold prepare. cbn [r_argv r_exe r_env r_cwd r_path]. intros H H'.
  destruct (r_argv r) as [|a0 rest]; [discriminate|].
  repeat match type of H with context [if ?c then _ else _] => destruct c; [discriminate|] end.
  repeat match type of H' with context [if ?c then _ else _] => destruct c; [discriminate|] end.
  injection H as <-. injection H' as <-. cbn [p_cands]. split; [reflexivity|intros fs; reflexivity].
Qed.
