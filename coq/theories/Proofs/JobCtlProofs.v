(* C09 / C10: a stopped child is never taken for a terminated one.  The library's calls (type pcall) are served
   by the job-control kernel exactly as by the plain one, so every theorem about L against pserve carries over;
   a stop is reported only to a waitpid that passes WUNTRACED, which L never does. *)
From Coq Require Import List NArith Bool Lia.
Require Import SP.Lib.Status SP.Lib.PopenSM SP.Kernel.JobCtl SP.Proofs.PopenProofs.
Import ListNotations.
Open Scope N_scope.

(* the calls L makes see the plain kernel: stops are unobservable for them *)
Theorem base_calls_simulate w c dur over w' r :
  xserve w (XBase c) dur over = XRes w' r -> pserve (xbase w) c dur over = PRes (xbase w') r.
Proof.
  cbn [xserve]. unfold serve_base. destruct (pserve (xbase w) c dur over) as [b r0|]; [|discriminate].
  intros H. injection H as <- <-. reflexivity.
Qed.

Theorem base_calls_never_block_more w c dur over :
  xserve w (XBase c) dur over = XNever <-> pserve (xbase w) c dur over = PNever.
Proof.
  cbn [xserve]. unfold serve_base. destruct (pserve (xbase w) c dur over); split; intros H; try discriminate; reflexivity.
Qed.

(* a status reported to one of L's calls is that of a child which has terminated and is reaped by that call *)
Theorem base_status_means_reaped w c dur over w' same raw :
  xserve w (XBase c) dur over = XRes w' (RWaitPid same raw) ->
  same = true /\ pr (xbase w') = PReaped /\ exists nh, c = PWaitpid nh.
Proof.
  intros H. apply base_calls_simulate in H.
  destruct (pserve_waitpid_only _ _ _ _ _ _ _ H) as [nh ->].
  destruct (pserve_wait_truth _ _ _ _ _ _ _ H) as [A [B _]]. repeat split; auto. exists nh. reflexivity.
Qed.

(* a status reported for a child that is still alive afterwards is a stop report, and it goes only to a call that
   passed WUNTRACED *)
Theorem alive_status_needs_untraced w c dur over w' same raw :
  xserve w c dur over = XRes w' (RWaitPid same raw) -> pr (xbase w') = PAlive ->
  exists nh opts sig, c = XWaitOpts nh opts /\ N.land opts WUNTRACED <> 0 /\ xstopped w = Some sig /\ raw = stop_status sig.
Proof.
  intros H Ha. destruct c as [c0|nh opts].
  - destruct (base_status_means_reaped _ _ _ _ _ _ _ H) as [_ [B _]]. rewrite B in Ha. discriminate.
  - cbn [xserve] in H. destruct (xstopped w) as [sig|] eqn:S.
    + destruct (negb (N.land opts WUNTRACED =? 0) && alive_at_call (xbase w) dur && negb (xseen w)) eqn:E.
      * injection H as <- <- <-. apply andb_true_iff in E. destruct E as [E _]. apply andb_true_iff in E. destruct E as [E _].
        apply negb_true_iff in E. apply N.eqb_neq in E. exists nh, opts, sig. repeat split; auto.
      * change (xserve w (XBase (PWaitpid nh)) dur over = XRes w' (RWaitPid same raw)) in H.
        destruct (base_status_means_reaped _ _ _ _ _ _ _ H) as [_ [B _]]. rewrite B in Ha. discriminate.
    + change (xserve w (XBase (PWaitpid nh)) dur over = XRes w' (RWaitPid same raw)) in H.
      destruct (base_status_means_reaped _ _ _ _ _ _ _ H) as [_ [B _]]. rewrite B in Ha. discriminate.
Qed.

(* what the library would record if it did see a stop report: neither an exit code nor a signal *)
Theorem stop_status_is_other : forall sig, In sig [19; 20; 21; 22] -> decode_exit_status (stop_status sig) = Other (stop_status sig).
Proof. intros sig H. repeat (destruct H as [<-|H]; [vm_compute; reflexivity|]). destruct H. Qed.

(* non-vacuity: a live child stopped by SIGSTOP, then waitpid(WNOHANG|WUNTRACED) *)
Example stop_is_reported_with_untraced :
  let w0 := xinit {| pr := PAlive; exit_at := None; reap_at := None; dies_on_signal := false; pnow := 0; kills := [] |} in
  match xserve w0 (XBase (PKill 19)) 0 0 with
  | XRes w1 _ =>
    (match xserve w1 (XWaitOpts true 2) 0 0 with XRes _ r => r = RWaitPid true 4991 | XNever => False end)
    /\ (match xserve w1 (XBase (PWaitpid true)) 0 0 with XRes _ r => r = RWaitZero | XNever => False end)
  | XNever => False
  end.
Proof. vm_compute. split; reflexivity. Qed.

(* an interrupted status query is an error, never a status: the handle is left exactly as it was (still Running, the
   pid still known), so a later query reports the real cause *)
Theorem interrupted_wait_is_error p :
  pstep (mk p QWait) (RErrno EINTR) = (mk p QIdle, PRet (VErr EINTR)).
Proof. reflexivity. Qed.

Theorem interrupted_wait_timeout_is_error p dl delay :
  pstep (mk p (QWtWait dl delay false)) (RErrno EINTR) = (mk p QIdle, PRet (VErr EINTR))
  /\ pstep (mk p (QWtWait dl delay true)) (RErrno EINTR) = (mk p QIdle, PRet (VStatus None)).
Proof. split; reflexivity. Qed.

Theorem only_echild_means_reaped p e : e <> ECHILD -> absorb p (RErrno e) = inr e.
Proof. intros H. unfold absorb. apply N.eqb_neq in H. rewrite H. reflexivity. Qed.

Theorem interrupt_changes_nothing w dur w' r :
  xinterrupt w dur = XRes w' r -> r = RErrno EINTR /\ pr (xbase w') = pr (padvance (xbase w) (pnow (xbase w) + dur)) /\ xstopped w' = xstopped w.
Proof. unfold xinterrupt. intros H. injection H as <- <-. repeat split. Qed.
