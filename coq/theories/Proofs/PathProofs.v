(* Proofs about split_path and the pre-allocated executable buffer (C15, C17). *)
From Coq Require Import List NArith Bool Arith Lia.
Require Import SP.Base.Str SP.Base.StrFacts SP.Lib.Path.
Import ListNotations.
Open Scope N_scope.

Lemma split_on_nonnil d s : split_on d s <> [].
Proof. destruct s as [|c r]; cbn; [discriminate|]. destruct (c =? d); [discriminate|]. destruct (split_on d r); discriminate. Qed.

Lemma nonempty_rev_cons c cur x : nonempty (rev (c :: cur) ++ x) = true.
Proof. cbn [rev]. destruct (rev cur); reflexivity. Qed.

Lemma split_go_spec s : forall cur,
  split_go s cur = filter nonempty (match split_on colon s with h :: t => (rev cur ++ h) :: t | [] => [] end).
Proof.
  induction s as [|c r IH]; intros cur.
  - cbn [split_go split_on]. destruct cur as [|x cur]; [reflexivity|].
    cbn [filter]. rewrite nonempty_rev_cons. rewrite app_nil_r. reflexivity.
  - cbn [split_go split_on]. destruct (c =? colon) eqn:E.
    + rewrite app_nil_r. destruct cur as [|x cur].
      * cbn [rev filter nonempty]. rewrite IH. cbn [rev app].
        destruct (split_on colon r) eqn:S; [exfalso; exact (split_on_nonnil _ _ S)|reflexivity].
      * cbn [filter]. rewrite <- (app_nil_r (rev (x :: cur))) at 2. rewrite nonempty_rev_cons.
        f_equal. rewrite IH. cbn [rev app].
        destruct (split_on colon r) eqn:S; [exfalso; exact (split_on_nonnil _ _ S)|reflexivity].
    + rewrite IH. destruct (split_on colon r) as [|h t] eqn:S; [exfalso; exact (split_on_nonnil _ _ S)|].
      cbn [rev]. rewrite <- app_assoc. reflexivity.
Qed.

Theorem split_path_spec p : split_path p = filter nonempty (split_on colon p).
Proof.
  unfold split_path. rewrite split_go_spec. cbn [rev app].
  destruct (split_on colon p) eqn:S; [exfalso; exact (split_on_nonnil _ _ S)|reflexivity].
Qed.

(* split_on is the inverse of joining with the delimiter, and no piece contains the delimiter:
   together these say that split_on is "the" splitting *)
Theorem split_on_join d s : join [d] (split_on d s) = s.
Proof.
  induction s as [|c r IH]; [reflexivity|]. cbn [split_on]. destruct (c =? d) eqn:E.
  - apply N.eqb_eq in E. subst c. destruct (split_on d r) as [|h t] eqn:S; [exfalso; exact (split_on_nonnil _ _ S)|].
    rewrite join_cons2. cbn [app]. f_equal. exact IH.
  - destruct (split_on d r) as [|h t] eqn:S; [exfalso; exact (split_on_nonnil _ _ S)|].
    destruct t as [|h2 t]; cbn [join] in *; cbn [app]; f_equal; exact IH.
Qed.

Theorem split_on_no_delim d s : forall piece, In piece (split_on d s) -> ~ In d piece.
Proof.
  induction s as [|c r IH]; intros piece Hin.
  - cbn in Hin. destruct Hin as [<-|[]]. intros [].
  - cbn [split_on] in Hin. destruct (c =? d) eqn:E.
    + destruct Hin as [<-|Hin]; [intros []|auto].
    + destruct (split_on d r) as [|h t] eqn:S; [exfalso; exact (split_on_nonnil _ _ S)|].
      destruct Hin as [<-|Hin].
      * intros [Hc|Hh]; [subst c; rewrite N.eqb_refl in E; discriminate|].
        exact (IH h (or_introl eq_refl) Hh).
      * apply IH. right. exact Hin.
Qed.

Corollary split_path_pieces p : forall d, In d (split_path p) -> d <> [] /\ ~ In colon d.
Proof.
  intros d H. rewrite split_path_spec in H. apply filter_In in H. destruct H as [H1 H2]. split.
  - destruct d; [discriminate|discriminate].
  - exact (split_on_no_delim colon p d H1).
Qed.

(* ---------- the pre-allocated buffer ---------- *)

Lemma max_len_ge l : forall d, In d l -> (length d <= max_len l)%nat.
Proof.
  induction l as [|x l IH]; intros d H; [destruct H|].
  cbn [max_len fold_right]. destruct H as [<-|H]; [lia|]. specialize (IH d H). unfold max_len in IH. lia.
Qed.

Theorem prealloc_suffices cmd p :
  (forall d, In d (split_path p) -> (length d + 1 + length cmd + 1 <= prealloc_capacity cmd (Some p))%nat)
  /\ (length cmd + 1 <= prealloc_capacity cmd None)%nat.
Proof.
  unfold prealloc_capacity. split; [|lia]. intros d H. pose proof (max_len_ge _ d H). lia.
Qed.

Lemma vec_extend_fits len cap n : (len + n <= cap)%nat -> vec_extend (len, cap) n = ((len + n, cap)%nat, false).
Proof. intros H. unfold vec_extend. apply Nat.leb_le in H. rewrite H. reflexivity. Qed.

Lemma assemble_fold (comps : list str) : forall len cap a, (len + length (concat comps) <= cap)%nat ->
  fold_left (fun acc c => let '(vv, a) := acc in let '(vv', a') := vec_extend vv (length c) in (vv', a || a'))
            comps ((len, cap), a) = ((len + length (concat comps), cap)%nat, a).
Proof.
  induction comps as [|c comps IH]; intros len cap a H.
  - cbn. rewrite Nat.add_0_r. reflexivity.
  - cbn [concat] in H. rewrite app_length in H. cbn [fold_left].
    rewrite vec_extend_fits by lia. rewrite orb_false_r. rewrite IH by lia.
    cbn [concat]. rewrite app_length. f_equal. f_equal. lia.
Qed.

Theorem assemble_no_realloc v (comps : list str) : (length (concat comps) + 1 <= snd v)%nat ->
  assemble_exe v comps = ((length (concat comps) + 1, snd v)%nat, false).
Proof.
  intros H. unfold assemble_exe. destruct v as [len cap]. cbn [snd] in *.
  rewrite assemble_fold by (cbn; lia). cbn [Nat.add]. rewrite vec_extend_fits by lia. reflexivity.
Qed.

(* every buffer the child assembles fits the capacity reserved before the fork *)
Theorem exec_never_reallocates cmd sp len :
  let cap := prealloc_capacity cmd sp in
  forall comps,
    In comps (match sp with
              | Some p => map (fun d => [d; [slash]; cmd]) (split_path p)
              | None => [[cmd]]
              end) ->
    assemble_exe (len, cap) comps = ((length (concat comps) + 1, cap)%nat, false).
Proof.
  intros cap comps H. apply assemble_no_realloc. cbn [snd]. subst cap.
  destruct sp as [p|].
  - apply in_map_iff in H. destruct H as [d [<- Hd]]. cbn [concat]. rewrite !app_length. cbn [length].
    pose proof (proj1 (prealloc_suffices cmd p) d Hd). lia.
  - destruct H as [<-|[]]. cbn [concat]. rewrite app_nil_r. unfold prealloc_capacity. lia.
Qed.

(* the assembled buffer is the candidate followed by NUL, in PATH order *)
Theorem candidates_are_assembled cmd p :
  candidates cmd (Some p) = map (fun comps => concat comps) (map (fun d => [d; [slash]; cmd]) (split_path p)).
Proof.
  unfold candidates. rewrite map_map. apply map_ext. intros d. cbn [concat]. rewrite app_nil_r. reflexivity.
Qed.

Theorem no_search_with_slash cmd pe : In slash cmd -> candidates cmd (search_path_of cmd pe) = [cmd].
Proof.
  intros H. unfold search_path_of. rewrite (In_existsb_eqb slash cmd H). reflexivity.
Qed.

Theorem search_when_no_slash cmd p : ~ In slash cmd -> p <> [] ->
  candidates cmd (search_path_of cmd (Some p)) = map (fun d => d ++ [slash] ++ cmd) (filter nonempty (split_on colon p)).
Proof.
  intros H Hp. unfold search_path_of.
  destruct (existsb (N.eqb slash) cmd) eqn:E; [exfalso; apply H; apply existsb_eqb_In; exact E|].
  destruct p; [congruence|]. unfold candidates. rewrite split_path_spec. reflexivity.
Qed.

(* ---------- the lookup loop ---------- *)

Fixpoint first_startable (fs : str -> option N) (cands : list str) : option (list str * str) :=
  match cands with
  | [] => None
  | c :: r => match fs c with
              | None => Some ([], c)
              | Some _ => match first_startable fs r with
                          | Some (skipped, x) => Some (c :: skipped, x)
                          | None => None
                          end
              end
  end.

(* the calls issued are exactly the candidates up to and including the first startable one, in PATH order;
   that one is the image that runs; if there is none all were tried and an error comes back *)
Theorem lookup_first_startable fs cands e0 :
  match first_startable fs cands with
  | Some (skipped, x) => exec_loop fs cands e0 = (skipped ++ [x], inl x)
                         /\ Forall (fun c => fs c <> None) skipped /\ fs x = None
                         /\ exists rest, cands = skipped ++ x :: rest
  | None => fst (exec_loop fs cands e0) = cands /\ Forall (fun c => fs c <> None) cands
            /\ exists e, snd (exec_loop fs cands e0) = inr e
               /\ (cands = [] -> e = e0) /\ (cands <> [] -> fs (last cands []) = Some e)
  end.
Proof.
  revert e0. induction cands as [|c r IH]; intros e0.
  - cbn. repeat split; auto. exists e0. repeat split; auto. congruence.
  - cbn [first_startable exec_loop]. destruct (fs c) as [e|] eqn:F.
    + specialize (IH e). destruct (first_startable fs r) as [[skipped x]|].
      * destruct IH as [H1 [H2 [H3 [rest H4]]]]. rewrite H1. cbn [app]. repeat split; auto.
        -- constructor; [congruence|exact H2].
        -- exists rest. rewrite H4. reflexivity.
      * destruct IH as [H1 [H2 [e' [H3 [H4 H5]]]]].
        destruct (exec_loop fs r e) as [tried res] eqn:E. cbn [fst snd] in *. subst tried. repeat split.
        -- constructor; [congruence|exact H2].
        -- exists e'. split; [exact H3|]. split; [discriminate|]. intros _.
           destruct r as [|c2 r2]; [cbn; rewrite (H4 eq_refl); exact F|].
           change (last (c :: c2 :: r2) []) with (last (c2 :: r2) []). apply H5. discriminate.
    + repeat split; auto. exists r. reflexivity.
Qed.

(* a launch never "succeeds" without an image: the loop returns inl only for a candidate that started *)
Corollary lookup_failure_is_error fs cmd pe :
  (forall c, In c (candidates cmd (search_path_of cmd pe)) -> fs c <> None) ->
  exists e, snd (lookup_and_exec fs cmd pe) = inr e.
Proof.
  intros H. unfold lookup_and_exec. pose proof (lookup_first_startable fs (candidates cmd (search_path_of cmd pe)) ENOENT) as L.
  destruct (first_startable fs _) as [[skipped x]|].
  - destruct L as [_ [_ [Hx [rest Hc]]]]. exfalso. apply (H x); [rewrite Hc; apply in_or_app; right; left; reflexivity|exact Hx].
  - destruct L as [_ [_ [e [He _]]]]. exists e. exact He.
Qed.

(* ---------- no allocation in the whole loop (C17) ---------- *)

Lemma exec_allocs_sub cmd sp : forall l len,
  (forall c, In c l -> In c (comps_of cmd sp)) ->
  exec_allocs (len, prealloc_capacity cmd sp) l = false.
Proof.
  induction l as [|c r IH]; intros len H; [reflexivity|].
  cbn [exec_allocs]. rewrite (exec_never_reallocates cmd sp len c) by (apply H; left; reflexivity).
  cbn [orb]. apply IH. intros c' Hc. apply H. right. exact Hc.
Qed.

Theorem no_alloc_in_exec_loop cmd sp : child_exec_allocs cmd sp = false.
Proof. unfold child_exec_allocs. apply exec_allocs_sub. auto. Qed.

Theorem longest_fits cmd sp : (longest_assembled cmd sp <= prealloc_capacity cmd sp)%nat.
Proof.
  unfold longest_assembled.
  assert (forall l, (forall c, In c l -> In c (comps_of cmd sp)) ->
                    (fold_right (fun c m => Nat.max (length (concat c) + 1) m) 0 l <= prealloc_capacity cmd sp)%nat) as G.
  { induction l as [|c r IH]; intros H; [cbn; lia|]. cbn [fold_right].
    assert (length (concat c) + 1 <= prealloc_capacity cmd sp)%nat.
    { pose proof (H c (or_introl eq_refl)) as Hin. destruct sp as [p|].
      - cbn [comps_of] in Hin. apply in_map_iff in Hin. destruct Hin as [d [<- Hd]].
        pose proof (proj1 (prealloc_suffices cmd p) d Hd) as B. cbn [concat]. rewrite !app_length. cbn [length]. lia.
      - destruct Hin as [<-|[]]. cbn [concat]. rewrite app_nil_r. unfold prealloc_capacity. lia. }
    specialize (IH (fun c' Hc => H c' (or_intror Hc))). lia. }
  apply G. auto.
Qed.
