(* C13: however a pipeline is composed, stage i feeds stage i+1 and nothing else. *)
From Coq Require Import List NArith Bool Arith Lia.
Require Import SP.Base.Str SP.Lib.Env SP.Lib.Builder SP.Lib.Pipeline SP.Proofs.BuilderProofs.
Import ListNotations.
Local Open Scope nat_scope.

(* ---------- composition ---------- *)

Theorem compose_flatten x : forall p, build x = Some p -> p_cmds p = leaves x /\ 2 <= length (p_cmds p).
Proof.
  induction x as [a b|x IH e|x IHx y IHy|l|x IH a|x IH r|x IH f]; intros p H; cbn [build leaves] in *.
  - injection H as <-. cbn. split; [reflexivity|lia].
  - destruct (build x) as [q|]; [|discriminate]. injection H as <-. cbn. destruct (IH q eq_refl) as [-> L].
    split; [reflexivity|rewrite app_length; lia].
  - destruct (build x) as [a|]; [|discriminate]. destruct (build y) as [b|]; [|discriminate]. injection H as <-. cbn.
    destruct (IHx a eq_refl) as [-> L1]. destruct (IHy b eq_refl) as [-> L2]. split; [reflexivity|rewrite app_length; lia].
  - destruct (2 <=? length l) eqn:E; [|discriminate]. injection H as <-. cbn. apply Nat.leb_le in E. split; [reflexivity|exact E].
  - destruct a as [r|d].
    + destruct r; try discriminate; (destruct (build x) as [q|]; [|discriminate]; injection H as <-; cbn; apply (IH q eq_refl)).
    + destruct (build x) as [q|]; [|discriminate]. injection H as <-. cbn. apply (IH q eq_refl).
  - destruct (build x) as [q|]; [|discriminate]. injection H as <-. cbn. apply (IH q eq_refl).
  - destruct (build x) as [q|]; [|discriminate]. injection H as <-. cbn. apply (IH q eq_refl).
Qed.

(* two expressions with the same commands in reading order build the same stage sequence *)
Corollary same_leaves_same_stages x y p q : build x = Some p -> build y = Some q -> leaves x = leaves y -> p_cmds p = p_cmds q.
Proof. intros Hx Hy E. rewrite (proj1 (compose_flatten x p Hx)), (proj1 (compose_flatten y q Hy)). exact E. Qed.

(* ---------- wiring ---------- *)

(* a command whose own stdin/stdout were left alone and that carries no input data *)
Definition plain (e : exec) : Prop := b_in e = BNone /\ b_out e = BNone /\ b_data e = None.

Definition argv_of (e : exec) : list str := b_command e :: b_args e.

(* the loop on plain commands: stage idx+i reads the pipe behind stage idx+i-1 and writes a fresh pipe,
   except that the first one keeps its stdin and the last one its stdout *)
Definition plain_in (e : exec) : Prop := b_in e = BNone /\ b_data e = None.

Lemma spawn_plain : forall cmds idx,
  Forall plain_in (tl cmds) ->
  (match cmds with c :: _ => b_data c = None /\ (idx <> 0 -> b_in c = BNone) | [] => True end) ->
  (forall c, In c (removelast cmds) -> b_out c = BNone) ->
  exists ls, spawn (fun _ => false) cmds idx = (ls, OOk) /\ length ls = length cmds
    /\ forall i c, nth_error cmds i = Some c ->
         exists l, nth_error ls i = Some l /\ l_argv l = argv_of c /\ l_err l = b_err c /\ l_env l = b_env c /\ l_cwd l = b_cwd c
           /\ l_in l = (match idx + i with 0 => b_in c | S j => pipe_file j end)
           /\ l_out l = (if S i =? length cmds then b_out c else BPipe).
Proof.
  induction cmds as [|c rest IH]; intros idx Ht Hd Hl.
  - exists []. cbn. repeat split; auto. intros i c H. destruct i; discriminate.
  - cbn [tl] in Ht. destruct Hd as [Hdata Hin].
    cbn [spawn].
    (* stdin of this stage *)
    assert (exists c1, (match idx with 0 => Some c | S j => apply_op [] c (OStdin (IRedir (pipe_file j))) end) = Some c1
                       /\ b_in c1 = (match idx with 0 => b_in c | S j => pipe_file j end)
                       /\ b_out c1 = b_out c /\ b_data c1 = None /\ b_err c1 = b_err c /\ argv_of c1 = argv_of c
                       /\ b_env c1 = b_env c /\ b_cwd c1 = b_cwd c /\ b_detached c1 = b_detached c) as [c1 [E1 [I1 [O1 [D1 [R1 [A1 [V1 [W1 T1]]]]]]]]].
    { destruct idx as [|j]; [exists c; repeat split; auto|].
      unfold apply_op, pipe_file. rewrite (Hin (Nat.neq_succ_0 j)). cbn. eexists. repeat split; auto. }
    rewrite E1.
    destruct rest as [|c' rest'].
    + (* the last stage *)
      unfold popen. rewrite D1. exists [mklaunch (b_command c1 :: b_args c1) (b_env c1) (b_cwd c1) (b_in c1) (b_out c1) (b_err c1) (b_detached c1) None false].
      cbn. repeat split; auto. intros i x H. destruct i as [|i]; [|destruct i; discriminate]. injection H as <-.
      eexists. split; [reflexivity|]. cbn. rewrite Nat.add_0_r. repeat split; auto.
    + (* an inner stage: stdout becomes a pipe *)
      assert (b_out c = BNone) as Oc by (apply Hl; left; reflexivity).
      assert (exists c2, apply_op [] c1 (OStdout BPipe) = Some c2 /\ b_in c2 = b_in c1 /\ b_out c2 = BPipe /\ b_data c2 = None
                         /\ b_err c2 = b_err c1 /\ argv_of c2 = argv_of c1 /\ b_env c2 = b_env c1 /\ b_cwd c2 = b_cwd c1) as [c2 [E2 [I2 [O2 [D2 [R2 [A2 [V2 W2]]]]]]]].
      { unfold apply_op. rewrite O1, Oc. cbn. eexists. repeat split; auto. }
      rewrite E2. unfold popen at 1. rewrite D2.
      inversion Ht as [|? ? P' Ht']; subst. destruct P' as [Pi Pd].
      destruct (IH (S idx)) as [ls [S1 [S2 S3]]].
      * exact Ht'.
      * split; [exact Pd|intros _; exact Pi].
      * intros x Hx. apply Hl. cbn [removelast]. right. exact Hx.
      * rewrite S1. eexists. split; [reflexivity|]. split; [cbn; rewrite S2; reflexivity|].
        intros i x H. destruct i as [|i].
        -- injection H as <-. eexists. split; [reflexivity|]. cbn [l_argv l_err l_env l_cwd l_in l_out].
           rewrite Nat.add_0_r. unfold argv_of in *. rewrite I2, I1, R2, R1, V2, V1, W2, W1. repeat split; auto; congruence.
        -- cbn [nth_error] in H. destruct (S3 i x H) as [l [N1 [N2 [N3 [N4 [N5 [N6 N7]]]]]]].
           exists l. split; [exact N1|]. rewrite N6, N7. replace (idx + S i) with (S idx + i) by lia. cbn [length].
           repeat split; auto.
Qed.

Lemma on_first_plain (f : exec -> option exec) c r c' : f c = Some c' -> on_first f (c :: r) = Some (c' :: r).
Proof. intros H. cbn. rewrite H. reflexivity. Qed.

Lemma on_last_spec (f : exec -> option exec) : forall l x x', f x = Some x' -> on_last f (l ++ [x]) = Some (l ++ [x']).
Proof.
  induction l as [|c r IH]; intros x x' H; cbn.
  - rewrite H. reflexivity.
  - rewrite (IH x x' H). destruct (r ++ [x]) eqn:E; [destruct r; discriminate|]. reflexivity.
Qed.

(* the whole of Pipeline::popen on plain commands, no shared stderr file *)
Theorem pipeline_wiring p :
  2 <= length (p_cmds p) -> Forall plain (p_cmds p) -> p_data p = None -> p_errfile p = None -> p_in p <> BMerge ->
  exists ls, ppopen (fun _ => false) p = (ls, OOk) /\ length ls = length (p_cmds p)
    /\ forall i c, nth_error (p_cmds p) i = Some c ->
         exists l, nth_error ls i = Some l /\ l_argv l = argv_of c /\ l_err l = b_err c
           /\ l_in l = (match i with 0 => p_in p | S j => pipe_file j end)
           /\ l_out l = (if S i =? length (p_cmds p) then p_out p else BPipe).
Proof.
  intros Hn Hp Hd He Hm. unfold ppopen. rewrite Hd, He.
  destruct (p_cmds p) as [|c0 rest] eqn:C; [cbn in Hn; lia|].
  inversion Hp as [|? ? P0 Prest]; subst. destruct P0 as [I0 [O0 D0]].
  (* the first command takes the pipeline's stdin *)
  assert (exists c0', apply_op [] c0 (OStdin (IRedir (p_in p))) = Some c0' /\ b_in c0' = p_in p /\ b_out c0' = BNone /\ b_data c0' = None
                      /\ b_err c0' = b_err c0 /\ argv_of c0' = argv_of c0) as [c0' [E0 [A1 [A2 [A3 [A4 A5]]]]]].
  { unfold apply_op. rewrite I0. destruct (p_in p) eqn:Q; try congruence; cbn; eexists; repeat split; auto. }
  rewrite (on_first_plain _ c0 rest c0' E0).
  (* the last command takes the pipeline's stdout *)
  destruct (exists_last (l := rest)) as [mid [cl Er]]; [destruct rest; [cbn in Hn; lia|discriminate]|].
  subst rest. assert (plain cl) as [Il [Ol Dl]] by (rewrite Forall_forall in Prest; apply Prest; apply in_or_app; right; left; reflexivity).
  assert (exists cl', apply_op [] cl (OStdout (p_out p)) = Some cl' /\ b_in cl' = BNone /\ b_out cl' = p_out p /\ b_data cl' = None
                      /\ b_err cl' = b_err cl /\ argv_of cl' = argv_of cl) as [cl' [El [B1 [B2 [B3 [B4 B5]]]]]].
  { unfold apply_op. rewrite Ol. cbn. eexists. repeat split; auto. }
  change (c0' :: mid ++ [cl]) with ((c0' :: mid) ++ [cl]). rewrite (on_last_spec _ (c0' :: mid) cl cl' El).
  destruct (spawn_plain ((c0' :: mid) ++ [cl']) 0) as [ls [S1 [S2 S3]]].
  - cbn [app tl]. apply Forall_app. split.
    + apply Forall_app in Prest. destruct Prest as [Pm _]. eapply Forall_impl; [|exact Pm].
      intros a [Ha [_ Hb]]. split; assumption.
    + constructor; [|constructor]. split; assumption.
  - cbn [app]. split; [exact A3|congruence].
  - intros x Hx. rewrite removelast_last in Hx. destruct Hx as [<-|Hx]; [exact A2|].
    apply Forall_app in Prest. destruct Prest as [Pm _]. rewrite Forall_forall in Pm. exact (proj1 (proj2 (Pm x Hx))).
  - exists ls. split; [exact S1|]. split; [rewrite S2; cbn; rewrite !app_length; reflexivity|].
    intros i c H.
    assert (length ((c0' :: mid) ++ [cl']) = length (c0 :: mid ++ [cl])) as LL by (cbn; rewrite !app_length; reflexivity).
    (* the i-th command of the prepared list differs from the original only in the stream just set *)
    destruct i as [|i].
    + injection H as <-. destruct (S3 0 c0' eq_refl) as [l [N1 [N2 [N3 [_ [_ [N6 N7]]]]]]].
      exists l. split; [exact N1|]. rewrite N2, N3, N6, N7, A5, A4, A1. repeat split; auto.
      rewrite LL. cbn [length]. destruct (1 =? S (length (mid ++ [cl]))) eqn:Q; [|reflexivity].
      apply Nat.eqb_eq in Q. rewrite app_length in Q. cbn in Q. lia.
    + cbn [nth_error] in H.
      destruct (Nat.lt_ge_cases i (length mid)) as [Lt|Ge].
      * rewrite nth_error_app1 in H by exact Lt.
        assert (nth_error ((c0' :: mid) ++ [cl']) (S i) = Some c) as H' by (cbn [app nth_error]; rewrite nth_error_app1 by exact Lt; exact H).
        destruct (S3 (S i) c H') as [l [N1 [N2 [N3 [_ [_ [N6 N7]]]]]]].
        exists l. split; [exact N1|]. rewrite N2, N3, N6, N7. repeat split; auto.
        rewrite LL. cbn [length]. rewrite app_length. cbn [length].
        destruct (S (S i) =? S (length mid + 1)) eqn:Q; [apply Nat.eqb_eq in Q; lia|]. reflexivity.
      * rewrite nth_error_app2 in H by exact Ge. destruct (i - length mid) as [|d] eqn:Dd; [|destruct d; discriminate].
        injection H as <-. assert (i = length mid) as -> by lia.
        assert (nth_error ((c0' :: mid) ++ [cl']) (S (length mid)) = Some cl') as H'.
        { cbn [app nth_error]. rewrite nth_error_app2 by lia. rewrite Nat.sub_diag. reflexivity. }
        destruct (S3 (S (length mid)) cl' H') as [l [N1 [N2 [N3 [_ [_ [N6 N7]]]]]]].
        exists l. split; [exact N1|]. rewrite N2, N3, N6, N7, B5, B4, B2. repeat split; auto.
        rewrite LL. cbn [length]. rewrite app_length. cbn [length].
        destruct (S (S (length mid)) =? S (length mid + 1)) eqn:Q; [reflexivity|apply Nat.eqb_neq in Q; lia].
Qed.

(* a stage that cannot be started: exactly the stages before it were launched, none after it *)
Theorem spawn_stops_at_failure : forall cmds idx k ls o,
  spawn (fun i => i =? k) cmds idx = (ls, o) -> idx <= k -> k < idx + length cmds ->
  o = OPanic \/ (o = OErr k /\ length ls = k - idx).
Proof.
  induction cmds as [|c rest IH]; intros idx k ls o H L1 L2; [cbn in L2; lia|].
  cbn [spawn] in H.
  destruct (match idx with 0 => Some c | S j => apply_op [] c (OStdin (IRedir (pipe_file j))) end) as [c1|]; [|injection H as <- <-; left; reflexivity].
  destruct (match rest with [] => Some c1 | _ => apply_op [] c1 (OStdout BPipe) end) as [c2|]; [|injection H as <- <-; left; reflexivity].
  destruct (popen c2) as [l|]; [|injection H as <- <-; left; reflexivity].
  destruct (idx =? k) eqn:E.
  - apply Nat.eqb_eq in E. subst. injection H as <- <-. right. split; [reflexivity|cbn; lia].
  - apply Nat.eqb_neq in E. destruct (spawn (fun i => i =? k) rest (S idx)) as [ls' o'] eqn:Sp. injection H as <- <-.
    cbn [length] in L2. destruct (IH (S idx) k ls' o' Sp) as [->|[-> Hl]]; try lia; [left; reflexivity|].
    right. split; [reflexivity|cbn [length]; lia].
Qed.

(* ---------- data flow ---------- *)

(* on a wired pipeline the pipe behind the last stage carries the composition of the stages applied in
   order to the pipeline's input *)
Lemma flow_chain : forall fs ls idx pipes input x,
  length fs = length ls ->
  (forall i l, nth_error ls i = Some l -> l_in l = (match idx + i with 0 => BNone | S j => pipe_file j end)) ->
  (match idx with 0 => x = input | S j => pipes j = x end) ->
  fs <> [] ->
  flow fs ls idx pipes input (idx + length fs - 1) = compose fs x.
Proof.
  induction fs as [|f fr IH]; intros ls idx pipes input x HL Hw Hx Hne; [congruence|].
  destruct ls as [|l lr]; [discriminate|]. cbn [flow compose].
  assert (match l_in l with
          | BFile id => if N.leb PIPE_BASE id then pipes (N.to_nat (id - PIPE_BASE)) else input
          | _ => input
          end = x) as ->.
  { rewrite (Hw 0 l eq_refl). rewrite Nat.add_0_r. destruct idx as [|j]; [symmetry; exact Hx|].
    unfold pipe_file. assert (N.leb PIPE_BASE (PIPE_BASE + N.of_nat j) = true) as -> by (apply N.leb_le; lia).
    replace (PIPE_BASE + N.of_nat j - PIPE_BASE)%N with (N.of_nat j) by lia. rewrite Nat2N.id. exact Hx. }
  destruct fr as [|f2 fr2].
  - destruct lr; [|discriminate]. cbn [flow length compose]. replace (idx + 1 - 1) with idx by lia. rewrite Nat.eqb_refl. reflexivity.
  - cbn [length] in *. replace (idx + S (S (length fr2)) - 1) with (S idx + S (length fr2) - 1) by lia.
    apply (IH lr (S idx)).
    + cbn [length] in HL. lia.
    + intros i l' H. rewrite (Hw (S i) l' H). replace (idx + S i) with (S idx + i) by lia. reflexivity.
    + rewrite Nat.eqb_refl. reflexivity.
    + discriminate.
Qed.

Theorem pipeline_semantics p fs input :
  2 <= length (p_cmds p) -> Forall plain (p_cmds p) -> p_data p = None -> p_errfile p = None -> p_in p <> BMerge ->
  (forall id, p_in p = BFile id -> (id < PIPE_BASE)%N) ->
  length fs = length (p_cmds p) ->
  exists ls, ppopen (fun _ => false) p = (ls, OOk)
    /\ flow fs ls 0 (fun _ => []) input (length fs - 1) = compose fs input.
Proof.
  intros Hn Hp Hd He Hm Hid HL. destruct (pipeline_wiring p Hn Hp Hd He Hm) as [ls [W1 [W2 W3]]].
  exists ls. split; [exact W1|].
  (* stage 0 reads the input whatever the pipeline's stdin setting is *)
  destruct fs as [|f0 fr]; [cbn in HL; lia|]. destruct ls as [|l0 lr]; [cbn in W2; lia|].
  destruct (p_cmds p) as [|c0 cr] eqn:C; [cbn in Hn; lia|].
  destruct (W3 0 c0 eq_refl) as [l [N1 [_ [_ [N4 _]]]]]. injection N1 as <-.
  cbn [flow compose].
  assert (match l_in l0 with
          | BFile id => if N.leb PIPE_BASE id then [] else input
          | _ => input
          end = input) as ->.
  { rewrite N4. destruct (p_in p) eqn:Q; try reflexivity. specialize (Hid id eq_refl).
    destruct (N.leb PIPE_BASE id) eqn:E; [apply N.leb_le in E; lia|reflexivity]. }
  destruct fr as [|f1 fr1]; [cbn in HL, Hn; lia|].
  cbn [length]. replace (S (S (length fr1)) - 1) with (1 + length (f1 :: fr1) - 1) by (cbn; lia).
  apply (flow_chain (f1 :: fr1) lr 1).
  - cbn [length] in *. lia.
  - intros i l H. destruct (nth_error cr i) as [c|] eqn:Nc.
    + destruct (W3 (S i) c Nc) as [l' [M1 [_ [_ [M4 _]]]]]. cbn [nth_error] in M1. rewrite H in M1. injection M1 as <-.
      rewrite M4. reflexivity.
    + exfalso. apply nth_error_None in Nc. assert (i < length lr) by (apply nth_error_Some; congruence). cbn [length] in W2. lia.
  - rewrite Nat.eqb_refl. reflexivity.
  - discriminate.
Qed.

(* ---------- the shared stderr sink ---------- *)

Definition with_err (r : bredir) (c : exec) : exec :=
  mkexec (b_command c) (b_args c) (b_env c) (b_cwd c) (b_in c) (b_out c) r (b_detached c) (b_data c).

Lemma map_opt_stderr r : forall cmds, Forall (fun c => b_err c = BNone) cmds ->
  map_opt (fun c => apply_op [] c (OStderr r)) cmds = Some (map (with_err r) cmds).
Proof.
  induction cmds as [|c cs IH]; intros H; [reflexivity|]. inversion H as [|? ? Hc Hcs]; subst.
  cbn [map_opt map]. rewrite (IH Hcs). unfold apply_op. rewrite Hc. reflexivity.
Qed.

(* a command that already has its own stderr setting makes stderr_to panic (the set-once rule), it is never
   silently overridden *)
Lemma map_opt_stderr_conflict f : forall cmds c, In c cmds -> b_err c <> BNone ->
  map_opt (fun c => apply_op [] c (OStderr (BFile f))) cmds = None.
Proof.
  induction cmds as [|x cs IH]; intros c Hin Hne; [destruct Hin|]. cbn [map_opt].
  destruct Hin as [->|Hin].
  - unfold apply_op. destruct (b_err c); try congruence; reflexivity.
  - rewrite (IH c Hin Hne). destruct (apply_op [] x (OStderr (BFile f))); reflexivity.
Qed.

Definition plain_err (e : exec) : Prop := plain e /\ b_err e = BNone.

(* stderr_to f: the wiring of stdin/stdout is as without it, and every command's stderr is the one file f *)
Theorem pipeline_stderr_shared p f :
  2 <= length (p_cmds p) -> Forall plain_err (p_cmds p) -> p_data p = None -> p_errfile p = Some f -> p_in p <> BMerge ->
  exists ls, ppopen (fun _ => false) p = (ls, OOk) /\ length ls = length (p_cmds p)
    /\ forall i c, nth_error (p_cmds p) i = Some c ->
         exists l, nth_error ls i = Some l /\ l_argv l = argv_of c /\ l_err l = BFile f
           /\ l_in l = (match i with 0 => p_in p | S j => pipe_file j end)
           /\ l_out l = (if S i =? length (p_cmds p) then p_out p else BPipe).
Proof.
  intros Hn Hp Hd He Hm.
  set (q := mkpl (map (with_err (BFile f)) (p_cmds p)) (p_in p) (p_out p) None None).
  assert (ppopen (fun _ => false) p = ppopen (fun _ => false) q) as E.
  { unfold ppopen. rewrite Hd, He. cbn [p_data p_errfile q p_cmds p_in p_out].
    rewrite map_opt_stderr; [reflexivity|]. eapply Forall_impl; [|exact Hp]. intros a [_ Ha]. exact Ha. }
  destruct (pipeline_wiring q) as [ls [W1 [W2 W3]]]; cbn [q p_cmds p_data p_errfile p_in]; auto.
  - rewrite map_length. exact Hn.
  - apply Forall_forall. intros x Hx. apply in_map_iff in Hx. destruct Hx as [c [<- Hc]].
    rewrite Forall_forall in Hp. destruct (Hp c Hc) as [[A [B C]] _]. repeat split; assumption.
  - exists ls. rewrite E. split; [exact W1|]. cbn [q p_cmds] in W2, W3. rewrite map_length in W2, W3. split; [exact W2|].
    intros i c H. destruct (W3 i (with_err (BFile f) c)) as [l [N1 [N2 [N3 [N4 N5]]]]].
    + rewrite nth_error_map, H. reflexivity.
    + exists l. cbn [q p_in p_out] in N4, N5. repeat split; assumption.
Qed.

Theorem stderr_to_conflict_panics p f c :
  p_data p = None -> p_errfile p = Some f -> In c (p_cmds p) -> b_err c <> BNone ->
  forall fails, ppopen fails p = ([], OPanic).
Proof.
  intros Hd He Hin Hne fails. unfold ppopen. rewrite Hd, He, (map_opt_stderr_conflict f (p_cmds p) c Hin Hne). reflexivity.
Qed.

(* capture / communicate: stdout of the last command and stderr of every command are the capture pipes *)
Theorem capture_wiring p :
  2 <= length (p_cmds p) -> Forall plain_err (p_cmds p) -> p_in p <> BMerge ->
  exists ls, fst (setup_comm (fun _ => false) p) = (ls, OOk) /\ length ls = length (p_cmds p)
    /\ snd (setup_comm (fun _ => false) p) = p_data p
    /\ forall i c, nth_error (p_cmds p) i = Some c ->
         exists l, nth_error ls i = Some l /\ l_argv l = argv_of c /\ l_err l = BFile ERR_CAPTURE
           /\ l_in l = (match i with 0 => p_in p | S j => pipe_file j end)
           /\ l_out l = BPipe.
Proof.
  intros Hn Hp Hm. unfold setup_comm. cbn [fst snd].
  destruct (pipeline_stderr_shared (mkpl (p_cmds p) (p_in p) BPipe (Some ERR_CAPTURE) None) ERR_CAPTURE) as [ls [W1 [W2 W3]]]; auto.
  exists ls. cbn [p_cmds p_in p_out] in *. split; [exact W1|]. split; [exact W2|]. split; [reflexivity|].
  intros i c H. destruct (W3 i c H) as [l [N1 [N2 [N3 [N4 N5]]]]]. exists l. repeat split; auto.
  rewrite N5. destruct (S i =? length (p_cmds p)); reflexivity.
Qed.

(* ---------- the status reported ---------- *)

Theorem join_status_is_last p status :
  2 <= length (p_cmds p) -> Forall plain (p_cmds p) -> p_data p = None -> p_errfile p = None -> p_in p <> BMerge ->
  pjoin (fun _ => false) p status = JStatus (status (length (p_cmds p) - 1)).
Proof.
  intros Hn Hp Hd He Hm. destruct (pipeline_wiring p Hn Hp Hd He Hm) as [ls [W1 [W2 _]]].
  unfold pjoin. rewrite W1, W2. reflexivity.
Qed.

Theorem capture_status_is_last p status :
  2 <= length (p_cmds p) -> Forall plain_err (p_cmds p) -> p_in p <> BMerge ->
  pcapture (fun _ => false) p status = JStatus (status (length (p_cmds p) - 1)).
Proof.
  intros Hn Hp Hm. destruct (capture_wiring p Hn Hp Hm) as [ls [W1 [W2 _]]].
  unfold pcapture. rewrite W1, W2. reflexivity.
Qed.

(* a command that cannot be started: join reports that error, never a status *)
Lemma on_first_length (f : exec -> option exec) l l' : on_first f l = Some l' -> length l' = length l.
Proof. intros H. destruct l as [|a r]; cbn in H; [injection H as <-; reflexivity|]. destruct (f a); [|discriminate]. injection H as <-. reflexivity. Qed.

Lemma on_last_length (f : exec -> option exec) : forall l l', on_last f l = Some l' -> length l' = length l.
Proof.
  induction l as [|a r IH]; intros l' H; cbn in H; [injection H as <-; reflexivity|].
  destruct r as [|b r'].
  - destruct (f a); [|discriminate]. injection H as <-. reflexivity.
  - destruct (on_last f (b :: r')) as [r2|] eqn:Q; [|discriminate]. injection H as <-. cbn [length]. rewrite (IH r2 eq_refl). reflexivity.
Qed.

Lemma map_opt_length {A B} (g : A -> option B) : forall l l', map_opt g l = Some l' -> length l' = length l.
Proof.
  induction l as [|a r IH]; intros l' H; cbn in H; [injection H as <-; reflexivity|].
  destruct (g a); [|discriminate]. destruct (map_opt g r) as [r2|] eqn:Q; [|discriminate].
  injection H as <-. cbn [length]. rewrite (IH r2 eq_refl). reflexivity.
Qed.

Theorem join_failure_is_error p k status :
  k < length (p_cmds p) -> forall s, pjoin (fun i => i =? k) p status <> JStatus s.
Proof.
  intros Hk s. unfold pjoin, ppopen.
  destruct (p_data p); [discriminate|].
  assert (exists oc0, (match p_errfile p with
                       | Some f => map_opt (fun c => apply_op [] c (OStderr (BFile f))) (p_cmds p)
                       | None => Some (p_cmds p) end) = oc0
                      /\ forall c0, oc0 = Some c0 -> length c0 = length (p_cmds p)) as [oc0 [-> L0]].
  { eexists. split; [reflexivity|]. intros c0 H. destruct (p_errfile p) as [f|]; [apply (map_opt_length _ _ _ H)|injection H as <-; reflexivity]. }
  destruct oc0 as [c0|]; [|discriminate]. specialize (L0 c0 eq_refl).
  destruct (on_first _ c0) as [c1|] eqn:E1; [|discriminate].
  destruct (on_last _ c1) as [c2|] eqn:E2; [|discriminate].
  destruct (spawn (fun i => i =? k) c2 0) as [ls o] eqn:Sp.
  assert (length c2 = length (p_cmds p)) as L by (rewrite (on_last_length _ _ _ E2), (on_first_length _ _ _ E1); exact L0).
  destruct (spawn_stops_at_failure c2 0 k ls o Sp) as [->|[-> _]]; try lia; discriminate.
Qed.

(* ---------- composing carries the pipeline-level settings along ---------- *)

(* p | q keeps the input, input data and stderr sink configured on p and the output configured on q;
   p | e keeps everything configured on p *)
Theorem cat_keeps_settings x y a b : build x = Some a -> build y = Some b ->
  exists r, build (PCat x y) = Some r /\ p_cmds r = p_cmds a ++ p_cmds b
            /\ p_in r = p_in a /\ p_data r = p_data a /\ p_errfile r = p_errfile a /\ p_out r = p_out b.
Proof. intros Ha Hb. cbn [build]. rewrite Ha, Hb. eexists. repeat split. Qed.

Theorem push_keeps_settings x e a : build x = Some a ->
  exists r, build (PPush x e) = Some r /\ p_cmds r = p_cmds a ++ [e]
            /\ p_in r = p_in a /\ p_data r = p_data a /\ p_errfile r = p_errfile a /\ p_out r = p_out a.
Proof. intros Ha. cbn [build]. rewrite Ha. eexists. repeat split. Qed.
