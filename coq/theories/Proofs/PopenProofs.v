(* Proofs about the Popen state machine L (PopenSM) running on the process model K (C09, C10, C11). *)
From Coq Require Import List NArith ZArith Bool Lia.
Require Import SP.Params SP.Lib.Status SP.Lib.PopenSM.
Import ListNotations.
Open Scope N_scope.

Arguments N.add : simpl never.
Arguments N.sub : simpl never.
Arguments N.mul : simpl never.
Arguments N.leb : simpl never.
Arguments N.eqb : simpl never.
Arguments N.min : simpl never.
Arguments N.max : simpl never.

(* ---------- executions of one operation on K ---------- *)

(* a choice: how long the call takes and by how much a sleep overshoots *)
Definition pchoice := (N * N)%type.

(* trace entries: the call, its result, and the instant at which it returned *)
Definition tentry := (pcall * presult * N)%type.

Inductive exec : pst * paction -> pworld -> list tentry -> popen -> value -> pworld -> Prop :=
| exec_ret s v w : exec (s, PRet v) w [] (po s) v w
| exec_call s c w dur over w' r tr p' v w'' :
    pserve w c dur over = PRes w' r ->
    exec (pstep s r) w' tr p' v w'' ->
    exec (s, PCall c) w ((c, r, pnow w') :: tr) p' v w''.

Definition run (p : popen) (o : op) := exec (start_op p o).

Definition is_query (o : op) : bool :=
  match o with OpPoll | OpWait | OpWaitTimeout _ | OpExitStatus => true | _ => false end.
Definition is_signal (o : op) : bool :=
  match o with OpTerminate | OpKill | OpSignal _ => true | _ => false end.

(* ---------- C09: once known, final; no system call at all ---------- *)

Theorem finished_is_final p st o :
  cstate p = Finished st ->
  exists p', start_op p o = (mk p' QIdle, PRet (match o with
                                                 | OpPoll | OpWait | OpWaitTimeout _ | OpExitStatus => VStatus (Some st)
                                                 | OpPid => VHasPid false
                                                 | _ => VUnit
                                                 end))
             /\ cstate p' = Finished st.
Proof.
  intros H. destruct o; cbn [start_op]; unfold status_of; rewrite ?H;
    try (eexists; split; [reflexivity|first [exact H|reflexivity]]);
    try (destruct (detached p); eexists; (split; [reflexivity|exact H])).
Qed.

Corollary finished_no_syscall p st o w tr p' v w' :
  cstate p = Finished st -> run p o w tr p' v w' -> tr = [] /\ w' = w /\ cstate p' = Finished st.
Proof.
  intros H R. destruct (finished_is_final p st o H) as [q [E Hq]]. unfold run in R. rewrite E in R.
  inversion R; subst. cbn. auto.
Qed.

(* any operation sequence after the status is known: same answers, empty traces (induction over histories) *)
Inductive runs : popen -> list op -> pworld -> list (list tentry * value) -> popen -> pworld -> Prop :=
| runs_nil p w : runs p [] w [] p w
| runs_cons p o os w tr p1 v w1 rest p2 w2 :
    run p o w tr p1 v w1 -> runs p1 os w1 rest p2 w2 -> runs p (o :: os) w ((tr, v) :: rest) p2 w2.

Theorem status_final_history p st os w hist p' w' :
  cstate p = Finished st -> runs p os w hist p' w' ->
  w' = w /\ cstate p' = Finished st /\
  Forall2 (fun o tv => fst tv = [] /\
             (is_query o = true -> snd tv = VStatus (Some st)) /\
             (o = OpPid -> snd tv = VHasPid false) /\
             (is_signal o = true -> snd tv = VUnit)) os hist.
Proof.
  intros H R. induction R as [|p o os w tr p1 v w1 rest p2 w2 R1 R2 IH]; [auto|].
  destruct (finished_is_final p st o H) as [q [E Hq]].
  pose proof R1 as R1'. unfold run in R1'. rewrite E in R1'. inversion R1'; subst. cbn [po mk] in *.
  destruct (IH Hq) as [-> [Hf Hall]]. split; [reflexivity|]. split; [exact Hf|].
  constructor; [|exact Hall]. cbn [fst snd]. split; [reflexivity|].
  repeat split; intros Ho; destruct o; try discriminate; reflexivity.
Qed.

(* ---------- facts about K ---------- *)

Ltac break_match :=
  repeat match goal with
         | |- context [match ?x with _ => _ end] => destruct x eqn:?
         | |- context [if ?x then _ else _] => destruct x eqn:?
         end.

Lemma settle_now w : pnow (settle w) = pnow w.
Proof. unfold settle. break_match; reflexivity. Qed.

Lemma padvance_now w t : pnow (padvance w t) = N.max (pnow w) t.
Proof. unfold padvance. rewrite settle_now. reflexivity. Qed.

Lemma pserve_mono w c dur over w' r : pserve w c dur over = PRes w' r -> pnow w <= pnow w'.
Proof.
  unfold pserve. pose proof (padvance_now w (pnow w + dur)) as Ha.
  set (wa := padvance w (pnow w + dur)) in *.
  assert (pnow w <= pnow wa) as Hle by (rewrite Ha; lia).
  destruct c as [nh|sig| |ns].
  - destruct (pr wa) eqn:P.
    + destruct nh; [intros H; injection H as <- _; exact Hle|].
      destruct (exit_at wa) as [[te raw]|]; [|discriminate].
      pose proof (padvance_now wa te) as Hb.
      destruct (pr (padvance wa te)); try discriminate; intros H; injection H as <- _; cbn; rewrite ?Hb; lia.
    + intros H; injection H as <- _. cbn. exact Hle.
    + intros H; injection H as <- _. exact Hle.
  - destruct (pr wa).
    + destruct (dies_on_signal wa && negb (sig =? 0)); intros H; injection H as <- _; rewrite ?settle_now; cbn; exact Hle.
    + intros H; injection H as <- _. cbn. exact Hle.
    + intros H; injection H as <- _. cbn. exact Hle.
  - intros H; injection H as <- _. exact Hle.
  - intros H; injection H as <- _. rewrite padvance_now. lia.
Qed.

Lemma pserve_clock w dur over w' r : pserve w PClock dur over = PRes w' r -> r = RTime (pnow w').
Proof. unfold pserve. intros H. injection H as <- <-. reflexivity. Qed.

Lemma pserve_sleep w ns dur over w' r : pserve w (PSleep ns) dur over = PRes w' r -> pnow w + ns <= pnow w'.
Proof.
  unfold pserve. intros H. injection H as <- _. rewrite !padvance_now. lia.
Qed.

(* waitpid reports a status only for a zombie, and reaps it *)
Lemma pserve_wait_truth w nh dur over w' same raw :
  pserve w (PWaitpid nh) dur over = PRes w' (RWaitPid same raw) ->
  same = true /\ pr w' = PReaped /\ exists w1, pr w1 = PZombie raw /\ pnow w1 <= pnow w'.
Proof.
  unfold pserve. set (wa := padvance w (pnow w + dur)).
  destruct (pr wa) eqn:P.
  - destruct nh; [discriminate|]. destruct (exit_at wa) as [[te raw0]|]; [|discriminate].
    destruct (pr (padvance wa te)) eqn:P2; try discriminate.
    intros H. injection H as <- <- <-. split; [reflexivity|]. split; [reflexivity|].
    exists (padvance wa te). split; [exact P2|]. cbn. lia.
  - intros H. injection H as <- <- <-. split; [reflexivity|]. split; [reflexivity|].
    exists wa. split; [exact P|]. cbn. lia.
  - discriminate.
Qed.

Ltac break_hyp H :=
  repeat match type of H with
         | context [match ?x with _ => _ end] => destruct x eqn:?
         | context [if ?x then _ else _] => destruct x eqn:?
         end.

Lemma pserve_waitpid_only w c dur over w' same raw :
  pserve w c dur over = PRes w' (RWaitPid same raw) -> exists nh, c = PWaitpid nh.
Proof.
  intros H. destruct c as [nh|sg| |ns]; [exists nh; reflexivity| | |]; exfalso; unfold pserve in H;
    break_hyp H; discriminate.
Qed.

(* a never-exiting live child stays alive through every call except a fatal signal *)
Definition alive_forever (w : pworld) : Prop := pr w = PAlive /\ exit_at w = None.

Lemma settle_alive_forever w : alive_forever w -> settle w = w.
Proof. intros [H1 H2]. unfold settle. rewrite H1, H2. rewrite H1. reflexivity. Qed.

Lemma padvance_alive_forever w t : alive_forever w -> alive_forever (padvance w t).
Proof.
  intros [H1 H2]. unfold padvance.
  rewrite settle_alive_forever; [split; assumption|split; assumption].
Qed.

Lemma pserve_alive_forever w c dur over w' r :
  alive_forever w -> (forall s, c <> PKill s) -> pserve w c dur over = PRes w' r ->
  alive_forever w' /\ (forall nh, c = PWaitpid nh -> nh = true /\ r = RWaitZero).
Proof.
  intros Ha Hk. unfold pserve. pose proof (padvance_alive_forever w (pnow w + dur) Ha) as Hb.
  set (wa := padvance w (pnow w + dur)) in *. destruct Hb as [Hb1 Hb2].
  destruct c as [nh|sig| |ns].
  - rewrite Hb1. destruct nh.
    + intros H. injection H as <- <-. split; [split; assumption|]. intros nh E. injection E as <-. auto.
    + rewrite Hb2. discriminate.
  - exfalso. exact (Hk sig eq_refl).
  - intros H. injection H as <- _. split; [split; assumption|]. intros nh E. discriminate.
  - intros H. injection H as <- _. split; [apply padvance_alive_forever; split; assumption|]. intros nh E. discriminate.
Qed.

(* once reaped (by anyone) the pid stays reaped and waitpid says ECHILD *)
Lemma settle_reaped w : pr w = PReaped -> pr (settle w) = PReaped.
Proof. intros H. unfold settle. rewrite H. cbn iota. rewrite H. exact H. Qed.

Lemma pserve_reaped w c dur over w' r :
  pr w = PReaped -> pserve w c dur over = PRes w' r ->
  pr w' = PReaped /\ (forall nh, c = PWaitpid nh -> r = RErrno ECHILD).
Proof.
  intros Hr. unfold pserve.
  assert (pr (padvance w (pnow w + dur)) = PReaped) as Ha by (unfold padvance; apply settle_reaped; exact Hr).
  set (wa := padvance w (pnow w + dur)) in *.
  destruct c as [nh|sig| |ns].
  - rewrite Ha. intros H. injection H as <- <-. split; [exact Ha|]. reflexivity.
  - rewrite Ha. intros H. injection H as <- _. split; [reflexivity|]. intros nh E. discriminate.
  - intros H. injection H as <- _. split; [exact Ha|]. intros nh E. discriminate.
  - intros H. injection H as <- _. split; [unfold padvance; apply settle_reaped; exact Ha|]. intros nh E. discriminate.
Qed.

(* ---------- C09: truthfulness ---------- *)

(* the machine adopts a status only from a waitpid result that named our pid; the decoded value is what
   it reports *)
Lemma absorb_finished p r p' st :
  cstate p = Running -> absorb p r = inl p' -> cstate p' = Finished st ->
  (r = RErrno ECHILD /\ st = Undetermined) \/ (exists raw, r = RWaitPid true raw /\ st = decode_exit_status raw).
Proof.
  intros Hp. unfold absorb. destruct r as [same raw| |e| |t]; try (intros H; injection H as <-; rewrite Hp; discriminate).
  - destruct same; intros H; injection H as <-; cbn; [|rewrite Hp; discriminate].
    intros E. injection E as <-. right. eexists. split; reflexivity.
  - destruct (e =? ECHILD) eqn:E; [|discriminate]. intros H. injection H as <-. cbn. intros E2. injection E2 as <-.
    left. apply N.eqb_eq in E. subst. auto.
Qed.

(* machine states of an operation in progress on a Running handle *)
Definition in_progress (s : pst) : Prop :=
  cstate (po s) = Running /\ match ppc_ s with QIdle => False | _ => True end.

(* where a status can come from: every run that ends reporting a status other than Undetermined
   contains a waitpid that returned our pid with a raw status decoding to exactly that value, issued
   against a zombie which that very call reaped *)
Lemma exec_truth : forall x w tr p' v w',
  exec x w tr p' v w' ->
  forall s c, x = (s, PCall c) -> cstate (po s) = Running ->
  match ppc_ s with QKill | QIdle => False | _ => True end ->
  forall st, v = VStatus (Some st) -> st <> Undetermined ->
  exists nh raw t, In (PWaitpid nh, RWaitPid true raw, t) tr /\ decode_exit_status raw = st.
Proof.
  induction 1 as [s v w|s c w dur over w' r tr p' v w'' Hs He IH]; intros s0 c0 Hx Hrun Hpc st Hv Hne.
  - discriminate.
  - injection Hx as -> ->.
    (* one step of the machine *)
    assert (forall s1 a, pstep s0 r = (s1, a) ->
            (exists c1, a = PCall c1 /\ cstate (po s1) = Running /\ match ppc_ s1 with QKill | QIdle => False | _ => True end)
            \/ (exists v1, a = PRet v1 /\ (v1 = VStatus (Some st) -> st <> Undetermined ->
                                          exists raw, r = RWaitPid true raw /\ decode_exit_status raw = st))) as Hstep.
    { intros s1 a E. unfold pstep in E. destruct s0 as [p q]. cbn [po ppc_] in *.
      destruct q; try contradiction.
      - destruct (absorb p r) as [p1|e] eqn:A.
        + destruct (cstate p1) eqn:C1; injection E as <- <-.
          * left. eexists. split; [reflexivity|]. cbn. auto.
          * right. eexists. split; [reflexivity|]. intros E1 Hn. injection E1 as ->.
            destruct (absorb_finished p r p1 st Hrun A C1) as [[_ ->]|[raw [-> ->]]]; [congruence|].
            eexists. split; reflexivity.
        + injection E as <- <-. right. eexists. split; [reflexivity|]. discriminate.
      - destruct (absorb p r) as [p1|e] eqn:A.
        + destruct (cstate p1) eqn:C1; injection E as <- <-.
          * left. eexists. split; [reflexivity|]. cbn. auto.
          * right. eexists. split; [reflexivity|]. discriminate.
        + injection E as <- <-. right. eexists. split; [reflexivity|]. discriminate.
      - destruct r; injection E as <- <-; try (right; eexists; split; [reflexivity|discriminate]).
        left. eexists. split; [reflexivity|]. cbn. auto.
      - destruct (absorb p r) as [p1|e] eqn:A.
        + destruct (cstate p1) eqn:C1; injection E as <- <-.
          * left. eexists. split; [reflexivity|]. cbn. auto.
          * right. eexists. split; [reflexivity|]. intros E1 Hn. injection E1 as ->.
            destruct (absorb_finished p r p1 st Hrun A C1) as [[_ ->]|[raw [-> ->]]]; [congruence|].
            eexists. split; reflexivity.
        + unfold wt_err in E. injection E as <- <-. right. eexists. split; [reflexivity|].
          destruct swallow; discriminate.
      - destruct r; try (injection E as <- <-; right; eexists; split; [reflexivity|discriminate]).
        destruct (dl <=? t); injection E as <- <-.
        * right. eexists. split; [reflexivity|]. discriminate.
        * left. eexists. split; [reflexivity|]. cbn. auto.
      - injection E as <- <-. left. eexists. split; [reflexivity|]. cbn. auto. }
    destruct (pstep s0 r) as [s1 a] eqn:E1.
    destruct (Hstep s1 a eq_refl) as [[c1 [-> [Hr1 Hp1]]]|[v1 [-> Hv1]]].
    + destruct (IH s1 c1 eq_refl Hr1 Hp1 st Hv Hne) as [nh [raw [t [Hin Hd]]]].
      exists nh, raw, t. split; [right; exact Hin|exact Hd].
    + inversion He; subst. destruct (Hv1 eq_refl Hne) as [raw [-> Hd]].
      destruct (pserve_waitpid_only _ _ _ _ _ _ _ Hs) as [nh ->].
      exists nh, raw. eexists. split; [left; reflexivity|exact Hd].
Qed.

Theorem status_truthful p o w tr p' st w' :
  cstate p = Running -> is_query o = true ->
  run p o w tr p' (VStatus (Some st)) w' -> st <> Undetermined ->
  exists nh raw t, In (PWaitpid nh, RWaitPid true raw, t) tr /\ decode_exit_status raw = st.
Proof.
  intros Hp Hq R Hne. unfold run in R.
  destruct o; try discriminate; cbn [start_op] in R; unfold status_of in R; rewrite Hp in R.
  - eapply exec_truth; try exact R; try reflexivity; cbn; auto.
  - eapply exec_truth; try exact R; try reflexivity; cbn; auto.
  - eapply exec_truth; try exact R; try reflexivity; cbn; auto.
  - inversion R.
Qed.

(* ---------- C09: never a status while the child is running ---------- *)

(* which call a program point of wait_timeout is waiting for *)
Definition awaits (q : ppc) (c : pcall) : Prop :=
  match q, c with
  | QWtClock0 _ _, PClock => True
  | QWtWait _ _ _, PWaitpid true => True
  | QWtClock _ _ _, PClock => True
  | QWtSleep _ _ _, PSleep _ => True
  | _, _ => False
  end.

Lemma exec_alive : forall x w tr p' v w',
  exec x w tr p' v w' ->
  forall s c, x = (s, PCall c) -> alive_forever w -> cstate (po s) = Running -> awaits (ppc_ s) c ->
  v = VStatus None /\ alive_forever w' /\ cstate p' = Running.
Proof.
  induction 1 as [s v w|s c w dur over w' r tr p' v w'' Hs He IH]; intros s0 c0 Hx Ha Hrun Hq.
  - discriminate.
  - injection Hx as -> ->.
    destruct s0 as [p q]. cbn [po ppc_] in *.
    assert (forall sg, c0 <> PKill sg) as Hk by (intros sg ->; destruct q; exact Hq).
    destruct (pserve_alive_forever w c0 dur over w' r Ha Hk Hs) as [Ha' Hw].
    destruct q; try contradiction; destruct c0 as [nh|sg| |ns]; try contradiction.
    + (* QWtClock0 *)
      pose proof (pserve_clock _ _ _ _ _ Hs) as Hr. subst r. cbn [pstep po ppc_] in He, IH.
      eapply (IH _ _ eq_refl Ha'); cbn; auto.
    + (* QWtWait *)
      destruct nh; [|contradiction]. destruct (Hw true eq_refl) as [_ Hr]. subst r.
      cbn [pstep po ppc_ absorb] in He, IH. rewrite Hrun in He, IH.
      eapply (IH _ _ eq_refl Ha'); cbn; auto.
    + (* QWtClock *)
      pose proof (pserve_clock _ _ _ _ _ Hs) as Hr. subst r. cbn [pstep po ppc_] in He, IH.
      destruct (dl <=? pnow w').
      * inversion He; subst. cbn. auto.
      * eapply (IH _ _ eq_refl Ha'); cbn; auto.
    + (* QWtSleep *)
      cbn [pstep po ppc_] in He, IH. eapply (IH _ _ eq_refl Ha'); cbn; auto.
Qed.

Theorem never_while_alive p o w tr p' v w' :
  cstate p = Running -> alive_forever w -> (o = OpPoll \/ exists d, o = OpWaitTimeout d) ->
  run p o w tr p' v w' -> v = VStatus None /\ cstate p' = Running.
Proof.
  intros Hp Ha Ho R. unfold run in R.
  destruct Ho as [->|[d ->]]; cbn [start_op] in R; rewrite Hp in R;
    destruct (exec_alive _ _ _ _ _ _ R _ _ eq_refl Ha) as [H1 [_ H3]]; cbn; auto.
Qed.

(* a blocking wait on a child that never exits does not return at all *)
Theorem wait_never_returns_while_alive p w tr p' v w' :
  cstate p = Running -> alive_forever w -> ~ run p OpWait w tr p' v w'.
Proof.
  intros Hp Ha R. unfold run in R. cbn [start_op] in R. rewrite Hp in R.
  inversion R as [|s c w0 dur over w1 r tr' p1 v1 w2 Hs He]; subst.
  unfold pserve in Hs. destruct (padvance_alive_forever w (pnow w + dur) Ha) as [H1 H2].
  rewrite H1, H2 in Hs. discriminate.
Qed.

(* ---------- C09: reaped by someone else ---------- *)

Lemma exec_reaped : forall x w tr p' v w',
  exec x w tr p' v w' ->
  forall s c, x = (s, PCall c) -> pr w = PReaped -> cstate (po s) = Running ->
  match ppc_ s, c with
  | QWait, PWaitpid false => True
  | QWtClock0 _ _, PClock => True
  | QWtWait _ _ _, PWaitpid true => True
  | _, _ => False
  end ->
  v = VStatus (Some Undetermined) /\ cstate p' = Finished Undetermined.
Proof.
  induction 1 as [s v w|s c w dur over w' r tr p' v w'' Hs He IH]; intros s0 c0 Hx Hr Hrun Hq.
  - discriminate.
  - injection Hx as -> ->.
    destruct s0 as [p q]. cbn [po ppc_] in *.
    destruct (pserve_reaped w c0 dur over w' r Hr Hs) as [Hr' Hw].
    destruct q; try contradiction; destruct c0 as [nh|sg| |ns]; try contradiction.
    + destruct nh; [contradiction|]. pose proof (Hw false eq_refl) as E. subst r.
      cbn [pstep po ppc_ absorb] in He.
      change (ECHILD =? ECHILD) with true in He. cbn iota in He. cbn [fin_with cstate] in He.
      inversion He; subst. cbn. auto.
    + pose proof (pserve_clock _ _ _ _ _ Hs) as E. subst r. cbn [pstep po ppc_] in He, IH.
      eapply (IH _ _ eq_refl Hr'); cbn; auto.
    + destruct nh; [|contradiction]. pose proof (Hw true eq_refl) as E. subst r.
      cbn [pstep po ppc_ absorb] in He.
      change (ECHILD =? ECHILD) with true in He. cbn iota in He. cbn [fin_with cstate] in He.
      inversion He; subst. cbn. auto.
Qed.

(* if some other code already reaped the child, every query reports Undetermined -- not an error, not a hang *)
Theorem reaped_elsewhere p o w tr p' v w' :
  cstate p = Running -> pr w = PReaped -> (o = OpPoll \/ o = OpWait \/ exists d, o = OpWaitTimeout d) ->
  run p o w tr p' v w' -> v = VStatus (Some Undetermined) /\ cstate p' = Finished Undetermined.
Proof.
  intros Hp Hr Ho R. unfold run in R.
  destruct Ho as [->|[->|[d ->]]]; cbn [start_op] in R; rewrite Hp in R;
    eapply exec_reaped; try exact R; try reflexivity; cbn; auto.
Qed.

(* ... and such a query does return: the run exists, with at most two calls *)
Theorem reaped_elsewhere_returns p o w :
  cstate p = Running -> pr w = PReaped -> (o = OpPoll \/ o = OpWait \/ exists d, o = OpWaitTimeout d) ->
  exists tr p' w', run p o w tr p' (VStatus (Some Undetermined)) w' /\ (length tr <= 2)%nat.
Proof.
  intros Hp Hr Ho. unfold run.
  assert (forall w0 nh, pr w0 = PReaped -> pserve w0 (PWaitpid nh) 0 0 = PRes (padvance w0 (pnow w0 + 0)) (RErrno ECHILD)) as Hwait.
  { intros w0 nh H0. unfold pserve.
    assert (pr (padvance w0 (pnow w0 + 0)) = PReaped) as -> by (unfold padvance; apply settle_reaped; exact H0).
    reflexivity. }
  destruct Ho as [->|[->|[d ->]]]; cbn [start_op]; rewrite Hp.
  - eexists. eexists. eexists. split.
    + eapply (exec_call _ _ _ 0 0); [reflexivity|]. cbn [pstep po ppc_ mk].
      eapply exec_call; [apply Hwait; unfold padvance; apply settle_reaped; exact Hr|].
      cbn [pstep po ppc_ mk absorb]. change (ECHILD =? ECHILD) with true. cbn iota. cbn [fin_with cstate].
      apply exec_ret.
    + cbn. lia.
  - eexists. eexists. eexists. split.
    + eapply exec_call; [apply Hwait; exact Hr|].
      cbn [pstep po ppc_ mk absorb]. change (ECHILD =? ECHILD) with true. cbn iota. cbn [fin_with cstate].
      apply exec_ret.
    + cbn. lia.
  - eexists. eexists. eexists. split.
    + eapply (exec_call _ _ _ 0 0); [reflexivity|]. cbn [pstep po ppc_ mk].
      eapply exec_call; [apply Hwait; unfold padvance; apply settle_reaped; exact Hr|].
      cbn [pstep po ppc_ mk absorb]. change (ECHILD =? ECHILD) with true. cbn iota. cbn [fin_with cstate].
      apply exec_ret.
    + cbn. lia.
Qed.

(* ---------- C10: signals ---------- *)

Definition sig_of (o : op) : option N :=
  match o with OpTerminate => Some SIGTERM | OpKill => Some SIGKILL | OpSignal s => Some s | _ => None end.

(* while the handle is Running, a signalling call issues exactly one kill, with exactly the requested signal *)
Theorem signal_exactly_one p o sg w tr p' v w' :
  cstate p = Running -> sig_of o = Some sg -> run p o w tr p' v w' ->
  exists r t, tr = [(PKill sg, r, t)] /\ cstate p' = Running
              /\ v = match r with RErrno e => VErr e | _ => VUnit end.
Proof.
  intros Hp Hs R. unfold run in R.
  destruct o; try discriminate; cbn [sig_of] in Hs; injection Hs as <-; cbn [start_op] in R; rewrite Hp in R;
    inversion R as [|s c w0 dur over w1 r tr' p1 v1 w2 Hsv He]; subst;
    cbn [pstep po ppc_ mk] in He; destruct r; inversion He; subst; eexists; eexists; cbn; auto.
Qed.

(* the machine itself never emits a kill: only the first call of a signalling operation is one *)
Lemma pstep_no_kill s r s' c : pstep s r = (s', PCall c) -> forall sg, c <> PKill sg.
Proof.
  intros H sg ->. unfold pstep, wt_err in H. destruct s as [p q]. cbn [po ppc_] in H.
  destruct q; break_hyp H; try discriminate; injection H as _ H; discriminate.
Qed.

Lemma exec_no_kill : forall x w tr p' v w',
  exec x w tr p' v w' -> forall s c, x = (s, PCall c) -> (forall sg, c <> PKill sg) ->
  forall sg r t, ~ In (PKill sg, r, t) tr.
Proof.
  induction 1 as [s v w|s c w dur over w' r tr p' v w'' Hs He IH]; intros s0 c0 Hx Hk sg r0 t Hin.
  - discriminate.
  - injection Hx as -> ->. destruct Hin as [E|Hin].
    + injection E as E _ _. exact (Hk sg E).
    + destruct (pstep s0 r) as [s1 a] eqn:E1. destruct a as [c1|v1|].
      * exact (IH s1 c1 eq_refl (pstep_no_kill _ _ _ _ E1) sg r0 t Hin).
      * inversion He; subst. destruct Hin.
      * inversion He.
Qed.

Theorem kills_only_when_asked p o w tr p' v w' sg r t :
  run p o w tr p' v w' -> In (PKill sg, r, t) tr ->
  cstate p = Running /\ sig_of o = Some sg /\ tr = [(PKill sg, r, t)].
Proof.
  intros R Hin. destruct (cstate p) eqn:Hp.
  2:{ destruct (finished_no_syscall p st o w tr p' v w' Hp R) as [-> _]. destruct Hin. }
  destruct (sig_of o) as [sg'|] eqn:Hs.
  - destruct (signal_exactly_one p o sg' w tr p' v w' Hp Hs R) as [r' [t' [-> _]]].
    destruct Hin as [E|[]]. injection E as -> -> ->. auto.
  - exfalso. unfold run in R.
    assert (forall s c, start_op p o = (s, PCall c) -> forall sg0, c <> PKill sg0) as Hnk.
    { intros s c E sg0 ->. destruct o; cbn [start_op] in E; rewrite ?Hp in E; try discriminate;
        destruct (detached p); discriminate. }
    destruct (start_op p o) as [s a] eqn:E. destruct a as [c|v0|].
    + exact (exec_no_kill _ _ _ _ _ _ R s c eq_refl (Hnk s c eq_refl) sg r t Hin).
    + inversion R; subst. destruct Hin.
    + inversion R.
Qed.

(* every program point is waiting for the result of one particular call *)
Definition expects (q : ppc) (c : pcall) : Prop :=
  match q, c with
  | QWait, PWaitpid false | QDropWait, PWaitpid false => True
  | QWtClock0 _ _, PClock | QWtClock _ _ _, PClock => True
  | QWtWait _ _ _, PWaitpid true => True
  | QWtSleep _ _ _, PSleep _ => True
  | QKill, PKill _ => True
  | _, _ => False
  end.

Lemma pstep_expects s r s' c : pstep s r = (s', PCall c) -> expects (ppc_ s') c.
Proof.
  unfold pstep, wt_err. destruct s as [p q]. cbn [po ppc_]. intros H.
  destruct q; break_hyp H; try discriminate; injection H as <- <-; exact I.
Qed.

Lemma start_expects p o s c : start_op p o = (s, PCall c) -> expects (ppc_ s) c.
Proof.
  intros H. destruct o; cbn [start_op] in H; break_hyp H; try discriminate; injection H as <- <-; exact I.
Qed.

Lemma pstep_keeps_running s r s' c : cstate (po s) = Running -> pstep s r = (s', PCall c) -> cstate (po s') = Running.
Proof.
  unfold pstep, wt_err. destruct s as [p q]. cbn [po ppc_]. intros Hr H.
  destruct q; break_hyp H; try discriminate; injection H as <- _; cbn [po mk]; assumption.
Qed.

(* our own reaping ends the Running state within the same operation *)
Lemma exec_own_reap : forall x w tr p' v w',
  exec x w tr p' v w' -> forall s c, x = (s, PCall c) -> cstate (po s) = Running -> expects (ppc_ s) c ->
  forall nh raw t, In (PWaitpid nh, RWaitPid true raw, t) tr -> cstate p' = Finished (decode_exit_status raw).
Proof.
  induction 1 as [s v w|s c w dur over w' r tr p' v w'' Hs He IH]; intros s0 c0 Hx Hrun Hex nh raw t Hin.
  - discriminate.
  - injection Hx as -> ->. destruct Hin as [E|Hin].
    + injection E as -> -> _. destruct s0 as [p q]. cbn [po ppc_] in *.
      destruct q; try contradiction; try (destruct nh; contradiction);
        unfold pstep in He; cbn [po ppc_ absorb fin_with cstate] in He; inversion He; subst; reflexivity.
    + destruct (pstep s0 r) as [s1 a] eqn:E1. destruct a as [c1|v1|].
      * exact (IH s1 c1 eq_refl (pstep_keeps_running _ _ _ _ Hrun E1) (pstep_expects _ _ _ _ E1) nh raw t Hin).
      * inversion He; subst. destruct Hin.
      * inversion He.
Qed.

Theorem own_reap_finishes p o w tr p' v w' nh raw t :
  cstate p = Running -> run p o w tr p' v w' -> In (PWaitpid nh, RWaitPid true raw, t) tr ->
  cstate p' = Finished (decode_exit_status raw).
Proof.
  intros Hp R Hin. unfold run in R. destruct (start_op p o) as [s a] eqn:E. destruct a as [c|v0|].
  - assert (cstate (po s) = Running) as Hr.
    { destruct o; cbn [start_op] in E; rewrite ?Hp in E; break_hyp E; try discriminate; injection E as <- _; exact Hp. }
    exact (exec_own_reap _ _ _ _ _ _ R s c eq_refl Hr (start_expects _ _ _ _ E) nh raw t Hin).
  - inversion R; subst. destruct Hin.
  - inversion R.
Qed.

(* over whole histories: once an operation has reaped the child itself, no later operation makes any
   system call -- in particular none sends a signal *)
Theorem no_signal_after_own_reap p1 o w1 tr v p2 w2 os2 h2 p' w' nh raw t :
  run p1 o w1 tr p2 v w2 -> In (PWaitpid nh, RWaitPid true raw, t) tr ->
  runs p2 os2 w2 h2 p' w' ->
  Forall (fun tv => fst tv = []) h2 /\ w' = w2.
Proof.
  intros R1 Hin R2.
  destruct (cstate p1) eqn:Hc.
  - pose proof (own_reap_finishes p1 o w1 tr p2 v w2 nh raw t Hc R1 Hin) as Hf.
    destruct (status_final_history p2 _ os2 w2 h2 p' w' Hf R2) as [-> [_ Hall]]. split; [|reflexivity].
    clear - Hall. induction Hall as [|a b l l' [Hab _] _ IHl]; constructor; assumption.
  - destruct (finished_no_syscall p1 st o w1 tr p2 v w2 Hc R1) as [-> _]. destruct Hin.
Qed.

(* ---------- C11: poll never blocks; wait_timeout ---------- *)

Definition calls (tr : list tentry) : list pcall := map (fun e => fst (fst e)) tr.

(* poll(): at most clock, one waitpid(WNOHANG), clock; never a sleep, never an error *)
Theorem poll_nonblocking p w tr p' v w' :
  run p OpPoll w tr p' v w' ->
  (calls tr = [] \/ calls tr = [PClock; PWaitpid true] \/ calls tr = [PClock; PWaitpid true; PClock])
  /\ (exists s, v = VStatus s).
Proof.
  unfold run. cbn [start_op]. destruct (cstate p) eqn:Hp.
  2:{ intros R. inversion R; subst. split; [left; reflexivity|eexists; reflexivity]. }
  intros R.
  inversion R as [|s c w0 d1 o1 w1 r1 tr1 q1 v1 w1' Hs1 He1]; subst. clear R.
  pose proof (pserve_clock _ _ _ _ _ Hs1) as E. subst r1. cbn [pstep po ppc_ mk] in He1.
  inversion He1 as [|s c w0 d2 o2 w2 r2 tr2 q2 v2 w2' Hs2 He2]; subst. clear He1.
  cbn [pstep po ppc_ mk] in He2.
  destruct (absorb p r2) as [p2|e] eqn:A.
  - destruct (cstate p2) eqn:C2.
    + inversion He2 as [|s c w0 d3 o3 w3 r3 tr3 q3 v3 w3' Hs3 He3]; subst. clear He2.
      pose proof (pserve_clock _ _ _ _ _ Hs3) as E. subst r3. cbn [pstep po ppc_ mk] in He3.
      pose proof (pserve_mono _ _ _ _ _ _ Hs2). pose proof (pserve_mono _ _ _ _ _ _ Hs3).
      assert (pnow w1 + 0 <=? pnow w3 = true) as Hle by (apply N.leb_le; lia).
      rewrite Hle in He3. inversion He3; subst.
      split; [right; right; reflexivity|eexists; reflexivity].
    + inversion He2; subst. split; [right; left; reflexivity|eexists; reflexivity].
  - unfold wt_err in He2. inversion He2; subst. split; [right; left; reflexivity|eexists; reflexivity].
Qed.

(* wait_timeout(d) answers "still running" only once the clock shows start + d *)
Lemma exec_wt_not_early : forall x w tr p' v w',
  exec x w tr p' v w' ->
  forall s c, x = (s, PCall c) -> expects (ppc_ s) c -> v = VStatus None ->
  match ppc_ s with
  | QWtClock0 d false => pnow w + d <= pnow w'
  | QWtWait dl _ false | QWtClock dl _ false | QWtSleep dl _ false => dl <= pnow w'
  | _ => True
  end.
Proof.
  induction 1 as [s v w|s c w dur over w' r tr p' v w'' Hs He IH]; intros s0 c0 Hx Hex Hv.
  - discriminate.
  - injection Hx as -> ->. destruct s0 as [p q]. cbn [po ppc_] in *.
    pose proof (pserve_mono _ _ _ _ _ _ Hs) as Hm.
    destruct q; try exact I; destruct swallow; try exact I;
      destruct c0 as [nh|sg| |ns]; try contradiction.
    + pose proof (pserve_clock _ _ _ _ _ Hs) as E. subst r. cbn [pstep po ppc_] in He, IH.
      specialize (IH _ _ eq_refl I Hv). cbn [ppc_ mk] in IH. lia.
    + destruct nh; [|contradiction]. cbn [pstep po ppc_] in He, IH.
      destruct (absorb p r) as [p1|e]; [destruct (cstate p1)|].
      * exact (IH _ _ eq_refl I Hv).
      * inversion He; subst. discriminate.
      * unfold wt_err in He. inversion He; subst. discriminate.
    + pose proof (pserve_clock _ _ _ _ _ Hs) as E. subst r. cbn [pstep po ppc_] in He, IH.
      destruct (dl <=? pnow w') eqn:E.
      * inversion He; subst. apply N.leb_le in E. exact E.
      * exact (IH _ _ eq_refl I Hv).
    + cbn [pstep po ppc_] in He, IH. exact (IH _ _ eq_refl I Hv).
Qed.

Theorem wt_not_early p d w tr p' w' :
  run p (OpWaitTimeout d) w tr p' (VStatus None) w' -> pnow w + d <= pnow w'.
Proof.
  unfold run. cbn [start_op]. destruct (cstate p) eqn:Hp; intros R.
  - exact (exec_wt_not_early _ _ _ _ _ _ R _ _ eq_refl I eq_refl).
  - inversion R.
Qed.

(* the constants of the back-off are positive: a changed constant breaks this proof, not a test *)
Lemma backoff_constants : 0 < WT_DELAY0_MS /\ 1 <= WT_FACTOR /\ 0 < WT_DELAY_MAX_MS /\ WT_DELAY0_MS <= WT_DELAY_MAX_MS.
Proof. unfold WT_DELAY0_MS, WT_FACTOR, WT_DELAY_MAX_MS. lia. Qed.

(* shape of the call sequence of wait_timeout: status check, clock, positive sleep, repeated; the last
   round ends after the status check (status obtained / error) or after the clock (time is up) *)
Inductive wt_calls : list pcall -> Prop :=
| wc_last1 : wt_calls [PWaitpid true]
| wc_last2 : wt_calls [PWaitpid true; PClock]
| wc_iter ns l : 0 < ns -> wt_calls l -> wt_calls (PWaitpid true :: PClock :: PSleep ns :: l).

Lemma exec_wt_shape : forall x w tr p' v w',
  exec x w tr p' v w' ->
  forall s c, x = (s, PCall c) -> expects (ppc_ s) c ->
  match ppc_ s with
  | QWtWait dl delay _ => 0 < delay -> wt_calls (calls tr)
  | QWtClock dl delay _ => 0 < delay -> exists l, calls tr = PClock :: l /\ (l = [] \/ exists ns l', l = PSleep ns :: l' /\ 0 < ns /\ wt_calls l')
  | QWtSleep dl delay _ => 0 < delay -> exists ns l', calls tr = PSleep ns :: l' /\ wt_calls l'
  | _ => True
  end.
Proof.
  induction 1 as [s v w|s c w dur over w' r tr p' v w'' Hs He IH]; intros s0 c0 Hx Hex.
  - discriminate.
  - injection Hx as -> ->. destruct s0 as [p q]. cbn [po ppc_] in *.
    destruct q; try exact I; destruct c0 as [nh|sg| |ns]; try contradiction; intros Hd.
    + destruct nh; [|contradiction]. cbn [pstep po ppc_] in He, IH. cbn [calls map fst].
      destruct (absorb p r) as [p1|e]; [destruct (cstate p1)|].
      * destruct (IH _ _ eq_refl I Hd) as [l [El Hl]]. fold (calls tr). rewrite El.
        destruct Hl as [->|[ns [l' [-> [Hns Hl']]]]]; [apply wc_last2|apply wc_iter; assumption].
      * inversion He; subst. apply wc_last1.
      * unfold wt_err in He. inversion He; subst. apply wc_last1.
    + pose proof (pserve_clock _ _ _ _ _ Hs) as E. subst r. cbn [pstep po ppc_] in He, IH. cbn [calls map fst].
      fold (calls tr). destruct (dl <=? pnow w') eqn:E.
      * inversion He; subst. eexists. split; [reflexivity|left; reflexivity].
      * destruct (IH _ _ eq_refl I Hd) as [ns [l' [El Hl']]]. eexists. split; [reflexivity|]. right.
        apply N.leb_gt in E.
        (* the sleep just requested is min delay (dl - now) > 0 *)
        inversion He as [|s c w0 d2 o2 w2 r2 tr2 q2 v2 w2' Hs2 He2]; subst. cbn [calls map fst] in El |- *.
        injection El as <- <-. exists (N.min delay (dl - pnow w')), (calls tr2).
        split; [reflexivity|]. split; [lia|exact Hl'].
    + cbn [pstep po ppc_] in He, IH. cbn [calls map fst]. fold (calls tr).
      destruct backoff_constants as [_ [Hf [Hmax _]]].
      assert (0 < N.min (delay * WT_FACTOR) (ns_of_ms WT_DELAY_MAX_MS)) as Hd'.
      { unfold ns_of_ms. apply N.min_glb_lt; nia. }
      exists ns, (calls tr). split; [reflexivity|]. exact (IH _ _ eq_refl I Hd').
Qed.

Theorem wt_no_spin p d w tr p' v w' :
  cstate p = Running -> run p (OpWaitTimeout d) w tr p' v w' ->
  exists l, calls tr = PClock :: l /\ wt_calls l.
Proof.
  intros Hp. unfold run. cbn [start_op]. rewrite Hp. intros R.
  inversion R as [|s c w0 d1 o1 w1 r1 tr1 q1 v1 w1' Hs1 He1]; subst.
  pose proof (pserve_clock _ _ _ _ _ Hs1) as E. subst r1. cbn [pstep po ppc_ mk] in He1.
  eexists. split; [reflexivity|].
  refine (exec_wt_shape _ _ _ _ _ _ He1 _ _ eq_refl I _).
  destruct backoff_constants as [H0 _]. unfold ns_of_ms. lia.
Qed.

(* when the status is already known, wait_timeout returns at once: corollary of finality *)
Theorem wt_known_immediate p st d w tr p' v w' :
  cstate p = Finished st -> run p (OpWaitTimeout d) w tr p' v w' -> tr = [] /\ v = VStatus (Some st) /\ w' = w.
Proof.
  intros H R. destruct (finished_no_syscall p st _ w tr p' v w' H R) as [-> [-> _]].
  unfold run in R. cbn [start_op] in R. rewrite H in R. inversion R; subst. auto.
Qed.

(* ---------- C11: accuracy and the bound on status checks ---------- *)

Lemma pserve_time_clock w dur over w' r : pserve w PClock dur over = PRes w' r -> pnow w' = pnow w + dur.
Proof. unfold pserve. intros H. injection H as <- _. rewrite padvance_now. lia. Qed.

Lemma pserve_time_nohang w dur over w' r : pserve w (PWaitpid true) dur over = PRes w' r -> pnow w' = pnow w + dur.
Proof.
  unfold pserve. pose proof (padvance_now w (pnow w + dur)) as Ha. set (wa := padvance w (pnow w + dur)) in *.
  destruct (pr wa); intros H; injection H as <- _; cbn; lia.
Qed.

Lemma pserve_time_sleep w ns dur over w' r : pserve w (PSleep ns) dur over = PRes w' r -> pnow w' = pnow w + dur + ns + over.
Proof. unfold pserve. intros H. injection H as <- _. rewrite !padvance_now. lia. Qed.

(* executions in which every call takes at most D and every sleep overshoots by at most O *)
Inductive execB (D O : N) : pst * paction -> pworld -> list tentry -> popen -> value -> pworld -> Prop :=
| execB_ret s v w : execB D O (s, PRet v) w [] (po s) v w
| execB_call s c w dur over w' r tr p' v w'' :
    dur <= D -> over <= O ->
    pserve w c dur over = PRes w' r ->
    execB D O (pstep s r) w' tr p' v w'' ->
    execB D O (s, PCall c) w ((c, r, pnow w') :: tr) p' v w''.

Lemma execB_exec D O x w tr p' v w' : execB D O x w tr p' v w' -> exec x w tr p' v w'.
Proof. induction 1; econstructor; eassumption. Qed.

(* "still running" is reported no later than the deadline plus the last round's call durations and
   oversleep: start + d + 4 D + O *)
Lemma execB_wt_not_late D O : forall x w tr p' v w',
  execB D O x w tr p' v w' ->
  forall s c, x = (s, PCall c) -> expects (ppc_ s) c -> v = VStatus None ->
  match ppc_ s with
  | QWtWait dl _ false => pnow w <= dl + D + O -> pnow w' <= dl + 3 * D + O
  | QWtClock dl _ false => pnow w <= dl + 2 * D + O -> pnow w' <= dl + 3 * D + O
  | QWtSleep dl _ false => (exists t, t < dl /\ pnow w = t /\ c = PSleep (N.min (match ppc_ s with QWtSleep _ dly _ => dly | _ => 0 end) (dl - t))) ->
                           pnow w' <= dl + 3 * D + O
  | _ => True
  end.
Proof.
  induction 1 as [s v w|s c w dur over w' r tr p' v w'' Hd Ho Hs He IH]; intros s0 c0 Hx Hex Hv.
  - discriminate.
  - injection Hx as -> ->. destruct s0 as [p q]. cbn [po ppc_] in *.
    destruct q; try exact I; destruct swallow; try exact I;
      destruct c0 as [nh|sg| |ns]; try contradiction.
    + destruct nh; [|contradiction]. intros Hw. pose proof (pserve_time_nohang _ _ _ _ _ Hs) as Ht.
      cbn [pstep po ppc_] in He, IH.
      destruct (absorb p r) as [p1|e]; [destruct (cstate p1)|].
      * specialize (IH _ _ eq_refl I Hv). cbn [ppc_ mk] in IH. apply IH. lia.
      * inversion He; subst. discriminate.
      * unfold wt_err in He. inversion He; subst. discriminate.
    + intros Hw. pose proof (pserve_clock _ _ _ _ _ Hs) as E. subst r.
      pose proof (pserve_time_clock _ _ _ _ _ Hs) as Ht. cbn [pstep po ppc_] in He, IH.
      destruct (dl <=? pnow w') eqn:E.
      * inversion He; subst. lia.
      * apply N.leb_gt in E. specialize (IH _ _ eq_refl I Hv). cbn [ppc_ mk] in IH. apply IH.
        exists (pnow w'). auto.
    + intros [t [Htl [Htw Hc]]]. injection Hc as ->.
      pose proof (pserve_time_sleep _ _ _ _ _ _ Hs) as Ht. cbn [pstep po ppc_] in He, IH.
      specialize (IH _ _ eq_refl I Hv). cbn [ppc_ mk] in IH. apply IH. lia.
Qed.

Theorem wt_not_late D O p d w tr p' w' :
  execB D O (start_op p (OpWaitTimeout d)) w tr p' (VStatus None) w' ->
  pnow w' <= pnow w + d + 4 * D + O.
Proof.
  cbn [start_op]. destruct (cstate p) eqn:Hp; intros R; [|inversion R].
  inversion R as [|s c w0 d1 o1 w1 r1 tr1 q1 v1 w1' Hd1 Ho1 Hs1 He1]; subst.
  pose proof (pserve_clock _ _ _ _ _ Hs1) as E. subst r1.
  pose proof (pserve_time_clock _ _ _ _ _ Hs1) as Ht. cbn [pstep po ppc_ mk] in He1.
  pose proof (execB_wt_not_late D O _ _ _ _ _ _ He1 _ _ eq_refl I eq_refl) as H. cbn [ppc_ mk] in H.
  assert (pnow w1 <= pnow w1 + d + D + O) as Hle by lia. specialize (H Hle). lia.
Qed.

(* the back-off sequence: delay_0 = 1 ms, delay_{j+1} = min (2 delay_j) (100 ms); constant from the 8th on *)
Definition MAXNS : N := ns_of_ms WT_DELAY_MAX_MS.
Definition next_delay (d : N) : N := N.min (d * WT_FACTOR) MAXNS.
Fixpoint delay_at (j : nat) : N :=
  match j with O => ns_of_ms WT_DELAY0_MS | S j' => next_delay (delay_at j') end.

Lemma delay_at_7 : delay_at 7 = MAXNS.
Proof. vm_compute. reflexivity. Qed.
Lemma next_delay_max : next_delay MAXNS = MAXNS.
Proof. vm_compute. reflexivity. Qed.
Lemma delay_at_ge7 j : (7 <= j)%nat -> delay_at j = MAXNS.
Proof.
  intros H. induction j as [|j IH]; [lia|].
  destruct (Nat.eq_dec j 6) as [->|Hn]; [exact delay_at_7|].
  cbn [delay_at]. rewrite IH by lia. exact next_delay_max.
Qed.
Lemma MAXNS_pos : 0 < MAXNS.
Proof. vm_compute. reflexivity. Qed.

Fixpoint count_wait (l : list pcall) : nat :=
  match l with
  | [] => 0
  | PWaitpid _ :: r => S (count_wait r)
  | _ :: r => count_wait r
  end.

Definition ceil_div (x m : N) : N := (x + m - 1) / m.

Ltac Zify.zify_post_hook ::= Z.div_mod_to_equations.

(* number of status checks still to come, by program point: j is the index of the current back-off step *)
Lemma exec_wt_count : forall x w tr p' v w',
  exec x w tr p' v w' ->
  forall s c, x = (s, PCall c) -> expects (ppc_ s) c ->
  forall j,
  match ppc_ s with
  | QWtWait dl delay _ => delay = delay_at j ->
      (N.of_nat (count_wait (calls tr)) <= N.of_nat (7 - Nat.min j 7) + ceil_div (dl - pnow w) MAXNS + 1)
  | QWtClock dl delay _ => delay = delay_at j ->
      (N.of_nat (count_wait (calls tr)) <= N.of_nat (7 - Nat.min j 7) + ceil_div (dl - pnow w) MAXNS)
  | QWtSleep dl delay _ => delay = delay_at j ->
      (exists t, t < dl /\ pnow w = t /\ c = PSleep (N.min delay (dl - t))) ->
      (N.of_nat (count_wait (calls tr)) <= N.of_nat (7 - Nat.min j 7) + ceil_div (dl - pnow w) MAXNS)
  | _ => True
  end.
Proof.
  pose proof MAXNS_pos as HM.
  induction 1 as [s v w|s c w dur over w' r tr p' v w'' Hs He IH]; intros s0 c0 Hx Hex j.
  - discriminate.
  - injection Hx as -> ->. destruct s0 as [p q]. cbn [po ppc_] in *.
    pose proof (pserve_mono _ _ _ _ _ _ Hs) as Hm.
    destruct q; try exact I; destruct c0 as [nh|sg| |ns]; try contradiction.
    + (* status check *)
      destruct nh; [|contradiction]. intros Hd. cbn [pstep po ppc_] in He, IH.
      cbn [calls map fst count_wait]. fold (calls tr).
      destruct (absorb p r) as [p1|e]; [destruct (cstate p1)|].
      * specialize (IH _ _ eq_refl I j). cbn [ppc_ mk] in IH. specialize (IH Hd).
        assert (ceil_div (dl - pnow w') MAXNS <= ceil_div (dl - pnow w) MAXNS) as Hc.
        { unfold ceil_div. apply N.div_le_mono; lia. }
        lia.
      * inversion He; subst. cbn. lia.
      * unfold wt_err in He. inversion He; subst. cbn. lia.
    + (* clock *)
      intros Hd. pose proof (pserve_clock _ _ _ _ _ Hs) as E. subst r. cbn [pstep po ppc_] in He, IH.
      cbn [calls map fst count_wait]. fold (calls tr).
      destruct (dl <=? pnow w') eqn:E.
      * inversion He; subst. cbn. lia.
      * apply N.leb_gt in E. specialize (IH _ _ eq_refl I j). cbn [ppc_ mk] in IH.
        assert (ceil_div (dl - pnow w') MAXNS <= ceil_div (dl - pnow w) MAXNS) as Hc.
        { unfold ceil_div. apply N.div_le_mono; lia. }
        specialize (IH Hd (ex_intro _ (pnow w') (conj E (conj eq_refl eq_refl)))). lia.
    + (* sleep, then the next round with the next delay *)
      intros Hd [t [Htl [Htw Hc]]]. injection Hc as ->.
      pose proof (pserve_sleep _ _ _ _ _ _ Hs) as Hsl. cbn [pstep po ppc_] in He, IH.
      cbn [calls map fst count_wait]. fold (calls tr).
      specialize (IH _ _ eq_refl I (S j)). cbn [ppc_ mk] in IH.
      assert (N.min (delay * WT_FACTOR) (ns_of_ms WT_DELAY_MAX_MS) = delay_at (S j)) as Hn.
      { cbn [delay_at]. rewrite <- Hd. reflexivity. }
      specialize (IH Hn). subst t.
      destruct (Nat.lt_ge_cases j 7) as [Hj|Hj].
      * (* still doubling: the rank drops by one *)
        assert (ceil_div (dl - pnow w') MAXNS <= ceil_div (dl - pnow w) MAXNS) as Hc.
        { unfold ceil_div. apply N.div_le_mono; lia. }
        rewrite (Nat.min_l j 7) by lia. rewrite (Nat.min_l (S j) 7) in IH by lia. lia.
      * (* capped: every sleep is MAXNS or the whole remainder *)
        rewrite (Nat.min_r j 7) by lia. rewrite (Nat.min_r (S j) 7) in IH by lia.
        rewrite (delay_at_ge7 j Hj) in Hd. subst delay.
        replace (7 - 7)%nat with 0%nat in * by lia. cbn [N.of_nat] in *.
        unfold ceil_div in *.
        destruct (N.le_gt_cases MAXNS (dl - pnow w)) as [Hbig|Hsmall].
        -- rewrite N.min_l in Hsl by exact Hbig.
           assert ((dl - pnow w' + MAXNS - 1) / MAXNS + 1 <= (dl - pnow w + MAXNS - 1) / MAXNS) as Hq.
           { assert (dl - pnow w' + MAXNS <= dl - pnow w) by lia.
             replace ((dl - pnow w' + MAXNS - 1) / MAXNS + 1) with ((dl - pnow w' + MAXNS - 1 + 1 * MAXNS) / MAXNS)
               by (rewrite N.div_add by lia; reflexivity).
             apply N.div_le_mono; lia. }
           lia.
        -- rewrite N.min_r in Hsl by lia.
           assert (dl - pnow w' = 0) as Hz by lia. rewrite Hz in IH.
           assert ((0 + MAXNS - 1) / MAXNS = 0) as Hq0 by (apply N.div_small; lia). rewrite Hq0 in IH.
           assert (1 <= (dl - pnow w + MAXNS - 1) / MAXNS) as Hq1.
           { transitivity (MAXNS / MAXNS); [rewrite N.div_same by lia; lia|apply N.div_le_mono; lia]. }
           lia.
Qed.

(* wait_timeout(d) performs at most 8 + ceil(d / 100 ms) status checks, for every d and every exit time *)
Theorem wt_bounded_checks p d w tr p' v w' :
  run p (OpWaitTimeout d) w tr p' v w' ->
  N.of_nat (count_wait (calls tr)) <= 8 + ceil_div d MAXNS.
Proof.
  unfold run. cbn [start_op]. destruct (cstate p) eqn:Hp; intros R.
  2:{ inversion R; subst. cbn. lia. }
  inversion R as [|s c w0 d1 o1 w1 r1 tr1 q1 v1 w1' Hs1 He1]; subst.
  pose proof (pserve_clock _ _ _ _ _ Hs1) as E. subst r1. cbn [pstep po ppc_ mk] in He1.
  pose proof (exec_wt_count _ _ _ _ _ _ He1 _ _ eq_refl I 0%nat) as H. cbn [ppc_ mk] in H.
  specialize (H eq_refl). cbn [calls map fst count_wait]. fold (calls tr1).
  replace (pnow w1 + d - pnow w1) with d in H by lia. cbn in H. lia.
Qed.

(* ---------- C11: the exit is reported within one back-off step of its happening ---------- *)

(* a child that will exit (or has exited) at instant te with raw status raw, and that nobody else reaps *)
Definition pend (te raw : N) (w : pworld) : Prop :=
  reap_at w = None /\
  ((pr w = PAlive /\ exit_at w = Some (te, raw) /\ pnow w < te) \/ (pr w = PZombie raw /\ te <= pnow w)).

Lemma padvance_pend te raw w t : pend te raw w -> pend te raw (padvance w t).
Proof.
  destruct w as [pr0 ex rp dies now0 ks]. unfold pend, padvance, settle. cbn [pr exit_at reap_at pnow dies_on_signal kills].
  intros [Hr [[Ha [He Hn]]|[Hz Hn]]]; subst.
  - destruct (te <=? N.max now0 t) eqn:E; cbn [pr exit_at reap_at pnow].
    + split; [reflexivity|]. right. split; [reflexivity|]. apply N.leb_le in E. exact E.
    + split; [reflexivity|]. left. apply N.leb_gt in E. auto.
  - cbn [pr exit_at reap_at pnow]. split; [reflexivity|]. right. split; [reflexivity|lia].
Qed.

Lemma pserve_pend_nohang te raw w dur over w' r :
  pend te raw w -> pserve w (PWaitpid true) dur over = PRes w' r ->
  (r = RWaitPid true raw /\ te <= pnow w') \/ (r = RWaitZero /\ pend te raw w' /\ pr w' = PAlive).
Proof.
  intros Hp. unfold pserve. pose proof (padvance_pend te raw w (pnow w + dur) Hp) as Ha.
  pose proof (padvance_now w (pnow w + dur)) as Hn.
  set (wa := padvance w (pnow w + dur)) in *. destruct Ha as [Hr [[Hal [He Hlt]]|[Hz Hle]]].
  - rewrite Hal. intros H. injection H as <- <-. right. split; [reflexivity|]. split; [|exact Hal].
    split; [exact Hr|left; auto].
  - rewrite Hz. intros H. injection H as <- <-. left. split; [reflexivity|]. cbn. exact Hle.
Qed.

Lemma pserve_pend_other te raw w c dur over w' r :
  pend te raw w -> (c = PClock \/ exists ns, c = PSleep ns) -> pserve w c dur over = PRes w' r -> pend te raw w'.
Proof.
  intros Hp [->|[ns ->]]; unfold pserve; intros H; injection H as <- _.
  - apply padvance_pend. exact Hp.
  - apply padvance_pend. apply padvance_pend. exact Hp.
Qed.

Lemma delay_at_le_max j : delay_at j <= MAXNS.
Proof. destruct j; [vm_compute; discriminate|]. cbn [delay_at]. unfold next_delay. lia. Qed.

Lemma execB_wt_prompt D O te raw b : te <= b -> forall x w tr p' v w',
  execB D O x w tr p' v w' ->
  forall s c, x = (s, PCall c) -> expects (ppc_ s) c -> cstate (po s) = Running -> pend te raw w ->
  forall st, v = VStatus (Some st) ->
  match ppc_ s with
  | QWtWait dl delay _ => delay <= MAXNS ->
      (pr w = PAlive \/ pnow w <= b + 2 * D + MAXNS + O) -> pnow w' <= b + 3 * D + MAXNS + O
  | QWtClock dl delay _ => delay <= MAXNS -> pr w = PAlive -> pnow w' <= b + 3 * D + MAXNS + O
  | QWtSleep dl delay _ => delay <= MAXNS ->
      (exists t ns, c = PSleep ns /\ ns <= MAXNS /\ pnow w = t /\ t < te + D) -> pnow w' <= b + 3 * D + MAXNS + O
  | _ => True
  end.
Proof.
  intros Hb. pose proof MAXNS_pos as HM.
  induction 1 as [s v w|s c w dur over w' r tr p' v w'' Hd Ho Hs He IH]; intros s0 c0 Hx Hex Hrun Hp st Hv.
  - discriminate.
  - injection Hx as -> ->. destruct s0 as [p q]. cbn [po ppc_] in *.
    destruct q; try exact I; destruct c0 as [nh|sg| |ns]; try contradiction.
    + destruct nh; [|contradiction]. intros Hdl Hpre.
      pose proof (pserve_time_nohang _ _ _ _ _ Hs) as Ht.
      destruct (pserve_pend_nohang te raw _ _ _ _ _ Hp Hs) as [[-> Hte]|[-> [Hp' Hal']]].
      * (* the child is a zombie at this check: the operation ends here *)
        cbn [pstep po ppc_ absorb fin_with cstate] in He. inversion He; subst.
        destruct Hpre as [Hal|Hle]; [|lia].
        destruct Hp as [_ [[_ [_ Hlt]]|[Hz _]]]; [lia|congruence].
      * cbn [pstep po ppc_ absorb] in He, IH. rewrite Hrun in He, IH.
        exact (IH _ _ eq_refl I Hrun Hp' st Hv Hdl Hal').
    + intros Hdl Hal. pose proof (pserve_clock _ _ _ _ _ Hs) as E. subst r.
      pose proof (pserve_time_clock _ _ _ _ _ Hs) as Ht.
      pose proof (pserve_pend_other te raw _ _ _ _ _ _ Hp (or_introl eq_refl) Hs) as Hp'.
      cbn [pstep po ppc_] in He, IH. destruct (dl <=? pnow w').
      * inversion He; subst. discriminate.
      * apply (IH _ _ eq_refl I Hrun Hp' st Hv Hdl).
        exists (pnow w'), (N.min delay (dl - pnow w')). split; [reflexivity|]. split; [lia|]. split; [reflexivity|].
        destruct Hp as [_ [[_ [_ Hlt]]|[Hz _]]]; [lia|congruence].
    + intros Hdl [t [ns0 [Hc [Hns [Htw Htt]]]]]. injection Hc as ->.
      pose proof (pserve_time_sleep _ _ _ _ _ _ Hs) as Ht.
      pose proof (pserve_pend_other te raw _ _ _ _ _ _ Hp (or_intror (ex_intro _ ns0 eq_refl)) Hs) as Hp'.
      cbn [pstep po ppc_] in He, IH.
      apply (IH _ _ eq_refl I Hrun Hp' st Hv).
      * unfold next_delay, MAXNS. lia.
      * right. lia.
Qed.

Definition in_wt_loop (q : ppc) : Prop :=
  match q with QWtWait _ _ _ | QWtClock _ _ _ | QWtSleep _ _ _ => True | _ => False end.

(* in such a world every status waitpid hands out is raw ... *)
Lemma execB_pend_raw D O te raw : forall x w tr p' v w',
  execB D O x w tr p' v w' -> forall s c, x = (s, PCall c) -> expects (ppc_ s) c ->
  pend te raw w -> in_wt_loop (ppc_ s) ->
  forall nh raw0 t, In (PWaitpid nh, RWaitPid true raw0, t) tr -> raw0 = raw.
Proof.
  induction 1 as [s v w|s c w dur over w' r tr p' v w'' Hd Ho Hs He IH]; intros s0 c0 Hx Hex Hpd Hq nh1 raw1 t1 Hin1.
  - discriminate.
  - injection Hx as -> ->. destruct s0 as [p0 q]. cbn [po ppc_] in *.
    destruct q; try contradiction; destruct c0 as [nhx|sg| |ns]; try contradiction.
    + destruct nhx; [|contradiction].
      destruct (pserve_pend_nohang te raw _ _ _ _ _ Hpd Hs) as [[-> Hte]|[-> [Hp' Hal']]].
      * destruct Hin1 as [E|Hin1]; [injection E as _ <- _; reflexivity|].
        cbn [pstep po ppc_ absorb fin_with cstate] in He. inversion He; subst. destruct Hin1.
      * destruct Hin1 as [E|Hin1]; [discriminate|].
        cbn [pstep po ppc_ absorb] in He, IH. destruct (cstate p0).
        -- exact (IH _ _ eq_refl I Hp' I nh1 raw1 t1 Hin1).
        -- inversion He; subst. destruct Hin1.
    + pose proof (pserve_clock _ _ _ _ _ Hs) as E. subst r.
      pose proof (pserve_pend_other te raw _ _ _ _ _ _ Hpd (or_introl eq_refl) Hs) as Hp'.
      destruct Hin1 as [E|Hin1]; [discriminate|].
      cbn [pstep po ppc_] in He, IH. destruct (dl <=? pnow w').
      * inversion He; subst. destruct Hin1.
      * exact (IH _ _ eq_refl I Hp' I nh1 raw1 t1 Hin1).
    + pose proof (pserve_pend_other te raw _ _ _ _ _ _ Hpd (or_intror (ex_intro _ ns eq_refl)) Hs) as Hp'.
      destruct Hin1 as [E|Hin1]; [discriminate E|].
      cbn [pstep po ppc_] in He, IH. exact (IH _ _ eq_refl I Hp' I nh1 raw1 t1 Hin1).
Qed.

Lemma decode_not_undetermined raw : decode_exit_status raw <> Undetermined.
Proof. unfold decode_exit_status. break_match; discriminate. Qed.

(* ... and Undetermined, which needs ECHILD, is never reported *)
Lemma execB_pend_determined D O te raw : forall x w tr p' v w',
  execB D O x w tr p' v w' -> forall s c, x = (s, PCall c) -> expects (ppc_ s) c ->
  cstate (po s) = Running -> pend te raw w -> in_wt_loop (ppc_ s) ->
  v <> VStatus (Some Undetermined).
Proof.
  induction 1 as [s v w|s c w dur over w' r tr p' v w'' Hd Ho Hs He IH]; intros s0 c0 Hx Hex Hrun Hpd Hq.
  - discriminate.
  - injection Hx as -> ->. destruct s0 as [p0 q]. cbn [po ppc_] in *.
    destruct q; try contradiction; destruct c0 as [nhx|sg| |ns]; try contradiction.
    + destruct nhx; [|contradiction].
      destruct (pserve_pend_nohang te raw _ _ _ _ _ Hpd Hs) as [[-> Hte]|[-> [Hp' Hal']]].
      * cbn [pstep po ppc_ absorb fin_with cstate] in He. inversion He; subst.
        intros E. injection E as E. exact (decode_not_undetermined _ E).
      * cbn [pstep po ppc_ absorb] in He, IH. rewrite Hrun in He, IH. exact (IH _ _ eq_refl I Hrun Hp' I).
    + pose proof (pserve_clock _ _ _ _ _ Hs) as E. subst r.
      pose proof (pserve_pend_other te raw _ _ _ _ _ _ Hpd (or_introl eq_refl) Hs) as Hp'.
      cbn [pstep po ppc_] in He, IH. destruct (dl <=? pnow w').
      * inversion He; subst. discriminate.
      * exact (IH _ _ eq_refl I Hrun Hp' I).
    + pose proof (pserve_pend_other te raw _ _ _ _ _ _ Hpd (or_intror (ex_intro _ ns eq_refl)) Hs) as Hp'.
      cbn [pstep po ppc_] in He, IH. exact (IH _ _ eq_refl I Hrun Hp' I).
Qed.

(* wait_timeout reports the exit no later than max(exit instant, start) + 100 ms + 4 call durations + one oversleep *)
Theorem wt_prompt_status D O te raw p d w tr p' st w' :
  cstate p = Running -> pend te raw w ->
  execB D O (start_op p (OpWaitTimeout d)) w tr p' (VStatus (Some st)) w' ->
  pnow w' <= N.max te (pnow w + D) + 3 * D + MAXNS + O /\ st = decode_exit_status raw.
Proof.
  intros Hp Hpe R. pose proof (execB_exec _ _ _ _ _ _ _ _ R) as Rx.
  assert (run p (OpWaitTimeout d) w tr p' (VStatus (Some st)) w') as Rr by exact Rx.
  cbn [start_op] in R. rewrite Hp in R.
  inversion R as [|s c w0 d1 o1 w1 r1 tr1 q1 v1 w1' Hd1 Ho1 Hs1 He1]; subst.
  pose proof (pserve_clock _ _ _ _ _ Hs1) as E. subst r1.
  pose proof (pserve_time_clock _ _ _ _ _ Hs1) as Ht.
  pose proof (pserve_pend_other te raw _ _ _ _ _ _ Hpe (or_introl eq_refl) Hs1) as Hp1.
  cbn [pstep po ppc_ mk] in He1. split.
  - assert (te <= N.max te (pnow w + D)) as Hb by lia.
    pose proof (execB_wt_prompt D O te raw _ Hb _ _ _ _ _ _ He1 _ _ eq_refl I Hp Hp1 st eq_refl) as H.
    cbn [ppc_ mk] in H. apply H.
    + destruct backoff_constants as [_ [_ [_ Hle]]]. unfold MAXNS, ns_of_ms. nia.
    + right. lia.
  - assert (st <> Undetermined) as Hne.
    { intros ->. exact (execB_pend_determined D O te raw _ _ _ _ _ _ He1 _ _ eq_refl I Hp Hp1 I eq_refl). }
    destruct (status_truthful p (OpWaitTimeout d) w _ p' st w' Hp eq_refl Rr Hne) as [nh [raw0 [t [Hin Hdec]]]].
    destruct Hin as [E|Hin]; [discriminate|].
    rewrite <- (execB_pend_raw D O te raw _ _ _ _ _ _ He1 _ _ eq_refl I Hp1 I nh raw0 t Hin). symmetry. exact Hdec.
Qed.

(* ---------- "still running" is backed by a fresh status check ---------- *)

Lemma pserve_waitzero_alive w dur over w' : pserve w (PWaitpid true) dur over = PRes w' RWaitZero -> pr w' = PAlive.
Proof.
  unfold pserve. destruct (pr (padvance w (pnow w + dur))) eqn:P; intros H; try discriminate.
  injection H as <-. exact P.
Qed.

Lemma pserve_nohang_results w dur over w' r : pserve w (PWaitpid true) dur over = PRes w' r ->
  r = RWaitZero \/ r = RErrno ECHILD \/ exists raw, r = RWaitPid true raw.
Proof.
  unfold pserve. destruct (pr (padvance w (pnow w + dur))) eqn:P; intros H; injection H as _ <-; eauto.
Qed.

(* wait_timeout answers "still running" only after a non-blocking status check, completed no more than one
   call duration before the deadline (or later), has found the child alive *)
Lemma execB_wt_fresh D O : forall x w tr p' v w',
  execB D O x w tr p' v w' ->
  forall s c, x = (s, PCall c) -> expects (ppc_ s) c -> v = VStatus None ->
  match ppc_ s with
  | QWtClock0 d false => exists tc, In (PWaitpid true, RWaitZero, tc) tr /\ (exists t0 tr1, tr = (PClock, RTime t0, t0) :: tr1 /\ t0 + d <= tc + D)
  | QWtWait dl _ false | QWtSleep dl _ false => exists tc, In (PWaitpid true, RWaitZero, tc) tr /\ dl <= tc + D
  | QWtClock dl _ false => dl <= pnow w + D \/ exists tc, In (PWaitpid true, RWaitZero, tc) tr /\ dl <= tc + D
  | _ => True
  end.
Proof.
  induction 1 as [s v w|s c w dur over w' r tr p' v w'' Hd Ho Hs He IH]; intros s0 c0 Hx Hex Hv.
  - discriminate.
  - injection Hx as -> ->. destruct s0 as [p q]. cbn [po ppc_] in *.
    destruct q; try exact I; destruct swallow; try exact I;
      destruct c0 as [nh|sg| |ns]; try contradiction.
    + (* the first clock reading *)
      pose proof (pserve_clock _ _ _ _ _ Hs) as E. subst r. cbn [pstep po ppc_] in He, IH.
      specialize (IH _ _ eq_refl I Hv). cbn [ppc_ mk] in IH. destruct IH as [tc [Hin Hle]].
      exists tc. split; [right; exact Hin|]. exists (pnow w'), tr. split; [reflexivity|exact Hle].
    + (* a status check *)
      destruct nh; [|contradiction]. cbn [pstep po ppc_] in He, IH.
      destruct (pserve_nohang_results _ _ _ _ _ Hs) as [->|[->|[raw ->]]]; cbn [absorb] in He, IH.
      * destruct (cstate p) eqn:Cp.
        -- specialize (IH _ _ eq_refl I Hv). cbn [ppc_ mk] in IH. destruct IH as [Hnear|[tc [Hin Hle]]].
           ++ exists (pnow w'). split; [left; reflexivity|exact Hnear].
           ++ exists tc. split; [right; exact Hin|exact Hle].
        -- inversion He; subst. discriminate.
      * rewrite N.eqb_refl in He. cbn [cstate fin_with] in He. inversion He; subst. discriminate.
      * cbn [cstate fin_with] in He. inversion He; subst. discriminate.
    + (* the clock reading that decides *)
      pose proof (pserve_clock _ _ _ _ _ Hs) as E. subst r.
      pose proof (pserve_time_clock _ _ _ _ _ Hs) as Ht. cbn [pstep po ppc_] in He, IH.
      destruct (dl <=? pnow w') eqn:E.
      * apply N.leb_le in E. left. lia.
      * specialize (IH _ _ eq_refl I Hv). cbn [ppc_ mk] in IH. destruct IH as [tc [Hin Hle]].
        right. exists tc. split; [right; exact Hin|exact Hle].
    + cbn [pstep po ppc_] in He, IH. specialize (IH _ _ eq_refl I Hv). cbn [ppc_ mk] in IH.
      destruct IH as [tc [Hin Hle]]. exists tc. split; [right; exact Hin|exact Hle].
Qed.

Theorem wt_none_is_fresh D O p d w tr p' w' :
  execB D O (start_op p (OpWaitTimeout d)) w tr p' (VStatus None) w' ->
  exists t0 tr1 tc, tr = (PClock, RTime t0, t0) :: tr1 /\ In (PWaitpid true, RWaitZero, tc) tr1 /\ t0 + d <= tc + D.
Proof.
  cbn [start_op]. destruct (cstate p) eqn:Hp; intros R; [|inversion R].
  pose proof (execB_wt_fresh D O _ _ _ _ _ _ R _ _ eq_refl I eq_refl) as H. cbn [ppc_ mk] in H.
  destruct H as [tc [Hin [t0 [tr1 [E Hle]]]]]. exists t0, tr1, tc. split; [exact E|]. split; [|exact Hle].
  rewrite E in Hin. destruct Hin as [X|X]; [discriminate X|exact X].
Qed.
