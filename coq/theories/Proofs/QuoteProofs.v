(* Proofs for C19: the printable command line round-trips through the shell model. *)
From Coq Require Import List NArith Bool Lia.
Require Import SP.Params SP.Base.Str SP.Base.StrFacts SP.Lib.Quote SP.Lib.Sh.
Import ListNotations.
Open Scope N_scope.

(* ---------- finite sweeps over ASCII, lifted to all of N ---------- *)

(* a character that the lexer, outside quotes, simply appends to the current word *)
Definition plain (c : N) : bool :=
  negb (is_blank c) && negb (c =? 124) && negb (c =? 39) && negb (c =? 92) && negb (sh_special c).

Lemma nice_punct_small : forallb (fun p => p <? 128) nice_punct = true.
Proof. vm_compute. reflexivity. Qed.

Lemma nice_lt128 c : nice_char c = true -> c < 128.
Proof.
  unfold nice_char. intros H. apply orb_true_iff in H. destruct H as [H|H].
  - apply existsb_eqb_In in H. pose proof nice_punct_small as Hs.
    rewrite forallb_forall in Hs. apply Hs in H. apply N.ltb_lt in H. exact H.
  - apply andb_true_iff in H. destruct H as [_ H]. unfold is_ascii_alnum in H.
    repeat (apply orb_true_iff in H; destruct H as [H|H]);
      apply andb_true_iff in H; destruct H as [_ H]; apply N.leb_le in H; lia.
Qed.

Lemma nice_plain_sweep : forallb (fun c => implb (nice_char c) (plain c)) (nrange 128) = true.
Proof. vm_compute. reflexivity. Qed.

Lemma nice_plain c : nice_char c = true -> plain c = true.
Proof.
  intros H. pose proof (nice_lt128 c H) as Hlt.
  pose proof nice_plain_sweep as Hs. rewrite forallb_forall in Hs.
  specialize (Hs c (in_nrange c 128 ltac:(lia))). rewrite H in Hs. exact Hs.
Qed.

(* ---------- the lexer on bare and on single-quoted words ---------- *)

Definition acc_of (m : lmode) : str := match m with InW a _ => a | _ => [] end.
Definition q_of (m : lmode) : bool := match m with InW _ q => q | _ => false end.
Definition word_mode (m : lmode) : Prop := match m with InQ _ => False | _ => True end.

Lemma lex_plain c r m ts :
  plain c = true -> word_mode m -> lex (c :: r) m ts = lex r (InW (c :: acc_of m) (q_of m)) ts.
Proof.
  unfold plain. intros H Hm.
  repeat (apply andb_true_iff in H; destruct H as [H ?]).
  repeat match goal with h : negb _ = true |- _ => apply negb_true_iff in h end.
  destruct m as [|a q|a]; [| |contradiction]; cbn [lex acc_of q_of];
    repeat match goal with h : _ = false |- _ => rewrite h end; reflexivity.
Qed.

Lemma lex_bare_InW w : forallb nice_char w = true ->
  forall r a q ts, lex (w ++ r) (InW a q) ts = lex r (InW (rev w ++ a) q) ts.
Proof.
  induction w as [|c w IH]; intros H r a q ts; [reflexivity|].
  cbn [forallb] in H. apply andb_true_iff in H. destruct H as [Hc Hw].
  cbn [app]. rewrite lex_plain by (auto using nice_plain; exact I).
  cbn [acc_of q_of]. rewrite IH by exact Hw. cbn [rev]. rewrite <- app_assoc. reflexivity.
Qed.

Lemma lex_bare_Out c w : forallb nice_char (c :: w) = true ->
  forall r ts, lex ((c :: w) ++ r) Out ts = lex r (InW (rev (c :: w)) false) ts.
Proof.
  intros H r ts. cbn [forallb] in H. apply andb_true_iff in H. destruct H as [Hc Hw].
  cbn [app]. rewrite lex_plain by (auto using nice_plain; exact I).
  cbn [acc_of q_of]. rewrite lex_bare_InW by exact Hw. reflexivity.
Qed.

Definition no_nul (s : str) : Prop := forallb (fun c => negb (c =? 0)) s = true.

Lemma lex_inq s : no_nul s ->
  forall r a ts, lex (replace_squote s ++ 39 :: r) (InQ a) ts = lex r (InW (rev s ++ a) true) ts.
Proof.
  unfold no_nul. induction s as [|c s IH]; intros H r a ts.
  - reflexivity.
  - cbn [forallb] in H. apply andb_true_iff in H. destruct H as [Hc Hs].
    apply negb_true_iff in Hc. cbn [replace_squote]. unfold c_squote, c_bslash.
    destruct (c =? 39) eqn:E.
    + apply N.eqb_eq in E. subst c.
      change (lex (replace_squote s ++ 39 :: r) (InQ (39 :: a)) ts = lex r (InW (rev (39 :: s) ++ a) true) ts).
      rewrite IH by exact Hs. cbn [rev]. rewrite <- app_assoc. reflexivity.
    + cbn [app lex]. rewrite E, Hc. rewrite IH by exact Hs. cbn [rev]. rewrite <- app_assoc. reflexivity.
Qed.

Lemma lex_squote s : no_nul s ->
  forall r m ts, word_mode m -> lex (squote s ++ r) m ts = lex r (InW (rev s ++ acc_of m) true) ts.
Proof.
  intros H r m ts Hm. unfold squote, c_squote. cbn [app]. rewrite <- app_assoc. cbn [app].
  destruct m as [|a q|a]; [| |contradiction].
  - change (lex (replace_squote s ++ 39 :: r) (InQ []) ts = lex r (InW (rev s ++ []) true) ts).
    apply lex_inq; exact H.
  - change (lex (replace_squote s ++ 39 :: r) (InQ a) ts = lex r (InW (rev s ++ a) true) ts).
    apply lex_inq; exact H.
Qed.

(* whether the rendered form of a word involves quoting *)
Definition qflag_arg (w : str) : bool :=
  match w with [] => true | _ => false end || negb (forallb nice_char w).
Definition qflag_cmd (w : str) : bool := existsb (str_eqb w) cmd_reserved || qflag_arg w.

Lemma lex_escape w : no_nul w ->
  forall r ts, lex (display_escape w ++ r) Out ts = lex r (InW (rev w) (qflag_arg w)) ts.
Proof.
  intros H r ts. unfold display_escape, qflag_arg.
  destruct (match w with [] => true | _ => false end || negb (forallb nice_char w)) eqn:E.
  - rewrite lex_squote by (exact H || exact I). cbn [acc_of]. rewrite app_nil_r. reflexivity.
  - apply orb_false_iff in E. destruct E as [E1 E2]. apply negb_false_iff in E2.
    destruct w as [|c w]; [discriminate|]. apply lex_bare_Out. exact E2.
Qed.

Lemma replace_squote_id s : forallb (fun c => negb (c =? 39)) s = true -> replace_squote s = s.
Proof.
  induction s as [|c s IH]; intros H; [reflexivity|].
  cbn [forallb] in H. apply andb_true_iff in H. destruct H as [Hc Hs]. apply negb_true_iff in Hc.
  cbn [replace_squote]. unfold c_squote. rewrite Hc. f_equal. auto.
Qed.

Lemma reserved_no_squote : forallb (forallb (fun c => negb (c =? 39))) cmd_reserved = true.
Proof. vm_compute. reflexivity. Qed.

Lemma lex_escape_cmd w : no_nul w ->
  forall r ts, lex (display_escape_command w ++ r) Out ts = lex r (InW (rev w) (qflag_cmd w)) ts.
Proof.
  intros H r ts. unfold display_escape_command, qflag_cmd.
  destruct (existsb (str_eqb w) cmd_reserved) eqn:E.
  - apply existsb_exists in E. destruct E as [x [Hx He]]. apply str_eqb_eq in He. subst x.
    pose proof reserved_no_squote as Hr. rewrite forallb_forall in Hr. apply Hr in Hx.
    replace (c_squote :: w ++ [c_squote]) with (squote w)
      by (unfold squote; rewrite replace_squote_id by exact Hx; reflexivity).
    rewrite lex_squote by (exact H || exact I). cbn [acc_of orb]. rewrite app_nil_r. reflexivity.
  - cbn [orb]. apply lex_escape. exact H.
Qed.

(* ---------- one command ---------- *)

Definition tok_arg (w : str) : tok := TWord w (qflag_arg w).
Definition tok_cmd (w : str) : tok := TWord w (qflag_cmd w).
Definition toks (argv : list str) : list tok :=
  match argv with [] => [] | c :: args => tok_cmd c :: map tok_arg args end.

Lemma lex_blank_InW r a q ts : lex (32 :: r) (InW a q) ts = lex r Out (TWord (rev a) q :: ts).
Proof. reflexivity. Qed.

(* K describes what the lexer does after the last word, given the tokens so far *)
Lemma lex_args_K args (K : list tok -> option (list tok)) r :
  Forall no_nul args ->
  (forall a q ts, lex r (InW a q) ts = K (TWord (rev a) q :: ts)) ->
  forall a q ts,
    lex (concat (map (cons 32) (map display_escape args)) ++ r) (InW a q) ts
    = K (rev (map tok_arg args) ++ TWord (rev a) q :: ts).
Proof.
  intros Hn HK. induction args as [|w args IH]; intros a q ts.
  - cbn. apply HK.
  - inversion Hn as [|? ? Hw Hargs]; subst.
    cbn [map concat]. rewrite <- ?app_assoc, <- ?app_comm_cons.
    rewrite lex_blank_InW. rewrite <- ?app_assoc.
    rewrite lex_escape by exact Hw.
    rewrite (IH Hargs). rewrite rev_involutive.
    cbn [rev]. rewrite <- app_assoc. reflexivity.
Qed.

Lemma lex_stage_K argv (K : list tok -> option (list tok)) r :
  argv <> [] -> Forall no_nul argv ->
  (forall a q ts, lex r (InW a q) ts = K (TWord (rev a) q :: ts)) ->
  forall ts, lex (render argv ++ r) Out ts = K (rev (toks argv) ++ ts).
Proof.
  intros Hne Hn HK ts. destruct argv as [|c args]; [congruence|].
  inversion Hn as [|? ? Hc Hargs]; subst.
  unfold render. rewrite join_cons. rewrite <- app_assoc.
  rewrite lex_escape_cmd by exact Hc.
  change (app [c_space]) with (cons 32).
  rewrite (lex_args_K args K r Hargs HK). rewrite rev_involutive.
  cbn [toks rev]. rewrite <- app_assoc. reflexivity.
Qed.

Lemma lex_end a q ts : lex [] (InW a q) ts = Some (rev (TWord (rev a) q :: ts)).
Proof. reflexivity. Qed.

(* ---------- pipelines ---------- *)

Fixpoint toks_pipeline (cs : list (list str)) : list tok :=
  match cs with
  | [] => []
  | [c] => toks c
  | c :: r => toks c ++ TBar :: toks_pipeline r
  end.

Definition good_cmd (c : list str) : Prop := c <> [] /\ Forall no_nul c.

Lemma lex_pipeline cs : cs <> [] -> Forall good_cmd cs ->
  forall ts, lex (render_pipeline cs) Out ts = Some (rev ts ++ toks_pipeline cs).
Proof.
  unfold render_pipeline. intros Hne Hg.
  induction cs as [|c cs IH]; [congruence|]. intros ts.
  inversion Hg as [|? ? [Hc1 Hc2] Hcs]; subst.
  destruct cs as [|c' cs].
  - cbn [map join toks_pipeline].
    rewrite <- (app_nil_r (render c)).
    rewrite (lex_stage_K c (fun t => Some (rev t)) [] Hc1 Hc2 lex_end).
    rewrite rev_app_distr, rev_involutive. reflexivity.
  - change (join [c_space; c_bar; c_space] (map render (c :: c' :: cs)))
      with (render c ++ [c_space; c_bar; c_space] ++ join [c_space; c_bar; c_space] (map render (c' :: cs))).
    set (J := join [c_space; c_bar; c_space] (map render (c' :: cs))) in *.
    rewrite (lex_stage_K c (fun t => lex J Out (TBar :: t)) _ Hc1 Hc2).
    + rewrite (IH ltac:(congruence) Hcs). cbn [rev]. rewrite rev_app_distr, rev_involutive.
      change (toks_pipeline (c :: c' :: cs)) with (toks c ++ TBar :: toks_pipeline (c' :: cs)).
      rewrite <- !app_assoc. reflexivity.
    + intros a q t. reflexivity.
Qed.

Definition wq_of (t : tok) : (str * bool) := match t with TWord w q => (w, q) | TBar => ([], false) end.
Definition wqs (c : list str) : list (str * bool) := map wq_of (toks c).

Lemma split_words ws : forall rest cur,
  split_cmds (map (fun p => TWord (fst p) (snd p)) ws ++ rest) cur = split_cmds rest (rev ws ++ cur).
Proof.
  induction ws as [|[w q] ws IH]; intros rest cur; [reflexivity|].
  cbn [map app split_cmds fst snd]. rewrite IH. cbn [rev]. rewrite <- app_assoc. reflexivity.
Qed.

Lemma toks_as_words c : toks c = map (fun p => TWord (fst p) (snd p)) (wqs c).
Proof.
  unfold wqs. rewrite map_map. destruct c as [|x args]; [reflexivity|].
  cbn [toks map wq_of tok_cmd fst snd]. f_equal.
  rewrite map_map. apply map_ext. intros a. reflexivity.
Qed.

Lemma wqs_nonempty c : c <> [] -> wqs c <> [].
Proof. destruct c; [congruence|]. intros _. discriminate. Qed.

Lemma split_pipeline cs : cs <> [] -> Forall good_cmd cs ->
  split_cmds (toks_pipeline cs) [] = Some (map wqs cs).
Proof.
  intros Hne Hg. induction cs as [|c cs IH]; [congruence|].
  inversion Hg as [|? ? [Hc1 Hc2] Hcs]; subst.
  destruct cs as [|c' cs].
  - cbn [toks_pipeline map]. rewrite <- (app_nil_r (toks c)). rewrite toks_as_words, split_words.
    rewrite app_nil_r. cbn [split_cmds].
    destruct (rev (wqs c)) eqn:E.
    + apply (f_equal (@rev _)) in E. rewrite rev_involutive in E. cbn in E.
      exfalso. exact (wqs_nonempty c Hc1 E).
    + rewrite <- E, rev_involutive. reflexivity.
  - change (toks_pipeline (c :: c' :: cs)) with (toks c ++ TBar :: toks_pipeline (c' :: cs)).
    rewrite toks_as_words, split_words. rewrite app_nil_r. cbn [split_cmds].
    destruct (rev (wqs c)) eqn:E.
    + apply (f_equal (@rev _)) in E. rewrite rev_involutive in E. cbn in E.
      exfalso. exact (wqs_nonempty c Hc1 E).
    + rewrite (IH ltac:(congruence) Hcs). rewrite <- E, rev_involutive. reflexivity.
Qed.

Lemma map_fst_wqs c : map fst (wqs c) = c.
Proof.
  unfold wqs. destruct c as [|x args]; [reflexivity|].
  cbn [toks map wq_of tok_cmd fst]. f_equal. rewrite !map_map. cbn. apply map_id.
Qed.

Lemma map_map_fst_wqs cs : map (map fst) (map wqs cs) = cs.
Proof. rewrite map_map. rewrite <- (map_id cs) at 2. apply map_ext. exact map_fst_wqs. Qed.

Theorem render_pipeline_words cs : cs <> [] -> Forall good_cmd cs ->
  sh_words (render_pipeline cs) = Some cs.
Proof.
  intros Hne Hg. unfold sh_words. rewrite (lex_pipeline cs Hne Hg). cbn [rev app].
  rewrite (split_pipeline cs Hne Hg). rewrite map_map_fst_wqs. reflexivity.
Qed.

(* the shell's reserved words are either in the code's RESERVED list or contain a
   character that forces quoting *)
Lemma reserved_covered :
  forallb (fun w => existsb (str_eqb w) cmd_reserved || negb (forallb nice_char w)) reserved_words = true.
Proof. vm_compute. reflexivity. Qed.

Lemma cmd_ok_wqs c : c <> [] -> cmd_ok (wqs c) = true.
Proof.
  destruct c as [|x args]; [congruence|]. intros _.
  unfold wqs. cbn [toks map wq_of tok_cmd cmd_ok].
  destruct (qflag_cmd x) eqn:Q; [reflexivity|]. cbn [orb].
  apply negb_true_iff. destruct (is_reserved x) eqn:R; [|reflexivity]. exfalso.
  unfold is_reserved in R. apply existsb_exists in R. destruct R as [w [Hw He]].
  apply str_eqb_eq in He. subst w.
  pose proof reserved_covered as Hc. rewrite forallb_forall in Hc. specialize (Hc x Hw).
  unfold qflag_cmd, qflag_arg in Q.
  apply orb_false_iff in Q. destruct Q as [Q1 Q2]. apply orb_false_iff in Q2. destruct Q2 as [_ Q3].
  rewrite Q1, Q3 in Hc. discriminate.
Qed.

Theorem render_pipeline_eval cs : cs <> [] -> Forall good_cmd cs ->
  sh_eval (render_pipeline cs) = Some cs.
Proof.
  intros Hne Hg. unfold sh_eval. rewrite (lex_pipeline cs Hne Hg). cbn [rev app].
  rewrite (split_pipeline cs Hne Hg).
  assert (forallb cmd_ok (map wqs cs) = true) as ->.
  { apply forallb_forall. intros x Hx. apply in_map_iff in Hx. destruct Hx as [c [<- Hc]].
    rewrite Forall_forall in Hg. apply cmd_ok_wqs. apply (Hg c Hc). }
  rewrite map_map_fst_wqs. reflexivity.
Qed.

Theorem render_eval argv : argv <> [] -> Forall no_nul argv -> sh_eval (render argv) = Some [argv].
Proof.
  intros Hne Hn. apply (render_pipeline_eval [argv]); [discriminate|].
  constructor; [split; assumption|constructor].
Qed.

(* no character of the rendered line is NUL, and the Debug forms just wrap it *)
Theorem debug_exec_shape argv : debug_exec argv = s_Exec_open ++ render argv ++ s_close.
Proof. reflexivity. Qed.
