(* C18 for every signal mask and SIGPIPE disposition of the parent (Lib/SigState.v on top of Lib/Spawn.v's effects). *)
From Coq Require Import List NArith Bool Arith.
Require Import SP.Lib.Spawn SP.Lib.SigState SP.Proofs.SpawnProofs.
Import ListNotations.


Lemma effect_keeps_mask0 s e : s_mask s = 0%N -> s_mask (apply_effect s e) = 0%N.
Proof. intros H. unfold apply_effect. destruct (Nat.eqb e 100); [reflexivity|]. destruct (Nat.eqb e 101); exact H. Qed.

Lemma effect_keeps_default s e : s_pipe s = DDefault -> s_pipe (apply_effect s e) = DDefault.
Proof. intros H. unfold apply_effect. destruct (Nat.eqb e 100); [exact H|]. destruct (Nat.eqb e 101); [reflexivity|exact H]. Qed.

Lemma fold_keeps_mask0 : forall eff s, s_mask s = 0%N -> s_mask (fold_left apply_effect eff s) = 0%N.
Proof. induction eff as [|e r IH]; intros s H; [exact H|]. cbn [fold_left]. apply IH. apply effect_keeps_mask0. exact H. Qed.

Lemma fold_keeps_default : forall eff s, s_pipe s = DDefault -> s_pipe (fold_left apply_effect eff s) = DDefault.
Proof. induction eff as [|e r IH]; intros s H; [exact H|]. cbn [fold_left]. apply IH. apply effect_keeps_default. exact H. Qed.

Lemma fold_effects_mask : forall eff s, existsb (Nat.eqb 100) eff = true -> s_mask (fold_left apply_effect eff s) = 0%N.
Proof.
  induction eff as [|e r IH]; intros s H; [discriminate|]. cbn [existsb] in H. cbn [fold_left].
  destruct (Nat.eqb 100 e) eqn:E.
  - apply Nat.eqb_eq in E. subst e. apply fold_keeps_mask0. reflexivity.
  - apply IH. exact H.
Qed.

Lemma fold_effects_pipe : forall eff s, existsb (Nat.eqb 101) eff = true -> s_pipe (fold_left apply_effect eff s) = DDefault.
Proof.
  induction eff as [|e r IH]; intros s H; [discriminate|]. cbn [existsb] in H. cbn [fold_left].
  destruct (Nat.eqb 101 e) eqn:E.
  - apply Nat.eqb_eq in E. subst e. apply fold_keeps_default. reflexivity.
  - apply IH. exact H.
Qed.

(* what signal_state_clean says about a started child / about the other outcomes *)
Lemma clean_started c t eff :
  signal_state_clean c = true -> o_child_out (run None exec_yes c) = Started t eff ->
  existsb (Nat.eqb 100) eff = true /\ existsb (Nat.eqb 101) eff = true.
Proof.
  unfold signal_state_clean. intros S E. rewrite E in S.
  do 11 (apply andb_true_iff in S; destruct S as [S _]). apply andb_true_iff in S. exact S.
Qed.

Lemma clean_not_started c :
  signal_state_clean c = true ->
  (forall t eff, o_child_out (run None exec_yes c) <> Started t eff) -> invalid c = true.
Proof.
  unfold signal_state_clean. intros S N. destruct (o_child_out (run None exec_yes c)) as [t eff|e|] eqn:E; [|exact S|exact S].
  exfalso. exact (N t eff eq_refl).
Qed.

(* whatever the spawning thread blocks and however the parent treats SIGPIPE, the image of every started child
   begins with an empty mask and the default action for SIGPIPE *)
Theorem image_starts_clean c parent :
  In c (configs_full ++ configs_opts) ->
  (forall t eff, o_child_out (run None exec_yes c) = Started t eff -> image_state parent eff = clean)
  /\ ((forall t eff, o_child_out (run None exec_yes c) <> Started t eff) -> invalid c = true).
Proof.
  intros H. pose proof (child_signal_state c H) as S. split.
  - intros t eff E. destruct (clean_started c t eff S E) as [A B].
    unfold image_state, at_exec, clean.
    rewrite (fold_effects_mask eff parent A), (fold_effects_pipe eff parent B). reflexivity.
  - apply clean_not_started. exact S.
Qed.

(* the resets are what does it: without them the image inherits the mask and an ignored SIGPIPE *)
Lemma no_reset_inherits parent : image_state parent [50; 2; 1; 3] = at_exec parent.
Proof. reflexivity. Qed.
