(* C05 / C07 / C08 / C18 (and the identity order of C06) for a single launch: exhaustive evaluation of the
   model Lib/Spawn.v over the finite configuration space, inside Coq's kernel (vm_compute), lifted to
   universally quantified statements with forallb_forall.  The bounds are the lists below; what is NOT
   bounded is everything the tagged-atom abstraction quantifies over: the actual descriptor numbers, the
   contents of argv / env / cwd, the parent's other descriptors. *)
From Coq Require Import List NArith Bool Arith.
Require Import SP.Lib.Spawn.
Import ListNotations.

Definition redirs_in : list redir := [RNone; RPipe; RMerge; RFile 0; RRc 0; RRc 1].
Definition redirs_out : list redir := [RNone; RPipe; RMerge; RFile 1; RRc 0; RRc 1].
Definition redirs_err : list redir := [RNone; RPipe; RMerge; RFile 2; RRc 0; RRc 1; RRc 2].
Definition bools := [false; true].

Definition mk (i o e : redir) (cwd su sg sp det prep : bool) (n : nat) : config :=
  {| c_stdin := i; c_stdout := o; c_stderr := e; c_cwd := cwd; c_setuid := su; c_setgid := sg; c_setpgid := sp;
     c_prep_fails := prep; c_ncand := n; c_detached := det; c_inflight := false |}.

(* all 252 redirection combinations, every option on, detached or not *)
Definition configs_full : list config :=
  flat_map (fun i => flat_map (fun o => flat_map (fun e => map (fun det => mk i o e true true true true det false 1) bools)
                                                 redirs_err) redirs_out) redirs_in.
(* all option subsets on representative redirections *)
Definition configs_opts : list config :=
  flat_map (fun cwd => flat_map (fun su => flat_map (fun sg => flat_map (fun sp =>
     [mk RPipe RPipe RPipe cwd su sg sp false false 1; mk RNone (RFile 1) RMerge cwd su sg sp true false 1])
     bools) bools) bools) bools.

Definition kinds := [KPipe; KFcntl; KFork; KDup2; KChdir; KSigmask; KSignal; KSetuid; KSetgid; KSetpgid; KExec].
Definition errnos := [1; 2; 9; 11; 12; 13; 20; 22; 24].
(* every reachable injection point (see injection_points_complete below: no launch makes more calls of
   a kind than listed here): the k-th pipe (k <= 4), the k-th fcntl (k <= 10), fork, in the parent; the
   k-th dup2 (k <= 3) and each of chdir / sigmask / signal / setuid / setgid / setpgid / exec in the child *)
Definition faults_e (e : nat) : list (option fault) :=
  let mkf k n ch := Some {| f_kind := k; f_nth := n; f_errno := e; f_child := ch |} in
  None :: map (fun n => mkf KPipe n false) (seq 1 4) ++ map (fun n => mkf KFcntl n false) (seq 1 10) ++ [mkf KFork 1 false]
       ++ map (fun n => mkf KDup2 n true) (seq 1 3)
       ++ map (fun k => mkf k 1 true) [KChdir; KSigmask; KSignal; KSetuid; KSetgid; KSetpgid; KExec].

Definition count_kind (k : fkind) (t : list (scall * sres)) : nat :=
  length (filter (fun p => match kind_of (fst p) with Some k' => fkind_eqb k k' | None => false end) t).
Definition within_bounds (c : config) : bool :=
  let o := run None (fun _ => None) c in
  let pt := trace (o_parent o) in
  let ct := match o_child o with Some k => trace k | None => [] end in
  Nat.leb (count_kind KPipe pt) 4 && Nat.leb (count_kind KFcntl pt) 10 && Nat.leb (count_kind KFork pt) 1
  && Nat.leb (count_kind KDup2 ct) 3
  && forallb (fun k => Nat.leb (count_kind k ct) 1) [KChdir; KSigmask; KSignal; KSetuid; KSetgid; KSetpgid; KExec]
  && forallb (fun k => Nat.eqb (count_kind k ct) 0) [KPipe; KFcntl; KFork]
  && forallb (fun k => Nat.eqb (count_kind k pt) 0) [KDup2; KChdir; KSigmask; KSignal; KSetuid; KSetgid; KSetpgid; KExec].

Definition exec_yes : nat -> option nat := fun _ => None.
Definition exec_no (e : nat) : nat -> option nat := fun _ => Some e.

Definition invalid (c : config) : bool :=
  match c_stdin c, c_stdout c, c_stderr c with
  | RMerge, _, _ => true
  | _, RMerge, RMerge => true
  | _, _, _ => false
  end.

Definition has_fresh (t : table) : bool := existsb (fun p => match fst p with FNew _ => true | _ => false end) t.
Definition forked (s : kst) : bool := existsb (fun p => match fst p with SFork => true | _ => false end) (trace s).
Definition closes_std (s : kst) : bool := existsb (fun p => match fst p with SClose (FStd _) => true | _ => false end) (trace s).
Definition is_started (o : child_outcome) : bool := match o with Started _ _ => true | _ => false end.

Definition ent_eqb (a b : option fdent) : bool :=
  match a, b with
  | Some x, Some y => ofd_eqb (e_ofd x) (e_ofd y) && Bool.eqb (e_cx x) (e_cx y)
  | None, None => true
  | _, _ => false
  end.

(* ---------- C05 ---------- *)

Definition redir_of (c : config) (i : nat) : redir := match i with 0 => c_stdin c | 1 => c_stdout c | _ => c_stderr c end.

(* what the child's descriptor i must refer to *)
Definition wanted (c : config) (o : outcome) (t : table) (i : nat) : option ofd :=
  let direct (r : redir) (i : nat) : option ofd :=
    match r with
    | RNone => Some (OStd i)
    | RFile j => Some (OUser j)
    | RRc id => Some (OUser (100 + id))
    | RPipe => (* the peer of the pipe end exposed on the Popen *)
      match find (fun p => Nat.eqb (fst p) i) (o_popen o) with
      | Some (_, pe) => match lookup (tab (o_parent o)) pe with
                        | Some {| e_ofd := OPipeW q |} => Some (OPipeR q)
                        | Some {| e_ofd := OPipeR q |} => Some (OPipeW q)
                        | _ => None
                        end
      | None => None
      end
    | RMerge => None
    end in
  match redir_of c i with
  | RMerge => direct (redir_of c (if Nat.eqb i 1 then 2 else 1)) (if Nat.eqb i 1 then 2 else 1)
  | r => direct r i
  end.

Definition wiring_ok (c : config) : bool :=
  let o := run None exec_yes c in
  if invalid c then
    match o_result o with LLogic _ => true | _ => false end && negb (forked (o_parent o)) && negb (has_fresh (tab (o_parent o)))
  else
    match o_result o, o_child_out o with
    | LOk, Started t _ =>
      forallb (fun i => match lookup t (FStd i), wanted c o t i with
                        | Some e, Some w => ofd_eqb (e_ofd e) w
                        | _, _ => false
                        end) [0; 1; 2]
      && forallb (fun i => Bool.eqb (existsb (fun p => Nat.eqb (fst p) i) (o_popen o))
                                    (match redir_of c i with RPipe => true | _ => false end)) [0; 1; 2]
    | _, _ => false
    end.

Definition std_untouched (flt : option fault) (c : config) : bool :=
  let o := run flt exec_yes c in
  forallb (fun i => ent_eqb (lookup (tab (o_parent o)) (FStd i)) (Some {| e_ofd := OStd i; e_cx := false |})) [0; 1; 2]
  && negb (closes_std (o_parent o))
  && forallb (fun i => match rc_find (o_parent o) (20 + i) with Some (_, n) => Nat.leb 2 n | None => true end) [0; 1; 2].

Lemma wiring_sweep : forallb wiring_ok (configs_full ++ configs_opts) = true.
Proof. vm_compute. reflexivity. Qed.

Lemma std_untouched_sweep : forallb (fun c => forallb (fun f => std_untouched f c) (faults_e 13)) (configs_full ++ configs_opts) = true.
Proof. vm_compute. reflexivity. Qed.

Theorem wiring_exact c : In c (configs_full ++ configs_opts) -> wiring_ok c = true.
Proof. intros H. pose proof wiring_sweep as S. rewrite forallb_forall in S. exact (S c H). Qed.

Theorem parent_std_untouched c f : In c (configs_full ++ configs_opts) -> In f (faults_e 13) -> std_untouched f c = true.
Proof.
  intros Hc Hf. pose proof std_untouched_sweep as S. rewrite forallb_forall in S. specialize (S c Hc).
  rewrite forallb_forall in S. exact (S f Hf).
Qed.

(* ---------- C07 ---------- *)

Definition launch_ok (flt : option fault) (ex : nat -> option nat) (c : config) : bool :=
  let o := run flt ex c in
  (* a handle exists iff the image was started *)
  Bool.eqb (match o_result o with LOk => true | _ => false end) (is_started (o_child_out o))
  (* Ok is returned only after end-of-file was read from the status pipe *)
  && (match o_result o with
      | LOk => existsb (fun p => match p with (SReadStatus _, REof) => true | _ => false end) (trace (o_parent o))
      | _ => true
      end)
  (* after a failure: no descriptor of the attempt remains, and a child that was forked has been reaped *)
  && (match o_result o with
      | LOk => true
      | _ => negb (has_fresh (tab (o_parent o)))
             && (match o_child o with Some _ => o_waited o | None => true end)
      end)
  (* every descriptor the library still holds in the parent is close-on-exec *)
  && forallb (fun p => match fst p with FNew _ => e_cx (snd p) | _ => true end) (tab (o_parent o)).

(* the error is the error of the step that failed *)
Definition error_ok (flt : option fault) (ex : nat -> option nat) (c : config) : bool :=
  let o := run flt ex c in
  match o_result o with
  | LErr e =>
    (match flt with Some f => Nat.eqb e (f_errno f) | None => false end)
    || (match ex 0 with Some e' => Nat.eqb e e' | None => false end)
    || (c_prep_fails c && Nat.eqb e 22)
  | _ => true
  end.

Lemma launch_sweep :
  forallb (fun c => forallb (fun e => forallb (fun f => launch_ok f exec_yes c && launch_ok f (exec_no 2) c
                                                         && error_ok f exec_yes c && error_ok f (exec_no 2) c)
                                              (faults_e e)) [13])
          (filter (fun c => negb (invalid c)) (configs_full ++ configs_opts)) = true.
Proof. vm_compute. reflexivity. Qed.

Theorem launch_all_or_nothing c e f :
  In c (filter (fun c => negb (invalid c)) (configs_full ++ configs_opts)) -> In e [13] -> In f (faults_e e) ->
  launch_ok f exec_yes c = true /\ launch_ok f (exec_no 2) c = true /\ error_ok f exec_yes c = true /\ error_ok f (exec_no 2) c = true.
Proof.
  intros Hc He Hf. pose proof launch_sweep as S. rewrite forallb_forall in S. specialize (S c Hc).
  rewrite forallb_forall in S. specialize (S e He). rewrite forallb_forall in S. specialize (S f Hf).
  apply andb_true_iff in S. destruct S as [S H4]. apply andb_true_iff in S. destruct S as [S H3].
  apply andb_true_iff in S. destruct S as [H1 H2]. auto.
Qed.

Lemma bounds_sweep : forallb within_bounds (configs_full ++ configs_opts) = true.
Proof. vm_compute. reflexivity. Qed.

(* the list of injection points is complete: no launch makes more calls of a kind than the list covers *)
Theorem injection_points_complete c : In c (configs_full ++ configs_opts) -> within_bounds c = true.
Proof. intros H. pose proof bounds_sweep as S. rewrite forallb_forall in S. exact (S c H). Qed.

(* NUL in argv / env: refused before any process exists *)
Definition prep_refused (c : config) : bool :=
  let o := run None exec_yes {| c_stdin := c_stdin c; c_stdout := c_stdout c; c_stderr := c_stderr c; c_cwd := c_cwd c;
                                c_setuid := c_setuid c; c_setgid := c_setgid c; c_setpgid := c_setpgid c; c_prep_fails := true;
                                c_ncand := c_ncand c; c_detached := c_detached c; c_inflight := c_inflight c |} in
  match o_result o with LErr 22 => true | _ => false end && negb (forked (o_parent o)) && negb (has_fresh (tab (o_parent o))).

Lemma prep_sweep : forallb prep_refused (filter (fun c => negb (invalid c)) (configs_full ++ configs_opts)) = true.
Proof. vm_compute. reflexivity. Qed.

Theorem nul_refused_before_fork c :
  In c (filter (fun c => negb (invalid c)) (configs_full ++ configs_opts)) -> prep_refused c = true.
Proof. intros H. pose proof prep_sweep as S. rewrite forallb_forall in S. exact (S c H). Qed.

(* ---------- C08 ---------- *)

(* at exec the child holds 0, 1, 2 and the one descriptor the application itself made inheritable -- no
   parent-side pipe end, no end of the status pipe, no end of another child's pipe *)
Definition child_clean (flt : option fault) (c : config) : bool :=
  match o_child_out (run flt exec_yes c) with
  | Started t _ =>
    forallb (fun p => match fst p with
                      | FStd i => Nat.ltb i 3
                      | FUser 302 => true
                      | _ => false
                      end) t
    && negb (existsb (fun p => match e_ofd (snd p) with OPipeR 0 | OPipeW 0 | OPipeW 77 | OPipeR 78 => true | _ => false end) t)
  | _ => true
  end.

Lemma child_clean_sweep : forallb (fun c => forallb (fun f => child_clean f c) (faults_e 13)) (configs_full ++ configs_opts) = true.
Proof. vm_compute. reflexivity. Qed.

Theorem child_table_clean c f : In c (configs_full ++ configs_opts) -> In f (faults_e 13) -> child_clean f c = true.
Proof.
  intros Hc Hf. pose proof child_clean_sweep as S. rewrite forallb_forall in S. specialize (S c Hc).
  rewrite forallb_forall in S. exact (S f Hf).
Qed.

(* F9 (known finding): a launch running on another thread has inheritable child ends; a child forked meanwhile
   holds them.  Every configuration of the sweep above has c_inflight = false (the theorem is about launches
   that do not overlap another thread's); with c_inflight = true the same predicate fails. *)
Definition with_inflight (c : config) : config :=
  {| c_stdin := c_stdin c; c_stdout := c_stdout c; c_stderr := c_stderr c; c_cwd := c_cwd c; c_setuid := c_setuid c;
     c_setgid := c_setgid c; c_setpgid := c_setpgid c; c_prep_fails := c_prep_fails c; c_ncand := c_ncand c;
     c_detached := c_detached c; c_inflight := true |}.

Lemma sweep_has_no_inflight : forallb (fun c => negb (c_inflight c)) (configs_full ++ configs_opts) = true.
Proof. vm_compute. reflexivity. Qed.

Theorem no_overlap_in_sweep c : In c (configs_full ++ configs_opts) -> c_inflight c = false.
Proof.
  intros H. pose proof sweep_has_no_inflight as S. rewrite forallb_forall in S. specialize (S c H).
  destruct (c_inflight c); [discriminate|reflexivity].
Qed.

Theorem inflight_ends_leak : forallb (fun c => invalid c || c_prep_fails c || negb (child_clean None (with_inflight c))) (configs_full ++ configs_opts) = true.
Proof. vm_compute. reflexivity. Qed.

(* the child's stdin pipe has exactly one writer left (the parent's end) and each output pipe exactly one
   reader: closing the parent's end gives end-of-file at once *)
Definition count_ofd (t : table) (o : ofd) : nat := length (filter (fun p => ofd_eqb (e_ofd (snd p)) o) t).
Definition eof_propagates (c : config) : bool :=
  let o := run None exec_yes c in
  match o_result o, o_child_out o with
  | LOk, Started t _ =>
    forallb (fun p => match lookup (tab (o_parent o)) (snd p) with
                      | Some {| e_ofd := OPipeW q |} => Nat.eqb (count_ofd (tab (o_parent o)) (OPipeW q)) 1 && Nat.eqb (count_ofd t (OPipeW q)) 0
                                                        && Nat.eqb (count_ofd (tab (o_parent o)) (OPipeR q)) 0
                      | Some {| e_ofd := OPipeR q |} => Nat.eqb (count_ofd (tab (o_parent o)) (OPipeR q)) 1 && Nat.eqb (count_ofd t (OPipeR q)) 0
                                                        && Nat.eqb (count_ofd (tab (o_parent o)) (OPipeW q)) 0
                      | _ => false
                      end) (o_popen o)
  | _, _ => true
  end.

Lemma eof_sweep : forallb eof_propagates (configs_full ++ configs_opts) = true.
Proof. vm_compute. reflexivity. Qed.

Theorem eof_propagates_all c : In c (configs_full ++ configs_opts) -> eof_propagates c = true.
Proof. intros H. pose proof eof_sweep as S. rewrite forallb_forall in S. exact (S c H). Qed.

(* ---------- C18 and the order of the identity calls (C06) ---------- *)

Fixpoint index_of (x : nat) (l : list nat) : option nat :=
  match l with
  | [] => None
  | y :: r => if Nat.eqb x y then Some 0 else option_map S (index_of x r)
  end.

Definition before (a b : nat) (l : list nat) : bool :=
  match index_of a l, index_of b l with
  | Some i, Some j => Nat.ltb i j
  | Some _, None => true
  | _, _ => false
  end.

Definition signal_state_clean (c : config) : bool :=
  match o_child_out (run None exec_yes c) with
  | Started _ eff =>
    existsb (Nat.eqb 100) eff && existsb (Nat.eqb 101) eff
    && before 100 1 eff && before 100 2 eff && before 100 3 eff
    && before 101 1 eff && before 101 2 eff && before 101 3 eff
    && (negb (c_setuid c && c_setgid c) || before 2 1 eff)     (* the group is changed while still privileged *)
    && Bool.eqb (existsb (Nat.eqb 1) eff) (c_setuid c) && Bool.eqb (existsb (Nat.eqb 2) eff) (c_setgid c)
    && Bool.eqb (existsb (Nat.eqb 3) eff) (c_setpgid c) && Bool.eqb (existsb (Nat.eqb 50) eff) (c_cwd c)
  | _ => invalid c
  end.

Lemma signal_sweep : forallb signal_state_clean (configs_full ++ configs_opts) = true.
Proof. vm_compute. reflexivity. Qed.

Theorem child_signal_state c : In c (configs_full ++ configs_opts) -> signal_state_clean c = true.
Proof. intros H. pose proof signal_sweep as S. rewrite forallb_forall in S. exact (S c H). Qed.

Lemma sizes : length configs_full = 504 /\ length configs_opts = 32 /\ length (faults_e 13) = 26.
Proof. vm_compute. auto. Qed.

(* C06: the working directory is entered with the parent's identity -- chdir comes before setgid / setuid (a
   directory only the parent's user may enter is a valid cwd for a child that then drops its identity), and
   both ids are applied when both are requested *)
Definition identity_after_cwd (c : config) : bool :=
  match o_child_out (run None exec_yes c) with
  | Started _ eff =>
    (negb (c_cwd c && c_setuid c) || before 50 1 eff) && (negb (c_cwd c && c_setgid c) || before 50 2 eff)
    && (negb (c_cwd c && c_setpgid c) || before 50 3 eff)
    && Bool.eqb (existsb (Nat.eqb 1) eff) (c_setuid c) && Bool.eqb (existsb (Nat.eqb 2) eff) (c_setgid c)
  | _ => invalid c
  end.

Lemma identity_sweep : forallb identity_after_cwd (configs_full ++ configs_opts) = true.
Proof. vm_compute. reflexivity. Qed.

Theorem cwd_entered_with_parent_identity c : In c (configs_full ++ configs_opts) -> identity_after_cwd c = true.
Proof. intros H. pose proof identity_sweep as S. rewrite forallb_forall in S. exact (S c H). Qed.
