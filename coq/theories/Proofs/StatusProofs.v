(* Proofs about the wait-status decoder and the errno codec (C09, C07). *)
From Coq Require Import List NArith ZArith Bool Lia.
Require Import SP.Base.StrFacts SP.Lib.Status.
Import ListNotations.

Open Scope N_scope.

Lemma decode_exit_sweep : forallb (fun c => match decode_exit_status (c * 256) with Exited c' => c' =? c | _ => false end) (nrange 256) = true.
Proof. vm_compute. reflexivity. Qed.

Theorem decode_exit_codes c : c < 256 -> decode_exit_status (c * 256) = Exited c.
Proof.
  intros H. pose proof decode_exit_sweep as S. rewrite forallb_forall in S.
  specialize (S c (in_nrange c 256 ltac:(lia))).
  destruct (decode_exit_status (c * 256)); try discriminate. apply N.eqb_eq in S. subst. reflexivity.
Qed.

Lemma decode_sig_sweep :
  forallb (fun s => (s =? 0) || ((match decode_exit_status s with Signaled s' => s' =? s | _ => false end)
                                 && (match decode_exit_status (s + 128) with Signaled s' => s' =? s | _ => false end)))
          (nrange 127) = true.
Proof. vm_compute. reflexivity. Qed.

Theorem decode_signals s (core : bool) : 1 <= s -> s < 127 ->
  decode_exit_status (s + if core then 128 else 0) = Signaled s.
Proof.
  intros H1 H2. pose proof decode_sig_sweep as S. rewrite forallb_forall in S.
  specialize (S s (in_nrange s 127 ltac:(lia))).
  apply orb_true_iff in S. destruct S as [S|S]; [apply N.eqb_eq in S; lia|].
  apply andb_true_iff in S. destruct S as [Sa Sb]. destruct core.
  - destruct (decode_exit_status (s + 128)); try discriminate. apply N.eqb_eq in Sb. subst. reflexivity.
  - rewrite N.add_0_r. destruct (decode_exit_status s); try discriminate. apply N.eqb_eq in Sa. subst. reflexivity.
Qed.

(* a decoded status is never a status for a running child: the decoder is total and the three cases
   are disjoint by construction; Exited/Signaled never collide *)
Theorem decode_exit_not_signal c s (core : bool) : c < 256 -> 1 <= s -> s < 127 ->
  decode_exit_status (c * 256) <> decode_exit_status (s + if core then 128 else 0).
Proof. intros. rewrite decode_exit_codes, decode_signals by assumption. discriminate. Qed.

Close Scope N_scope.
Open Scope Z_scope.

Ltac Zify.zify_post_hook ::= Z.div_mod_to_equations.

Theorem errno_roundtrip e : -2147483648 <= e < 2147483648 -> decode4 (encode4 e) = Some e.
Proof.
  intros H. unfold encode4, decode4, to_u32, to_i32. f_equal.
  destruct (Z.ltb_spec ((e mod 4294967296) mod 256 + (e mod 4294967296 / 256) mod 256 * 256 +
       (e mod 4294967296 / 65536) mod 256 * 65536 + (e mod 4294967296 / 16777216) mod 256 * 16777216) 2147483648); lia.
Qed.

Theorem errno_bytes_are_bytes e : Forall (fun b => 0 <= b < 256) (encode4 e).
Proof. unfold encode4. repeat constructor; lia. Qed.
