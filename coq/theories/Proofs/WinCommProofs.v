(* The thread-based (cfg(windows)) communicator: nothing lost, duplicated, reordered or moved between streams
   (C02), the size limit (C03), no timeout without a deadline (C04), for every interleaving of the helper
   threads, the child and the receiving thread. *)
From Coq Require Import List NArith Bool Arith Lia.
Require Import SP.Params SP.Lib.Comm SP.Kernel.CommK SP.Kernel.CommSys SP.Lib.WinComm
               SP.Proofs.CommBase SP.Proofs.CommReady SP.Proofs.CommInv.
Import ListNotations.
Local Open Scope nat_scope.

Definition held (h : option rdr) : list N := match h with Some (RHold (PData b)) => b | _ => [] end.
Definition is_out (st : stream) : bool := match st with SErr => false | _ => true end.
Definition left_out (s : wsys) : list N := match leftover s with Some (st, d) => if is_out st then d else [] | None => [] end.
Definition left_err (s : wsys) : list N := match leftover s with Some (st, d) => if is_out st then [] else d | None => [] end.
Definition cur_out (s : wsys) : list N := match call s with Some c => WinComm.m_out c | None => [] end.
Definition cur_err (s : wsys) : list N := match call s with Some c => WinComm.m_err c | None => [] end.

(* everything the parent side has taken out of a pipe, in order *)
Definition seen_out (s : wsys) : list N := g_out s ++ cur_out s ++ left_out s ++ held (h_out s).
Definition seen_err (s : wsys) : list N := g_err s ++ cur_err s ++ left_err s ++ held (h_err s).

(* the ghost relation of K, borrowed from the poll-based development through a stand-in state *)
Definition standin (w : world) (X Y Z input : list N) : gstate :=
  {| gl := {| cm := {| c_in := true; c_out := true; c_err := true; c_input := Z |}; oref := true; eref := true;
              outv := []; errv := []; limit := None; deadline := None; timed_out := false; pc := PReturned |};
     ga := Stuck; gw := w; gissued := 0%N; gdout := X; gderr := Y; ginput0 := input |}.

Record WInv (input : list N) (s : wsys) : Prop := {
  w_bytes : exists Z, InvC (standin (kw s) (seen_out s) (seen_err s) Z input)
                      /\ (forall r, h_in s = Some (WRun r) -> Z = r)
                      /\ (h_in s = Some (WHold PEof) -> Z = []);
  w_loop_left : forall c, call s = Some c -> m_phase c = MLoop -> leftover s = None;
  w_limit : forall c lim, call s = Some c -> m_limit c = Some lim -> total c <= lim;
  w_below : forall c lim, call s = Some c -> m_limit c = Some lim -> (m_phase c = MLoop \/ m_phase c = MLeftover) -> total c < lim;
  w_timeout : forall c, call s = Some c -> m_phase c = MDone WTimedOut -> m_deadline c = true;
  w_left_out : forall st d, leftover s = Some (st, d) -> st <> SIn;
  w_nopipe_out : h_out s = None -> piped_out (kw s) = false /\ cur_out s = [] /\ left_out s = [] /\ g_out s = [];
  w_nopipe_err : h_err s = None -> piped_err (kw s) = false /\ cur_err s = [] /\ left_err s = [] /\ g_err s = []
}.

Lemma invc_same_pipes w w' X Y Z input :
  pin w' = pin w -> pout w' = pout w -> perr w' = perr w ->
  piped_in w' = piped_in w -> piped_out w' = piped_out w -> piped_err w' = piped_err w ->
  wrote_out w' = wrote_out w -> wrote_err w' = wrote_err w -> child_got w' = child_got w ->
  InvC (standin w X Y Z input) -> InvC (standin w' X Y Z input).
Proof.
  intros E1 E2 E3 E4 E5 E6 E7 E8 E9 [C1 C2 C3 C4 C5]. cbn [standin gw gl gdout gderr ginput0 outv errv cm c_input] in *.
  constructor; cbn [standin gw gl gdout gderr ginput0 outv errv cm c_input]; rewrite ?E1, ?E2, ?E3, ?E4, ?E5, ?E6, ?E7, ?E8, ?E9; auto.
Qed.

(* the reader takes the first m bytes of its pipe *)
Lemma invc_pop_out w X Y Z input m :
  InvC (standin w X Y Z input) ->
  InvC (standin (upd_pipes w (pin w) (pop (pout w) m) (perr w)) (X ++ firstn m (buf (pout w))) Y Z input).
Proof.
  intros [C1 C2 C3 C4 C5]. cbn [standin gw gl gdout gderr ginput0 outv errv cm c_input] in *.
  constructor; cbn [standin gw gl gdout gderr ginput0 outv errv cm c_input]; wsimpl; auto.
  intros P. specialize (C1 P). cbn [app] in *. rewrite <- app_assoc, firstn_skipn. exact C1.
Qed.

Lemma invc_pop_err w X Y Z input m :
  InvC (standin w X Y Z input) ->
  InvC (standin (upd_pipes w (pin w) (pout w) (pop (perr w) m)) X (Y ++ firstn m (buf (perr w))) Z input).
Proof.
  intros [C1 C2 C3 C4 C5]. cbn [standin gw gl gdout gderr ginput0 outv errv cm c_input] in *.
  constructor; cbn [standin gw gl gdout gderr ginput0 outv errv cm c_input]; wsimpl; auto.
  intros P. specialize (C2 P). cbn [app] in *. rewrite <- app_assoc, firstn_skipn. exact C2.
Qed.

(* the writer moves the first m bytes of what is left into the stdin pipe *)
Lemma invc_push_in w X Y Z input m :
  InvC (standin w X Y Z input) ->
  InvC (standin (upd_pipes w (push (pin w) (firstn m Z)) (pout w) (perr w)) X Y (skipn m Z) input).
Proof.
  intros [C1 C2 C3 C4 C5]. cbn [standin gw gl gdout gderr ginput0 outv errv cm c_input] in *.
  constructor; cbn [standin gw gl gdout gderr ginput0 outv errv cm c_input]; wsimpl; auto.
  intros P. specialize (C3 P). rewrite <- C3. f_equal. rewrite <- app_assoc. f_equal. apply firstn_skipn.
Qed.

Lemma invc_close_in w X Y Z input : InvC (standin w X Y Z input) -> InvC (standin (k_close w) X Y Z input).
Proof.
  intros [C1 C2 C3 C4 C5]. cbn [standin gw gl gdout gderr ginput0 outv errv cm c_input] in *.
  constructor; cbn [standin gw gl gdout gderr ginput0 outv errv cm c_input]; wsimpl; auto.
Qed.

Lemma invc_forget_rest w X Y Z input : InvC (standin w X Y Z input) -> exists Z', InvC (standin w X Y Z' input).
Proof. eauto. Qed.

(* ---------- grow_result ---------- *)

Definition left_data (l : option (stream * list N)) : list N := match l with Some (_, d) => d | None => [] end.

Lemma grow_spec c st b c' l' go : grow c st b = (c', l', go) ->
  (forall lim, m_limit c = Some lim -> total c < lim) ->
  (if is_out st then WinComm.m_out c' ++ left_data l' = WinComm.m_out c ++ b /\ WinComm.m_err c' = WinComm.m_err c
   else WinComm.m_err c' ++ left_data l' = WinComm.m_err c ++ b /\ WinComm.m_out c' = WinComm.m_out c)
  /\ m_limit c' = m_limit c /\ m_deadline c' = m_deadline c /\ m_phase c' = m_phase c
  /\ (forall lim, m_limit c = Some lim -> total c' <= lim /\ (go = true -> total c' < lim))
  /\ (go = true -> l' = None)
  /\ (forall st' d, l' = Some (st', d) -> st' = st).
Proof.
  unfold grow. intros H Hb. destruct (m_limit c) as [lim|] eqn:L.
  - specialize (Hb lim eq_refl). destruct (lim <=? total c) eqn:E; [apply Nat.leb_le in E; lia|].
    destruct (lim - total c <? length b) eqn:F.
    + apply Nat.ltb_lt in F.
      assert (length (firstn (lim - total c) b) = lim - total c) as Lf by (rewrite firstn_length; lia).
      destruct st; injection H as <- <- <-; cbn [is_out WinComm.m_out WinComm.m_err m_limit m_deadline m_phase left_data];
        unfold total in *; cbn [WinComm.m_out WinComm.m_err]; rewrite ?app_length, ?Lf;
        (split; [split; [rewrite <- app_assoc, firstn_skipn; reflexivity|reflexivity]|]);
        (split; [first [exact L|reflexivity]|]); (split; [reflexivity|]); (split; [reflexivity|]);
        (split; [intros l0 X; injection X as <-; split; [lia|intros G; apply negb_true_iff in G; apply Nat.leb_gt in G; rewrite ?app_length, ?Lf in G; lia]|]);
        (split; [intros G; apply negb_true_iff in G; apply Nat.leb_gt in G; rewrite ?app_length, ?Lf in G; lia|]);
        intros st' d X; injection X as <- _; reflexivity.
    + apply Nat.ltb_ge in F.
      destruct st; injection H as <- <- <-; cbn [is_out WinComm.m_out WinComm.m_err m_limit m_deadline m_phase left_data];
        unfold total in *; cbn [WinComm.m_out WinComm.m_err]; rewrite ?app_length, ?app_nil_r;
        (split; [split; reflexivity|]);
        (split; [first [exact L|reflexivity]|]); (split; [reflexivity|]); (split; [reflexivity|]);
        (split; [intros l0 X; injection X as <-; split; [lia|intros G; apply negb_true_iff in G; apply Nat.leb_gt in G; rewrite ?app_length in G; lia]|]);
        (split; [reflexivity|]); intros st' d X; discriminate X.
  - destruct st; injection H as <- <- <-; cbn [is_out WinComm.m_out WinComm.m_err m_limit m_deadline m_phase left_data];
      rewrite ?app_nil_r; (split; [split; reflexivity|]); (split; [first [exact L|reflexivity]|]); (split; [reflexivity|]); (split; [reflexivity|]);
      (split; [intros l0 X; discriminate X|]); (split; [reflexivity|]); intros st' d X; discriminate X.
Qed.

(* ---------- preservation ---------- *)

Lemma standin_with_w w X Y Z input w' : with_w (standin w X Y Z input) w' = standin w' X Y Z input.
Proof. reflexivity. Qed.

Lemma child_step_piped w k w' : child_step w k = CStep w' ->
  piped_in w' = piped_in w /\ piped_out w' = piped_out w /\ piped_err w' = piped_err w.
Proof.
  unfold child_step. intros H. break_hyp H; try discriminate; injection H as <-;
    repeat match goal with s : stream |- _ => destruct s end; auto.
Qed.

Ltac winv_fields H := destruct H as [[Z [HC [HZ1 HZ2]]] HL HLim HBl HT HLo HNo HNe].

Lemma app4_nil_r (a b c : list N) : a ++ b ++ c ++ [] = a ++ b ++ c.
Proof. rewrite app_nil_r. reflexivity. Qed.

Ltac bytes_goal :=
  match goal with
  | |- WInv ?input ?s' =>
    assert (exists Z, InvC (standin (kw s') (seen_out s') (seen_err s') Z input)
                      /\ (forall r, h_in s' = Some (WRun r) -> Z = r) /\ (h_in s' = Some (WHold PEof) -> Z = [])) as Hb
  end.

Lemma winv_helper input s st k s' : WInv input s -> helper_step s st k = Some s' -> WInv input s'.
Proof.
  intros HI H. winv_fields HI. unfold helper_step in H. destruct st.
  - (* the writer *)
    destruct (h_in s) as [[rest|m|]|] eqn:Hin; try discriminate.
    destruct (wtr_step (pin (kw s)) rest k) as [[p' h']|] eqn:W; [|discriminate]. injection H as <-.
    specialize (HZ1 rest eq_refl). subst Z.
    unfold wtr_step in W. destruct rest as [|r0 rest].
    + injection W as <- <-. bytes_goal.
      { exists []. split; [|split; [intros r X; discriminate X|reflexivity]].
        eapply invc_same_pipes; [..|exact HC]; reflexivity. }
      constructor; [exact Hb|..]; cbn [set_h_in kw h_in h_out h_err call leftover]; auto.
    + destruct (negb (rd (pin (kw s)))).
      * injection W as <- <-. bytes_goal.
        { exists (r0 :: rest). split; [|split; [intros r X; discriminate X|intros X; discriminate X]].
          eapply invc_same_pipes; [..|exact HC]; reflexivity. }
        constructor; [exact Hb|..]; cbn [set_h_in kw h_in h_out h_err call leftover]; auto.
      * destruct (free (pin (kw s)) =? 0); [discriminate|]. injection W as <- <-. bytes_goal.
        { eexists. split; [apply invc_push_in; exact HC|]. split; [intros r X; injection X as <-; reflexivity|intros X; discriminate X]. }
        constructor; [exact Hb|..]; cbn [set_h_in kw h_in h_out h_err call leftover]; auto.
  - (* the stdout reader *)
    destruct (h_out s) as [[|m|]|] eqn:Ho; try discriminate.
    destruct (rdr_step (pout (kw s)) k) as [[p' m]|] eqn:R; [|discriminate]. injection H as <-.
    unfold rdr_step in R. destruct (buf (pout (kw s))) as [|b0 bs] eqn:B.
    + destruct (wr (pout (kw s))); [discriminate|]. injection R as <- <-. bytes_goal.
      { exists Z. split; [|split; assumption].
        unfold seen_out, seen_err, cur_out, cur_err, left_out, left_err in *. cbn [set_h_out kw h_in h_out h_err call leftover g_out g_err held] in *.
        rewrite Ho in HC. cbn [held] in HC. eapply invc_same_pipes; [..|exact HC]; reflexivity. }
      constructor; [exact Hb|..]; cbn [set_h_out kw h_in h_out h_err call leftover]; auto; intros X; discriminate X.
    + injection R as <- <-. bytes_goal.
      { exists Z. split; [|split; assumption].
        unfold seen_out, seen_err, cur_out, cur_err, left_out, left_err in *. cbn [set_h_out kw h_in h_out h_err call leftover g_out g_err held] in *.
        rewrite Ho in HC. cbn [held] in HC. rewrite app4_nil_r in HC.
        pose proof (invc_pop_out _ _ _ _ _ (pick k (Nat.min CHUNK (length (b0 :: bs)))) HC) as P.
        rewrite B in P. rewrite <- !app_assoc in P. exact P. }
      constructor; [exact Hb|..]; cbn [set_h_out kw h_in h_out h_err call leftover]; auto; try (intros X; discriminate X).
  - (* the stderr reader *)
    destruct (h_err s) as [[|m|]|] eqn:Ho; try discriminate.
    destruct (rdr_step (perr (kw s)) k) as [[p' m]|] eqn:R; [|discriminate]. injection H as <-.
    unfold rdr_step in R. destruct (buf (perr (kw s))) as [|b0 bs] eqn:B.
    + destruct (wr (perr (kw s))); [discriminate|]. injection R as <- <-. bytes_goal.
      { exists Z. split; [|split; assumption].
        unfold seen_out, seen_err, cur_out, cur_err, left_out, left_err in *. cbn [set_h_err kw h_in h_out h_err call leftover g_out g_err held] in *.
        rewrite Ho in HC. cbn [held] in HC. eapply invc_same_pipes; [..|exact HC]; reflexivity. }
      constructor; [exact Hb|..]; cbn [set_h_err kw h_in h_out h_err call leftover]; auto; intros X; discriminate X.
    + injection R as <- <-. bytes_goal.
      { exists Z. split; [|split; assumption].
        unfold seen_out, seen_err, cur_out, cur_err, left_out, left_err in *. cbn [set_h_err kw h_in h_out h_err call leftover g_out g_err held] in *.
        rewrite Ho in HC. cbn [held] in HC. rewrite app4_nil_r in HC.
        pose proof (invc_pop_err _ _ _ _ _ (pick k (Nat.min CHUNK (length (b0 :: bs)))) HC) as P.
        rewrite B in P. rewrite <- !app_assoc in P. exact P. }
      constructor; [exact Hb|..]; cbn [set_h_err kw h_in h_out h_err call leftover]; auto; try (intros X; discriminate X).
Qed.

Lemma regroup (g a b h a' b' : list N) : a' ++ b' = a ++ b -> g ++ a' ++ b' ++ h = g ++ a ++ b ++ h.
Proof. intros E. rewrite (app_assoc a' b' h), (app_assoc a b h), E. reflexivity. Qed.

Lemma seen_out_split s : seen_out s = g_out s ++ cur_out s ++ left_out s ++ held (h_out s).
Proof. reflexivity. Qed.

Ltac field_auto :=
  intros;
  repeat match goal with
         | X : Some _ = Some _ |- _ => injection X as X; try subst
         end;
  unfold total in *; cbn [set_phase m_phase m_limit m_deadline WinComm.m_out WinComm.m_err] in *;
  try discriminate; try congruence;
  try match goal with H : _ \/ _ |- _ => destruct H; try discriminate; try congruence end;
  eauto.

Ltac nopipe_auto HN Hc :=
  let X := fresh in intros X; destruct (HN X) as [?A1 [?A2 [?A3 ?A4]]];
  unfold cur_out, cur_err, left_out, left_err in *;
  cbn [call leftover set_call set_left set_phase kw h_in h_out h_err g_out g_err WinComm.m_out WinComm.m_err] in *;
  rewrite ?Hc in *; auto.

(* the sequential steps of the receiving thread *)
Lemma winv_tau input s s' : WInv input s -> main_tau s = Some s' -> WInv input s'.
Proof.
  intros HI H. winv_fields HI. unfold main_tau in H.
  destruct (call s) as [c|] eqn:Hc; [|discriminate]. destruct (m_phase c) eqn:Hp; try discriminate.
  - (* the leftover of the previous read *)
    destruct (leftover s) as [[st data]|] eqn:Hl.
    + destruct (grow c st data) as [[c' l'] go] eqn:G. injection H as <-.
      assert (forall lim, m_limit c = Some lim -> total c < lim) as Hb0 by (intros lim X; apply (HBl c lim eq_refl X); right; exact Hp).
      destruct (grow_spec _ _ _ _ _ _ G Hb0) as [Hd [E1 [E2 [E3 [Hlim [Hgo Hst]]]]]].
      pose proof (HLo st data eq_refl) as Hnin.
      bytes_goal.
      { exists Z. split; [|split; assumption].
        unfold seen_out, seen_err, cur_out, cur_err, left_out, left_err in *.
        cbn [set_left set_phase kw h_in h_out h_err call leftover g_out g_err WinComm.m_out WinComm.m_err] in *. rewrite Hc, Hl in HC.
        destruct l' as [[st' d']|]; [pose proof (Hst st' d' eq_refl); subst st'|];
          destruct st; try congruence; cbn [is_out left_data] in *; destruct Hd as [Hd1 Hd2];
          rewrite (regroup _ _ _ _ _ _ Hd1), Hd2; exact HC. }
      constructor; [exact Hb|..]; cbn [set_left set_phase kw h_in h_out h_err call leftover m_phase m_limit m_deadline]; auto.
      * intros c0 X Y. injection X as <-. cbn [m_phase set_phase] in Y. destruct go; [apply Hgo; reflexivity|discriminate Y].
      * intros c0 lim X Y. injection X as <-. cbn [m_limit set_phase] in Y. rewrite E1 in Y. unfold total. cbn [set_phase WinComm.m_out WinComm.m_err]. exact (proj1 (Hlim lim Y)).
      * intros c0 lim X Y Ph. injection X as <-. cbn [m_limit m_phase set_phase] in Y, Ph. rewrite E1 in Y.
        unfold total. cbn [set_phase WinComm.m_out WinComm.m_err]. destruct go; [exact (proj2 (Hlim lim Y) eq_refl)|destruct Ph as [Ph|Ph]; discriminate Ph].
      * intros c0 X Y. injection X as <-. cbn [m_phase set_phase] in Y. destruct go; discriminate Y.
      * intros st0 d0 X. subst l'. rewrite (Hst st0 d0 eq_refl). exact Hnin.
      * intros X. destruct (HNo X) as [A1 [A2 [A3 A4]]]. repeat split; auto.
        -- unfold cur_out in *. cbn [call set_left set_phase WinComm.m_out]. rewrite Hc in A2. unfold left_out in A3. rewrite Hl in A3.
           destruct st; cbn [is_out] in *; try congruence; destruct Hd as [Hd1 Hd2]; try (rewrite Hd2; exact A2).
           all: subst data; rewrite A2 in Hd1; cbn in Hd1; apply app_eq_nil in Hd1; tauto.
        -- unfold left_out in *. cbn [leftover set_left]. rewrite Hl in A3. unfold cur_out in A2. rewrite Hc in A2.
           destruct l' as [[st' d']|]; [|reflexivity]. pose proof (Hst st' d' eq_refl); subst st'.
           destruct st; cbn [is_out] in *; try congruence; try reflexivity; destruct Hd as [Hd1 Hd2].
           all: subst data; rewrite A2 in Hd1; cbn in Hd1; cbn [left_data] in Hd1; apply app_eq_nil in Hd1; tauto.
      * intros X. destruct (HNe X) as [A1 [A2 [A3 A4]]]. repeat split; auto.
        -- unfold cur_err in *. cbn [call set_left set_phase WinComm.m_err]. rewrite Hc in A2. unfold left_err in A3. rewrite Hl in A3.
           destruct st; cbn [is_out] in *; try congruence; destruct Hd as [Hd1 Hd2]; try (rewrite Hd2; exact A2).
           subst data; rewrite A2 in Hd1; cbn in Hd1; apply app_eq_nil in Hd1; tauto.
        -- unfold left_err in *. cbn [leftover set_left]. rewrite Hl in A3. unfold cur_err in A2. rewrite Hc in A2.
           destruct l' as [[st' d']|]; [|reflexivity]. pose proof (Hst st' d' eq_refl); subst st'.
           destruct st; cbn [is_out] in *; try congruence; try reflexivity; destruct Hd as [Hd1 Hd2].
           subst data; rewrite A2 in Hd1; cbn in Hd1; cbn [left_data] in Hd1; apply app_eq_nil in Hd1; tauto.
    + injection H as <-. bytes_goal.
      { exists Z. split; [|split; assumption].
        unfold seen_out, seen_err, cur_out, cur_err, left_out, left_err in *.
        cbn [set_call set_phase kw h_in h_out h_err call leftover g_out g_err WinComm.m_out WinComm.m_err] in *. rewrite Hc in HC. exact HC. }
      constructor; [exact Hb|..]; cbn [set_call set_phase kw h_in h_out h_err call leftover]; auto;
        try solve [field_auto]; try solve [nopipe_auto HNo Hc]; try solve [nopipe_auto HNe Hc].
  - (* every helper has finished *)
    destruct (negb (set_in s) && negb (set_out s) && negb (set_err s)); [|discriminate]. injection H as <-. bytes_goal.
    { exists Z. split; [|split; assumption].
      unfold seen_out, seen_err, cur_out, cur_err, left_out, left_err in *.
      cbn [set_call set_phase kw h_in h_out h_err call leftover g_out g_err WinComm.m_out WinComm.m_err] in *. rewrite Hc in HC. exact HC. }
    constructor; [exact Hb|..]; cbn [set_call set_phase kw h_in h_out h_err call leftover]; auto;
      try solve [field_auto]; try solve [nopipe_auto HNo Hc]; try solve [nopipe_auto HNe Hc].
Qed.

Lemma in_loop_spec s c : in_loop s = Some c -> call s = Some c /\ m_phase c = MLoop.
Proof.
  unfold in_loop. destruct (call s) as [c0|]; [|discriminate]. destruct (m_phase c0) eqn:P; try discriminate.
  destruct (negb (set_in s) && negb (set_out s) && negb (set_err s)); [discriminate|]. intros H. injection H as <-. auto.
Qed.

Lemma regroup2 (g a b a' l : list N) : a' ++ l = a ++ b -> g ++ a' ++ l ++ [] = g ++ a ++ [] ++ b.
Proof. intros E. cbn [app]. rewrite app_nil_r, E. reflexivity. Qed.

(* a message carrying data is taken over *)
Lemma winv_data input s c st b s1 c' l' go :
  WInv input s -> call s = Some c -> m_phase c = MLoop -> st <> SIn ->
  grow c st b = (c', l', go) ->
  (* s1: the helper is running again, nothing else changed *)
  kw s1 = kw s -> h_in s1 = h_in s -> g_out s1 = g_out s -> g_err s1 = g_err s ->
  (if is_out st then held (h_out s) = b /\ h_out s1 = Some RRun /\ h_err s1 = h_err s
   else held (h_err s) = b /\ h_err s1 = Some RRun /\ h_out s1 = h_out s) ->
  WInv input (set_left s1 l' (Some (set_phase c' (if go then MLoop else MDone WOk)))).
Proof.
  intros HI Hc Hp Hst G Ek Ei Ego Ege Hh. winv_fields HI.
  pose proof (HL c Hc Hp) as Hl.
  assert (forall lim, m_limit c = Some lim -> total c < lim) as Hb0 by (intros lim X; apply (HBl c lim Hc X); left; exact Hp).
  destruct (grow_spec _ _ _ _ _ _ G Hb0) as [Hd [E1 [E2 [E3 [Hlim [Hgo Hst']]]]]].
  bytes_goal.
  { exists Z. split; [|split; cbn [set_left h_in]; rewrite Ei; assumption].
    unfold seen_out, seen_err, cur_out, cur_err, left_out, left_err in *.
    cbn [set_left set_phase kw h_in h_out h_err call leftover g_out g_err WinComm.m_out WinComm.m_err] in *.
    rewrite Hc, Hl in HC. rewrite Ek, Ego, Ege.
    destruct l' as [[st' d']|]; [pose proof (Hst' st' d' eq_refl); subst st'|];
      destruct st; try congruence; cbn [is_out left_data] in *; destruct Hd as [Hd1 Hd2]; destruct Hh as [Hh1 [Hh2 Hh3]];
      rewrite Hh2, Hh3, Hd2; cbn [held]; rewrite Hh1 in HC; rewrite (regroup2 _ _ _ _ _ Hd1); exact HC. }
  constructor; [exact Hb|..]; cbn [set_left set_phase kw h_in h_out h_err call leftover m_phase m_limit m_deadline]; auto.
  - intros c0 X Y. injection X as <-. cbn [m_phase set_phase] in Y. destruct go; [apply Hgo; reflexivity|discriminate Y].
  - intros c0 lim X Y. injection X as <-. cbn [m_limit set_phase] in Y. rewrite E1 in Y. unfold total. cbn [set_phase WinComm.m_out WinComm.m_err]. exact (proj1 (Hlim lim Y)).
  - intros c0 lim X Y Ph. injection X as <-. cbn [m_limit m_phase set_phase] in Y, Ph. rewrite E1 in Y.
    unfold total. cbn [set_phase WinComm.m_out WinComm.m_err]. destruct go; [exact (proj2 (Hlim lim Y) eq_refl)|destruct Ph as [Ph|Ph]; discriminate Ph].
  - intros c0 X Y. injection X as <-. cbn [m_phase set_phase] in Y. destruct go; discriminate Y.
  - intros st0 d0 X. subst l'. rewrite (Hst' st0 d0 eq_refl). exact Hst.
  - intros X. destruct st; cbn [is_out] in Hh; try congruence; destruct Hh as [Hh1 [Hh2 Hh3]]; try congruence.
    rewrite Hh3 in X. destruct (HNo X) as [A1 [A2 [A3 A4]]]. unfold cur_out, left_out in *.
    cbn [call leftover set_left set_phase WinComm.m_out kw g_out g_err]. rewrite Ek, Ego. rewrite Hc in A2. cbn [is_out] in Hd. destruct Hd as [_ Hd2]. rewrite Hd2.
    repeat split; auto. destruct l' as [[st' d']|]; [|reflexivity]. rewrite (Hst' st' d' eq_refl). reflexivity.
  - intros X. destruct st; cbn [is_out] in Hh; try congruence; destruct Hh as [Hh1 [Hh2 Hh3]]; try congruence.
    rewrite Hh3 in X. destruct (HNe X) as [A1 [A2 [A3 A4]]]. unfold cur_err, left_err in *.
    cbn [call leftover set_left set_phase WinComm.m_err kw g_out g_err]. rewrite Ek, Ege. rewrite Hc in A2. cbn [is_out] in Hd. destruct Hd as [_ Hd2]. rewrite Hd2.
    repeat split; auto. destruct l' as [[st' d']|]; [|reflexivity]. rewrite (Hst' st' d' eq_refl). reflexivity.
Qed.

(* a state that differs only in fields the invariant reads through the same values *)
Lemma winv_same input s s' :
  WInv input s ->
  kw s' = kw s -> leftover s' = leftover s -> call s' = call s -> g_out s' = g_out s -> g_err s' = g_err s ->
  held (h_out s') = held (h_out s) -> held (h_err s') = held (h_err s) ->
  (h_out s' = None <-> h_out s = None) -> (h_err s' = None <-> h_err s = None) ->
  (forall r, h_in s' = Some (WRun r) -> h_in s = Some (WRun r)) ->
  (h_in s' = Some (WHold PEof) -> h_in s = Some (WHold PEof)) ->
  WInv input s'.
Proof.
  intros HI Ek El Ec Ego Ege Hho Hhe Hno Hne Hi1 Hi2. winv_fields HI.
  constructor; rewrite ?Ek, ?El, ?Ec; auto.
  - exists Z. unfold seen_out, seen_err, cur_out, cur_err, left_out, left_err in *. rewrite Ec, El, Ego, Ege, Hho, Hhe.
    split; [exact HC|]. split; [intros r X; apply HZ1; apply Hi1; exact X|intros X; apply HZ2; apply Hi2; exact X].
  - intros X. apply Hno in X. destruct (HNo X) as [A1 [A2 [A3 A4]]]. unfold cur_out, left_out in *. rewrite Ec, El, Ego. auto.
  - intros X. apply Hne in X. destruct (HNe X) as [A1 [A2 [A3 A4]]]. unfold cur_err, left_err in *. rewrite Ec, El, Ege. auto.
Qed.

(* the call ends (error, timeout): only the phase changes *)
Lemma winv_end input s c r :
  WInv input s -> call s = Some c -> (r = WTimedOut -> m_deadline c = true) -> r <> WOk ->
  WInv input (set_call s (Some (set_phase c (MDone r)))).
Proof.
  intros HI Hc Hr Hn. winv_fields HI. bytes_goal.
  { exists Z. split; [|split; assumption].
    unfold seen_out, seen_err, cur_out, cur_err, left_out, left_err in *.
    cbn [set_call set_phase kw h_in h_out h_err call leftover g_out g_err WinComm.m_out WinComm.m_err] in *. rewrite Hc in HC. exact HC. }
  constructor; [exact Hb|..]; cbn [set_call set_phase kw h_in h_out h_err call leftover]; auto;
    try solve [field_auto]; try solve [nopipe_auto HNo Hc]; try solve [nopipe_auto HNe Hc].
  all: try (intros c0 lim X Y; injection X as <-; apply (HLim c lim Hc Y)).
  all: try (intros c0 X Y; injection X as <-; cbn in Y; injection Y as ->; apply Hr; reflexivity).
Qed.

Definition with_sets (s : wsys) (a b c : bool) : wsys :=
  {| kw := kw s; h_out := h_out s; h_err := h_err s; h_in := h_in s; set_in := a; set_out := b; set_err := c;
     leftover := leftover s; call := call s; g_out := g_out s; g_err := g_err s |}.

Lemma winv_sets input s a b c : WInv input s -> WInv input (with_sets s a b c).
Proof. intros HI. apply (winv_same input s); auto; try tauto. Qed.

Lemma winv_recv input s st s' : WInv input s -> recv s st = Some s' -> WInv input s'.
Proof.
  intros HI H. unfold recv in H. destruct (in_loop s) as [c|] eqn:IL; [|discriminate].
  destruct (in_loop_spec _ _ IL) as [Hc Hp].
  destruct st.
  - (* the writer's message *)
    destruct (h_in s) as [[rest|[b| |e]|]|] eqn:Hin; try discriminate; injection H as <-.
    + (* EOF: the whole input is written; the child's stdin is closed now *)
      winv_fields HI. specialize (HZ2 Hin). subst Z. bytes_goal.
      { exists []. split; [|split; [intros r X; discriminate X|intros X; discriminate X]]. apply invc_close_in. exact HC. }
      constructor; [exact Hb|..]; cbn [kw h_in h_out h_err call leftover]; auto.
    + (* write error *)
      apply (winv_sets input (set_call (set_h_in s (Some WGone) (k_close (kw s))) (Some (set_phase c (MDone (WErr e))))) false (set_out s) (set_err s)).
      apply (winv_end input (set_h_in s (Some WGone) (k_close (kw s))) c (WErr e)); [| exact Hc | intros X; discriminate X | discriminate].
      winv_fields HI. bytes_goal.
      { exists Z. split; [|split; [intros r X; discriminate X|intros X; discriminate X]]. apply invc_close_in. exact HC. }
      constructor; [exact Hb|..]; cbn [set_h_in kw h_in h_out h_err call leftover]; auto.
  - (* stdout *)
    destruct (h_out s) as [[|[b| |e]|]|] eqn:Ho; try discriminate.
    + destruct (grow c SOut b) as [[c' l'] go] eqn:G. injection H as <-.
      eapply (winv_data input s c SOut b (set_h_out s (Some RRun) (kw s))); eauto; try discriminate.
      cbn [is_out]. rewrite Ho. cbn. auto.
    + injection H as <-.
      apply (winv_same input s); auto; cbn [h_out h_err h_in]; try (rewrite Ho; reflexivity); try tauto.
      rewrite Ho. split; intros X; discriminate X.
    + injection H as <-.
      apply (winv_sets input (set_call (set_h_out s (Some RGone) (kw s)) (Some (set_phase c (MDone (WErr e))))) (set_in s) false (set_err s)).
      apply (winv_end input (set_h_out s (Some RGone) (kw s)) c (WErr e)); [| exact Hc | intros X; discriminate X | discriminate].
      apply (winv_same input s); auto; cbn [set_h_out h_out h_err h_in]; try (rewrite Ho; reflexivity); try tauto.
      rewrite Ho. split; intros X; discriminate X.
  - (* stderr *)
    destruct (h_err s) as [[|[b| |e]|]|] eqn:Ho; try discriminate.
    + destruct (grow c SErr b) as [[c' l'] go] eqn:G. injection H as <-.
      eapply (winv_data input s c SErr b (set_h_err s (Some RRun) (kw s))); eauto; try discriminate.
      cbn [is_out]. rewrite Ho. cbn. auto.
    + injection H as <-.
      apply (winv_same input s); auto; cbn [h_out h_err h_in]; try (rewrite Ho; reflexivity); try tauto.
      rewrite Ho. split; intros X; discriminate X.
    + injection H as <-.
      apply (winv_sets input (set_call (set_h_err s (Some RGone) (kw s)) (Some (set_phase c (MDone (WErr e))))) (set_in s) (set_out s) false).
      apply (winv_end input (set_h_err s (Some RGone) (kw s)) c (WErr e)); [| exact Hc | intros X; discriminate X | discriminate].
      apply (winv_same input s); auto; cbn [set_h_err h_out h_err h_in]; try (rewrite Ho; reflexivity); try tauto.
      rewrite Ho. split; intros X; discriminate X.
Qed.

Lemma winv_timeout input s s' : WInv input s -> timeout s = Some s' -> WInv input s'.
Proof.
  intros HI H. unfold timeout in H. destruct (in_loop s) as [c|] eqn:IL; [|discriminate].
  destruct (in_loop_spec _ _ IL) as [Hc Hp]. destruct (m_deadline c) eqn:D; [|discriminate]. injection H as <-.
  apply winv_end; auto. discriminate.
Qed.

Lemma winv_finish input s s' r : WInv input s -> finish s = Some (s', r) -> WInv input s'.
Proof.
  intros HI H. unfold finish in H. destruct (call s) as [c|] eqn:Hc; [|discriminate].
  destruct (m_phase c) eqn:Hp; try discriminate. injection H as E1 E2. subst s'. clear E2. winv_fields HI. bytes_goal.
  { exists Z. split; [|split; assumption].
    unfold seen_out, seen_err, cur_out, cur_err, left_out, left_err in *.
    cbn [kw h_in h_out h_err call leftover g_out g_err] in *. rewrite Hc in HC. rewrite <- !app_assoc. cbn [app]. exact HC. }
  constructor; [exact Hb|..]; cbn [kw h_in h_out h_err call leftover]; auto; try (intros; discriminate).
  - intros X. destruct (HNo X) as [A1 [A2 [A3 A4]]]. unfold cur_out, left_out in *. cbn [call leftover g_out]. rewrite Hc in A2. rewrite A2, A4. auto.
  - intros X. destruct (HNe X) as [A1 [A2 [A3 A4]]]. unfold cur_err, left_err in *. cbn [call leftover g_err]. rewrite Hc in A2. rewrite A2, A4. auto.
Qed.

Lemma winv_start input s lim dl s' : WInv input s -> (forall n, lim = Some n -> 1 <= n) -> start_read s lim dl = Some s' -> WInv input s'.
Proof.
  intros HI Hl H. unfold start_read in H. destruct (call s) eqn:Hc; [discriminate|]. injection H as <-. winv_fields HI. bytes_goal.
  { exists Z. split; [|split; assumption].
    unfold seen_out, seen_err, cur_out, cur_err, left_out, left_err in *.
    cbn [set_call kw h_in h_out h_err call leftover g_out g_err WinComm.m_out WinComm.m_err] in *. rewrite Hc in HC. exact HC. }
  constructor; [exact Hb|..]; cbn [set_call kw h_in h_out h_err call leftover]; auto.
  - intros c X Y. injection X as <-. discriminate Y.
  - intros c n X Y. injection X as <-. cbn in *. lia.
  - intros c n X Y _. injection X as <-. cbn in *. specialize (Hl n Y). lia.
  - intros c X Y. injection X as <-. discriminate Y.
  - intros X. destruct (HNo X) as [A1 [A2 [A3 A4]]]. unfold cur_out, left_out in *. cbn [call leftover set_call WinComm.m_out]. auto.
  - intros X. destruct (HNe X) as [A1 [A2 [A3 A4]]]. unfold cur_err, left_err in *. cbn [call leftover set_call WinComm.m_err]. auto.
Qed.

Lemma winv_child input s k s' : WInv input s -> wstep s (WChild k) = Some s' -> WInv input s'.
Proof.
  intros HI H. cbn [wstep] in H. winv_fields HI.
  destruct (child_step (kw s) k) as [w'| |] eqn:E.
  - injection H as <-. destruct (child_step_piped _ _ _ E) as [P1 [P2 P3]]. bytes_goal.
    { exists Z. split; [|split; assumption].
      pose proof (child_step_InvC (standin (kw s) (seen_out s) (seen_err s) Z input) k w' HC E) as C. exact C. }
    constructor; [exact Hb|..]; cbn [with_kw kw h_in h_out h_err call leftover]; auto.
    + intros X. destruct (HNo X) as [A1 A2]. rewrite P2. split; [exact A1|exact A2].
    + intros X. destruct (HNe X) as [A1 A2]. rewrite P3. split; [exact A1|exact A2].
  - destruct (prog (kw s)) as [|o r] eqn:Pg; [discriminate|]. destruct o; try discriminate. injection H as <-. bytes_goal.
    { exists Z. split; [|split; assumption].
      exact (InvC_set_prog (standin (kw s) (seen_out s) (seen_err s) Z input) r t HC). }
    constructor; [exact Hb|..]; cbn [with_kw kw h_in h_out h_err call leftover]; auto.
  - discriminate.
Qed.

Definition good_choice (ch : wchoice) : Prop := match ch with WStart (Some 0) _ => False | _ => True end.

Theorem winv_step input s ch s' : WInv input s -> good_choice ch -> wstep s ch = Some s' -> WInv input s'.
Proof.
  intros HI G H. destruct ch as [st k|st| | |k|lim dl|].
  - eapply winv_helper; eassumption.
  - eapply winv_recv; eassumption.
  - eapply winv_tau; eassumption.
  - eapply winv_timeout; eassumption.
  - eapply winv_child; eassumption.
  - eapply winv_start; [exact HI| |exact H]. intros n X. subst lim. destruct n; [contradiction|lia].
  - cbn [wstep] in H. destruct (finish s) as [[s1 r]|] eqn:F; [|discriminate]. injection H as <-. eapply winv_finish; eassumption.
Qed.

Theorem winv_init (pi po pe : bool) (ci co ce : nat) (child : list cop) (input : list N) : WInv (if pi then input else @nil N) (winit pi po pe ci co ce child input).
Proof.
  unfold winit. constructor; cbn [kw h_in h_out h_err call leftover g_out g_err]; try (intros; discriminate).
  - exists (if pi then input else []). unfold seen_out, seen_err, cur_out, cur_err, left_out, left_err.
    cbn [kw h_in h_out h_err call leftover g_out g_err]. split.
    + constructor; cbn [standin gw gl gdout gderr ginput0 outv errv cm c_input init_world piped_out piped_err piped_in pout perr pin wrote_out wrote_err child_got mk_pipe buf];
        destruct po, pe, pi; cbn; auto; try discriminate.
    + destruct pi; split; try (intros r X; discriminate X); try (intros X; discriminate X). intros r X. injection X as <-. reflexivity.
  - destruct po; [intros X; discriminate X|]. intros _. cbn. auto.
  - destruct pe; [intros X; discriminate X|]. intros _. cbn. auto.
Qed.

Theorem winv_reachable input s0 : WInv input s0 -> forall chs s, Forall good_choice chs -> wrun s0 chs = Some s -> WInv input s.
Proof.
  intros HI chs. revert s0 HI. induction chs as [|ch r IH]; intros s0 HI s G H; cbn [wrun] in H.
  - injection H as <-. exact HI.
  - destruct (wstep s0 ch) as [s1|] eqn:E; [|discriminate]. inversion G as [|? ? G1 G2]; subst.
    apply (IH s1); [eapply winv_step; eassumption|exact G2|exact H].
Qed.

(* ---------- the statements ---------- *)

Lemma wstep_piped s ch s' : wstep s ch = Some s' ->
  piped_in (kw s') = piped_in (kw s) /\ piped_out (kw s') = piped_out (kw s) /\ piped_err (kw s') = piped_err (kw s).
Proof.
  destruct ch as [st k|st| | |k|lim dl|]; cbn [wstep]; intros E.
  - unfold helper_step in E. break_hyp E; try discriminate; injection E as <-; cbn; auto.
  - unfold recv in E. break_hyp E; try discriminate; injection E as <-; cbn; auto.
  - unfold main_tau in E. break_hyp E; try discriminate; injection E as <-; cbn; auto.
  - unfold timeout in E. break_hyp E; try discriminate; injection E as <-; cbn; auto.
  - destruct (child_step (kw s) k) as [w'| |] eqn:Cs; try discriminate.
    + injection E as <-. exact (child_step_piped _ _ _ Cs).
    + break_hyp E; try discriminate; injection E as <-; cbn; auto.
  - unfold start_read in E. break_hyp E; try discriminate; injection E as <-; cbn; auto.
  - destruct (finish s) as [[s1 r]|] eqn:F; [|discriminate]. injection E as <-.
    unfold finish in F. break_hyp F; try discriminate; inversion F; subst; cbn; auto.
Qed.

Lemma wrun_piped : forall chs s s', wrun s chs = Some s' ->
  piped_in (kw s') = piped_in (kw s) /\ piped_out (kw s') = piped_out (kw s) /\ piped_err (kw s') = piped_err (kw s).
Proof.
  induction chs as [|ch r IH]; intros s s' H; cbn [wrun] in H; [injection H as <-; auto|].
  destruct (wstep s ch) as [s1|] eqn:E; [|discriminate]. destruct (IH _ _ H) as [A [B C]].
  destruct (wstep_piped _ _ _ E) as [A' [B' C']]. rewrite A, B, C. auto.
Qed.

(* C02 / C03: at every reachable state, per stream, what earlier reads returned, what the current read holds,
   the parked excess, the chunk a helper is holding and what is still in the pipe are, in this order, exactly
   what the child wrote; and the child has received a prefix of the input *)
Theorem win_bytes_exact (pi po pe : bool) (ci co ce : nat) (child : list cop) (input : list N) chs s :
  Forall good_choice chs -> wrun (winit pi po pe ci co ce child input) chs = Some s ->
  (po = true -> seen_out s ++ buf (pout (kw s)) = wrote_out (kw s))
  /\ (pe = true -> seen_err s ++ buf (perr (kw s)) = wrote_err (kw s))
  /\ (pi = true -> exists rest, child_got (kw s) ++ buf (pin (kw s)) ++ rest = input
                               /\ (forall r, h_in s = Some (WRun r) -> rest = r) /\ (h_in s = Some (WHold PEof) -> rest = [])).
Proof.
  intros G H. pose proof (winv_reachable _ _ (winv_init pi po pe ci co ce child input) chs s G H) as HI. winv_fields HI.
  destruct HC as [C1 C2 C3 C4 C5]. cbn [standin gw gl gdout gderr ginput0 outv errv cm c_input] in *.
  destruct (wrun_piped _ _ _ H) as [Pi [Po Pe]]. cbn [winit kw init_world piped_in piped_out piped_err] in Pi, Po, Pe.
  split; [intros X; apply C1; rewrite Po; exact X|]. split; [intros X; apply C2; rewrite Pe; exact X|].
  intros X. exists Z. split; [|split; assumption]. rewrite X in C3. apply C3. rewrite Pi. exact X.
Qed.

(* C03: a read never holds more than its limit (n >= 1) *)
Theorem win_limit_respected (pi po pe : bool) (ci co ce : nat) (child : list cop) (input : list N) chs s c lim :
  Forall good_choice chs -> wrun (winit pi po pe ci co ce child input) chs = Some s ->
  call s = Some c -> m_limit c = Some lim -> length (WinComm.m_out c) + length (WinComm.m_err c) <= lim.
Proof.
  intros G H Hc Hl. pose proof (winv_reachable _ _ (winv_init pi po pe ci co ce child input) chs s G H) as HI.
  exact (w_limit _ _ HI c lim Hc Hl).
Qed.

(* C04: a timeout is reported only by a read that was given a deadline *)
Theorem win_no_timeout_without_deadline (pi po pe : bool) (ci co ce : nat) (child : list cop) (input : list N) chs s c :
  Forall good_choice chs -> wrun (winit pi po pe ci co ce child input) chs = Some s ->
  call s = Some c -> m_phase c = MDone WTimedOut -> m_deadline c = true.
Proof.
  intros G H Hc Hp. pose proof (winv_reachable _ _ (winv_init pi po pe ci co ce child input) chs s G H) as HI.
  exact (w_timeout _ _ HI c Hc Hp).
Qed.

(* C02: a stream that was not piped is reported as absent, and nothing is ever attributed to it *)
Theorem win_optionness s s' r o e : finish s = Some (s', (r, o, e)) ->
  (o = None <-> h_out s = None) /\ (e = None <-> h_err s = None).
Proof.
  unfold finish. intros H. break_hyp H; try discriminate; injection H as _ _ <- <-; split; split; intros X; try discriminate X; try reflexivity; congruence.
Qed.

(* ---------- C01 for the thread variant: every step of every party decreases a measure ---------- *)

Require Import SP.Proofs.CommTerm.

Definition rdr_w (h : option rdr) : nat :=
  match h with Some RRun => 2 | Some (RHold (PData _)) => 3 | Some (RHold _) => 1 | _ => 0 end.
Definition wtr_w (h : option wtr) : nat :=
  match h with Some (WRun rest) => 4 * length rest + 2 | Some (WHold _) => 1 | _ => 0 end.
Definition main_w (s : wsys) : nat :=
  match call s with
  | Some c => match m_phase c with MLeftover => 3 | MLoop => 2 | MDone _ => 1 end
  | None => 0
  end.
Definition wmu (s : wsys) : nat := 3 * Mw (kw s) + rdr_w (h_out s) + rdr_w (h_err s) + wtr_w (h_in s) + main_w s.

Definition not_start (ch : wchoice) : Prop := match ch with WStart _ _ => False | _ => True end.

Lemma grow_phase c st b c' l' go : grow c st b = (c', l', go) -> m_phase c' = m_phase c.
Proof.
  unfold grow. intros H. break_hyp H; destruct st; injection H as <- _ _; reflexivity.
Qed.

Lemma wtr_step_w p rest k p' h' : wtr_step p rest k = Some (p', h') ->
  3 * length (buf p') + wtr_w (Some h') < 3 * length (buf p) + wtr_w (Some (WRun rest)).
Proof.
  unfold wtr_step. destruct rest as [|r0 r1]; [intros H; injection H as <- <-; cbn; lia|]. cbv beta iota.
  destruct (negb (rd p)).
  - intros H. injection H as <- <-. cbn [wtr_w length]. lia.
  - 
    remember (r0 :: r1) as rr eqn:Er. assert (1 <= length rr) as L1 by (subst rr; cbn [length]; lia). clear Er.
    destruct (free p =? 0) eqn:F; [discriminate|]. apply Nat.eqb_neq in F. intros H. injection H as <- <-.
    remember (pick k (Nat.min (length rr) (free p))) as m eqn:Em.
    assert (1 <= m <= length rr) as Hm.
    { subst m. split; [apply pick_pos; lia|]. pose proof (pick_le k (Nat.min (length rr) (free p))). lia. }
    clear Em. unfold push. cbn [buf wtr_w]. rewrite app_length, firstn_length, skipn_length. lia.
Qed.

Lemma wtr_step_same p rest k p' h' : wtr_step p rest k = Some (p', h') -> cap p' = cap p /\ wr p' = wr p /\ rd p' = rd p.
Proof. unfold wtr_step. intros H. break_hyp H; try discriminate; injection H as <- <-; cbn; auto. Qed.

Lemma rdr_step_w p k p' m : rdr_step p k = Some (p', m) ->
  3 * length (buf p') + rdr_w (Some (RHold m)) < 3 * length (buf p) + rdr_w (Some RRun).
Proof.
  assert (1 <= CHUNK) as HC1 by (unfold CHUNK; lia). unfold rdr_step. revert HC1. generalize CHUNK as ch. intros ch HC1.
  destruct (buf p) as [|b0 bs] eqn:B.
  - destruct (wr p); [discriminate|]. intros H. injection H as <- <-. rewrite B. cbn. lia.
  - cbv beta iota. assert (1 <= length (buf p)) as L1 by (rewrite B; cbn [length]; lia). rewrite <- B.
    intros H. injection H as <- <-.
    remember (pick k (Nat.min ch (length (buf p)))) as n eqn:En.
    assert (1 <= n <= length (buf p)) as Hn.
    { subst n. split; [apply pick_pos; lia|]. pose proof (pick_le k (Nat.min ch (length (buf p)))). lia. }
    clear En. unfold pop. cbn [buf rdr_w]. rewrite skipn_length. lia.
Qed.

Theorem win_step_decreases s ch s' : not_start ch -> wstep s ch = Some s' -> wmu s' < wmu s.
Proof.
  intros NS H. destruct ch as [st k|st| | |k|lim dl|]; cbn [wstep] in H; try contradiction.
  - (* a helper *)
    unfold helper_step in H. destruct st.
    + destruct (h_in s) as [[rest|m|]|] eqn:Hi; try discriminate.
      destruct (wtr_step (pin (kw s)) rest k) as [[p' h']|] eqn:W; [|discriminate]. injection H as <-.
      pose proof (wtr_step_w _ _ _ _ _ W). unfold wmu, main_w, Mw. cbn [set_h_in kw h_in h_out h_err call]. wsimpl. rewrite Hi. lia.
    + destruct (h_out s) as [[|m|]|] eqn:Ho; try discriminate.
      destruct (rdr_step (pout (kw s)) k) as [[p' m]|] eqn:R; [|discriminate]. injection H as <-.
      pose proof (rdr_step_w _ _ _ _ R). unfold wmu, main_w, Mw. cbn [set_h_out kw h_in h_out h_err call]. wsimpl. rewrite Ho. lia.
    + destruct (h_err s) as [[|m|]|] eqn:Ho; try discriminate.
      destruct (rdr_step (perr (kw s)) k) as [[p' m]|] eqn:R; [|discriminate]. injection H as <-.
      pose proof (rdr_step_w _ _ _ _ R). unfold wmu, main_w, Mw. cbn [set_h_err kw h_in h_out h_err call]. wsimpl. rewrite Ho. lia.
  - (* a rendezvous *)
    unfold recv in H. destruct (in_loop s) as [c|] eqn:IL; [|discriminate]. destruct (in_loop_spec _ _ IL) as [Hc Hp].
    destruct st.
    + destruct (h_in s) as [[rest|[b| |e]|]|] eqn:Hi; try discriminate; injection H as <-;
        unfold wmu, main_w, Mw; cbn [set_call set_phase set_h_in kw h_in h_out h_err call m_phase]; wsimpl; rewrite Hi, ?Hc, ?Hp; cbn [wtr_w]; lia.
    + destruct (h_out s) as [[|[b| |e]|]|] eqn:Ho; try discriminate.
      * destruct (grow c SOut b) as [[c' l'] go] eqn:G. injection H as <-. pose proof (grow_phase _ _ _ _ _ _ G) as Gp.
        unfold wmu, main_w, Mw. cbn [set_left set_call set_phase set_h_out kw h_in h_out h_err call m_phase]. rewrite Ho, Hc, Hp. cbn [rdr_w].
        destruct go; lia.
      * injection H as <-. unfold wmu, main_w, Mw. cbn [kw h_in h_out h_err call]. rewrite Ho, Hc, Hp. cbn [rdr_w]. lia.
      * injection H as <-. unfold wmu, main_w, Mw. cbn [set_call set_phase set_h_out kw h_in h_out h_err call m_phase]. rewrite Ho, Hc, Hp. cbn [rdr_w]. lia.
    + destruct (h_err s) as [[|[b| |e]|]|] eqn:Ho; try discriminate.
      * destruct (grow c SErr b) as [[c' l'] go] eqn:G. injection H as <-.
        unfold wmu, main_w, Mw. cbn [set_left set_call set_phase set_h_err kw h_in h_out h_err call m_phase]. rewrite Ho, Hc, Hp. cbn [rdr_w].
        destruct go; lia.
      * injection H as <-. unfold wmu, main_w, Mw. cbn [kw h_in h_out h_err call]. rewrite Ho, Hc, Hp. cbn [rdr_w]. lia.
      * injection H as <-. unfold wmu, main_w, Mw. cbn [set_call set_phase set_h_err kw h_in h_out h_err call m_phase]. rewrite Ho, Hc, Hp. cbn [rdr_w]. lia.
  - (* the receiving thread's own steps *)
    unfold main_tau in H. destruct (call s) as [c|] eqn:Hc; [|discriminate]. destruct (m_phase c) eqn:Hp; try discriminate.
    + destruct (leftover s) as [[st data]|].
      * destruct (grow c st data) as [[c' l'] go] eqn:G. injection H as <-.
        unfold wmu, main_w. cbn [set_left set_phase kw h_in h_out h_err call m_phase]. rewrite Hc, Hp. destruct go; lia.
      * injection H as <-. unfold wmu, main_w. cbn [set_call set_phase kw h_in h_out h_err call m_phase]. rewrite Hc, Hp. lia.
    + destruct (negb (set_in s) && negb (set_out s) && negb (set_err s)); [|discriminate]. injection H as <-.
      unfold wmu, main_w. cbn [set_call set_phase kw h_in h_out h_err call m_phase]. rewrite Hc, Hp. lia.
  - unfold timeout in H. destruct (in_loop s) as [c|] eqn:IL; [|discriminate]. destruct (in_loop_spec _ _ IL) as [Hc Hp].
    destruct (m_deadline c); [|discriminate]. injection H as <-.
    unfold wmu, main_w. cbn [set_call set_phase kw h_in h_out h_err call m_phase]. rewrite Hc, Hp. lia.
  - (* the child *)
    destruct (child_step (kw s) k) as [w'| |] eqn:E.
    + injection H as <-. pose proof (child_step_Mw _ _ _ E). unfold wmu, main_w. cbn [with_kw kw h_in h_out h_err call]. lia.
    + destruct (prog (kw s)) as [|o r] eqn:Pg; [discriminate|]. destruct o; try discriminate. injection H as <-.
      unfold wmu, main_w, Mw. cbn [with_kw kw h_in h_out h_err call]. wsimpl. rewrite Pg. cbn [prog_w cop_w]. lia.
    + discriminate.
  - destruct (finish s) as [[s1 r]|] eqn:F; [|discriminate]. injection H as <-.
    unfold finish in F. destruct (call s) as [c|] eqn:Hc; [|discriminate]. destruct (m_phase c) eqn:Hp; try discriminate.
    injection F as <- _. unfold wmu, main_w. cbn [kw h_in h_out h_err call]. rewrite Hc, Hp. lia.
Qed.

(* hence a read() is over after at most wmu steps of all parties together, whatever the schedule *)
Theorem win_read_bounded : forall chs s s', Forall not_start chs -> wrun s chs = Some s' -> length chs + wmu s' <= wmu s.
Proof.
  induction chs as [|ch r IH]; intros s s' F H; cbn [wrun] in H.
  - injection H as <-. cbn. lia.
  - destruct (wstep s ch) as [s1|] eqn:E; [|discriminate]. inversion F as [|? ? F1 F2]; subst.
    pose proof (win_step_decreases _ _ _ F1 E). specialize (IH _ _ F2 H). cbn [length]. lia.
Qed.

(* ---------- C01 for the thread variant: never stuck ---------- *)

Definition rdr_active (h : option rdr) : bool := match h with Some RRun | Some (RHold _) => true | _ => false end.
Definition wtr_active (h : option wtr) : bool := match h with Some (WRun _) | Some (WHold _) => true | _ => false end.

Record WLive (s : wsys) : Prop := {
  l_out : set_out s = rdr_active (h_out s);
  l_err : set_err s = rdr_active (h_err s);
  l_in : set_in s = wtr_active (h_in s);
  l_cap : 1 <= cap (pin (kw s)) /\ 1 <= cap (pout (kw s)) /\ 1 <= cap (perr (kw s));
  l_dead : alive (kw s) = false -> wr (pout (kw s)) = false /\ wr (perr (kw s)) = false /\ rd (pin (kw s)) = false;
  l_eof_out : (h_out s = Some RGone \/ h_out s = Some (RHold PEof)) -> wr (pout (kw s)) = false;
  l_eof_err : (h_err s = Some RGone \/ h_err s = Some (RHold PEof)) -> wr (perr (kw s)) = false;
  l_gone_in : h_in s = Some WGone -> wr (pin (kw s)) = false;
  l_none : (h_in s = None -> piped_in (kw s) = false) /\ (h_out s = None -> piped_out (kw s) = false) /\ (h_err s = None -> piped_err (kw s) = false);
  l_msgs : (forall b, h_in s <> Some (WHold (PData b))) /\ (forall e, h_out s <> Some (RHold (PFail e))) /\ (forall e, h_err s <> Some (RHold (PFail e)))
}.

Lemma child_step_flags w k w' : child_step w k = CStep w' ->
  cap (pin w') = cap (pin w) /\ cap (pout w') = cap (pout w) /\ cap (perr w') = cap (perr w)
  /\ (wr (pout w) = false -> wr (pout w') = false) /\ (wr (perr w) = false -> wr (perr w') = false)
  /\ wr (pin w') = wr (pin w)
  /\ (rd (pin w) = false -> rd (pin w') = false)
  /\ (alive w' = false -> wr (pout w') = false /\ wr (perr w') = false /\ rd (pin w') = false)
  /\ alive w = true.
Proof.
  unfold child_step. intros H. destruct (alive w) eqn:A; cbn [negb] in H; [|discriminate].
  break_hyp H; try discriminate; injection H as <-;
    repeat match goal with st : stream |- _ => destruct st end; wsimpl; rewrite ?A;
    repeat split; auto; try discriminate; try (intros X; discriminate X); intros; congruence.
Qed.

Lemma wlive_init (pi po pe : bool) (ci co ce : nat) child input : 1 <= ci -> 1 <= co -> 1 <= ce -> WLive (winit pi po pe ci co ce child input).
Proof.
  intros A B C. unfold winit.
  constructor; cbn [kw h_in h_out h_err set_in set_out set_err init_world pin pout perr mk_pipe cap wr rd alive piped_in piped_out piped_err];
    destruct pi, po, pe; cbn; repeat split; auto; try (intros; discriminate);
    try (intros [X|X]; discriminate X); try (intros b X; discriminate X).
Qed.

Ltac live_fields H := destruct H as [Lo Le Li [Lc1 [Lc2 Lc3]] Ld Leo Lee Lgi [Ln1 [Ln2 Ln3]] [Lm1 [Lm2 Lm3]]].

Ltac live_close :=
  repeat split; auto; try discriminate; intros;
  repeat match goal with
         | X : _ \/ _ |- _ => destruct X
         | X : Some _ = Some _ |- _ => try discriminate X
         end; try discriminate; try congruence; eauto.

Theorem wlive_step s ch s' : WLive s -> wstep s ch = Some s' -> WLive s'.
Proof.
  intros HL H. live_fields HL. destruct ch as [st k|st| | |k|lim dl|]; cbn [wstep] in H.
  - (* helpers *)
    unfold helper_step in H. destruct st.
    + destruct (h_in s) as [[rest|m|]|] eqn:Hi; try discriminate.
      destruct (wtr_step (pin (kw s)) rest k) as [[p' h']|] eqn:W; [|discriminate]. injection H as <-.
      destruct (wtr_step_same _ _ _ _ _ W) as [S1 [S2 S3]].
      assert (h' = WHold (PFail EPIPE) \/ h' = WHold PEof \/ exists r, h' = WRun r) as Hh.
      { unfold wtr_step in W. break_hyp W; try discriminate; injection W as _ <-; eauto. }
      constructor; cbn [set_h_in kw h_in h_out h_err set_in set_out set_err]; wsimpl; rewrite ?S1, ?S2, ?S3; auto.
      all: try (rewrite Li; destruct Hh as [->|[->|[r ->]]]; reflexivity).
      all: try (intros X; destruct Hh as [->|[->|[r ->]]]; discriminate X).
      all: try (repeat split; auto; intros; destruct Hh as [->|[->|[r ->]]]; discriminate).
    + destruct (h_out s) as [[|m|]|] eqn:Ho; try discriminate.
      destruct (rdr_step (pout (kw s)) k) as [[p' m]|] eqn:R; [|discriminate]. injection H as <-.
      assert (cap p' = cap (pout (kw s)) /\ wr p' = wr (pout (kw s)) /\ (m = PEof -> wr (pout (kw s)) = false) /\ (forall e, m <> PFail e)) as [S1 [S2 [S3 S4]]].
      { unfold rdr_step in R. break_hyp R; try discriminate; injection R as <- <-; cbn; repeat split; auto; try discriminate; intros; discriminate. }
      constructor; cbn [set_h_out kw h_in h_out h_err set_in set_out set_err]; wsimpl; rewrite ?S1, ?S2; auto.
      all: try (intros [X|X]; [discriminate X|]; injection X as ->; apply S3; reflexivity).
      all: try (repeat split; auto; intros; try discriminate; intros X; injection X as X; eapply S4; exact X).
    + destruct (h_err s) as [[|m|]|] eqn:Ho; try discriminate.
      destruct (rdr_step (perr (kw s)) k) as [[p' m]|] eqn:R; [|discriminate]. injection H as <-.
      assert (cap p' = cap (perr (kw s)) /\ wr p' = wr (perr (kw s)) /\ (m = PEof -> wr (perr (kw s)) = false) /\ (forall e, m <> PFail e)) as [S1 [S2 [S3 S4]]].
      { unfold rdr_step in R. break_hyp R; try discriminate; injection R as <- <-; cbn; repeat split; auto; try discriminate; intros; discriminate. }
      constructor; cbn [set_h_err kw h_in h_out h_err set_in set_out set_err]; wsimpl; rewrite ?S1, ?S2; auto.
      all: try (intros [X|X]; [discriminate X|]; injection X as ->; apply S3; reflexivity).
      all: try (repeat split; auto; intros; try discriminate; intros X; injection X as X; eapply S4; exact X).
  - (* rendezvous *)
    unfold recv in H. destruct (in_loop s) as [c|] eqn:IL; [|discriminate]. destruct st.
    + destruct (h_in s) as [[rest|[b| |e]|]|] eqn:Hi; try discriminate; injection H as <-;
        (constructor; cbn [set_call set_phase set_h_in kw h_in h_out h_err set_in set_out set_err]; wsimpl; auto; live_close).
    + destruct (h_out s) as [[|[b| |e]|]|] eqn:Ho; try discriminate.
      * destruct (grow c SOut b) as [[c' l'] go]. injection H as <-.
        constructor; cbn [set_left set_call set_phase set_h_out kw h_in h_out h_err set_in set_out set_err]; wsimpl; auto; live_close.
      * injection H as <-. constructor; cbn [kw h_in h_out h_err set_in set_out set_err]; wsimpl; auto; live_close.
      * exfalso. apply (Lm2 e). reflexivity.
    + destruct (h_err s) as [[|[b| |e]|]|] eqn:Ho; try discriminate.
      * destruct (grow c SErr b) as [[c' l'] go]. injection H as <-.
        constructor; cbn [set_left set_call set_phase set_h_err kw h_in h_out h_err set_in set_out set_err]; wsimpl; auto; live_close.
      * injection H as <-. constructor; cbn [kw h_in h_out h_err set_in set_out set_err]; wsimpl; auto; live_close.
      * exfalso. apply (Lm3 e). reflexivity.
  - unfold main_tau in H. break_hyp H; try discriminate; injection H as <-;
      (constructor; cbn [set_left set_call set_phase kw h_in h_out h_err set_in set_out set_err]; auto).
  - unfold timeout in H. break_hyp H; try discriminate; injection H as <-;
      (constructor; cbn [set_left set_call set_phase kw h_in h_out h_err set_in set_out set_err]; auto).
  - destruct (child_step (kw s) k) as [w'| |] eqn:E.
    + injection H as <-. destruct (child_step_flags _ _ _ E) as [F1 [F2 [F3 [F4 [F5 [F6 [F7 [F8 F9]]]]]]]].
      destruct (child_step_piped _ _ _ E) as [P1 [P2 P3]].
      constructor; cbn [with_kw kw h_in h_out h_err set_in set_out set_err]; rewrite ?F1, ?F2, ?F3, ?F6, ?P1, ?P2, ?P3; auto.
    + destruct (prog (kw s)) as [|o r] eqn:Pg; [discriminate|]. destruct o; try discriminate. injection H as <-.
      constructor; cbn [with_kw kw h_in h_out h_err set_in set_out set_err]; wsimpl; auto.
    + discriminate.
  - unfold start_read in H. break_hyp H; try discriminate; injection H as <-;
      (constructor; cbn [set_call kw h_in h_out h_err set_in set_out set_err]; auto).
  - destruct (finish s) as [[s1 r]|] eqn:F; [|discriminate]. injection H as <-.
    unfold finish in F. destruct (call s) as [c|]; [|discriminate]. destruct (m_phase c); try discriminate. injection F as <- _.
    constructor; cbn [kw h_in h_out h_err set_in set_out set_err]; auto.
Qed.

Definition progress_choice (ch : wchoice) : Prop := match ch with WStart _ _ | WTimeout => False | _ => True end.

Lemma recv_enabled_out s c m : in_loop s = Some c -> h_out s = Some (RHold m) -> (forall e, m <> PFail e) -> recv s SOut <> None.
Proof.
  intros IL Ho Nf. unfold recv. rewrite IL, Ho. destruct m as [b| |e]; try discriminate.
  destruct (grow c SOut b) as [[c' l'] go]. discriminate.
Qed.

Lemma recv_enabled_err s c m : in_loop s = Some c -> h_err s = Some (RHold m) -> (forall e, m <> PFail e) -> recv s SErr <> None.
Proof.
  intros IL Ho Nf. unfold recv. rewrite IL, Ho. destruct m as [b| |e]; try discriminate.
  destruct (grow c SErr b) as [[c' l'] go]. discriminate.
Qed.

Lemma recv_enabled_in s c m : in_loop s = Some c -> h_in s = Some (WHold m) -> (forall b, m <> PData b) -> recv s SIn <> None.
Proof.
  intros IL Hi Nd. unfold recv. rewrite IL, Hi. destruct m as [b| |e]; try discriminate. exfalso. apply (Nd b). reflexivity.
Qed.

(* a helper that is running either can make a step or is blocked on the child *)
Lemma rdr_blocked p : rdr_step p 0 = None -> buf p = [] /\ wr p = true.
Proof. unfold rdr_step. destruct (buf p); [destruct (wr p); [auto|discriminate]|discriminate]. Qed.

Lemma wtr_blocked p rest : wtr_step p rest 0 = None -> rd p = true /\ free p = 0 /\ rest <> [].
Proof.
  unfold wtr_step. destruct rest; [discriminate|]. destruct (rd p); cbn [negb]; [|discriminate].
  destruct (free p =? 0) eqn:F; [|discriminate]. apply Nat.eqb_eq in F. intros _. repeat split; auto. discriminate.
Qed.

(* while the child lives, something can always move: the child itself, or the helper / rendezvous it is waiting for *)
Lemma alive_progress s c : WLive s -> in_loop s = Some c -> alive (kw s) = true ->
  exists ch, progress_choice ch /\ wstep s ch <> None.
Proof.
  intros HL IL A. live_fields HL.
  destruct (child_step (kw s) 0) as [w'| |] eqn:E.
  - exists (WChild 0). split; [exact I|]. cbn [wstep]. rewrite E. discriminate.
  - (* the child is blocked *)
    unfold child_step in E. rewrite A in E. cbn [negb] in E.
    destruct (prog (kw s)) as [|o r] eqn:Pg; [discriminate|]. destruct o as [n|st bytes|st|ns|t|]; try discriminate.
    + (* reading an empty stdin whose writer is still there *)
      destruct (negb (piped_in (kw s)) || negb (rd (pin (kw s)))) eqn:G; [discriminate|].
      apply orb_false_iff in G. destruct G as [G1 G2]. apply negb_false_iff in G1. apply negb_false_iff in G2.
      destruct (buf (pin (kw s))) eqn:B; [|discriminate]. destruct (wr (pin (kw s))) eqn:W; [|discriminate].
      destruct (h_in s) as [[rest|m|]|] eqn:Hi.
      * exists (WHelper SIn 0). split; [exact I|]. cbn [wstep]. unfold helper_step. rewrite Hi.
        destruct (wtr_step (pin (kw s)) rest 0) as [[p' h']|] eqn:Ws; [discriminate|].
        destruct (wtr_blocked _ _ Ws) as [_ [F _]]. unfold free in F. rewrite B in F. cbn [length] in F. lia.
      * exists (WRecv SIn). split; [exact I|]. cbn [wstep]. apply (recv_enabled_in s c m IL Hi). intros b X. subst m. apply (Lm1 b). reflexivity.
      * specialize (Lgi eq_refl). congruence.
      * specialize (Ln1 eq_refl). congruence.
    + (* writing to a full pipe *)
      destruct bytes as [|b0 bytes]; [discriminate|].
      destruct st.
      * (* SIn counts as stdout in K *)
        destruct (negb (piped_out (kw s)) || negb (wr (pout (kw s)))) eqn:G; [discriminate|].
        apply orb_false_iff in G. destruct G as [G1 G2]. apply negb_false_iff in G1. apply negb_false_iff in G2.
        destruct (negb (rd (pout (kw s)))); [discriminate|]. destruct (free (pout (kw s)) =? 0) eqn:F; [|discriminate]. apply Nat.eqb_eq in F.
        destruct (h_out s) as [[|m|]|] eqn:Ho.
        -- exists (WHelper SOut 0). split; [exact I|]. cbn [wstep]. unfold helper_step. rewrite Ho.
           destruct (rdr_step (pout (kw s)) 0) as [[p' m]|] eqn:Rs; [discriminate|].
           destruct (rdr_blocked _ Rs) as [B _]. unfold free in F. rewrite B in F. cbn [length] in F. lia.
        -- exists (WRecv SOut). split; [exact I|]. cbn [wstep]. apply (recv_enabled_out s c m IL Ho). intros e X. subst m. apply (Lm2 e). reflexivity.
        -- specialize (Leo (or_introl eq_refl)). congruence.
        -- specialize (Ln2 eq_refl). congruence.
      * destruct (negb (piped_out (kw s)) || negb (wr (pout (kw s)))) eqn:G; [discriminate|].
        apply orb_false_iff in G. destruct G as [G1 G2]. apply negb_false_iff in G1. apply negb_false_iff in G2.
        destruct (negb (rd (pout (kw s)))); [discriminate|]. destruct (free (pout (kw s)) =? 0) eqn:F; [|discriminate]. apply Nat.eqb_eq in F.
        destruct (h_out s) as [[|m|]|] eqn:Ho.
        -- exists (WHelper SOut 0). split; [exact I|]. cbn [wstep]. unfold helper_step. rewrite Ho.
           destruct (rdr_step (pout (kw s)) 0) as [[p' m]|] eqn:Rs; [discriminate|].
           destruct (rdr_blocked _ Rs) as [B _]. unfold free in F. rewrite B in F. cbn [length] in F. lia.
        -- exists (WRecv SOut). split; [exact I|]. cbn [wstep]. apply (recv_enabled_out s c m IL Ho). intros e X. subst m. apply (Lm2 e). reflexivity.
        -- specialize (Leo (or_introl eq_refl)). congruence.
        -- specialize (Ln2 eq_refl). congruence.
      * destruct (negb (piped_err (kw s)) || negb (wr (perr (kw s)))) eqn:G; [discriminate|].
        apply orb_false_iff in G. destruct G as [G1 G2]. apply negb_false_iff in G1. apply negb_false_iff in G2.
        destruct (negb (rd (perr (kw s)))); [discriminate|]. destruct (free (perr (kw s)) =? 0) eqn:F; [|discriminate]. apply Nat.eqb_eq in F.
        destruct (h_err s) as [[|m|]|] eqn:Ho.
        -- exists (WHelper SErr 0). split; [exact I|]. cbn [wstep]. unfold helper_step. rewrite Ho.
           destruct (rdr_step (perr (kw s)) 0) as [[p' m]|] eqn:Rs; [discriminate|].
           destruct (rdr_blocked _ Rs) as [B _]. unfold free in F. rewrite B in F. cbn [length] in F. lia.
        -- exists (WRecv SErr). split; [exact I|]. cbn [wstep]. apply (recv_enabled_err s c m IL Ho). intros e X. subst m. apply (Lm3 e). reflexivity.
        -- specialize (Lee (or_introl eq_refl)). congruence.
        -- specialize (Ln3 eq_refl). congruence.
    + (* a sleep: time passes *)
      destruct (t <=? now (kw s))%N; [discriminate|]. exists (WChild 0). split; [exact I|]. cbn [wstep].
      unfold child_step. rewrite A, Pg. cbn [negb]. destruct (t <=? now (kw s))%N; discriminate.
  - unfold child_step in E. rewrite A in E. cbn [negb] in E. break_hyp E; discriminate.
Qed.

(* C01: while a read() is in progress the system is never stuck: some party other than the clock can move *)
Theorem win_never_stuck s : WLive s -> call s <> None -> exists ch, progress_choice ch /\ wstep s ch <> None.
Proof.
  intros HL Hc. destruct (call s) as [c|] eqn:Ec; [|congruence].
  destruct (m_phase c) eqn:Ph.
  - exists WTau. split; [exact I|]. cbn [wstep]. unfold main_tau. rewrite Ec, Ph.
    destruct (leftover s) as [[st d]|]; [destruct (grow c st d) as [[c' l'] go]|]; discriminate.
  - destruct (negb (set_in s) && negb (set_out s) && negb (set_err s)) eqn:Z.
    + exists WTau. split; [exact I|]. cbn [wstep]. unfold main_tau. rewrite Ec, Ph, Z. discriminate.
    + assert (in_loop s = Some c) as IL by (unfold in_loop; rewrite Ec, Ph, Z; reflexivity).
      pose proof HL as HL0. live_fields HL.
      destruct (alive (kw s)) eqn:A; [apply (alive_progress s c HL0 IL A)|].
      destruct (Ld eq_refl) as [D1 [D2 D3]].
      (* the child is gone: every running helper can finish, every holding helper can deliver *)
      destruct (set_out s) eqn:So.
      { destruct (h_out s) as [[|m|]|] eqn:Ho; cbn [rdr_active] in Lo; try discriminate Lo.
        - exists (WHelper SOut 0). split; [exact I|]. cbn [wstep]. unfold helper_step. rewrite Ho.
          destruct (rdr_step (pout (kw s)) 0) as [[p' m]|] eqn:Rs; [discriminate|]. destruct (rdr_blocked _ Rs) as [_ W]. congruence.
        - exists (WRecv SOut). split; [exact I|]. cbn [wstep]. apply (recv_enabled_out s c m IL Ho). intros e X. subst m. apply (Lm2 e). reflexivity. }
      destruct (set_err s) eqn:Se.
      { destruct (h_err s) as [[|m|]|] eqn:Ho; cbn [rdr_active] in Le; try discriminate Le.
        - exists (WHelper SErr 0). split; [exact I|]. cbn [wstep]. unfold helper_step. rewrite Ho.
          destruct (rdr_step (perr (kw s)) 0) as [[p' m]|] eqn:Rs; [discriminate|]. destruct (rdr_blocked _ Rs) as [_ W]. congruence.
        - exists (WRecv SErr). split; [exact I|]. cbn [wstep]. apply (recv_enabled_err s c m IL Ho). intros e X. subst m. apply (Lm3 e). reflexivity. }
      destruct (set_in s) eqn:Si; [|discriminate Z].
      destruct (h_in s) as [[rest|m|]|] eqn:Hi; cbn [wtr_active] in Li; try discriminate Li.
      * exists (WHelper SIn 0). split; [exact I|]. cbn [wstep]. unfold helper_step. rewrite Hi.
        destruct (wtr_step (pin (kw s)) rest 0) as [[p' h']|] eqn:Ws; [discriminate|]. destruct (wtr_blocked _ _ Ws) as [R _]. congruence.
      * exists (WRecv SIn). split; [exact I|]. cbn [wstep]. apply (recv_enabled_in s c m IL Hi). intros b X. subst m. apply (Lm1 b). reflexivity.
  - exists WFinish. split; [exact I|]. cbn [wstep]. unfold finish. rewrite Ec, Ph. discriminate.
Qed.

Theorem wlive_reachable (pi po pe : bool) (ci co ce : nat) child input : 1 <= ci -> 1 <= co -> 1 <= ce ->
  forall chs s, wrun (winit pi po pe ci co ce child input) chs = Some s -> WLive s.
Proof.
  intros A B C chs. generalize (wlive_init pi po pe ci co ce child input A B C). generalize (winit pi po pe ci co ce child input).
  induction chs as [|ch r IH]; intros s0 HL s H; cbn [wrun] in H.
  - injection H as <-. exact HL.
  - destruct (wstep s0 ch) as [s1|] eqn:E; [|discriminate]. apply (IH s1); [eapply wlive_step; eassumption|exact H].
Qed.
