(* Proofs for C20: assemble_cmdline round-trips through the Microsoft parsing rules. *)
From Coq Require Import List NArith Bool Arith Lia.
Require Import SP.Params SP.Base.Str SP.Base.StrFacts SP.Lib.WinCmdline SP.Lib.MsParse.
Import ListNotations.
Open Scope N_scope.

Lemma even_double n : Nat.even (2 * n) = true.
Proof. induction n as [|n IH]; [reflexivity|]. replace (2 * S n)%nat with (S (S (2 * n))) by lia. exact IH. Qed.
Lemma even_double1 n : Nat.even (2 * n + 1) = false.
Proof. induction n as [|n IH]; [reflexivity|]. replace (2 * S n + 1)%nat with (S (S (2 * n + 1))) by lia. exact IH. Qed.
Lemma div2_double n : Nat.div2 (2 * n) = n.
Proof. induction n as [|n IH]; [reflexivity|]. replace (2 * S n)%nat with (S (S (2 * n))) by lia. cbn [Nat.div2]. f_equal. exact IH. Qed.
Lemma div2_double1 n : Nat.div2 (2 * n + 1) = n.
Proof. induction n as [|n IH]; [reflexivity|]. replace (2 * S n + 1)%nat with (S (S (2 * n + 1))) by lia. cbn [Nat.div2]. f_equal. exact IH. Qed.

Section Parser.
Variable dq : N.

Lemma parse_bs m : forall t inq k cur acc,
  parse dq (repeat 92 m ++ t) inq k (Some cur) acc = parse dq t inq (m + k) (Some cur) acc.
Proof.
  induction m as [|m IH]; intros t inq k cur acc; [reflexivity|].
  cbn [repeat app parse]. change (92 =? 92) with true. cbn iota. cbn [cur_of].
  rewrite IH. f_equal. lia.
Qed.

Definition after_arg (rest : str) : Prop := rest = [] \/ exists m, rest = 32 :: m.

Lemma parse_close rest k cur acc : after_arg rest -> Nat.even k = true ->
  parse dq (34 :: rest) true k (Some cur) acc = parse dq rest false 0 (Some (flush (Nat.div2 k) cur)) acc.
Proof.
  intros [->|[m ->]] Hk; cbn [parse cur_of]; change (34 =? 92) with false; change (34 =? 34) with true;
    cbn iota; rewrite Hk; reflexivity.
Qed.

(* inside a quoted part: the body emitted by append_quoted's loop followed by the closing quote *)
Lemma parse_quoted s : forall n cur rest acc, after_arg rest ->
  parse dq (quote_body s n ++ 34 :: rest) true 0 (Some cur) acc
  = parse dq rest false 0 (Some (rev s ++ repeat 92 n ++ cur)) acc.
Proof.
  induction s as [|c s IH]; intros n cur rest acc Hr.
  - cbn [quote_body rev app]. unfold u_bslash. rewrite parse_bs. rewrite Nat.add_0_r.
    rewrite parse_close by (auto using even_double). rewrite div2_double. reflexivity.
  - cbn [quote_body]. unfold u_bslash, u_dquote.
    destruct (c =? 92) eqn:E92.
    + apply N.eqb_eq in E92. subst c. rewrite IH by exact Hr.
      cbn [rev repeat]. rewrite <- !app_assoc. reflexivity.
    + destruct (c =? 34) eqn:E34.
      * apply N.eqb_eq in E34. subst c. rewrite <- app_assoc. rewrite parse_bs. rewrite Nat.add_0_r.
        cbn [app parse cur_of]. change (34 =? 92) with false. change (34 =? 34) with true. cbn iota.
        rewrite even_double1, div2_double1. rewrite IH by exact Hr.
        cbn [rev repeat app]. unfold flush. rewrite <- !app_assoc. reflexivity.
      * rewrite <- app_assoc. rewrite parse_bs. rewrite Nat.add_0_r.
        cbn [app parse cur_of]. rewrite E92, E34. rewrite andb_false_r.
        rewrite IH by exact Hr. cbn [rev repeat app]. unfold flush. rewrite <- !app_assoc. reflexivity.
Qed.

Definition plainc (c : N) : bool := negb (c =? 34) && negb (is_ws c).

(* outside quotes, a string without quotes and white space is taken literally *)
Lemma parse_plain s : forallb plainc s = true -> forall k cur rest acc,
  exists k' cur', parse dq (s ++ rest) false k (Some cur) acc = parse dq rest false k' (Some cur') acc
                  /\ flush k' cur' = rev s ++ flush k cur.
Proof.
  induction s as [|c s IH]; intros H k cur rest acc.
  - exists k, cur. split; reflexivity.
  - cbn [forallb] in H. apply andb_true_iff in H. destruct H as [Hc Hs].
    unfold plainc in Hc. apply andb_true_iff in Hc. destruct Hc as [H34 Hws].
    apply negb_true_iff in H34. apply negb_true_iff in Hws.
    cbn [app parse cur_of]. destruct (c =? 92) eqn:E92.
    + apply N.eqb_eq in E92. subst c.
      destruct (IH Hs (S k) cur rest acc) as [k' [cur' [He Hf]]].
      exists k', cur'. split; [exact He|]. rewrite Hf. unfold flush. cbn [rev repeat app].
      rewrite <- !app_assoc. reflexivity.
    + rewrite H34, Hws. cbn [andb].
      destruct (IH Hs 0%nat (c :: flush k cur) rest acc) as [k' [cur' [He Hf]]].
      exists k', cur'. split; [exact He|]. rewrite Hf. unfold flush at 1. cbn [rev repeat app].
      rewrite <- !app_assoc. reflexivity.
Qed.

Lemma parse_start c r acc : is_ws c = false ->
  parse dq (c :: r) false 0 None acc = parse dq (c :: r) false 0 (Some []) acc.
Proof.
  intros H. cbn [parse cur_of]. destruct (c =? 92); [reflexivity|]. destruct (c =? 34); [reflexivity|].
  rewrite H. reflexivity.
Qed.

Lemma parse_open r acc : parse dq (34 :: r) false 0 None acc = parse dq r true 0 (Some []) acc.
Proof.
  cbn [parse cur_of]. change (34 =? 92) with false. change (34 =? 34) with true. cbn iota.
  cbn [Nat.even Nat.div2 flush repeat app negb].
  destruct r as [|c2 r']; [reflexivity|]. rewrite !andb_false_r. reflexivity.
Qed.

Lemma parse_after rest k cur acc : after_arg rest ->
  parse dq rest false k (Some cur) acc =
  match rest with [] => rev (rev (flush k cur) :: acc) | _ :: m => parse dq m false 0 None (rev (flush k cur) :: acc) end.
Proof. intros [->|[m ->]]; reflexivity. Qed.

(* the quote set of the code covers everything the parsers treat specially outside quotes *)
Lemma quote_set_covers : forallb (fun c => existsb (N.eqb c) win_quote_set) [32; 9; 34] = true.
Proof. vm_compute. reflexivity. Qed.

Lemma unquoted_plain a : needs_quote a = false -> a <> [] /\ forallb plainc a = true.
Proof.
  unfold needs_quote. destruct a as [|c a]; [discriminate|]. intros H. split; [discriminate|].
  apply forallb_forall. intros x Hx.
  assert (existsb (N.eqb x) win_quote_set = false) as Hq.
  { destruct (existsb (N.eqb x) win_quote_set) eqn:E; [|reflexivity].
    rewrite <- H. symmetry. apply existsb_exists. exists x. split; [exact Hx|exact E]. }
  pose proof quote_set_covers as Hc. rewrite forallb_forall in Hc.
  unfold plainc, is_ws.
  destruct (x =? 34) eqn:E1; [apply N.eqb_eq in E1; subst x; rewrite (Hc 34) in Hq by (cbn; auto); discriminate|].
  destruct (x =? 32) eqn:E2; [apply N.eqb_eq in E2; subst x; rewrite (Hc 32) in Hq by (cbn; auto); discriminate|].
  destruct (x =? 9) eqn:E3; [apply N.eqb_eq in E3; subst x; rewrite (Hc 9) in Hq by (cbn; auto); discriminate|].
  reflexivity.
Qed.

Lemma parse_one_arg a rest acc : after_arg rest ->
  parse dq (append_quoted a ++ rest) false 0 None acc =
  match rest with [] => rev (a :: acc) | _ :: m => parse dq m false 0 None (a :: acc) end.
Proof.
  intros Hr. unfold append_quoted. destruct (needs_quote a) eqn:Q.
  - unfold u_dquote. cbn [app]. rewrite <- app_assoc. cbn [app]. rewrite parse_open.
    rewrite parse_quoted by exact Hr. rewrite parse_after by exact Hr.
    cbn [repeat app flush]. rewrite app_nil_r, rev_involutive. reflexivity.
  - destruct (unquoted_plain a Q) as [Hne Hp]. destruct a as [|c a]; [congruence|].
    assert (is_ws c = false) as Hws.
    { cbn [forallb] in Hp. apply andb_true_iff in Hp. destruct Hp as [Hc _]. unfold plainc in Hc.
      apply andb_true_iff in Hc. destruct Hc as [_ Hc]. apply negb_true_iff in Hc. exact Hc. }
    cbn [app]. rewrite parse_start by exact Hws.
    destruct (parse_plain (c :: a) Hp 0%nat [] rest acc) as [k' [cur' [He Hf]]].
    refine (eq_trans He _).
    rewrite parse_after by exact Hr. rewrite Hf. cbn [flush repeat app]. rewrite app_nil_r, rev_involutive.
    reflexivity.
Qed.

Lemma parse_join args : forall acc,
  parse dq (join [32] (map append_quoted args)) false 0 None acc = rev acc ++ args.
Proof.
  induction args as [|a args IH]; intros acc.
  - cbn. rewrite app_nil_r. reflexivity.
  - destruct args as [|b args].
    + cbn [map join]. rewrite <- (app_nil_r (append_quoted a)).
      rewrite parse_one_arg by (left; reflexivity). reflexivity.
    + cbn [map]. rewrite join_cons2. cbn [app].
      rewrite parse_one_arg by (right; eexists; reflexivity).
      change (append_quoted b :: map append_quoted args) with (map append_quoted (b :: args)).
      rewrite IH. cbn [rev]. rewrite <- app_assoc. reflexivity.
Qed.

Theorem roundtrip argv cl : assemble_cmdline argv = Some cl -> parse_args dq cl = argv.
Proof.
  unfold assemble_cmdline. destruct (existsb has_nul argv); [discriminate|].
  intros H. injection H as <-. unfold parse_args. rewrite parse_join. reflexivity.
Qed.

End Parser.

Theorem nul_rejected argv : (exists a, In a argv /\ In 0 a) <-> assemble_cmdline argv = None.
Proof.
  unfold assemble_cmdline. split.
  - intros [a [Ha H0]]. assert (existsb has_nul argv = true) as ->; [|reflexivity].
    apply existsb_exists. exists a. split; [exact Ha|]. unfold has_nul. apply In_existsb_eqb. exact H0.
  - destruct (existsb has_nul argv) eqn:E; [|discriminate]. intros _.
    apply existsb_exists in E. destruct E as [a [Ha Hn]]. exists a. split; [exact Ha|].
    unfold has_nul in Hn. apply existsb_eqb_In in Hn. exact Hn.
Qed.

Theorem nul_free_accepted argv : (forall a, In a argv -> ~ In 0 a) -> exists cl, assemble_cmdline argv = Some cl.
Proof.
  intros H. destruct (assemble_cmdline argv) eqn:E; [eexists; reflexivity|].
  apply nul_rejected in E. destruct E as [a [Ha H0]]. exfalso. exact (H a Ha H0).
Qed.

(* backslash runs: n backslashes followed by a quote, at the end, or elsewhere, come back as n *)
Corollary backslash_runs dq n (x : N) :
  parse_args dq (join [32] (map append_quoted [repeat 92 n ++ [34]; repeat 92 n; repeat 92 n ++ [x]; [97; 32] ++ repeat 92 n]))
  = [repeat 92 n ++ [34]; repeat 92 n; repeat 92 n ++ [x]; [97; 32] ++ repeat 92 n].
Proof. unfold parse_args. rewrite parse_join. reflexivity. Qed.

(* program-name rule: a name without a double quote that, when it needs quoting, does not end in a
   backslash, is recovered by the program-name parser, and the rest of the line is untouched *)
Lemma until_quote_plain s : forallb (fun c => negb (c =? 34)) s = true -> forall rest,
  until_quote (s ++ 34 :: rest) = (s, rest).
Proof.
  induction s as [|c s IH]; intros H rest; [reflexivity|].
  cbn [forallb] in H. apply andb_true_iff in H. destruct H as [Hc Hs]. apply negb_true_iff in Hc.
  cbn [app until_quote]. rewrite Hc. rewrite IH by exact Hs. reflexivity.
Qed.

Lemma until_ws_plain s : forallb (fun c => negb (is_ws c)) s = true -> forall rest, after_arg rest ->
  until_ws (s ++ rest) = (s, rest).
Proof.
  induction s as [|c s IH]; intros H rest Hr.
  - destruct Hr as [->|[m ->]]; reflexivity.
  - cbn [forallb] in H. apply andb_true_iff in H. destruct H as [Hc Hs]. apply negb_true_iff in Hc.
    cbn [app until_ws]. rewrite Hc. rewrite IH by assumption. reflexivity.
Qed.

(* no backslash at all: the loop copies the string *)
Lemma quote_body_plain s : forallb (fun c => negb (c =? 34) && negb (c =? 92)) s = true -> quote_body s 0 = s.
Proof.
  induction s as [|c s IH]; intros H; [reflexivity|].
  cbn [forallb] in H. apply andb_true_iff in H. destruct H as [Hc Hs].
  apply andb_true_iff in Hc. destruct Hc as [H34 H92]. apply negb_true_iff in H34. apply negb_true_iff in H92.
  cbn [quote_body]. unfold u_bslash, u_dquote. rewrite H92, H34. cbn [repeat app]. f_equal. auto.
Qed.

Theorem progname_roundtrip_partial p rest : after_arg rest ->
  forallb (fun c => negb (c =? 34) && negb (c =? 92)) p = true ->
  parse_progname (append_quoted p ++ rest) = (p, rest).
Proof.
  intros Hr Hp. unfold append_quoted. destruct (needs_quote p) eqn:Q.
  - rewrite quote_body_plain by exact Hp. unfold u_dquote. cbn [app]. rewrite <- app_assoc. cbn [app parse_progname].
    apply until_quote_plain. apply forallb_forall. intros x Hx. rewrite forallb_forall in Hp.
    specialize (Hp x Hx). apply andb_true_iff in Hp. tauto.
  - destruct (unquoted_plain p Q) as [Hne Hpl]. destruct p as [|c p]; [congruence|].
    assert (c =? 34 = false) as H34.
    { cbn [forallb] in Hp. apply andb_true_iff in Hp. destruct Hp as [Hc _]. apply andb_true_iff in Hc.
      destruct Hc as [Hc _]. apply negb_true_iff in Hc. exact Hc. }
    assert (parse_progname ((c :: p) ++ rest) = until_ws ((c :: p) ++ rest)) as ->.
    { cbn [app parse_progname]. destruct c as [|q]; [reflexivity|].
      destruct (N.eqb_spec (N.pos q) 34) as [E|E]; [discriminate|].
      repeat (destruct q as [q|q|]; try reflexivity); congruence. }
    apply until_ws_plain; [|exact Hr]. apply forallb_forall. intros x Hx. rewrite forallb_forall in Hpl.
    specialize (Hpl x Hx). unfold plainc in Hpl. apply andb_true_iff in Hpl. tauto.
Qed.

(* ---------- program name with backslashes (no double quote): exact characterisation ---------- *)

(* trailing backslashes of (n backslashes followed by s) *)
Fixpoint tb (s : str) (n : nat) : nat :=
  match s with
  | [] => n
  | c :: r => if c =? 92 then tb r (S n) else tb r 0
  end.

Lemma repeat_S_app (x : N) n l : repeat x (S n) ++ l = repeat x n ++ x :: l.
Proof. cbn [repeat]. rewrite repeat_cons, <- app_assoc. reflexivity. Qed.

(* without a double quote the loop copies the string and doubles only the trailing run *)
Lemma quote_body_noquote : forall s n, forallb (fun c => negb (c =? 34)) s = true ->
  quote_body s n = repeat 92 n ++ s ++ repeat 92 (tb s n).
Proof.
  induction s as [|c s IH]; intros n H.
  - cbn [quote_body tb app]. unfold u_bslash. replace (2 * n)%nat with (n + n)%nat by lia. apply repeat_app.
  - cbn [forallb] in H. apply andb_true_iff in H. destruct H as [Hc Hs]. apply negb_true_iff in Hc.
    cbn [quote_body tb]. unfold u_bslash, u_dquote. destruct (N.eqb_spec c 92) as [->|N92].
    + rewrite (IH _ Hs). rewrite repeat_S_app. reflexivity.
    + rewrite Hc. rewrite (IH _ Hs). cbn [repeat app]. reflexivity.
Qed.

Lemma forallb_repeat_noquote n : forallb (fun c => negb (c =? 34)) (repeat 92 n) = true.
Proof. induction n as [|n IH]; [reflexivity|]. cbn [repeat forallb]. rewrite IH. reflexivity. Qed.

Theorem progname_exact p rest : after_arg rest ->
  forallb (fun c => negb (c =? 34)) p = true ->
  parse_progname (append_quoted p ++ rest) = (p ++ (if needs_quote p then repeat 92 (tb p 0) else []), rest).
Proof.
  intros Hr Hp. unfold append_quoted. destruct (needs_quote p) eqn:Q.
  - rewrite (quote_body_noquote _ _ Hp). unfold u_dquote. cbn [repeat app]. rewrite <- app_assoc. cbn [app parse_progname].
    apply until_quote_plain. rewrite forallb_app, Hp, forallb_repeat_noquote. reflexivity.
  - rewrite app_nil_r. destruct (unquoted_plain p Q) as [Hne Hpl]. destruct p as [|c p]; [congruence|].
    assert (c =? 34 = false) as H34.
    { cbn [forallb] in Hp. apply andb_true_iff in Hp. destruct Hp as [Hc _]. apply negb_true_iff in Hc. exact Hc. }
    assert (parse_progname ((c :: p) ++ rest) = until_ws ((c :: p) ++ rest)) as ->.
    { cbn [app parse_progname]. destruct c as [|q]; [reflexivity|].
      destruct (N.eqb_spec (N.pos q) 34) as [E|E]; [discriminate|].
      repeat (destruct q as [q|q|]; try reflexivity); congruence. }
    apply until_ws_plain; [|exact Hr]. apply forallb_forall. intros x Hx. rewrite forallb_forall in Hpl.
    specialize (Hpl x Hx). unfold plainc in Hpl. apply andb_true_iff in Hpl. tauto.
Qed.

(* hence: a name without a double quote round-trips through the program-name rule iff it needs no quoting
   or does not end in a backslash *)
Corollary progname_roundtrip_iff p rest : after_arg rest ->
  forallb (fun c => negb (c =? 34)) p = true ->
  (parse_progname (append_quoted p ++ rest) = (p, rest) <-> needs_quote p = false \/ tb p 0 = 0%nat).
Proof.
  intros Hr Hp. rewrite (progname_exact _ _ Hr Hp). destruct (needs_quote p).
  - split.
    + intros E. right. injection E as E.
      assert (repeat 92 (tb p 0) = []) as E' by (apply (app_inv_head p); rewrite app_nil_r; exact E).
      destruct (tb p 0); [reflexivity|discriminate].
    + intros [E|E]; [discriminate|]. rewrite E. cbn [repeat]. rewrite app_nil_r. reflexivity.
  - rewrite app_nil_r. split; [intros _; left; reflexivity|reflexivity].
Qed.
