(* C01 -- Communicate always terminates: parent and child never deadlock.
   G (Kernel/CommSys.v) is the closed system: the library model L (Lib/Comm.v) || a scripted child ||
   the kernel model K (Kernel/CommK.v), with every interleaving (GParent/GChild choices) and every kernel
   freedom (how many bytes a read/write moves, POLLOUT in the partially filled zone) an explicit choice.
   Only statements here; proofs live in Proofs/Comm*.v. *)
From Coq Require Import List NArith Bool.
Require SP.Lib.WinComm SP.Proofs.WinCommProofs.
Require Import SP.Params SP.Lib.Comm SP.Kernel.CommK SP.Kernel.CommSys
               SP.Proofs.CommBase SP.Proofs.CommReady SP.Proofs.CommInv SP.Proofs.CommTerm SP.Proofs.CommThms.
Import ListNotations.

(* the invariant holds initially, for every subset of piped streams, every pipe capacity >= PIPE_BUF, every
   finite child program, every input and every size limit, and is preserved by every step of every party *)
Theorem C01_invariant_initially :
  forall pi po pe ci co ce child input lim tl,
    (PIPE_BUF <= ci)%nat -> (PIPE_BUF <= co)%nat -> (PIPE_BUF <= ce)%nat ->
    Inv (ginit pi po pe ci co ce child input lim tl).
Proof. exact inv_init. Qed.
Print Assumptions C01_invariant_initially.

Theorem C01_invariant_preserved : forall g ch g', Inv g -> gstep g ch = Some g' -> Inv g'.
Proof. exact inv_step. Qed.
Print Assumptions C01_invariant_preserved.

(* every step of EITHER party strictly decreases a natural-number measure: no fairness assumption, all
   schedules are covered at once *)
Theorem C01_measure_decreases :
  forall g ch g', Inv g -> NoLimit g -> in_call ch -> gstep g ch = Some g' -> NoLimit g' /\ (mu g' < mu g)%nat.
Proof. exact step_nolimit. Qed.
Print Assumptions C01_measure_decreases.

(* hence every schedule of a call is finite: at most mu g steps *)
Theorem C01_every_schedule_finite :
  forall g chs g', Inv g -> NoLimit g -> Forall in_call chs -> grun g chs = Some g' ->
    (length chs + mu g' <= mu g)%nat /\ Inv g' /\ NoLimit g'.
Proof. exact comm_run_bounded. Qed.
Print Assumptions C01_every_schedule_finite.

(* while the parent is inside the call somebody can move: it is never blocked on one pipe while the
   child is blocked on another.  (This is where WRITE_SIZE <= PIPE_BUF enters.) *)
Theorem C01_never_stuck :
  forall g c, Inv g -> NoLimit g -> ga g = Call c ->
    (exists k zone g', gstep g (GParent k zone 0) = Some g') \/ (exists g', gstep g (GChild 0) = Some g').
Proof. exact comm_never_stuck. Qed.
Print Assumptions C01_never_stuck.

(* once the child has exited (all its ends closed) the parent alone runs to its return *)
Theorem C01_returns_after_child_done :
  forall g c, Inv g -> NoLimit g -> ga g = Call c -> alive (gw g) = false ->
    exists k zone g', gstep g (GParent k zone 0) = Some g'.
Proof. exact comm_parent_runs_after_child_done. Qed.
Print Assumptions C01_returns_after_child_done.

(* a stream that reached end-of-file stays retired for the rest of the call and is neither polled nor read *)
Theorem C01_retired_stays_retired :
  forall g ch g', in_call ch -> gstep g ch = Some g' ->
    (oref (gl g) = false -> oref (gl g') = false) /\ (eref (gl g) = false -> eref (gl g') = false).
Proof. exact retired_stays_retired. Qed.
Print Assumptions C01_retired_stays_retired.

Theorem C01_no_io_on_retired_stream :
  forall g, Inv g ->
    (forall fi fo fe t, ga g = Call (KPoll fi fo fe t) -> fo = oref (gl g) /\ fe = eref (gl g) /\ fi = c_in (cm (gl g))) /\
    (forall n, ga g = Call (KRead SOut n) -> oref (gl g) = true) /\
    (forall n, ga g = Call (KRead SErr n) -> eref (gl g) = true) /\
    (forall b, ga g = Call (KWrite b) -> c_in (cm (gl g)) = true).
Proof. exact no_io_on_retired_stream. Qed.
Print Assumptions C01_no_io_on_retired_stream.

(* the side condition from the source: the write chunk fits the atomic pipe write *)
Theorem C01_write_chunk_fits : (N.to_nat WRITE_SIZE <= PIPE_BUF)%nat.
Proof. exact write_chunk_fits. Qed.
Print Assumptions C01_write_chunk_fits.

(* Non-vacuity: all three streams piped, 5000 bytes of input against a child that first writes 5000 bytes
   and only then reads: the initial state satisfies the hypotheses and a 12-step schedule is executable. *)
Module Win.
Import SP.Lib.WinComm SP.Proofs.WinCommProofs.
Local Open Scope nat_scope.
(* ---- the cfg(windows) variant: one helper thread per stream and a rendezvous channel (Lib/WinComm.v) ---- *)

(* every step of every party (helper threads, receiving thread, child) decreases a measure: a read() is over after
   at most wmu steps, whatever the schedule *)
Theorem C01_win_read_bounded : forall chs s s', Forall not_start chs -> wrun s chs = Some s' -> (length chs + wmu s' <= wmu s)%nat.
Proof. exact win_read_bounded. Qed.
Print Assumptions C01_win_read_bounded.

(* while a read() is in progress the system is never stuck: a helper, the receiving thread or the child can move
   (the clock is not needed).  Holds since the repair of F17: a failed helper leaves helper_set. *)
Theorem C01_win_never_stuck : forall s, WLive s -> call s <> None -> exists ch, progress_choice ch /\ wstep s ch <> None.
Proof. exact win_never_stuck. Qed.
Print Assumptions C01_win_never_stuck.

Theorem C01_win_live_reachable : forall (pi po pe : bool) (ci co ce : nat) child input, (1 <= ci)%nat -> (1 <= co)%nat -> (1 <= ce)%nat ->
  forall chs s, wrun (winit pi po pe ci co ce child input) chs = Some s -> WLive s.
Proof. exact wlive_reachable. Qed.
Print Assumptions C01_win_live_reachable.

End Win.

Example C01_nonvacuous :
  let g0 := ginit true true true 4096 4096 4096
                  [CWrite SOut (repeat 7%N 5000); CRead 100000; CWrite SErr [1%N]] (repeat 9%N 5000) None None in
  Inv g0 /\ NoLimit g0 /\
  exists g, grun g0 [GChild 0; GParent 0 true 0; GParent 0 true 0; GParent 0 true 0; GChild 0; GChild 0;
                     GParent 0 true 0; GParent 0 true 0; GChild 0; GParent 0 true 0; GParent 0 true 0; GParent 0 true 0] = Some g
            /\ (0 < length (outv (gl g)))%nat.
Proof.
  cbv zeta. split; [apply inv_init; unfold PIPE_BUF; repeat constructor|].
  split; [apply init_nolimit|]. eexists. split; [vm_compute; reflexivity|]. vm_compute. repeat constructor.
Qed.
