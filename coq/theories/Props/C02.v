(* C02 -- Communicate moves bytes exactly: output verbatim, input once, then EOF.
   Ghost state of K records what the child's successful writes put on each stream (wrote_out, wrote_err)
   and what it read from stdin (child_got); G records what earlier read() calls returned (gdout, gderr).
   Short reads and short writes are the kernel's choices k, universally quantified through gstep. *)
From Coq Require Import List NArith Bool.
Require SP.Lib.WinComm SP.Proofs.WinCommProofs.
Require Import SP.Params SP.Lib.Comm SP.Kernel.CommK SP.Kernel.CommSys
               SP.Proofs.CommBase SP.Proofs.CommReady SP.Proofs.CommInv SP.Proofs.CommTerm SP.Proofs.CommThms.
Import ListNotations.

(* at EVERY reachable state, under limits and timeouts too: per stream, what was returned so far, what this
   call holds and what is still in the pipe concatenate to exactly what the child wrote; what the child got,
   what is in the stdin pipe and what is still to be written concatenate to exactly the supplied input.
   Nothing lost, duplicated, reordered or moved to the other stream. *)
Theorem C02_bytes_exact_everywhere :
  forall g0 chs g, Inv g0 -> grun g0 chs = Some g ->
    (piped_out (gw g) = true -> gdout g ++ outv (gl g) ++ buf (pout (gw g)) = wrote_out (gw g)) /\
    (piped_err (gw g) = true -> gderr g ++ errv (gl g) ++ buf (perr (gw g)) = wrote_err (gw g)) /\
    (piped_in (gw g) = true -> child_got (gw g) ++ buf (pin (gw g)) ++ c_input (cm (gl g)) = ginput0 g) /\
    (piped_out (gw g) = false -> outv (gl g) = []) /\ (piped_err (gw g) = false -> errv (gl g) = []).
Proof.
  intros g0 chs g H0 Hr. destruct (bytes_exact_everywhere g (inv_reachable g0 chs g H0 Hr)) as [A B C D E]. auto.
Qed.
Print Assumptions C02_bytes_exact_everywhere.

(* an unlimited read that returns Ok returned exactly the bytes the child wrote, each captured stream is at
   end-of-file, stdin is closed with the whole input handed over; a child that reads to EOF got all of it *)
Theorem C02_ok_is_complete :
  forall g, Inv g -> ga g = Ret None -> limit (gl g) = None ->
    (piped_out (gw g) = true -> gdout g ++ outv (gl g) = wrote_out (gw g) /\ wr (pout (gw g)) = false /\ buf (pout (gw g)) = []) /\
    (piped_err (gw g) = true -> gderr g ++ errv (gl g) = wrote_err (gw g) /\ wr (perr (gw g)) = false /\ buf (perr (gw g)) = []) /\
    (piped_in (gw g) = true -> wr (pin (gw g)) = false /\ c_input (cm (gl g)) = [] /\ child_got (gw g) ++ buf (pin (gw g)) = ginput0 g) /\
    (piped_in (gw g) = true -> child_eof (gw g) = true -> child_got (gw g) = ginput0 g).
Proof. exact ok_unlimited_is_complete. Qed.
Print Assumptions C02_ok_is_complete.

(* a stream that was not piped is reported as absent, a piped one as present *)
Theorem C02_optionness :
  forall g, Inv g ->
    (fst (output (gl g)) = None <-> piped_out (gw g) = false) /\ (snd (output (gl g)) = None <-> piped_err (gw g) = false).
Proof. exact optionness. Qed.
Print Assumptions C02_optionness.

(* end-of-file immediately after the last input byte, even while output is still being produced: the very
   next call after the write that exhausted the input is close(stdin) *)
Theorem C02_eof_immediately :
  forall g k zone dur g' b,
    Inv g -> ga g = Call (KWrite b) -> gstep g (GParent k zone dur) = Some g' ->
    (forall e, ga g' <> Ret e) -> c_input (cm (gl g')) = [] -> c_in (cm (gl g')) = true ->
    ga g' = Call KClose.
Proof. exact eof_immediately. Qed.
Print Assumptions C02_eof_immediately.

(* ... and the input is not withheld while output is being produced: when poll reports stdin writable the next
   call is the write of the next chunk, whatever the output streams report in the same round *)
Theorem C02_writable_stdin_is_written : forall s pdl ovf cnt rin rout rerr,
  pc s = PPoll pdl ovf -> c_in (cm s) = true -> (cnt <> 0%N \/ ovf = false) ->
  test rin (N.lor POLLOUT (N.lor POLLHUP POLLERR)) = true ->
  exists s', step s (RPoll cnt rin rout rerr) = (s', Call (KWrite (firstn (N.to_nat WRITE_SIZE) (c_input (cm s))))).
Proof. exact writable_stdin_is_written. Qed.
Print Assumptions C02_writable_stdin_is_written.

Module Win.
Import SP.Lib.WinComm SP.Proofs.WinCommProofs.
Local Open Scope nat_scope.
(* ---- the cfg(windows) thread variant ---- *)
Theorem C02_win_bytes_exact : forall (pi po pe : bool) (ci co ce : nat) (child : list cop) (input : list N) chs s,
  Forall good_choice chs -> wrun (winit pi po pe ci co ce child input) chs = Some s ->
  (po = true -> seen_out s ++ buf (pout (kw s)) = wrote_out (kw s))
  /\ (pe = true -> seen_err s ++ buf (perr (kw s)) = wrote_err (kw s))
  /\ (pi = true -> exists rest, child_got (kw s) ++ buf (pin (kw s)) ++ rest = input
                               /\ (forall r, h_in s = Some (WRun r) -> rest = r) /\ (h_in s = Some (WHold PEof) -> rest = [])).
Proof. exact win_bytes_exact. Qed.
Print Assumptions C02_win_bytes_exact.

Theorem C02_win_optionness : forall s s' r o e, finish s = Some (s', (r, o, e)) ->
  (o = None <-> h_out s = None) /\ (e = None <-> h_err s = None).
Proof. exact win_optionness. Qed.
Print Assumptions C02_win_optionness.

End Win.

Example C02_nonvacuous :
  let g0 := ginit true true false 4096 4096 4096 [CRead 3; CWrite SOut [5;6;7]%N; CRead 10] [1;2;3;4]%N None None in
  exists g, grun g0 [GParent 0 true 0; GParent 0 true 0; GParent 0 true 0; GChild 0; GChild 0; GParent 0 true 0;
                     GChild 0; GChild 0; GParent 0 true 0] = Some g
            /\ ga g = Ret None /\ outv (gl g) = [5;6;7]%N /\ child_got (gw g) = [1;2;3;4]%N.
Proof. cbv zeta. eexists. split; [vm_compute; reflexivity|]. vm_compute. auto. Qed.
