(* C03 -- Size limit bounds each read; no data lost or repeated across reads.
   Histories of read() calls are GStart choices of G: each starts a new call with an arbitrary limit. *)
From Coq Require Import List NArith Bool.
Require SP.Lib.WinComm SP.Proofs.WinCommProofs.
Require Import SP.Params SP.Lib.Comm SP.Kernel.CommK SP.Kernel.CommSys
               SP.Proofs.CommBase SP.Proofs.CommReady SP.Proofs.CommInv SP.Proofs.CommTerm SP.Proofs.CommThms.
Import ListNotations.

(* with a size limit l, at every instant of the call (hence at its return) stdout + stderr bytes <= l,
   for every l, every child and every interleaving *)
Theorem C03_limit_respected :
  forall g0 chs g l, Inv g0 -> grun g0 chs = Some g -> limit (gl g) = Some l -> (total (gl g) <= l)%N.
Proof. intros g0 chs g l H0 Hr. apply limit_respected. exact (inv_reachable g0 chs g H0 Hr). Qed.
Print Assumptions C03_limit_respected.

(* successive reads, with limits changing arbitrarily between calls (GStart choices anywhere in chs), return
   consecutive non-overlapping pieces: earlier results ++ this call's data ++ what is still in the pipe
   is exactly what the child wrote -- so nothing beyond the limit is consumed and lost, and the input
   that was not yet delivered is still queued, exactly once *)
Theorem C03_reads_partition :
  forall g0 chs g, Inv g0 -> grun g0 chs = Some g ->
    (piped_out (gw g) = true -> gdout g ++ outv (gl g) ++ buf (pout (gw g)) = wrote_out (gw g)) /\
    (piped_err (gw g) = true -> gderr g ++ errv (gl g) ++ buf (perr (gw g)) = wrote_err (gw g)) /\
    (piped_in (gw g) = true -> child_got (gw g) ++ buf (pin (gw g)) ++ c_input (cm (gl g)) = ginput0 g).
Proof.
  intros g0 chs g H0 Hr. destruct (bytes_exact_everywhere g (inv_reachable g0 chs g H0 Hr)) as [A B C D E]. auto.
Qed.
Print Assumptions C03_reads_partition.

(* the read size handed to the kernel never exceeds the remaining allowance *)
Theorem C03_read_clipped :
  forall s n l, read_size s = Some n -> limit s = Some l -> (total s + n <= l)%N.
Proof. intros s n l H Hl. exact (read_size_bound s n H l Hl). Qed.
Print Assumptions C03_read_clipped.

(* a successful read with limit n >= 1 returns all-empty data only when stdin is done and every captured
   stream has reached end-of-file *)
Theorem C03_empty_means_eof :
  forall g l, Inv g -> ga g = Ret None -> limit (gl g) = Some l -> (1 <= l)%N -> outv (gl g) = [] -> errv (gl g) = [] ->
    c_in (cm (gl g)) = false /\
    (piped_out (gw g) = true -> wr (pout (gw g)) = false /\ buf (pout (gw g)) = []) /\
    (piped_err (gw g) = true -> wr (perr (gw g)) = false /\ buf (perr (gw g)) = []).
Proof. exact empty_means_eof. Qed.
Print Assumptions C03_empty_means_eof.

Module Win.
Import SP.Lib.WinComm SP.Proofs.WinCommProofs.
Local Open Scope nat_scope.
(* ---- the cfg(windows) thread variant: the limit (n >= 1) holds at every instant of a read ---- *)
Theorem C03_win_limit_respected : forall (pi po pe : bool) (ci co ce : nat) (child : list cop) (input : list N) chs s c lim,
  Forall good_choice chs -> wrun (winit pi po pe ci co ce child input) chs = Some s ->
  call s = Some c -> m_limit c = Some lim -> (length (WinComm.m_out c) + length (WinComm.m_err c) <= lim)%nat.
Proof. exact win_limit_respected. Qed.
Print Assumptions C03_win_limit_respected.

End Win.

Example C03_nonvacuous :
  let g0 := ginit false true false 4096 4096 4096 [CWrite SOut [5;6;7;8;9]%N] [] (Some 2%N) None in
  exists g, grun g0 [GChild 0; GParent 0 true 0; GStart (Some 2%N) None; GParent 0 true 0; GStart (Some 10%N) None;
                     GParent 0 true 0; GChild 0; GParent 0 true 0] = Some g
            /\ gdout g = [5;6;7;8]%N /\ outv (gl g) = [9]%N /\ ga g = Ret None.
Proof. cbv zeta. eexists. split; [vm_compute; reflexivity|]. vm_compute. auto. Qed.
