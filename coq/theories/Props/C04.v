(* C04 -- Time limit honoured for any child, reported truthfully, reads resumable.
   Proved here: a timeout is never reported when no limit was set (this is what the repair of F1 --
   POLLERR on stdin -- establishes); the argument handed to poll() is always within 0..i32::MAX ms for
   every duration; a timed-out call leaves the communicator resumable with nothing lost or repeated
   (C04_resume_exact is the byte invariant across arbitrary histories of timed-out and successful calls).
   C04_timeout_truthful: in the closed system with K's clock (every call takes an arbitrary duration, a poll
   that finds nothing ready returns no earlier than its timeout) TimedOut is returned only when less than one
   millisecond is missing to the deadline, the deadline being the call's first clock reading plus the limit.
   PARTIAL: "returns no later than t plus one bounded I/O step" is not a theorem (with adversarial call
   durations it is a statement about the number of calls after the deadline; the overflow loop of
   posix::poll makes that number depend on the durations); it is checked by the E1 monitors on the real code
   under the virtual clock. *)
From Coq Require Import List NArith ZArith Bool.
Require SP.Lib.WinComm SP.Proofs.WinCommProofs.
Require Import SP.Params SP.Lib.Comm SP.Kernel.CommK SP.Kernel.CommSys
               SP.Proofs.CommBase SP.Proofs.CommReady SP.Proofs.CommInv SP.Proofs.CommTerm SP.Proofs.CommThms SP.Proofs.CommTime.
Import ListNotations.

Theorem C04_never_timeout_without_limit :
  forall pi po pe ci co ce child input lim chs g,
    (PIPE_BUF <= ci)%nat -> (PIPE_BUF <= co)%nat -> (PIPE_BUF <= ce)%nat -> Forall in_call chs ->
    grun (ginit pi po pe ci co ce child input lim None) chs = Some g -> ga g <> Ret (Some ETimedOut).
Proof. exact no_limit_no_timeout. Qed.
Print Assumptions C04_never_timeout_without_limit.

Theorem C04_never_timeout_step :
  forall g ch g', Inv g -> NT g -> in_call ch -> gstep g ch = Some g' -> NT g'.
Proof. exact never_timeout_without_limit. Qed.
Print Assumptions C04_never_timeout_step.

(* for every timeout, from 0 to far beyond the OS limit: the value passed to poll() is in 0..2^31-1 ms *)
Theorem C04_poll_argument_in_range :
  forall s t d,
    match snd (emit_poll s t d) with
    | Call (KPoll _ _ _ ms) => (0 <= ms <= Z.of_N POLL_CLAMP_MS)%Z
    | _ => False
    end.
Proof. exact poll_argument_in_range. Qed.
Print Assumptions C04_poll_argument_in_range.

(* the timeout error carries what was captured during that call and later reads resume exactly where the
   exchange stopped: across ANY sequence of timed-out and successful reads no output byte is lost or
   repeated and the undelivered rest of the input is still queued exactly once *)
Theorem C04_resume_exact :
  forall g0 chs g, Inv g0 -> grun g0 chs = Some g ->
    (piped_out (gw g) = true -> gdout g ++ outv (gl g) ++ buf (pout (gw g)) = wrote_out (gw g)) /\
    (piped_err (gw g) = true -> gderr g ++ errv (gl g) ++ buf (perr (gw g)) = wrote_err (gw g)) /\
    (piped_in (gw g) = true -> child_got (gw g) ++ buf (pin (gw g)) ++ c_input (cm (gl g)) = ginput0 g).
Proof.
  intros g0 chs g H0 Hr. destruct (bytes_exact_everywhere g (inv_reachable g0 chs g H0 Hr)) as [A B C D E]. auto.
Qed.
Print Assumptions C04_resume_exact.

(* every step is possible from a timed-out state too: the invariant (hence resumability) is kept by GStart
   after ANY return value *)
Theorem C04_restart_after_any_return :
  forall g lim tl g', Inv g -> gstep g (GStart lim tl) = Some g' -> Inv g'.
Proof. intros g lim tl g'. apply inv_step. Qed.
Print Assumptions C04_restart_after_any_return.

(* a timeout is reported only if the limit has really elapsed, to the millisecond granularity of the OS wait *)
Theorem C04_timeout_truthful :
  forall pi po pe ci co ce child input lim tl chs g,
    (PIPE_BUF <= ci)%nat -> (PIPE_BUF <= co)%nat -> (PIPE_BUF <= ce)%nat ->
    grun (ginit pi po pe ci co ce child input lim tl) chs = Some g ->
    ga g = Ret (Some ETimedOut) ->
    forall d, deadline (gl g) = Some d -> (d < now (gw g) + 1000000)%N.
Proof. exact timeout_truthful. Qed.
Print Assumptions C04_timeout_truthful.

Theorem C04_deadline_is_start_plus_limit :
  forall g k zone dur g' tl,
    pc (gl g) = PStart tl -> ga g = Call KClock -> gstep g (GParent k zone dur) = Some g' ->
    deadline (gl g') = Some (now (gw g) + dur + tl)%N.
Proof. exact deadline_is_start_plus_limit. Qed.
Print Assumptions C04_deadline_is_start_plus_limit.

(* a poll interrupted by a signal handler of the caller (EINTR), like any failing call, ends the read with that error
   at once: it is not reported as a timeout and is not answered by waiting again with the old timeout *)
Theorem C04_syscall_error_ends_read : forall s e, step s (RErr e) = ret s (Some (EOs e)).
Proof. exact syscall_error_ends_read. Qed.
Print Assumptions C04_syscall_error_ends_read.

Module Win.
Import SP.Lib.WinComm SP.Proofs.WinCommProofs.
Local Open Scope nat_scope.
(* ---- the cfg(windows) thread variant ---- *)
Theorem C04_win_no_timeout_without_deadline : forall (pi po pe : bool) (ci co ce : nat) (child : list cop) (input : list N) chs s c,
  Forall good_choice chs -> wrun (winit pi po pe ci co ce child input) chs = Some s ->
  call s = Some c -> m_phase c = MDone WTimedOut -> m_deadline c = true.
Proof. exact win_no_timeout_without_deadline. Qed.
Print Assumptions C04_win_no_timeout_without_deadline.

End Win.

Example C04_nonvacuous :
  let g0 := ginit false true false 4096 4096 4096 [CSleep 5000000; CWrite SOut [5;6]%N] [] None (Some 1000000%N) in
  exists g, grun g0 [GParent 0 true 0; GParent 0 true 0; GParent 0 true 0; GParent 0 true 0] = Some g
            /\ ga g = Ret (Some ETimedOut) /\ now (gw g) = 1000000%N.
Proof. cbv zeta. eexists. split; [vm_compute; reflexivity|]. vm_compute. auto. Qed.
