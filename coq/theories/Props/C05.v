(* C05 -- Every redirection combination wires child streams to the requested objects.
   Model: Lib/Spawn.v (Popen::create / os_start / setup_streams / do_exec with explicit ownership) on a
   kernel model of descriptor tables whose descriptors are tagged atoms (std 0..2, caller files, fresh).
   The statements are exhaustive evaluations over the finite configuration space listed in
   Proofs/SpawnProofs.v (6 x 6 x 7 redirection kinds incl. one file shared by several streams and merge
   onto inherited / piped / file-backed streams; detached or not; every option subset on representative
   redirections); they are universal in the actual descriptor numbers, argv, env, cwd. *)
From Coq Require Import List NArith Bool Arith.
Require Import SP.Lib.Spawn SP.Proofs.SpawnProofs.
Import ListNotations.

(* valid combinations: the child's 0,1,2 refer to exactly the requested open file (parent's own stream /
   peer of the pipe end on the Popen / the file passed / the other output stream for merge) and the Popen
   exposes a handle iff the stream was piped; invalid combinations (merge for stdin, merge for both
   outputs): logic error, no fork, no descriptor left *)
Theorem C05_wiring_exact : forall c, In c (configs_full ++ configs_opts) -> wiring_ok c = true.
Proof. exact wiring_exact. Qed.
Print Assumptions C05_wiring_exact.

(* whatever fails, wherever: the parent's own 0,1,2 are never closed or altered, and the cached handles
   of the standard streams keep at least two strong references (so no thread exit or later spawn closes them) *)
Theorem C05_parent_std_untouched :
  forall c f, In c (configs_full ++ configs_opts) -> In f (faults_e 13) -> std_untouched f c = true.
Proof. exact parent_std_untouched. Qed.
Print Assumptions C05_parent_std_untouched.

Theorem C05_space : length configs_full = 504 /\ length configs_opts = 32 /\ length (faults_e 13) = 26.
Proof. exact sizes. Qed.
Print Assumptions C05_space.

Example C05_nonvacuous :
  In (mk RPipe RPipe RMerge true true true true false false 1) (configs_full ++ configs_opts)
  /\ wiring_ok (mk RPipe RPipe RMerge true true true true false false 1) = true
  /\ invalid (mk RNone RMerge RMerge true true true true false false 1) = true.
Proof. split; [vm_compute; tauto|]. split; vm_compute; reflexivity. Qed.
