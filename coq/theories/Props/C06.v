(* C06 -- the child gets exactly the requested argv, program, environment, cwd and identity.
   prepare (Lib/ExecArgs.v) is the function from a request to what is handed to execve; the byte strings
   are arbitrary lists over N (any length, any count), so the statements below are for every input. *)
From Coq Require Import List NArith Bool Arith.
Require Import SP.Base.Str SP.Lib.Env SP.Lib.Path SP.Lib.ExecArgs SP.Lib.Spawn.
Require Import SP.Proofs.EnvProofs SP.Proofs.ExecArgsProofs SP.Proofs.SpawnProofs.
Import ListNotations.
Local Open Scope N_scope.

(* argv byte for byte, environment = the last binding of each name, cwd as given; the candidates are
   computed from the executable when one is named and from the first argument otherwise *)
Theorem C06_prepare_exact : forall r p,
  prepare r = PPlan p ->
  p_argv p = r_argv r
  /\ p_envp p = option_map (fun env => map fmt_kv (keep_last str_eqb env)) (r_env r)
  /\ p_cwd p = r_cwd r
  /\ exists a0 rest, r_argv r = a0 :: rest
     /\ let cmd := match r_exe r with Some e => e | None => a0 end in
        p_cands p = candidates cmd (search_path_of cmd (r_path r)).
Proof. exact prepare_exact. Qed.
Print Assumptions C06_prepare_exact.

Theorem C06_argv0_is_program_name : forall r p, prepare r = PPlan p -> hd_error (p_argv p) = hd_error (r_argv r).
Proof. exact argv0_is_program_name. Qed.
Print Assumptions C06_argv0_is_program_name.

(* the later of duplicate names wins; a name that was not listed is not set *)
Theorem C06_child_env_view : forall r p env k,
  prepare r = PPlan p -> r_env r = Some env ->
  Forall (fun kv => ~ In 61 (fst kv)) env -> ~ In 61 k ->
  exists envp, p_envp p = Some envp /\ getenv k envp = last_binding k env.
Proof. exact child_env_view. Qed.
Print Assumptions C06_child_env_view.

(* exactly the listed variables: every entry is a listed pair, no name occurs twice *)
Theorem C06_child_env_exact : forall r p env,
  prepare r = PPlan p -> r_env r = Some env ->
  p_envp p = Some (map fmt_kv (keep_last str_eqb env))
  /\ (forall k v pre rest, keep_last str_eqb env = pre ++ (k, v) :: rest -> existsb (fun kv => str_eqb k (fst kv)) rest = false)
  /\ (forall kv, In kv (keep_last str_eqb env) -> In kv env).
Proof. exact child_env_exact. Qed.
Print Assumptions C06_child_env_exact.

Theorem C06_inherit_env : forall r p, prepare r = PPlan p -> r_env r = None -> p_envp p = None.
Proof. exact inherit_env. Qed.
Print Assumptions C06_inherit_env.

(* NUL anywhere (argument, executable, variable name, surviving value, cwd) is refused, and a refused
   request issues no exec; a request without NUL is never refused *)
Theorem C06_nul_rejected : forall r,
  r_argv r <> [] ->
  (exists a, In a (r_argv r) /\ has_nul a = true)
  \/ (exists e, r_exe r = Some e /\ has_nul e = true)
  \/ (exists env k v, r_env r = Some env /\ In (k, v) env /\ has_nul k = true)
  \/ (exists env k v, r_env r = Some env /\ In (k, v) (keep_last str_eqb env) /\ has_nul v = true)
  \/ (exists d, r_cwd r = Some d /\ has_nul d = true) ->
  prepare r = PInval.
Proof. exact nul_rejected. Qed.
Print Assumptions C06_nul_rejected.

Theorem C06_refused_starts_nothing : forall fs r, prepare r = PInval \/ prepare r = PLogic -> launch fs r = None.
Proof. exact refused_starts_nothing. Qed.
Print Assumptions C06_refused_starts_nothing.

Theorem C06_clean_request_accepted : forall r,
  r_argv r <> [] ->
  forallb (fun a => negb (has_nul a)) (r_argv r) = true ->
  match r_exe r with Some e => has_nul e = false | None => True end ->
  match r_env r with Some env => forallb (fun kv => negb (has_nul (fst kv)) && negb (has_nul (snd kv))) env = true | None => True end ->
  match r_cwd r with Some d => has_nul d = false | None => True end ->
  exists p, prepare r = PPlan p.
Proof. exact clean_request_accepted. Qed.
Print Assumptions C06_clean_request_accepted.

(* in the launch model a refused preparation happens before the fork: no process, no descriptor left *)
Theorem C06_nul_refused_before_fork : forall c,
  In c (filter (fun c => negb (invalid c)) (configs_full ++ configs_opts)) -> prep_refused c = true.
Proof. exact nul_refused_before_fork. Qed.
Print Assumptions C06_nul_refused_before_fork.

(* identity: exactly the requested chdir / setgid / setuid / setpgid are applied in the child before exec,
   the group while still privileged (effects 50 chdir, 2 setgid, 1 setuid, 3 setpgid) *)
Theorem C06_identity_calls : forall c, In c (configs_full ++ configs_opts) -> signal_state_clean c = true.
Proof. exact child_signal_state. Qed.
Print Assumptions C06_identity_calls.

(* Windows variant (cut-out of format_env_block): case-insensitive last-wins, NUL-separated, double NUL *)
Theorem C06_format_env_block_spec : forall env,
  format_env_block env = concat (map (fun kv => fmt_kv kv ++ [0]) (keep_last ci_eqb env)) ++ [0].
Proof. exact format_env_block_spec. Qed.
Print Assumptions C06_format_env_block_spec.

(* the requested working directory is entered with the parent's identity (before setgid / setuid / setpgid), and
   exactly the requested identity changes are applied -- both when both are requested; over every stream
   configuration and option combination of Lib/Spawn.v (504 + 32 configurations) *)
Theorem C06_cwd_entered_with_parent_identity : forall c, In c (configs_full ++ configs_opts) -> identity_after_cwd c = true.
Proof. exact cwd_entered_with_parent_identity. Qed.
Print Assumptions C06_cwd_entered_with_parent_identity.

Example C06_nonvacuous :
  let r := mkreq [[112]; []; [32; 34]; [255; 200]] (Some [47; 98; 105; 110; 47; 120]) (Some [([65], [49]); ([66], [50]); ([65], [51])]) (Some [47]) (Some [47; 98]) in
  prepare r = PPlan (mkplan [[47; 98; 105; 110; 47; 120]] [[112]; []; [32; 34]; [255; 200]] (Some [[66; 61; 50]; [65; 61; 51]]) (Some [47]))
  /\ prepare (mkreq [[112; 0]] None None None None) = PInval.
Proof. split; vm_compute; reflexivity. Qed.
