(* C07 -- Popen exists iff program started; failed launches leave nothing behind.
   For every configuration of the list, every injection point (k-th pipe, k-th fcntl, fork; child-side
   dup2 / chdir / sigmask / signal / setuid / setgid / setpgid / exec -- the list is complete, see
   C07_injection_points_complete) and both outcomes of exec. *)
From Coq Require Import List NArith ZArith Bool Arith.
Require Import SP.Lib.Spawn SP.Lib.Status SP.Proofs.SpawnProofs SP.Proofs.StatusProofs.
Import ListNotations.
Local Open Scope nat_scope.

(* (1) Ok iff the image was started; (2) Ok only after EOF was read from the status pipe; (3) after a
   failure no descriptor of the attempt is open in the parent and a forked child has been reaped,
   detached or not; (4) the error is the error of the failing step *)
Theorem C07_launch_all_or_nothing :
  forall c e f,
    In c (filter (fun c => negb (invalid c)) (configs_full ++ configs_opts)) -> In e [13] -> In f (faults_e e) ->
    launch_ok f exec_yes c = true /\ launch_ok f (exec_no 2) c = true /\ error_ok f exec_yes c = true /\ error_ok f (exec_no 2) c = true.
Proof. exact launch_all_or_nothing. Qed.
Print Assumptions C07_launch_all_or_nothing.

Theorem C07_injection_points_complete : forall c, In c (configs_full ++ configs_opts) -> within_bounds c = true.
Proof. exact injection_points_complete. Qed.
Print Assumptions C07_injection_points_complete.

(* the child's errno crosses the status pipe unharmed: 4 bytes little-endian, for every 32-bit value *)
Theorem C07_errno_roundtrip : forall e : Z, (-2147483648 <= e < 2147483648)%Z -> decode4 (encode4 e) = Some e.
Proof. exact errno_roundtrip. Qed.
Print Assumptions C07_errno_roundtrip.

Example C07_nonvacuous :
  let c := mk RPipe RPipe RPipe true true true true true false 1 in
  let f := Some {| f_kind := KSetuid; f_nth := 1; f_errno := 13; f_child := true |} in
  In c (filter (fun c => negb (invalid c)) (configs_full ++ configs_opts)) /\ In f (faults_e 13)
  /\ o_result (run f exec_yes c) = LErr 13 /\ o_waited (run f exec_yes c) = true.
Proof. cbv zeta. split; [vm_compute; tauto|]. split; [vm_compute; tauto|]. split; vm_compute; reflexivity. Qed.
