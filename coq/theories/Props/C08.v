(* C08 -- No pipe end leaks into a child: end-of-file always propagates.
   The parent's table contains, besides 0,1,2 and the caller's files, two close-on-exec parent ends of
   pipes of EARLIER Popens and one descriptor the application made inheritable itself.
   PARTIAL: one spawning thread.  Spawns interleaved from several threads (the window between pipe() and
   fcntl(FD_CLOEXEC), plain pipe() instead of pipe2(O_CLOEXEC)) are outside this model; see DESIGN.md,
   finding F9. *)
From Coq Require Import List NArith Bool Arith.
Require Import SP.Lib.Spawn SP.Proofs.SpawnProofs.
Import ListNotations.

(* at exec the child holds 0,1,2 and the application's own inheritable descriptor: no parent-side end, no
   end of the launch-status pipe, no end belonging to an earlier child -- under every injected failure *)
Theorem C08_child_table_clean :
  forall c f, In c (configs_full ++ configs_opts) -> In f (faults_e 13) -> child_clean f c = true.
Proof. exact child_table_clean. Qed.
Print Assumptions C08_child_table_clean.

(* every library descriptor left in the parent (Ok or Err) is close-on-exec, so the NEXT spawn starts from
   the same situation: induction over histories of spawns on one thread *)
Theorem C08_parent_ends_cloexec :
  forall c e f,
    In c (filter (fun c => negb (invalid c)) (configs_full ++ configs_opts)) -> In e [13] -> In f (faults_e e) ->
    launch_ok f exec_yes c = true /\ launch_ok f (exec_no 2) c = true /\ error_ok f exec_yes c = true /\ error_ok f (exec_no 2) c = true.
Proof. exact launch_all_or_nothing. Qed.
Print Assumptions C08_parent_ends_cloexec.

(* after the launch each pipe has exactly one holder on the parent's side and none left over: closing the
   Popen's end is end-of-file for the child at once; the child (and descendants) closing its end is
   end-of-file for the parent *)
Theorem C08_eof_propagates : forall c, In c (configs_full ++ configs_opts) -> eof_propagates c = true.
Proof. exact eof_propagates_all. Qed.
Print Assumptions C08_eof_propagates.

(* KNOWN FINDING F9.  The theorems above are about launches that do not overlap a launch on another thread: every
   configuration of the sweep has c_inflight = false.  When another thread is between creating its pipes and
   dropping their child ends, those ends are inheritable and the child forked meanwhile holds them: with
   c_inflight = true the cleanliness predicate fails for every configuration that forks.  The statement of C08
   ("concurrently with spawns on other threads") is therefore NOT proved, and is violated by the real code
   under that schedule (engine E2, scenario kind threads); see known_findings.txt. *)
Theorem C08_no_overlap_in_sweep : forall c, In c (configs_full ++ configs_opts) -> c_inflight c = false.
Proof. exact no_overlap_in_sweep. Qed.
Print Assumptions C08_no_overlap_in_sweep.

Theorem C08_F9_inflight_ends_leak :
  forallb (fun c => invalid c || c_prep_fails c || negb (child_clean None (with_inflight c))) (configs_full ++ configs_opts) = true.
Proof. exact inflight_ends_leak. Qed.
Print Assumptions C08_F9_inflight_ends_leak.

Example C08_nonvacuous :
  match o_child_out (run None exec_yes (mk RPipe RPipe RPipe true true true true false false 1)) with
  | Started t _ => length t = 4
  | _ => False
  end.
Proof. vm_compute. reflexivity. Qed.
