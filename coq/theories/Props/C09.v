(* C09 -- Exit status is the truth, and once known it never changes.
   L = Lib/PopenSM.v (machine of poll / wait / wait_timeout / ...), K = the process model in the same file.
   Only statements here; proofs live in Proofs/PopenProofs.v and Proofs/StatusProofs.v. *)
From Coq Require Import List NArith Bool.
Require Import SP.Params SP.Lib.Status SP.Lib.PopenSM SP.Proofs.StatusProofs SP.Proofs.PopenProofs SP.Kernel.JobCtl SP.Proofs.JobCtlProofs.
Import ListNotations.
Open Scope N_scope.

(* every exit code 0..255 and every terminating signal (with or without core flag) is decoded truthfully *)
Theorem C09_decode_exit_codes : forall c, c < 256 -> decode_exit_status (c * 256) = Exited c.
Proof. exact decode_exit_codes. Qed.
Print Assumptions C09_decode_exit_codes.

Theorem C09_decode_signals :
  forall s (core : bool), 1 <= s -> s < 127 -> decode_exit_status (s + if core then 128 else 0) = Signaled s.
Proof. exact decode_signals. Qed.
Print Assumptions C09_decode_signals.

(* a reported status (other than Undetermined) is the decoding of the raw status of a zombie that this
   very operation reaped: the trace contains the waitpid that returned our pid with that raw status *)
Theorem C09_status_truthful :
  forall p o w tr p' st w',
    cstate p = Running -> is_query o = true ->
    run p o w tr p' (VStatus (Some st)) w' -> st <> Undetermined ->
    exists nh raw t, In (PWaitpid nh, RWaitPid true raw, t) tr /\ decode_exit_status raw = st.
Proof. exact status_truthful. Qed.
Print Assumptions C09_status_truthful.

Theorem C09_waitpid_reports_only_zombies :
  forall w nh dur over w' same raw,
    pserve w (PWaitpid nh) dur over = PRes w' (RWaitPid same raw) ->
    same = true /\ pr w' = PReaped /\ exists w1, pr w1 = PZombie raw /\ pnow w1 <= pnow w'.
Proof. exact pserve_wait_truth. Qed.
Print Assumptions C09_waitpid_reports_only_zombies.

(* while the child is running (and never exits) poll and wait_timeout report None, for every duration
   and every timing of the calls; wait does not return *)
Theorem C09_never_while_alive :
  forall p o w tr p' v w',
    cstate p = Running -> alive_forever w -> (o = OpPoll \/ exists d, o = OpWaitTimeout d) ->
    run p o w tr p' v w' -> v = VStatus None /\ cstate p' = Running.
Proof. exact never_while_alive. Qed.
Print Assumptions C09_never_while_alive.

Theorem C09_wait_blocks_while_alive :
  forall p w tr p' v w', cstate p = Running -> alive_forever w -> ~ run p OpWait w tr p' v w'.
Proof. exact wait_never_returns_while_alive. Qed.
Print Assumptions C09_wait_blocks_while_alive.

(* once a status is known: every later operation, in any order and any number, returns the same value,
   pid() is absent, signalling calls succeed, and no system call at all is made *)
Theorem C09_status_final :
  forall p st os w hist p' w',
    cstate p = Finished st -> runs p os w hist p' w' ->
    w' = w /\ cstate p' = Finished st /\
    Forall2 (fun o tv => fst tv = [] /\
               (is_query o = true -> snd tv = VStatus (Some st)) /\
               (o = OpPid -> snd tv = VHasPid false) /\
               (is_signal o = true -> snd tv = VUnit)) os hist.
Proof. exact status_final_history. Qed.
Print Assumptions C09_status_final.

(* if some other code already reaped the child: Undetermined, not an error, and the call returns *)
Theorem C09_reaped_elsewhere :
  forall p o w tr p' v w',
    cstate p = Running -> pr w = PReaped -> (o = OpPoll \/ o = OpWait \/ exists d, o = OpWaitTimeout d) ->
    run p o w tr p' v w' -> v = VStatus (Some Undetermined) /\ cstate p' = Finished Undetermined.
Proof. exact reaped_elsewhere. Qed.
Print Assumptions C09_reaped_elsewhere.

Theorem C09_reaped_elsewhere_returns :
  forall p o w,
    cstate p = Running -> pr w = PReaped -> (o = OpPoll \/ o = OpWait \/ exists d, o = OpWaitTimeout d) ->
    exists tr p' w', run p o w tr p' (VStatus (Some Undetermined)) w' /\ (length tr <= 2)%nat.
Proof. exact reaped_elsewhere_returns. Qed.
Print Assumptions C09_reaped_elsewhere_returns.

(* Non-vacuity: a concrete run -- the child exits with code 3 at t = 5 ms; wait_timeout(1 s) started at 0
   reports Exited 3 -- exists in the model. *)
(* job control (Kernel/JobCtl.v): "never report a status while the child is still running" also for a child that is
   merely stopped.  L's calls are served by the job-control kernel exactly as by the plain one (so the theorems above
   carry over), a status handed to one of L's calls is that of a terminated child which that call reaps, and a status
   for a child that is alive afterwards goes only to a waitpid that passed WUNTRACED -- a call L cannot make *)
Theorem C09_base_calls_simulate : forall w c dur over w' r,
  xserve w (XBase c) dur over = XRes w' r -> pserve (xbase w) c dur over = PRes (xbase w') r.
Proof. exact base_calls_simulate. Qed.
Print Assumptions C09_base_calls_simulate.

Theorem C09_status_means_reaped : forall w c dur over w' same raw,
  xserve w (XBase c) dur over = XRes w' (RWaitPid same raw) ->
  same = true /\ pr (xbase w') = PReaped /\ exists nh, c = PWaitpid nh.
Proof. exact base_status_means_reaped. Qed.
Print Assumptions C09_status_means_reaped.

Theorem C09_alive_status_needs_untraced : forall w c dur over w' same raw,
  xserve w c dur over = XRes w' (RWaitPid same raw) -> pr (xbase w') = PAlive ->
  exists nh opts sig, c = XWaitOpts nh opts /\ N.land opts WUNTRACED <> 0%N /\ xstopped w = Some sig /\ raw = stop_status sig.
Proof. exact alive_status_needs_untraced. Qed.
Print Assumptions C09_alive_status_needs_untraced.

(* a status query interrupted by a signal handler of the caller (EINTR) is reported as that error and leaves the handle
   as it was -- still Running -- so that a later query reports the real cause; only ECHILD means "reaped by someone else" *)
Theorem C09_interrupted_wait_is_error : forall p, pstep (mk p QWait) (RErrno EINTR) = (mk p QIdle, PRet (VErr EINTR)).
Proof. exact interrupted_wait_is_error. Qed.
Print Assumptions C09_interrupted_wait_is_error.

Theorem C09_only_echild_means_reaped : forall p e, e <> ECHILD -> absorb p (RErrno e) = inr e.
Proof. exact only_echild_means_reaped. Qed.
Print Assumptions C09_only_echild_means_reaped.

Example C09_nonvacuous :
  let w0 := {| pr := PAlive; exit_at := Some (5000000, 768); reap_at := None; dies_on_signal := false; pnow := 0; kills := [] |} in
  let p0 := {| cstate := Running; detached := false |} in
  exists tr p' w', run p0 (OpWaitTimeout 1000000000) w0 tr p' (VStatus (Some (Exited 3))) w' /\ (4 <= length tr)%nat.
Proof.
  cbv zeta. unfold run. cbn [start_op cstate].
  eexists. eexists. eexists. split.
  - eapply (exec_call _ _ _ 0 0); [reflexivity|]. cbn [pstep po ppc_ mk].
    eapply (exec_call _ _ _ 0 0); [vm_compute; reflexivity|]. vm_compute pstep.
    eapply (exec_call _ _ _ 0 0); [vm_compute; reflexivity|]. vm_compute pstep.
    eapply (exec_call _ _ _ 0 0); [vm_compute; reflexivity|]. vm_compute pstep.
    eapply (exec_call _ _ _ 0 0); [vm_compute; reflexivity|]. vm_compute pstep.
    eapply (exec_call _ _ _ 0 0); [vm_compute; reflexivity|]. vm_compute pstep.
    eapply (exec_call _ _ _ 0 0); [vm_compute; reflexivity|]. vm_compute pstep.
    eapply (exec_call _ _ _ 0 0); [vm_compute; reflexivity|]. vm_compute pstep.
    eapply (exec_call _ _ _ 0 0); [vm_compute; reflexivity|]. vm_compute pstep.
    eapply (exec_call _ _ _ 0 0); [vm_compute; reflexivity|]. vm_compute pstep.
    eapply (exec_call _ _ _ 0 0); [vm_compute; reflexivity|]. vm_compute pstep.
    apply exec_ret.
  - cbn. repeat constructor.
Qed.
