(* C10 -- Signals reach only the live child as requested, never after it was reaped.
   Only statements here; proofs live in Proofs/PopenProofs.v. *)
From Coq Require Import List NArith Bool.
Require Import SP.Params SP.Lib.Status SP.Lib.PopenSM SP.Proofs.PopenProofs SP.Kernel.JobCtl SP.Proofs.JobCtlProofs.
Import ListNotations.
Open Scope N_scope.

(* while Running: exactly one kill(pid, sig) with exactly the requested signal (SIGTERM for terminate,
   SIGKILL for kill, n for send_signal n), for every n; the handle stays Running *)
Theorem C10_signal_exactly_one :
  forall p o sg w tr p' v w',
    cstate p = Running -> sig_of o = Some sg -> run p o w tr p' v w' ->
    exists r t, tr = [(PKill sg, r, t)] /\ cstate p' = Running
                /\ v = match r with RErrno e => VErr e | _ => VUnit end.
Proof. exact signal_exactly_one. Qed.
Print Assumptions C10_signal_exactly_one.

(* nothing but a signalling call on a Running handle ever sends a signal, and it sends only that one *)
Theorem C10_kills_only_when_asked :
  forall p o w tr p' v w' sg r t,
    run p o w tr p' v w' -> In (PKill sg, r, t) tr ->
    cstate p = Running /\ sig_of o = Some sg /\ tr = [(PKill sg, r, t)].
Proof. exact kills_only_when_asked. Qed.
Print Assumptions C10_kills_only_when_asked.

(* after termination was observed (any status, Undetermined included): no signal, no system call, success --
   over every later history *)
Theorem C10_no_signal_after_observed :
  forall p st os w hist p' w',
    cstate p = Finished st -> runs p os w hist p' w' ->
    w' = w /\ cstate p' = Finished st /\
    Forall2 (fun o tv => fst tv = [] /\
               (is_query o = true -> snd tv = VStatus (Some st)) /\
               (o = OpPid -> snd tv = VHasPid false) /\
               (is_signal o = true -> snd tv = VUnit)) os hist.
Proof. exact status_final_history. Qed.
Print Assumptions C10_no_signal_after_observed.

(* the operation whose own waitpid reaped the child leaves the handle Finished, so the pid is never
   signalled after our own wait released it for reuse *)
Theorem C10_own_reap_finishes :
  forall p o w tr p' v w' nh raw t,
    cstate p = Running -> run p o w tr p' v w' -> In (PWaitpid nh, RWaitPid true raw, t) tr ->
    cstate p' = Finished (decode_exit_status raw).
Proof. exact own_reap_finishes. Qed.
Print Assumptions C10_own_reap_finishes.

Theorem C10_no_signal_after_own_reap :
  forall p1 o w1 tr v p2 w2 os2 h2 p' w' nh raw t,
    run p1 o w1 tr p2 v w2 -> In (PWaitpid nh, RWaitPid true raw, t) tr ->
    runs p2 os2 w2 h2 p' w' ->
    Forall (fun tv => fst tv = []) h2 /\ w' = w2.
Proof. exact no_signal_after_own_reap. Qed.
Print Assumptions C10_no_signal_after_own_reap.

(* a stopped child is alive and unreaped: the handle stays Running for it (a stop is reported only to a waitpid
   with WUNTRACED, Kernel/JobCtl.v), so by C10_signal_exactly_one every signal --
   SIGCONT included -- still reaches it *)
Theorem C10_stop_not_observed_by_library : forall w c dur over w' same raw,
  xserve w c dur over = XRes w' (RWaitPid same raw) -> pr (xbase w') = PAlive ->
  exists nh opts sig, c = XWaitOpts nh opts /\ N.land opts WUNTRACED <> 0%N /\ xstopped w = Some sig /\ raw = stop_status sig.
Proof. exact alive_status_needs_untraced. Qed.
Print Assumptions C10_stop_not_observed_by_library.

Example C10_nonvacuous :
  let w0 := {| pr := PAlive; exit_at := None; reap_at := None; dies_on_signal := true; pnow := 0; kills := [] |} in
  let p0 := {| cstate := Running; detached := false |} in
  exists tr p' w', run p0 (OpSignal 10) w0 tr p' VUnit w' /\ kills w' = [(10, 0, false)] /\ pr w' = PZombie 10.
Proof.
  cbv zeta. unfold run. cbn [start_op cstate]. eexists. eexists. eexists. split.
  - eapply (exec_call _ _ _ 0 0); [vm_compute; reflexivity|]. vm_compute pstep. apply exec_ret.
  - vm_compute. auto.
Qed.
