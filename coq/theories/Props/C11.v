(* C11 -- poll never blocks; wait_timeout is accurate and does not busy-wait.
   Time is K's clock in ns; every call may take any duration and every sleep may overshoot by any amount
   (bounded by D and O where a bound is stated).  Only statements here; proofs in Proofs/PopenProofs.v. *)
From Coq Require Import List NArith Bool.
Require Import SP.Params SP.Lib.Status SP.Lib.PopenSM SP.Proofs.PopenProofs.
Import ListNotations.
Open Scope N_scope.

(* poll(): at most clock / waitpid(WNOHANG) / clock, never a sleep, never a blocking wait, never an error *)
Theorem C11_poll_nonblocking :
  forall p w tr p' v w',
    run p OpPoll w tr p' v w' ->
    (calls tr = [] \/ calls tr = [PClock; PWaitpid true] \/ calls tr = [PClock; PWaitpid true; PClock])
    /\ (exists s, v = VStatus s).
Proof. exact poll_nonblocking. Qed.
Print Assumptions C11_poll_nonblocking.

(* "still running" no earlier than d, for every d *)
Theorem C11_wt_not_early :
  forall p d w tr p' w', run p (OpWaitTimeout d) w tr p' (VStatus None) w' -> pnow w + d <= pnow w'.
Proof. exact wt_not_early. Qed.
Print Assumptions C11_wt_not_early.

(* ... and no later than d plus the durations of four calls and one oversleep *)
Theorem C11_wt_not_late :
  forall D O p d w tr p' w',
    execB D O (start_op p (OpWaitTimeout d)) w tr p' (VStatus None) w' ->
    pnow w' <= pnow w + d + 4 * D + O.
Proof. exact wt_not_late. Qed.
Print Assumptions C11_wt_not_late.

(* the exit (at any instant te, before or during the wait) is reported within one back-off step
   (at most 100 ms) plus call durations, and the reported status is the real one *)
Theorem C11_wt_prompt_status :
  forall D O te raw p d w tr p' st w',
    cstate p = Running -> pend te raw w ->
    execB D O (start_op p (OpWaitTimeout d)) w tr p' (VStatus (Some st)) w' ->
    pnow w' <= N.max te (pnow w + D) + 3 * D + MAXNS + O /\ st = decode_exit_status raw.
Proof. exact wt_prompt_status. Qed.
Print Assumptions C11_wt_prompt_status.

(* status already known: no system call, returns at once *)
Theorem C11_wt_known_immediate :
  forall p st d w tr p' v w',
    cstate p = Finished st -> run p (OpWaitTimeout d) w tr p' v w' -> tr = [] /\ v = VStatus (Some st) /\ w' = w.
Proof. exact wt_known_immediate. Qed.
Print Assumptions C11_wt_known_immediate.

(* no spinning: between two status checks there is a clock reading and a sleep of positive length *)
Theorem C11_wt_no_spin :
  forall p d w tr p' v w',
    cstate p = Running -> run p (OpWaitTimeout d) w tr p' v w' ->
    exists l, calls tr = PClock :: l /\ wt_calls l.
Proof. exact wt_no_spin. Qed.
Print Assumptions C11_wt_no_spin.

(* at most 8 + ceil(d / 100 ms) status checks, for every d (zero to weeks) and every exit time *)
Theorem C11_wt_bounded_checks :
  forall p d w tr p' v w',
    run p (OpWaitTimeout d) w tr p' v w' ->
    N.of_nat (count_wait (calls tr)) <= 8 + ceil_div d MAXNS.
Proof. exact wt_bounded_checks. Qed.
Print Assumptions C11_wt_bounded_checks.

(* "still running" is backed by a fresh status check: the trace of a wait_timeout(d) that answers None
   contains a non-blocking waitpid that found the child alive (K answers RWaitZero only for a live child),
   completed no earlier than one call duration before the deadline t0 + d *)
Theorem C11_wt_none_is_fresh : forall D O p d w tr p' w',
  execB D O (start_op p (OpWaitTimeout d)) w tr p' (VStatus None) w' ->
  exists t0 tr1 tc, tr = (PClock, RTime t0, t0) :: tr1 /\ In (PWaitpid true, RWaitZero, tc) tr1 /\ (t0 + d <= tc + D)%N.
Proof. exact wt_none_is_fresh. Qed.
Print Assumptions C11_wt_none_is_fresh.

Theorem C11_waitzero_means_alive : forall w dur over w', pserve w (PWaitpid true) dur over = PRes w' RWaitZero -> pr w' = PAlive.
Proof. exact pserve_waitzero_alive. Qed.
Print Assumptions C11_waitzero_means_alive.

Example C11_nonvacuous :
  MAXNS = 100000000 /\
  let w0 := {| pr := PAlive; exit_at := None; reap_at := None; dies_on_signal := false; pnow := 0; kills := [] |} in
  let p0 := {| cstate := Running; detached := false |} in
  exists tr p' w', run p0 (OpWaitTimeout 2500000) w0 tr p' (VStatus None) w' /\ pnow w' = 2500000
                   /\ count_wait (calls tr) = 3%nat.
Proof.
  split; [reflexivity|]. cbv zeta. unfold run. cbn [start_op cstate]. eexists. eexists. eexists. split.
  - eapply (exec_call _ _ _ 0 0); [vm_compute; reflexivity|]. vm_compute pstep.
    eapply (exec_call _ _ _ 0 0); [vm_compute; reflexivity|]. vm_compute pstep.
    eapply (exec_call _ _ _ 0 0); [vm_compute; reflexivity|]. vm_compute pstep.
    eapply (exec_call _ _ _ 0 0); [vm_compute; reflexivity|]. vm_compute pstep.
    eapply (exec_call _ _ _ 0 0); [vm_compute; reflexivity|]. vm_compute pstep.
    eapply (exec_call _ _ _ 0 0); [vm_compute; reflexivity|]. vm_compute pstep.
    eapply (exec_call _ _ _ 0 0); [vm_compute; reflexivity|]. vm_compute pstep.
    eapply (exec_call _ _ _ 0 0); [vm_compute; reflexivity|]. vm_compute pstep.
    eapply (exec_call _ _ _ 0 0); [vm_compute; reflexivity|]. vm_compute pstep.
    apply exec_ret.
  - vm_compute. auto.
Qed.
