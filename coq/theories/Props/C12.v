(* C12 -- handles clean up after themselves: no zombies, no self-inflicted drop hang.
   acts h (Lib/DropOrder.v) is the sequence of closes and blocking waits a handle performs when it is dropped or
   completes; completes w c l says that every wait in l is reached with its child able to exit, in a world w
   of n stages whose only blocking dependences are the pipes of this handle. *)
From Coq Require Import List Bool Arith Lia.
Require Import SP.Lib.DropOrder SP.Proofs.DropProofs.
Import ListNotations.

(* every command started by a non-detached handle is waited for (so none is left a zombie) *)
Theorem C12_nondetached_waits_for_all : forall h,
  match h with
  | HPopen false _ | HReadOut false _ | HReadErr false _ | HWrite false _ | HJoin _ => In (AWait 0) (acts h)
  | HVec false held | HReadPipe false held | HWritePipe false held | HJoinPipe false held | HFailed false held =>
    forall j, j < length held -> In (AWait j) (acts h)
  | _ => True
  end.
Proof. exact nondetached_waits_for_all. Qed.
Print Assumptions C12_nondetached_waits_for_all.

(* a detached handle never waits: dropping it cannot block and reaps nothing *)
Theorem C12_detached_never_waits : forall h,
  match h with
  | HPopen true _ | HReadOut true _ | HReadErr true _ | HWrite true _ | HVec true _ | HReadPipe true _ | HWritePipe true _ | HFailed true _ =>
    forall j, ~ In (AWait j) (acts h)
  | _ => True
  end.
Proof. exact detached_never_waits. Qed.
Print Assumptions C12_detached_never_waits.

(* dropping the reader of a command's / pipeline's output while the commands are still writing: for every
   number of stages, each an exiting program, an endless writer or a filter *)
Theorem C12_read_adapter_drop_completes : forall w d held,
  w_n w = length held -> 0 < length held ->
  (forall i, i < w_n w -> w_cls w i = KExit \/ w_cls w i = KWriter 1 \/ w_cls w i = KFilter) ->
  w_piped w (last_index held) 1 = true ->
  completes w none_closed (acts (HReadPipe d held)).
Proof. exact read_adapter_drop_completes. Qed.
Print Assumptions C12_read_adapter_drop_completes.

Theorem C12_stream_stdout_drop_completes : forall w d held,
  w_n w = 1 -> (w_cls w 0 = KExit \/ w_cls w 0 = KWriter 1 \/ w_cls w 0 = KFilter) -> w_piped w 0 1 = true ->
  completes w none_closed (acts (HReadOut d held)).
Proof. exact stream_stdout_drop_completes. Qed.
Print Assumptions C12_stream_stdout_drop_completes.

Theorem C12_stream_stderr_drop_completes : forall w d held,
  w_n w = 1 -> (w_cls w 0 = KExit \/ w_cls w 0 = KWriter 2) -> w_piped w 0 2 = true ->
  completes w none_closed (acts (HReadErr d held)).
Proof. exact stream_stderr_drop_completes. Qed.
Print Assumptions C12_stream_stderr_drop_completes.

(* dropping the writer to a command's / pipeline's input: commands waiting for end-of-file are released *)
Theorem C12_write_adapter_drop_completes : forall w d held,
  w_n w = length held -> 0 < length held ->
  (forall i, i < w_n w -> w_cls w i = KExit \/ w_cls w i = KReadEOF \/ w_cls w i = KFilter) ->
  completes w none_closed (acts (HWritePipe d held)).
Proof. exact write_adapter_drop_completes. Qed.
Print Assumptions C12_write_adapter_drop_completes.

Theorem C12_stream_stdin_drop_completes : forall w d held,
  w_n w = 1 -> (w_cls w 0 = KExit \/ w_cls w 0 = KReadEOF \/ w_cls w 0 = KFilter) ->
  completes w none_closed (acts (HWrite d held)).
Proof. exact stream_stdin_drop_completes. Qed.
Print Assumptions C12_stream_stdin_drop_completes.

(* the order matters: with the close after the wait (the code before the repair of F4) the same world deadlocks *)
Example C12_nonvacuous :
  let w := mkworld 1 (fun _ => KWriter 1) (fun _ s => Nat.eqb s 1) false in
  completes w none_closed (acts (HReadOut false [1]))
  /\ ~ completes w none_closed [AWait 0; AClose 0 1].
Proof.
  split.
  - apply stream_stdout_drop_completes; cbn; auto.
  - cbn. intros [E _]. inversion E; cbn in *; try discriminate; try lia;
      repeat match goal with
             | H : _ \/ _ |- _ => destruct H
             | H : _ /\ _ |- _ => destruct H
             end; try discriminate; try lia.
Qed.
