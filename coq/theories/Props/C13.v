(* C13 -- pipelines connect stage i to stage i+1 and nothing else, however composed.
   build / ppopen (Lib/Pipeline.v) model the composition operators and Pipeline::popen's spawn loop on top of
   the Exec model; pipe_file j is the read end of the pipe behind stage j's stdout. *)
From Coq Require Import List NArith Bool Arith.
Require Import SP.Base.Str SP.Lib.Builder SP.Lib.Pipeline SP.Proofs.PipelineProofs.
Require SP.Lib.DropOrder SP.Proofs.DropProofs.
Import ListNotations.
Local Open Scope nat_scope.

(* however the expression is nested, the stage sequence is the commands in reading order, at least two *)
Theorem C13_compose_flatten : forall x p, build x = Some p -> p_cmds p = leaves x /\ 2 <= length (p_cmds p).
Proof. exact compose_flatten. Qed.
Print Assumptions C13_compose_flatten.

Theorem C13_same_leaves_same_stages : forall x y p q, build x = Some p -> build y = Some q -> leaves x = leaves y -> p_cmds p = p_cmds q.
Proof. exact same_leaves_same_stages. Qed.
Print Assumptions C13_same_leaves_same_stages.

(* for every number of stages: stage 0 gets the pipeline's stdin, the last stage the pipeline's stdout, stage
   i > 0 reads the pipe behind stage i-1, every stage but the last writes a fresh pipe; argv and stderr of
   every command are its own *)
Theorem C13_pipeline_wiring : forall p,
  2 <= length (p_cmds p) -> Forall plain (p_cmds p) -> p_data p = None -> p_errfile p = None -> p_in p <> BMerge ->
  exists ls, ppopen (fun _ => false) p = (ls, OOk) /\ length ls = length (p_cmds p)
    /\ forall i c, nth_error (p_cmds p) i = Some c ->
         exists l, nth_error ls i = Some l /\ l_argv l = argv_of c /\ l_err l = b_err c
           /\ l_in l = (match i with 0 => p_in p | S j => pipe_file j end)
           /\ l_out l = (if S i =? length (p_cmds p) then p_out p else BPipe).
Proof. exact pipeline_wiring. Qed.
Print Assumptions C13_pipeline_wiring.

(* the result is the composition of the stages applied in order to the pipeline's input *)
Theorem C13_pipeline_semantics : forall p fs input,
  2 <= length (p_cmds p) -> Forall plain (p_cmds p) -> p_data p = None -> p_errfile p = None -> p_in p <> BMerge ->
  (forall id, p_in p = BFile id -> (id < PIPE_BASE)%N) ->
  length fs = length (p_cmds p) ->
  exists ls, ppopen (fun _ => false) p = (ls, OOk)
    /\ flow fs ls 0 (fun _ => []) input (length fs - 1) = compose fs input.
Proof. exact pipeline_semantics. Qed.
Print Assumptions C13_pipeline_semantics.

(* settings made on an operand before it is composed further are carried along: p | q keeps p's input, input data and
   stderr sink and q's output; p | e keeps all of p's *)
Theorem C13_cat_keeps_settings : forall x y a b, build x = Some a -> build y = Some b ->
  exists r, build (PCat x y) = Some r /\ p_cmds r = p_cmds a ++ p_cmds b
            /\ p_in r = p_in a /\ p_data r = p_data a /\ p_errfile r = p_errfile a /\ p_out r = p_out b.
Proof. exact cat_keeps_settings. Qed.
Print Assumptions C13_cat_keeps_settings.

Theorem C13_push_keeps_settings : forall x e a, build x = Some a ->
  exists r, build (PPush x e) = Some r /\ p_cmds r = p_cmds a ++ [e]
            /\ p_in r = p_in a /\ p_data r = p_data a /\ p_errfile r = p_errfile a /\ p_out r = p_out a.
Proof. exact push_keeps_settings. Qed.
Print Assumptions C13_push_keeps_settings.

Example C13_nonvacuous :
  let e := fun c => cmd [c] in
  let x := PStdout (PStdin (PCat (PNew (e 97%N) (e 98%N)) (PPush (PNew (e 99%N) (e 100%N)) (e 101%N))) (IRedir BPipe)) (BFile 7) in
  match build x with
  | Some p => length (p_cmds p) = 5 /\ Forall plain (p_cmds p)
              /\ map (fun l => (l_in l, l_out l)) (fst (ppopen (fun _ => false) p))
                 = [(BPipe, BPipe); (pipe_file 0, BPipe); (pipe_file 1, BPipe); (pipe_file 2, BPipe); (pipe_file 3, BFile 7)]
  | None => False
  end.
Proof. vm_compute. repeat split; repeat constructor. Qed.

(* stderr_to f: every command's standard error is the one file f (one open file description, shared through
   the Rc), the rest of the wiring as above; a command with a stderr setting of its own makes the call panic *)
Theorem C13_stderr_shared : forall p f,
  2 <= length (p_cmds p) -> Forall plain_err (p_cmds p) -> p_data p = None -> p_errfile p = Some f -> p_in p <> BMerge ->
  exists ls, ppopen (fun _ => false) p = (ls, OOk) /\ length ls = length (p_cmds p)
    /\ forall i c, nth_error (p_cmds p) i = Some c ->
         exists l, nth_error ls i = Some l /\ l_argv l = argv_of c /\ l_err l = BFile f
           /\ l_in l = (match i with 0 => p_in p | S j => pipe_file j end)
           /\ l_out l = (if S i =? length (p_cmds p) then p_out p else BPipe).
Proof. exact pipeline_stderr_shared. Qed.
Print Assumptions C13_stderr_shared.

Theorem C13_stderr_to_conflict_panics : forall p f c,
  p_data p = None -> p_errfile p = Some f -> In c (p_cmds p) -> b_err c <> BNone ->
  forall fails, ppopen fails p = ([], OPanic).
Proof. exact stderr_to_conflict_panics. Qed.
Print Assumptions C13_stderr_to_conflict_panics.

(* capture / communicate: the last command's stdout and every command's stderr go to the capture pipes, the
   input data is taken out for the communicator *)
Theorem C13_capture_wiring : forall p,
  2 <= length (p_cmds p) -> Forall plain_err (p_cmds p) -> p_in p <> BMerge ->
  exists ls, fst (setup_comm (fun _ => false) p) = (ls, OOk) /\ length ls = length (p_cmds p)
    /\ snd (setup_comm (fun _ => false) p) = p_data p
    /\ forall i c, nth_error (p_cmds p) i = Some c ->
         exists l, nth_error ls i = Some l /\ l_argv l = argv_of c /\ l_err l = BFile ERR_CAPTURE
           /\ l_in l = (match i with 0 => p_in p | S j => pipe_file j end)
           /\ l_out l = BPipe.
Proof. exact capture_wiring. Qed.
Print Assumptions C13_capture_wiring.

(* join and capture report the status of the last command; a command that cannot be started yields that
   error and never a status *)
Theorem C13_join_status_is_last : forall p status,
  2 <= length (p_cmds p) -> Forall plain (p_cmds p) -> p_data p = None -> p_errfile p = None -> p_in p <> BMerge ->
  pjoin (fun _ => false) p status = JStatus (status (length (p_cmds p) - 1)).
Proof. exact join_status_is_last. Qed.
Print Assumptions C13_join_status_is_last.

Theorem C13_capture_status_is_last : forall p status,
  2 <= length (p_cmds p) -> Forall plain_err (p_cmds p) -> p_in p <> BMerge ->
  pcapture (fun _ => false) p status = JStatus (status (length (p_cmds p) - 1)).
Proof. exact capture_status_is_last. Qed.
Print Assumptions C13_capture_status_is_last.

Theorem C13_join_failure_is_error : forall p k status,
  k < length (p_cmds p) -> forall s, pjoin (fun i => i =? k) p status <> JStatus s.
Proof. exact join_failure_is_error. Qed.
Print Assumptions C13_join_failure_is_error.

(* ... and only after all commands have exited: join's wait for the last command is followed by the drop of
   the vector, which waits for every other one (Lib/DropOrder.v) *)
Theorem C13_join_waits_for_all : forall held j, j < length held -> In (SP.Lib.DropOrder.AWait j) (SP.Lib.DropOrder.acts (SP.Lib.DropOrder.HJoinPipe false held)).
Proof. intros held. exact (SP.Proofs.DropProofs.nondetached_waits_for_all (SP.Lib.DropOrder.HJoinPipe false held)). Qed.
Print Assumptions C13_join_waits_for_all.
