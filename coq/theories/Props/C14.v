(* C14 -- a pipeline failing to start part-way cleans up and returns promptly. *)
From Coq Require Import List NArith Bool Arith.
Require Import SP.Base.Str SP.Lib.Builder SP.Lib.Pipeline SP.Lib.DropOrder SP.Proofs.PipelineProofs SP.Proofs.DropProofs.
Import ListNotations.
Local Open Scope nat_scope.

(* if the k-th command cannot be started the loop ends with that error, exactly the k commands before it
   were launched and none after it (or the builder panicked, which C16 characterises) *)
Theorem C14_spawn_stops_at_failure : forall cmds idx k ls o,
  spawn (fun i => i =? k) cmds idx = (ls, o) -> idx <= k -> k < idx + length cmds ->
  o = OPanic \/ (o = OErr k /\ length ls = k - idx).
Proof. exact spawn_stops_at_failure. Qed.
Print Assumptions C14_spawn_stops_at_failure.

(* the error path releases every pipe end held for the started commands before waiting for them, so the
   waits complete whatever the commands are blocked on among the attempt's own pipes: for every k, and for
   commands that end at end-of-file (the first one's piped stdin is closed) or when their reader is gone
   (the reader of the last started command is the File that died with the failed command) *)
Theorem C14_failed_start_completes : forall w d held,
  w_n w = length held -> 0 < length held ->
  (forall i s, i < length held -> w_piped w i s = true -> In s (nth i held [])) ->
  ((forall i, i < w_n w -> w_cls w i = KExit \/ w_cls w i = KReadEOF \/ w_cls w i = KFilter)
   \/ ((forall i, i < w_n w -> w_cls w i = KExit \/ w_cls w i = KWriter 1 \/ w_cls w i = KFilter) /\ w_down_closed w = true)) ->
  completes w none_closed (acts (HFailed d held)).
Proof. exact failed_start_completes. Qed.
Print Assumptions C14_failed_start_completes.

(* and unless detached every started command has been waited for *)
Theorem C14_started_commands_reaped : forall held j, j < length held -> In (AWait j) (acts (HFailed false held)).
Proof. intros held. exact (nondetached_waits_for_all (HFailed false held)). Qed.
Print Assumptions C14_started_commands_reaped.

Theorem C14_detached_not_waited : forall held j, ~ In (AWait j) (acts (HFailed true held)).
Proof. intros held. exact (detached_never_waits (HFailed true held)). Qed.
Print Assumptions C14_detached_not_waited.

(* before the repair of F7 the first command's stdin was still held at its wait: that order deadlocks *)
Example C14_nonvacuous :
  let w := mkworld 1 (fun _ => KReadEOF) (fun i s => Nat.eqb i 0 && Nat.eqb s 0) true in
  completes w none_closed (acts (HFailed false [[0]]))
  /\ ~ completes w none_closed [AWait 0; AClose 0 0].
Proof.
  split.
  - apply failed_start_completes; cbn; auto.
    + intros i s Hi H. assert (i = 0) as -> by Lia.lia. cbn. apply andb_true_iff in H. destruct H as [_ H].
      apply Nat.eqb_eq in H. subst. left. reflexivity.
  - cbn. intros [E _]. inversion E; cbn in *; try discriminate; try Lia.lia.
    + specialize (H1 eq_refl). discriminate.
    + destruct H0 as [H0|H0]; discriminate.
Qed.
