(* C15 -- program lookup follows PATH order and never runs something else.
   The file system is an arbitrary oracle fs : path -> option errno (None = an image at that path can be
   started); every statement is for all fs, all PATH strings and all command names. *)
From Coq Require Import List NArith Bool Arith.
Require Import SP.Base.Str SP.Lib.Path SP.Lib.ExecArgs SP.Proofs.PathProofs SP.Proofs.ExecArgsProofs.
Import ListNotations.
Local Open Scope N_scope.

(* the tokenizer: the non-empty pieces between colons, in order *)
Theorem C15_split_path_spec : forall p, split_path p = filter nonempty (split_on colon p).
Proof. exact split_path_spec. Qed.
Print Assumptions C15_split_path_spec.

Theorem C15_split_on_join : forall d s, join [d] (split_on d s) = s.
Proof. exact split_on_join. Qed.
Print Assumptions C15_split_on_join.

(* a name without a slash: the candidates are <entry>/<name> for the non-empty entries, in PATH order *)
Theorem C15_search_when_no_slash : forall cmd p, ~ In slash cmd -> p <> [] ->
  candidates cmd (search_path_of cmd (Some p)) = map (fun d => d ++ [slash] ++ cmd) (filter nonempty (split_on colon p)).
Proof. exact search_when_no_slash. Qed.
Print Assumptions C15_search_when_no_slash.

(* a name with a slash: used as given, no search *)
Theorem C15_no_search_with_slash : forall cmd pe, In slash cmd -> candidates cmd (search_path_of cmd pe) = [cmd].
Proof. exact no_search_with_slash. Qed.
Print Assumptions C15_no_search_with_slash.

(* the exec calls are the candidates up to and including the first startable one, which is the image
   that runs; if none is startable all are tried and the last error is reported *)
Theorem C15_lookup_first_startable : forall fs cands e0,
  match first_startable fs cands with
  | Some (skipped, x) => exec_loop fs cands e0 = (skipped ++ [x], inl x)
                         /\ Forall (fun c => fs c <> None) skipped /\ fs x = None
                         /\ exists rest, cands = skipped ++ x :: rest
  | None => fst (exec_loop fs cands e0) = cands /\ Forall (fun c => fs c <> None) cands
            /\ exists e, snd (exec_loop fs cands e0) = inr e
               /\ (cands = [] -> e = e0) /\ (cands <> [] -> fs (last cands []) = Some e)
  end.
Proof. exact lookup_first_startable. Qed.
Print Assumptions C15_lookup_first_startable.

(* nothing startable: an error, never a success and never some other image *)
Theorem C15_lookup_failure_is_error : forall fs cmd pe,
  (forall c, In c (candidates cmd (search_path_of cmd pe)) -> fs c <> None) ->
  exists e, snd (lookup_and_exec fs cmd pe) = inr e.
Proof. exact lookup_failure_is_error. Qed.
Print Assumptions C15_lookup_failure_is_error.

(* the whole launch uses this loop on the prepared candidates, and an explicitly named executable goes
   through the same rules as a first argument of that name *)
Theorem C15_launch_lookup : forall fs r p, prepare r = PPlan p -> launch fs r = Some (exec_loop fs (p_cands p) ENOENT).
Proof. exact launch_lookup. Qed.
Print Assumptions C15_launch_lookup.

Theorem C15_override_same_rules : forall fs r e a0 rest,
  r_argv r = a0 :: rest -> r_exe r = Some e ->
  forall p, prepare r = PPlan p ->
  forall p', prepare (mkreq (e :: rest) None (r_env r) (r_cwd r) (r_path r)) = PPlan p' ->
  p_cands p = p_cands p' /\ launch fs r = launch fs (mkreq (e :: rest) None (r_env r) (r_cwd r) (r_path r)).
Proof. exact override_same_rules. Qed.
Print Assumptions C15_override_same_rules.

(* "the parent's PATH": the environment requested for the child -- a PATH entry of its own included -- has no
   influence on which paths are tried or on the outcome *)
Theorem C15_lookup_ignores_child_env : forall r env' p p',
  prepare r = PPlan p -> prepare (mkreq (r_argv r) (r_exe r) env' (r_cwd r) (r_path r)) = PPlan p' ->
  p_cands p' = p_cands p /\ forall fs, exec_loop fs (p_cands p') ENOENT = exec_loop fs (p_cands p) ENOENT.
Proof. exact lookup_ignores_child_env. Qed.
Print Assumptions C15_lookup_ignores_child_env.

Example C15_nonvacuous :
  (* PATH = ":/a::/b:" , cmd = "x", /a/x is not executable (EACCES), /b/x starts *)
  let fs := fun c => if str_eqb c [47; 98; 47; 120] then None else if str_eqb c [47; 97; 47; 120] then Some 13 else Some 2 in
  lookup_and_exec fs [120] (Some [58; 47; 97; 58; 58; 47; 98; 58]) = ([[47; 97; 47; 120]; [47; 98; 47; 120]], inl [47; 98; 47; 120])
  /\ lookup_and_exec fs [120] (Some [58; 58]) = ([], inr 2).
Proof. split; vm_compute; reflexivity. Qed.
