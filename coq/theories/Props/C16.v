(* C16 -- Exec builder calls compose.
   apply_op (Lib/Builder.v) is one function per builder method on the accumulated description, None being a
   panic; base is the environment of the calling process.  The statements are for every sequence of calls
   with arbitrary byte strings as names and values. *)
From Coq Require Import List NArith Bool.
Require Import SP.Base.Str SP.Lib.Env SP.Lib.Builder SP.Lib.ExecArgs SP.Params.
Require Import SP.Proofs.EnvProofs SP.Proofs.BuilderProofs SP.Proofs.ExecArgsProofs.
Import ListNotations.
Local Open Scope N_scope.

(* arguments appear in the order added; the command is never changed; the launched vector is command :: args *)
Theorem C16_args_in_order : forall base ops e e', run_plain base e ops = Some e' ->
  b_args e' = b_args e ++ concat (map added ops) /\ b_command e' = b_command e.
Proof. exact args_in_order. Qed.
Print Assumptions C16_args_in_order.

Theorem C16_popen_argv : forall e l, popen e = Some l -> l_argv l = b_command e :: b_args e.
Proof. exact popen_argv. Qed.
Print Assumptions C16_popen_argv.

(* environment calls are ordered edits of a map that starts as the inherited environment: for every name,
   the value in the final list is the fold of the edits (set: last wins; remove: absent unless set again;
   clear: everything absent; extend: the slice's last binding of the name) *)
Theorem C16_env_edits_refine_map : forall base k ops e e', run_plain base e ops = Some e' ->
  view base e' k = fold_left (fun prev o => edit k o prev) ops (view base e k).
Proof. exact env_edits_refine_map. Qed.
Print Assumptions C16_env_edits_refine_map.

(* ... and that final list is what the child sees (C06): getenv on the block = last binding *)
Theorem C16_view_reaches_child : forall r p env k,
  prepare r = PPlan p -> r_env r = Some env ->
  Forall (fun kv => ~ In 61 (fst kv)) env -> ~ In 61 k ->
  exists envp, p_envp p = Some envp /\ getenv k envp = last_binding k env.
Proof. exact child_env_view. Qed.
Print Assumptions C16_view_reaches_child.

Theorem C16_untouched_env_inherits : forall base ops e e', run_plain base e ops = Some e' ->
  Forall (fun o => match o with OEnv _ _ | OEnvExtend _ | OEnvRemove _ | OEnvClear => False | _ => True end) ops ->
  b_env e' = b_env e.
Proof. exact untouched_env_inherits. Qed.
Print Assumptions C16_untouched_env_inherits.

(* Exec::shell: the string is one single argument after the shell and its flag, for every string *)
Theorem C16_shell_single_arg : forall s, exists l, terminate (shell s) TPopen = Some l /\ l_argv l = [shell0; shell1; s].
Proof. exact shell_always_launches. Qed.
Print Assumptions C16_shell_single_arg.

(* a stream is configured once: a call panics exactly when the stream already has a setting (other than
   Pipe over Pipe); a call that does not panic took a fresh setting or changed nothing *)
Theorem C16_stdout_set_once : forall base e r,
  (apply_op base e (OStdout r) = None <-> b_out e <> BNone /\ ~ (b_out e = BPipe /\ r = BPipe))
  /\ (forall e', apply_op base e (OStdout r) = Some e' -> b_out e = BNone /\ b_out e' = r \/ b_out e = BPipe /\ r = BPipe /\ b_out e' = BPipe).
Proof. exact stdout_set_once. Qed.
Print Assumptions C16_stdout_set_once.

Theorem C16_stderr_set_once : forall base e r,
  (apply_op base e (OStderr r) = None <-> b_err e <> BNone /\ ~ (b_err e = BPipe /\ r = BPipe))
  /\ (forall e', apply_op base e (OStderr r) = Some e' -> b_err e = BNone /\ b_err e' = r \/ b_err e = BPipe /\ r = BPipe /\ b_err e' = BPipe).
Proof. exact stderr_set_once. Qed.
Print Assumptions C16_stderr_set_once.

Theorem C16_stdin_set_once : forall base e a,
  apply_op base e (OStdin a) = None <-> a = IRedir BMerge \/ (b_in e <> BNone /\ ~ (b_in e = BPipe /\ a = IRedir BPipe)).
Proof. exact stdin_set_once. Qed.
Print Assumptions C16_stdin_set_once.

(* nothing is silently overridden or dropped by later calls *)
Theorem C16_never_overridden : forall base ops e e', run_plain base e ops = Some e' ->
  (b_in e <> BNone -> b_in e' = b_in e) /\ (b_out e <> BNone -> b_out e' = b_out e) /\ (b_err e <> BNone -> b_err e' = b_err e).
Proof. exact never_overridden. Qed.
Print Assumptions C16_never_overridden.

Theorem C16_data_kept : forall base ops e e', data_inv e -> run_plain base e ops = Some e' -> b_data e <> None -> b_data e' = b_data e.
Proof. exact data_kept. Qed.
Print Assumptions C16_data_kept.

Theorem C16_data_inv_reachable : forall base c ops e', run_plain base (cmd c) ops = Some e' -> data_inv e'.
Proof. exact data_inv_reachable. Qed.
Print Assumptions C16_data_inv_reachable.

(* input data given to a terminator that cannot deliver it is refused loudly; capture and communicate
   deliver it on a pipe *)
Theorem C16_data_needs_capable_terminator : forall e d,
  b_data e = Some d ->
  terminate e TPopen = None /\ terminate e TJoin = None /\ terminate e TStreamStdout = None
  /\ terminate e TStreamStderr = None /\ terminate e TStreamStdin = None.
Proof. exact data_needs_capable_terminator. Qed.
Print Assumptions C16_data_needs_capable_terminator.

Theorem C16_data_delivered : forall e d, b_data e = Some d -> data_inv e ->
  forall t, t = TCapture \/ t = TCommunicate ->
  forall l, terminate e t = Some l -> l_data l = Some d /\ l_in l = BPipe /\ l_argv l = b_command e :: b_args e /\ l_panics_after l = false.
Proof. exact data_delivered. Qed.
Print Assumptions C16_data_delivered.

(* cwd() and detached() are part of the quantifier: the last cwd() wins, without one the directory is untouched
   (the child inherits the parent's), detached is set exactly by a detached() call, and every terminator
   launches with the description's argv, directory and environment (communicate() alone forces detached) *)
Theorem C16_cwd_last_wins : forall base ops1 d ops2 e e',
  run_plain base e (ops1 ++ OCwd d :: ops2) = Some e' -> forallb (fun o => negb (is_cwd o)) ops2 = true ->
  b_cwd e' = Some d.
Proof. exact cwd_last_wins. Qed.
Print Assumptions C16_cwd_last_wins.

Theorem C16_cwd_untouched : forall base ops e e',
  run_plain base e ops = Some e' -> forallb (fun o => negb (is_cwd o)) ops = true -> b_cwd e' = b_cwd e.
Proof. exact cwd_untouched. Qed.
Print Assumptions C16_cwd_untouched.

Theorem C16_detached_iff_called : forall base ops e e',
  run_plain base e ops = Some e' -> b_detached e' = b_detached e || existsb is_detached ops.
Proof. exact detached_iff_called. Qed.
Print Assumptions C16_detached_iff_called.

Theorem C16_terminate_carries : forall e t l, terminate e t = Some l ->
  l_cwd l = b_cwd e /\ l_env l = b_env e /\ l_argv l = b_command e :: b_args e
  /\ l_detached l = (match t with TCommunicate => true | _ => b_detached e end).
Proof. exact terminate_carries. Qed.
Print Assumptions C16_terminate_carries.

Example C16_cwd_detached_nonvacuous :
  match run_plain [] (cmd [120]) [OCwd [47]; OArg [97]; ODetached; OCwd [115]; OEnv [72] [49]] with
  | Some e => b_cwd e = Some [115] /\ b_detached e = true
              /\ option_map l_cwd (terminate e TJoin) = Some (Some [115])
              /\ option_map l_detached (terminate e TCapture) = Some true
  | None => False
  end
  /\ option_map l_detached (terminate (cmd [120]) TCommunicate) = Some true
  /\ option_map l_detached (terminate (cmd [120]) TCapture) = Some false.
Proof. vm_compute. auto 8. Qed.

(* cloning: the two handles are independent and the clone equals the original at the moment of cloning *)
Theorem C16_clone_independent : forall base cur other o st',
  step base (cur, other) o = Some st' ->
  match o with
  | OClone => st' = (cur, Some cur)
  | OSwap => st' = match other with Some s => (s, Some cur) | None => (cur, None) end
  | _ => snd st' = other /\ apply_op base cur o = Some (fst st')
  end.
Proof. exact clone_independent. Qed.
Print Assumptions C16_clone_independent.

Theorem C16_clone_equivalent : forall base e ops1 ops2 e1,
  Forall (fun o => o <> OClone /\ o <> OSwap) ops1 -> Forall (fun o => o <> OClone /\ o <> OSwap) ops2 ->
  run_plain base e ops1 = Some e1 ->
  match run_ops base (e, None) (ops1 ++ OClone :: ops2) 0 with
  | inl (cur, other) => other = Some e1 /\ run_plain base e1 ops2 = Some cur
  | inr _ => run_plain base e1 ops2 = None
  end.
Proof. exact clone_equivalent. Qed.
Print Assumptions C16_clone_equivalent.

Example C16_nonvacuous :
  let base := [([72], [49]); ([80], [50])] in           (* H=1 P=2 *)
  let ops := [OArg [97]; OEnv [72] [51]; OEnvRemove [80]; OArgs [[98]; [99]]; OEnv [80] [52]; OStdin (IData [100]); OStdout BPipe; OStdout BPipe] in
  match run_plain base (cmd [120]) ops with
  | Some e => b_args e = [[97]; [98]; [99]] /\ view base e [72] = Some [51] /\ view base e [80] = Some [52]
              /\ terminate e TPopen = None
              /\ option_map l_data (terminate e TCapture) = Some (Some [100])
  | None => False
  end
  /\ run_plain base (cmd [120]) [OStdout (BFile 1); OStdout BPipe] = None.
Proof. split; vm_compute; auto. Qed.
