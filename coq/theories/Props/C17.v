(* C17 -- nothing is allocated between fork and exec.
   The only growing object of the child branch is the buffer in which <dir>/<cmd>\0 is assembled; a
   Vec<u8> is modelled by (len, capacity) and extend_from_slice / push report whether they reallocate
   (Lib/Path.v vec_extend).  For every command, every PATH and every iteration of the loop nothing
   reallocates.  That the other child-side operations (dup2, chdir on the C string built before the fork,
   sigmask, signal, setgid/setuid/setpgid, the 4-byte error report from a stack array) do not allocate is
   not provable from a model of their arguments; it is measured by the allocator probe of engine E2. *)
From Coq Require Import List NArith Bool Arith.
Require Import SP.Base.Str SP.Lib.Path SP.Proofs.PathProofs.
Import ListNotations.
Local Open Scope nat_scope.

Theorem C17_prealloc_suffices : forall cmd p,
  (forall d, In d (split_path p) -> length d + 1 + length cmd + 1 <= prealloc_capacity cmd (Some p))
  /\ length cmd + 1 <= prealloc_capacity cmd None.
Proof. exact prealloc_suffices. Qed.
Print Assumptions C17_prealloc_suffices.

Theorem C17_exec_never_reallocates : forall cmd sp len,
  let cap := prealloc_capacity cmd sp in
  forall comps, In comps (comps_of cmd sp) ->
    assemble_exe (len, cap) comps = ((length (concat comps) + 1, cap), false).
Proof. exact exec_never_reallocates. Qed.
Print Assumptions C17_exec_never_reallocates.

(* the whole loop, with the buffer threaded from one candidate to the next *)
Theorem C17_no_alloc_in_exec_loop : forall cmd sp, child_exec_allocs cmd sp = false.
Proof. exact no_alloc_in_exec_loop. Qed.
Print Assumptions C17_no_alloc_in_exec_loop.

Theorem C17_longest_fits : forall cmd sp, longest_assembled cmd sp <= prealloc_capacity cmd sp.
Proof. exact longest_fits. Qed.
Print Assumptions C17_longest_fits.

Example C17_nonvacuous :
  let cmd := [120; 121]%N in let p := [47; 97; 58; 47; 98; 98; 98]%N in
  prealloc_capacity cmd (Some p) = 8 /\ longest_assembled cmd (Some p) = 8
  /\ snd (assemble_exe (0, 7) [[47; 98; 98; 98]%N; [47]%N; cmd]) = true.
Proof. repeat split; vm_compute; reflexivity. Qed.
