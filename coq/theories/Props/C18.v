(* C18 -- Children start with a clean signal state regardless of the parent.
   In the model the reset is two effects of the child process: 100 = signal mask emptied
   (pthread_sigmask(SIG_SETMASK, empty)), 101 = SIGPIPE back to its default action.  Whatever mask the
   spawning thread has and whatever the parent's SIGPIPE disposition is, both are overwritten, so the
   state at exec does not depend on them. *)
From Coq Require Import List NArith Bool Arith.
Require Import SP.Lib.Spawn SP.Lib.SigState SP.Proofs.SpawnProofs SP.Proofs.SigProofs.
Import ListNotations.

(* in every started child both resets were applied, before any identity change and before exec; and exactly
   the requested chdir / setgid / setuid / setpgid were applied, the group before the user *)
Theorem C18_child_signal_state : forall c, In c (configs_full ++ configs_opts) -> signal_state_clean c = true.
Proof. exact child_signal_state. Qed.
Print Assumptions C18_child_signal_state.

(* for EVERY signal mask of the spawning thread (a bit set of unbounded width) and every SIGPIPE disposition of the
   parent: the program image of every started child begins with an empty mask and the default action for SIGPIPE
   (Lib/SigState.v: fork copies, the child's effects act in order, execve keeps mask and ignored signals) *)
Theorem C18_image_starts_clean : forall c parent,
  In c (configs_full ++ configs_opts) ->
  (forall t eff, o_child_out (run None exec_yes c) = Started t eff -> image_state parent eff = clean)
  /\ ((forall t eff, o_child_out (run None exec_yes c) <> Started t eff) -> invalid c = true).
Proof. exact image_starts_clean. Qed.
Print Assumptions C18_image_starts_clean.

(* ... and it is the resets that do it: a child that only changes directory and identity inherits both *)
Theorem C18_no_reset_inherits : forall parent, image_state parent [50; 2; 1; 3] = at_exec parent.
Proof. exact no_reset_inherits. Qed.
Print Assumptions C18_no_reset_inherits.

Example C18_nonvacuous :
  match o_child_out (run None exec_yes (mk RNone RNone RNone true true true true false false 1)) with
  | Started _ eff => eff = [50; 100; 101; 2; 1; 3]
  | _ => False
  end.
Proof. vm_compute. reflexivity. Qed.
