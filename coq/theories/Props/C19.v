(* C19 -- The printable command line is a faithful shell quoting of the command.
   Only statements here; proofs live in Proofs/QuoteProofs.v. *)
From Coq Require Import List NArith Bool.
Require Import SP.Params SP.Base.Str SP.Lib.Quote SP.Lib.Sh SP.Proofs.QuoteProofs.
Import ListNotations.
Open Scope N_scope.

(* Every non-empty argument vector over NUL-free Unicode strings, rendered the way
   to_cmdline_lossy / Debug for Exec renders it, evaluates under the shell model to exactly
   that vector: one command, same words, reserved words in command position neutralised,
   no special character left unquoted. *)
Theorem C19_render_roundtrip :
  forall argv : list str, argv <> [] -> Forall no_nul argv -> sh_eval (render argv) = Some [argv].
Proof. exact render_eval. Qed.
Print Assumptions C19_render_roundtrip.

(* Pipelines of any number of stages: stages come back in order, split at `|`. *)
Theorem C19_render_pipeline_roundtrip :
  forall cmds : list (list str), cmds <> [] -> Forall good_cmd cmds ->
    sh_eval (render_pipeline cmds) = Some cmds.
Proof. exact render_pipeline_eval. Qed.
Print Assumptions C19_render_pipeline_roundtrip.

(* The same for plain word splitting (no reserved-word rule). *)
Theorem C19_render_pipeline_words :
  forall cmds : list (list str), cmds <> [] -> Forall good_cmd cmds ->
    sh_words (render_pipeline cmds) = Some cmds.
Proof. exact render_pipeline_words. Qed.
Print Assumptions C19_render_pipeline_words.

(* Non-vacuity: a vector with an empty argument, a quote, a blank, a glob, a newline and a
   reserved word as program meets the hypotheses, and the statement is not trivially about
   bare words. *)
Example C19_nonvacuous :
  let argv := [[105;102]; []; [39]; [97;32;98]; [42]; [10]; [36;72;79;77;69]] in
  argv <> [] /\ Forall no_nul argv /\ sh_eval (render argv) = Some [argv]
  /\ render argv <> join [32] argv.
Proof.
  cbv zeta. split; [discriminate|]. split.
  - repeat constructor.
  - split; [vm_compute; reflexivity|]. vm_compute. discriminate.
Qed.
