(* C20 -- Windows command-line assembly round-trips through Microsoft parsing rules.
   Only statements here; proofs live in Proofs/WinProofs.v. *)
From Coq Require Import List NArith Bool.
Require Import SP.Params SP.Base.Str SP.Lib.WinCmdline SP.Lib.MsParse SP.Proofs.WinProofs.
Import ListNotations.
Open Scope N_scope.

(* For every argument vector (any number of arguments of any length over all UTF-16 units), whenever
   assemble_cmdline produces a line, parsing that line with the argument rules gives back exactly the
   vector -- under the C runtime's rules (dq = 1), CommandLineToArgvW's (dq = 2) and the pre-2008
   runtime's (dq = 0): the theorem is uniform in dq. *)
Theorem C20_cmdline_roundtrip :
  forall (dq : N) (argv : list str) (cl : str),
    assemble_cmdline argv = Some cl -> parse_args dq cl = argv.
Proof. exact roundtrip. Qed.
Print Assumptions C20_cmdline_roundtrip.

(* An argument containing NUL is rejected, and nothing else is. *)
Theorem C20_nul_rejected :
  forall argv : list str, (exists a, In a argv /\ In 0 a) <-> assemble_cmdline argv = None.
Proof. exact nul_rejected. Qed.
Print Assumptions C20_nul_rejected.

Theorem C20_nul_free_accepted :
  forall argv : list str, (forall a, In a argv -> ~ In 0 a) -> exists cl, assemble_cmdline argv = Some cl.
Proof. exact nul_free_accepted. Qed.
Print Assumptions C20_nul_free_accepted.

(* n backslashes before a quote, at the end, before another character, and at the end of an argument
   that needs quoting, come back as n -- for every n. *)
Theorem C20_backslash_runs :
  forall (dq : N) (n : nat) (x : N),
    parse_args dq (join [32] (map append_quoted
       [repeat 92 n ++ [34]; repeat 92 n; repeat 92 n ++ [x]; [97; 32] ++ repeat 92 n]))
    = [repeat 92 n ++ [34]; repeat 92 n; repeat 92 n ++ [x]; [97; 32] ++ repeat 92 n].
Proof. exact backslash_runs. Qed.
Print Assumptions C20_backslash_runs.

(* The program name is parsed by its own rule on Windows (no backslash processing).  Partial: proved
   for names without double quote and backslash... a Windows path does contain backslashes, and the
   rule then still works unless the quoted name ends in one; that refinement is not proved. *)
Theorem C20_progname_roundtrip_partial :
  forall (p rest : str), after_arg rest ->
    forallb (fun c => negb (c =? 34) && negb (c =? 92)) p = true ->
    parse_progname (append_quoted p ++ rest) = (p, rest).
Proof. exact progname_roundtrip_partial. Qed.
Print Assumptions C20_progname_roundtrip_partial.

(* The refinement, exact: for every name without a double quote (backslashes allowed, as in a Windows path)
   the program-name rule gives back the name followed by as many extra backslashes as the name ends in when
   it had to be quoted -- so it round-trips iff it needs no quoting or does not end in a backslash.
   (tb p 0 = number of trailing backslashes of p.)  The witness below is a quoted name that ends in one:
   a directory-like name with a blank, which no CreateProcess call can run; the property is about the
   argument rules, under which C20_cmdline_roundtrip holds for every vector. *)
Theorem C20_progname_exact :
  forall (p rest : str), after_arg rest ->
    forallb (fun c => negb (c =? 34)) p = true ->
    parse_progname (append_quoted p ++ rest) = (p ++ (if needs_quote p then repeat 92 (tb p 0) else []), rest).
Proof. exact progname_exact. Qed.
Print Assumptions C20_progname_exact.

Theorem C20_progname_roundtrip_iff :
  forall (p rest : str), after_arg rest ->
    forallb (fun c => negb (c =? 34)) p = true ->
    (parse_progname (append_quoted p ++ rest) = (p, rest) <-> needs_quote p = false \/ tb p 0 = 0%nat).
Proof. exact progname_roundtrip_iff. Qed.
Print Assumptions C20_progname_roundtrip_iff.

Example C20_progname_witness :
  parse_progname (append_quoted [67;58;92;97;32;98;92;120] ++ [32;121]) = ([67;58;92;97;32;98;92;120], [32;121])   (* C:\a b\x *)
  /\ parse_progname (append_quoted [97;32;92] ++ []) = ([97;32;92;92], [])                                          (* `a \` *)
  /\ parse_args 1 (append_quoted [97;32;92]) = [[97;32;92]].
Proof. vm_compute. repeat split; reflexivity. Qed.

(* Non-vacuity and validation of the reference parser on Microsoft's documented example table
   ("Parsing C command-line arguments"): each line is the text after the program name. *)
Example C20_ms_doc_table :
  (* row 1: quoted abc, then d, then e *)
  parse_args 1 [34;97;98;99;34;32;100;32;101] = [[97;98;99];[100];[101]]
  (* row 2: two backslashes stay two when no quote follows; a quoted part in the middle of a word *)
  /\ parse_args 1 [97;92;92;98;32;100;34;101;32;102;34;103;32;104] = [[97;92;92;98];[100;101;32;102;103];[104]]
  (* row 3: three backslashes and a quote give one backslash and a literal quote *)
  /\ parse_args 1 [97;92;92;92;34;98;32;99;32;100] = [[97;92;34;98];[99];[100]]
  (* row 4: four backslashes and a quote give two backslashes and open a quoted part *)
  /\ parse_args 1 [97;92;92;92;92;34;98;32;99;34;32;100;32;101] = [[97;92;92;98;32;99];[100];[101]]
  (* row 5: a doubled quote inside a quoted part: one argument for the 2008+ runtime, three for CommandLineToArgvW *)
  /\ parse_args 1 [97;34;98;34;34;32;99;32;100] = [[97;98;34;32;99;32;100]]
  /\ parse_args 2 [97;34;98;34;34;32;99;32;100] = [[97;98;34];[99];[100]].
Proof. vm_compute. repeat split; reflexivity. Qed.

Example C20_nonvacuous :
  let argv := [[97]; []; [97;32;98]; [92;92;34]; [97;92]; [32;92]; [9731]] in
  exists cl, assemble_cmdline argv = Some cl /\ cl <> join [32] argv /\ parse_args 1 cl = argv.
Proof. eexists. split; [vm_compute; reflexivity|]. split; [discriminate|]. vm_compute. reflexivity. Qed.
