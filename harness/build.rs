// Cuts the text of the cfg(windows) pure functions out of /repo/src/popen.rs at build time so that the
// very source text is compiled (against a UTF-16 shim) and run on Linux.  Re-run whenever the source changes.
use std::fs;
use std::path::Path;

fn cut(src: &str, header: &str) -> Option<String> {
    let start = src.find(header)?;
    let bytes = src.as_bytes();
    let mut i = start + src[start..].find('{')?;
    let open = i;
    let mut depth = 0i32;
    let mut in_str = false;
    let mut in_chr = false;
    let mut in_line_comment = false;
    while i < bytes.len() {
        let c = bytes[i] as char;
        if in_line_comment {
            if c == '\n' {
                in_line_comment = false;
            }
        } else if in_str {
            if c == '\\' {
                i += 1;
            } else if c == '"' {
                in_str = false;
            }
        } else if in_chr {
            if c == '\\' {
                i += 1;
            } else if c == '\'' {
                in_chr = false;
            }
        } else if c == '/' && i + 1 < bytes.len() && bytes[i + 1] as char == '/' {
            in_line_comment = true;
        } else if c == '"' {
            in_str = true;
        } else if c == '\'' {
            // char literal (not a lifetime): 'x' or '\x'
            if i + 2 < bytes.len() && (bytes[i + 2] as char == '\'' || bytes[i + 1] as char == '\\') {
                in_chr = true;
            }
        } else if c == '{' {
            depth += 1;
        } else if c == '}' {
            depth -= 1;
            if depth == 0 {
                let _ = open;
                return Some(src[start..=i].to_string());
            }
        }
        i += 1;
    }
    None
}

fn main() {
    let repo = std::env::var("VERIF_REPO").unwrap_or_else(|_| "/repo".to_string());
    let path = format!("{}/src/popen.rs", repo);
    println!("cargo:rerun-if-changed={}", path);
    println!("cargo:rerun-if-changed=build.rs");
    let out = std::env::var("OUT_DIR").unwrap();
    let src = fs::read_to_string(&path).unwrap_or_default();
    let mut text = String::new();
    let mut ok = true;
    for h in ["fn assemble_cmdline(", "fn append_quoted(", "fn format_env_block("] {
        match cut(&src, h) {
            Some(t) => {
                text.push_str(&t);
                text.push_str("\n\n");
            }
            None => ok = false,
        }
    }
    if !ok {
        // the tie is broken (function renamed or removed): keep the harness compiling and let the check report it
        text = String::from(
            "fn assemble_cmdline(_argv: Vec<OsString>) -> io::Result<OsString> { Err(io::Error::new(io::ErrorKind::Other, \"CUT-FAILED\")) }\n\
             fn format_env_block(_env: &[(OsString, OsString)]) -> Vec<u16> { vec![0xFFFF] }\n",
        );
    }
    fs::write(Path::new(&out).join("wincut.rs"), text).unwrap();
    // the thread-based communicator of the cfg(windows) build: std-only code, compiled here as it stands
    let cpath = format!("{}/src/communicate.rs", repo);
    println!("cargo:rerun-if-changed={}", cpath);
    let csrc = fs::read_to_string(&cpath).unwrap_or_default();
    let (wtext, wok) = match csrc.find("#[cfg(windows)]\nmod raw {").and_then(|p| cut(&csrc[p..], "mod raw {")) {
        Some(t) => (format!("pub {}\n", t), true),
        None => (String::from("pub mod raw { }\n"), false),
    };
    fs::write(Path::new(&out).join("wincomm.rs"), wtext).unwrap();
    fs::write(Path::new(&out).join("wincomm_ok.rs"), format!("pub const WINCOMM_OK: bool = {};", wok)).unwrap();
    fs::write(Path::new(&out).join("wincut_ok.rs"), format!("pub const CUT_OK: bool = {};", ok)).unwrap();
}
