//! Scripted child.  Behaviour is selected by the environment variable STUB_MODE so that the
//! argument vector stays entirely under the control of the scenario.
//!
//!   argvcat : copy stdin to stdout, then print one line "argv <argv encoded as bytes>"
use spharness::*;
use std::io::{self, Read, Write};
use std::os::unix::ffi::OsStrExt;

fn main() {
    let mode = std::env::var("STUB_MODE").unwrap_or_default();
    match mode.as_str() {
        "argvcat" => {
            let mut buf = Vec::new();
            io::stdin().read_to_end(&mut buf).ok();
            let out = io::stdout();
            let mut out = out.lock();
            out.write_all(&buf).unwrap();
            let args: Vec<String> = std::env::args_os().map(|a| enc_bytes(a.as_bytes())).collect();
            writeln!(out, "argv {}", args.join(",")).unwrap();
        }
        _ => {
            eprintln!("childstub: unknown STUB_MODE {:?}", mode);
            std::process::exit(99);
        }
    }
}
