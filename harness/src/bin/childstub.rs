//! Scripted child for the engines.
//!
//! STUB_MODE=argvcat (engine E3/C19): copy stdin to stdout, then print "argv <argv as bytes>".
//! Otherwise (engine E2): write a self-report to <workdir>/rep.<pid> and run the behaviour script of the
//! scenario.  The work directory is found through /verif/.build/e2/byppid/<ppid> (a symlink made by
//! the orchestrator), so that neither argv nor the environment -- which the scenarios control
//! completely -- is needed to configure the stub.
//!
//! behaviour script (<workdir>/cfg.<ppid>, one op per line; lines `@<tag> op` apply only to a stub whose
//! argv[1] is <tag>):
//!   sleep <ms> | readeof | cat | tagcat <text> | write <fd> <n> | writeforever <fd> | close <fd>
//!   exit <code> | raise <sig> | hold
use spharness::*;
use std::io::{self, Read, Write};
use std::os::unix::ffi::OsStrExt;
use std::time::Instant;

// The Rust runtime sets SIGPIPE to "ignore" before main(); the disposition this process inherited is
// captured earlier, from the ELF init array.
static mut SIGPIPE_AT_START: isize = -1;
extern "C" fn capture_sigpipe() {
    unsafe {
        let mut sa: libc::sigaction = std::mem::zeroed();
        libc::sigaction(libc::SIGPIPE, std::ptr::null(), &mut sa);
        SIGPIPE_AT_START = sa.sa_sigaction as isize;
    }
}
#[used]
#[link_section = ".init_array"]
static INIT: extern "C" fn() = capture_sigpipe;

fn hexenc(b: &[u8]) -> String {
    if b.is_empty() {
        return "-".into();
    }
    b.iter().map(|c| format!("{:02x}", c)).collect()
}

fn main() {
    let mode = std::env::var("STUB_MODE").unwrap_or_default();
    if mode == "argvcat" {
        let mut buf = Vec::new();
        io::stdin().read_to_end(&mut buf).ok();
        let out = io::stdout();
        let mut out = out.lock();
        out.write_all(&buf).unwrap();
        let args: Vec<String> = std::env::args_os().map(|a| enc_bytes(a.as_bytes())).collect();
        writeln!(out, "argv {}", args.join(",")).unwrap();
        return;
    }
    let t0 = Instant::now();
    let pid = std::process::id();
    let ppid = unsafe { libc::getppid() };
    let wd = std::fs::read_link(format!("/verif/.build/e2/byppid/{}", ppid))
        .map(|p| p.to_string_lossy().into_owned())
        .or_else(|_| std::env::var("STUB_DIR"))
        .unwrap_or_else(|_| "/verif/.build/e2/orphans".to_string());
    let mut rep = String::new();
    let args: Vec<Vec<u8>> = std::env::args_os().map(|a| a.as_bytes().to_vec()).collect();
    rep.push_str(&format!("argv {}\n", args.iter().map(|a| hexenc(a)).collect::<Vec<_>>().join(",")));
    // the raw environment block as the kernel handed it over (std::env::vars_os drops entries it cannot
    // parse as name=value, e.g. one with an empty name)
    let mut envs: Vec<String> = vec![];
    unsafe {
        extern "C" {
            static environ: *const *const libc::c_char;
        }
        let mut i = 0;
        while !environ.is_null() && !(*environ.add(i)).is_null() {
            envs.push(hexenc(std::ffi::CStr::from_ptr(*environ.add(i)).to_bytes()));
            i += 1;
        }
    }
    rep.push_str(&format!("env {}\n", if envs.is_empty() { "empty".to_string() } else { envs.join(",") }));
    unsafe {
        let p = libc::getauxval(libc::AT_EXECFN) as *const libc::c_char;
        if !p.is_null() {
            rep.push_str(&format!("execfn {}\n", hexenc(std::ffi::CStr::from_ptr(p).to_bytes())));
        }
    }
    rep.push_str(&format!(
        "cwd {}\n",
        std::env::current_dir().map(|p| hexenc(p.as_os_str().as_bytes())).unwrap_or("?".into())
    ));
    unsafe {
        let (mut r, mut e, mut s) = (0u32, 0u32, 0u32);
        libc::getresuid(&mut r, &mut e, &mut s);
        let (mut rg, mut eg, mut sg) = (0u32, 0u32, 0u32);
        libc::getresgid(&mut rg, &mut eg, &mut sg);
        rep.push_str(&format!(
            "ids ruid={} euid={} suid={} rgid={} egid={} sgid={} pgid={} pid={} ppid={}\n",
            r, e, s, rg, eg, sg, libc::getpgrp(), pid, ppid
        ));
    }
    if let Ok(st) = std::fs::read_to_string("/proc/self/status") {
        let g = |k: &str| st.lines().find(|l| l.starts_with(k)).map(|l| l[k.len()..].trim().to_string()).unwrap_or_default();
        rep.push_str(&format!("sig blk={} ign={} cgt={}\n", g("SigBlk:"), g("SigIgn:"), g("SigCgt:")));
        rep.push_str(&format!("sigpipe_at_start {}\n", unsafe { SIGPIPE_AT_START }));
    }
    let mut fds: Vec<i32> = std::fs::read_dir("/proc/self/fd")
        .unwrap()
        .filter_map(|e| e.ok())
        .filter_map(|e| e.file_name().to_str().and_then(|s| s.parse().ok()))
        .collect();
    fds.sort();
    for fd in fds {
        if let Ok(t) = std::fs::read_link(format!("/proc/self/fd/{}", fd)) {
            let t = t.to_string_lossy().into_owned();
            if t.contains("/proc/") && t.ends_with("/fd") {
                continue;
            }
            let fl = unsafe { libc::fcntl(fd, libc::F_GETFD) };
            let mut st: libc::stat = unsafe { std::mem::zeroed() };
            unsafe { libc::fstat(fd, &mut st) };
            let acc = unsafe { libc::fcntl(fd, libc::F_GETFL) } & libc::O_ACCMODE;
            rep.push_str(&format!("fd {} {} cloexec={} ino={}:{} acc={}\n", fd, hexenc(t.as_bytes()), fl & 1, st.st_dev, st.st_ino, acc));
        }
    }
    let rep_path = format!("{}/rep.{}", wd, pid);
    std::fs::write(&rep_path, &rep).ok();
    let mut more = String::new();
    let tag = args.get(1).map(|a| String::from_utf8_lossy(a).into_owned()).unwrap_or_default();
    let cfg = std::fs::read_to_string(format!("{}/cfg.{}", wd, ppid)).unwrap_or_default();
    for line in cfg.lines() {
        let mut line = line.trim();
        if line.is_empty() {
            continue;
        }
        if let Some(rest) = line.strip_prefix('@') {
            let (t, op) = rest.split_once(' ').unwrap_or((rest, ""));
            if t != tag {
                continue;
            }
            line = op;
        }
        let p: Vec<&str> = line.split(' ').collect();
        match p[0] {
            "sleep" => std::thread::sleep(std::time::Duration::from_millis(p[1].parse().unwrap())),
            "readeof" => {
                let mut n = 0usize;
                let mut h: u32 = 0x811c9dc5;
                let mut buf = [0u8; 65536];
                loop {
                    match io::stdin().read(&mut buf) {
                        Ok(0) | Err(_) => break,
                        Ok(k) => {
                            n += k;
                            for &c in &buf[..k] {
                                h = (h ^ c as u32).wrapping_mul(0x01000193);
                            }
                        }
                    }
                }
                more.push_str(&format!("stdin_eof bytes={} at_ms={} fnv={}\n", n, t0.elapsed().as_millis(), h));
                std::fs::write(&rep_path, format!("{}{}", rep, more)).ok();
            }
            "cat" | "tagcat" => {
                let mut data = Vec::new();
                io::stdin().read_to_end(&mut data).ok();
                let out = io::stdout();
                let mut out = out.lock();
                if p[0] == "tagcat" {
                    out.write_all(p[1].as_bytes()).ok();
                }
                out.write_all(&data).ok();
                out.flush().ok();
                more.push_str(&format!("stdin_eof bytes={} at_ms={}\n", data.len(), t0.elapsed().as_millis()));
                std::fs::write(&rep_path, format!("{}{}", rep, more)).ok();
            }
            "write" => {
                let fd: i32 = p[1].parse().unwrap();
                let n: usize = p[2].parse().unwrap();
                let chunk = vec![b'a' + (fd as u8 % 20); n.min(65536)];
                let mut left = n;
                while left > 0 {
                    let k = left.min(chunk.len());
                    let r = unsafe { libc::write(fd, chunk.as_ptr() as _, k) };
                    if r <= 0 {
                        more.push_str(&format!("write_failed fd={} errno={}\n", fd, io::Error::last_os_error().raw_os_error().unwrap_or(0)));
                        std::fs::write(&rep_path, format!("{}{}", rep, more)).ok();
                        break;
                    }
                    left -= r as usize;
                }
            }
            "writeforever" => {
                let fd: i32 = p[1].parse().unwrap();
                let chunk = [b'y'; 4096];
                loop {
                    let r = unsafe { libc::write(fd, chunk.as_ptr() as _, chunk.len()) };
                    if r <= 0 {
                        break;
                    }
                }
            }
            "floodhard" => {
                // like a shell loop of echo: keeps writing whatever write() says; only SIGPIPE (default action) ends it
                let fd: i32 = p[1].parse().unwrap();
                let chunk = [b'z'; 4096];
                // (the Rust runtime of this stub has set SIGPIPE to "ignore": put back what the image was started with)
                if unsafe { SIGPIPE_AT_START } == 0 {
                    unsafe { libc::signal(libc::SIGPIPE, libc::SIG_DFL) };
                }
                // never outlive a check that went wrong
                unsafe {
                    libc::signal(libc::SIGALRM, libc::SIG_DFL);
                    libc::alarm(45);
                }
                loop {
                    unsafe { libc::write(fd, chunk.as_ptr() as _, chunk.len()) };
                }
            }
            "errline" => {
                let line = format!("{}\n", p[1..].join(" "));
                unsafe { libc::write(2, line.as_ptr() as _, line.len()) };
            }
            "streamcat" => {
                // a streaming filter: tag first, then every chunk as it arrives; stops at EOF or when nobody reads
                let mut ok = unsafe { libc::write(1, p[1].as_ptr() as _, p[1].len()) } > 0;
                let mut buf = [0u8; 65536];
                let mut n = 0usize;
                while ok {
                    let k = unsafe { libc::read(0, buf.as_mut_ptr() as _, buf.len()) };
                    if k <= 0 {
                        break;
                    }
                    n += k as usize;
                    let mut off = 0usize;
                    while off < k as usize {
                        let w = unsafe { libc::write(1, buf.as_ptr().add(off) as _, k as usize - off) };
                        if w <= 0 {
                            ok = false;
                            break;
                        }
                        off += w as usize;
                    }
                }
                more.push_str(&format!("streamcat bytes={} ok={}\n", n, ok));
                std::fs::write(&rep_path, format!("{}{}", rep, more)).ok();
            }
            "readn" => {
                // read p[1] bytes of stdin (or up to end-of-file), then go on
                let want: usize = p[1].parse().unwrap();
                let mut buf = [0u8; 4096];
                let mut n = 0usize;
                while n < want {
                    let k = unsafe { libc::read(0, buf.as_mut_ptr() as _, buf.len().min(want - n)) };
                    if k <= 0 {
                        break;
                    }
                    n += k as usize;
                }
            }
            "close" => {
                unsafe { libc::close(p[1].parse().unwrap()) };
            }
            "exit" => std::process::exit(p[1].parse().unwrap()),
            "raise" => unsafe {
                // the Rust runtime of this stub ignores SIGPIPE and handles SIGSEGV/SIGBUS itself: die of the signal
                let sig: i32 = p[1].parse().unwrap();
                libc::signal(sig, libc::SIG_DFL);
                libc::raise(sig);
            },
            "hold" => std::thread::sleep(std::time::Duration::from_secs(3600)),
            _ => {}
        }
    }
}
