//! Engine E3 (pure differential), real side.  Reads one case per line on stdin and prints
//! one result line per case on stdout.
//!
//!   exec <argv>           -> Debug rendering of Exec::cmd(argv[0]).args(argv[1..]), and to_cmdline_lossy
//!   pipe <cmds>           -> Debug rendering of the pipeline built left to right with `|`
//!   wincmd <argv>         -> assemble_cmdline (cut out of the cfg(windows) source) over UTF-16 units
//!   winenv <k=v,...>      -> format_env_block (same)
use spharness::*;
use std::io::{self, BufRead, Write};
use subprocess::{Exec, Pipeline};

fn mk_exec(argv: &[String]) -> Exec {
    let mut e = Exec::cmd(&argv[0]);
    for a in &argv[1..] {
        e = e.arg(a);
    }
    e
}

fn main() {
    let stdin = io::stdin();
    let out = io::stdout();
    let mut out = out.lock();
    for line in stdin.lock().lines() {
        let line = line.unwrap();
        let line = line.trim();
        if line.is_empty() {
            continue;
        }
        let (kind, rest) = line.split_once(' ').unwrap();
        match kind {
            "exec" => {
                let argv = dec_argv_str(rest);
                let e = mk_exec(&argv);
                let dbg = format!("{:?}", e);
                let lossy = e.to_cmdline_lossy();
                writeln!(out, "exec {} {}", enc_str(&dbg), enc_str(&lossy)).unwrap();
            }
            "pipe" => {
                let cmds: Vec<Vec<String>> = rest.split('|').map(dec_argv_str).collect();
                let p = Pipeline::from_exec_iter(cmds.iter().map(|c| mk_exec(c)));
                let dbg = format!("{:?}", p);
                writeln!(out, "pipe {}", enc_str(&dbg)).unwrap();
            }
            "wincmd" => {
                let argv = dec_argv_u16(rest);
                match wincut::real_assemble_cmdline(argv) {
                    Ok(cl) => writeln!(out, "wincmd ok {}", enc_units(cl.into_iter().map(|c| c as u32))).unwrap(),
                    Err(e) => writeln!(out, "wincmd err {}", e.replace(' ', "_")).unwrap(),
                }
            }
            "winenv" => {
                // pairs k=v separated by ',' ; k and v are unit words separated by '='
                let env: Vec<(Vec<u16>, Vec<u16>)> = if rest == "none" {
                    vec![]
                } else {
                    rest.split(',')
                        .map(|kv| {
                            let (k, v) = kv.split_once('=').unwrap();
                            (
                                dec_units(k).into_iter().map(|c| c as u16).collect(),
                                dec_units(v).into_iter().map(|c| c as u16).collect(),
                            )
                        })
                        .collect()
                };
                let b = wincut::real_format_env_block(env);
                writeln!(out, "winenv {}", enc_units(b.into_iter().map(|c| c as u32))).unwrap();
            }
            "splitpath" => {
                // hook: the private tokenizer of posix.rs
                use std::os::unix::ffi::{OsStrExt, OsStringExt};
                let p = std::ffi::OsString::from_vec(dec_bytes(rest));
                let parts = subprocess::verif::split_path(&p);
                let enc: Vec<String> = parts.iter().map(|x| enc_bytes(x.as_bytes())).collect();
                writeln!(out, "splitpath {}", if enc.is_empty() { "none".to_string() } else { enc.join(",") }).unwrap();
            }
            "prealloc" => {
                use std::os::unix::ffi::OsStringExt;
                let (c, p) = rest.split_once(' ').unwrap();
                let cmd = std::ffi::OsString::from_vec(dec_bytes(c));
                let path = if p == "none" { None } else { Some(std::ffi::OsString::from_vec(dec_bytes(p))) };
                let (cap, longest) = subprocess::verif::prealloc_exe(&cmd, path.as_deref());
                writeln!(out, "prealloc {} {}", cap, longest).unwrap();
            }
            "fmtenv" => {
                use std::os::unix::ffi::{OsStrExt, OsStringExt};
                let env: Vec<(std::ffi::OsString, std::ffi::OsString)> = if rest == "none" {
                    vec![]
                } else {
                    rest.split(',')
                        .map(|kv| {
                            let (k, v) = kv.split_once('=').unwrap();
                            (std::ffi::OsString::from_vec(dec_bytes(k)), std::ffi::OsString::from_vec(dec_bytes(v)))
                        })
                        .collect()
                };
                let r = subprocess::verif::format_env(&env);
                let enc: Vec<String> = r.iter().map(|x| enc_bytes(x.as_bytes())).collect();
                writeln!(out, "fmtenv {}", if enc.is_empty() { "none".to_string() } else { enc.join(",") }).unwrap();
            }
            "decode" => {
                let st: u32 = rest.parse().unwrap();
                let r = subprocess::verif::decode_exit_status(st as i32);
                let s = match r {
                    subprocess::ExitStatus::Exited(c) => format!("exited {}", c),
                    subprocess::ExitStatus::Signaled(s) => format!("signaled {}", s),
                    subprocess::ExitStatus::Other(o) => format!("other {}", o as u32),
                    subprocess::ExitStatus::Undetermined => "undetermined".to_string(),
                };
                writeln!(out, "decode {}", s).unwrap();
            }
            _ => panic!("unknown case kind {}", kind),
        }
    }
}
