//! Engine E2: real spawns on the real kernel with every relevant libc call of the library logged
//! (and, on request, failed) by interposers defined in this binary, plus an allocator probe armed in the
//! forked child.  One scenario per process.
//!
//! usage: realdrive <scenario-file> <work-dir>
//!   <work-dir>/log.<pid>     call log of each process (parent, every forked child up to exec)
//!   <work-dir>/rep.<pid>     self-report written by each childstub
//!   stdout                   results of the scenario (see `emit`)
//!
//! log line:  <name> <args...> = <ret> [e<errno>]
use spharness::*;
use std::alloc::{GlobalAlloc, Layout, System};
use std::ffi::{CStr, OsStr, OsString};
use std::fs::File;
use std::io::{Read, Write};
use std::os::unix::ffi::{OsStrExt, OsStringExt};
use std::os::unix::io::{AsRawFd, FromRawFd};
use std::rc::Rc;
use std::sync::atomic::{AtomicBool, AtomicI32, AtomicUsize, Ordering};
use std::time::{Duration, Instant};
use subprocess::{Exec, ExitStatus, Pipeline, Popen, PopenConfig, PopenError, Redirection};

// ------------------------------------------------------------------------------------------------
// logging without allocation

static LOG_FD: AtomicI32 = AtomicI32::new(-1);
static LOGGING: AtomicBool = AtomicBool::new(false);
static IN_CHILD: AtomicBool = AtomicBool::new(false);
static mut WORKDIR: [u8; 512] = [0; 512];
static WORKDIR_LEN: AtomicUsize = AtomicUsize::new(0);

struct Buf {
    b: [u8; 4096],
    n: usize,
}

impl Buf {
    fn new() -> Buf {
        Buf { b: [0; 4096], n: 0 }
    }
    fn byte(&mut self, c: u8) {
        if self.n >= self.b.len() {
            self.flush_partial();
        }
        self.b[self.n] = c;
        self.n += 1;
    }
    fn s(&mut self, s: &str) {
        for c in s.bytes() {
            self.byte(c);
        }
    }
    fn num(&mut self, mut v: i64) {
        if v < 0 {
            self.byte(b'-');
            v = -v;
        }
        let mut t = [0u8; 20];
        let mut i = 0;
        if v == 0 {
            t[0] = b'0';
            i = 1;
        }
        while v > 0 {
            t[i] = b'0' + (v % 10) as u8;
            v /= 10;
            i += 1;
        }
        while i > 0 {
            i -= 1;
            self.byte(t[i]);
        }
    }
    fn hex(&mut self, data: &[u8]) {
        const H: &[u8; 16] = b"0123456789abcdef";
        if data.is_empty() {
            self.byte(b'-');
        }
        for &c in data {
            if self.n + 2 >= self.b.len() {
                self.flush_partial();
            }
            self.byte(H[(c >> 4) as usize]);
            self.byte(H[(c & 15) as usize]);
        }
    }
    fn flush_partial(&mut self) {
        raw_write(LOG_FD.load(Ordering::SeqCst), &self.b[..self.n]);
        self.n = 0;
    }
    fn end(&mut self, ret: i64) {
        self.s(" = ");
        self.num(ret);
        if ret < 0 {
            self.s(" e");
            self.num(unsafe { *libc::__errno_location() } as i64);
        }
        self.byte(b'\n');
        self.flush_partial();
    }
}

fn raw_write(fd: i32, mut b: &[u8]) {
    while !b.is_empty() {
        let n = unsafe { libc::syscall(libc::SYS_write, fd, b.as_ptr(), b.len()) };
        if n <= 0 {
            return;
        }
        b = &b[n as usize..];
    }
}

fn logging() -> bool {
    LOGGING.load(Ordering::SeqCst) && LOG_FD.load(Ordering::SeqCst) >= 0
}

/// open <workdir>/log.<pid> for this process (used by the parent at start-up and by each forked child)
fn open_log() {
    let mut p = Buf::new();
    let n = WORKDIR_LEN.load(Ordering::SeqCst);
    unsafe {
        for i in 0..n {
            p.byte(WORKDIR[i]);
        }
    }
    p.s("/log.");
    p.num(unsafe { libc::syscall(libc::SYS_getpid) } as i64);
    p.byte(0);
    let fd = unsafe {
        libc::syscall(
            libc::SYS_openat,
            libc::AT_FDCWD,
            p.b.as_ptr(),
            libc::O_WRONLY | libc::O_CREAT | libc::O_APPEND | libc::O_CLOEXEC,
            0o644,
        )
    } as i32;
    if fd >= 0 {
        // park it high so that the library's lowest-free descriptors are not disturbed
        let hi = unsafe { libc::syscall(libc::SYS_fcntl, fd, libc::F_DUPFD_CLOEXEC, 900) } as i32;
        unsafe { libc::syscall(libc::SYS_close, fd) };
        LOG_FD.store(hi, Ordering::SeqCst);
    }
}

// ------------------------------------------------------------------------------------------------
// fault plan: fail the n-th call of a kind (counted separately in the parent and in each child)

const K_PIPE: usize = 0;
const K_FCNTL: usize = 1;
const K_FORK: usize = 2;
const K_DUP2: usize = 3;
const K_CHDIR: usize = 4;
const K_SETUID: usize = 5;
const K_SETGID: usize = 6;
const K_SETPGID: usize = 7;
const K_EXEC: usize = 8;
const K_SIGMASK: usize = 9;
const K_SIGNAL: usize = 10;
const K_DUPFD: usize = 11;
const NKINDS: usize = 12;
const KIND_NAMES: [&str; NKINDS] =
    ["pipe", "fcntl", "fork", "dup2", "chdir", "setuid", "setgid", "setpgid", "exec", "sigmask", "signal", "dupfd"];

static COUNT: [AtomicUsize; NKINDS] = [
    AtomicUsize::new(0), AtomicUsize::new(0), AtomicUsize::new(0), AtomicUsize::new(0), AtomicUsize::new(0),
    AtomicUsize::new(0), AtomicUsize::new(0), AtomicUsize::new(0), AtomicUsize::new(0), AtomicUsize::new(0),
    AtomicUsize::new(0), AtomicUsize::new(0),
];
// (kind, nth (1-based), errno, in_child)
static mut FAULTS: [(usize, usize, i32, bool); 8] = [(usize::MAX, 0, 0, false); 8];

fn fault(kind: usize) -> Option<i32> {
    if !LOGGING.load(Ordering::SeqCst) {
        return None;
    }
    let n = COUNT[kind].fetch_add(1, Ordering::SeqCst) + 1;
    let child = IN_CHILD.load(Ordering::SeqCst);
    unsafe {
        for f in FAULTS.iter() {
            if f.0 == kind && f.1 == n && f.3 == child {
                return Some(f.2);
            }
        }
    }
    None
}

fn fail(e: i32) -> i64 {
    unsafe { *libc::__errno_location() = e };
    -1
}

// ------------------------------------------------------------------------------------------------
// allocator probe

struct Probe;
static ALLOC_ARMED: AtomicBool = AtomicBool::new(false);

unsafe impl GlobalAlloc for Probe {
    unsafe fn alloc(&self, l: Layout) -> *mut u8 {
        if ALLOC_ARMED.load(Ordering::SeqCst) {
            let mut b = Buf::new();
            b.s("alloc ");
            b.num(l.size() as i64);
            b.byte(b'\n');
            b.flush_partial();
        }
        System.alloc(l)
    }
    unsafe fn dealloc(&self, p: *mut u8, l: Layout) {
        if ALLOC_ARMED.load(Ordering::SeqCst) {
            let mut b = Buf::new();
            b.s("dealloc ");
            b.num(l.size() as i64);
            b.byte(b'\n');
            b.flush_partial();
        }
        System.dealloc(p, l)
    }
    unsafe fn realloc(&self, p: *mut u8, l: Layout, n: usize) -> *mut u8 {
        if ALLOC_ARMED.load(Ordering::SeqCst) {
            let mut b = Buf::new();
            b.s("alloc ");
            b.num(n as i64);
            b.s(" realloc\n");
            b.flush_partial();
        }
        System.realloc(p, l, n)
    }
}

#[global_allocator]
static GLOBAL: Probe = Probe;

// ------------------------------------------------------------------------------------------------
// interposers

type ForkFn = unsafe extern "C" fn() -> i32;
type SignalFn = unsafe extern "C" fn(i32, libc::sighandler_t) -> libc::sighandler_t;
static mut REAL_FORK: Option<ForkFn> = None;
static mut REAL_SIGNAL: Option<SignalFn> = None;

unsafe fn resolve_real() {
    let f = libc::dlsym(libc::RTLD_NEXT, b"fork\0".as_ptr() as _);
    REAL_FORK = Some(std::mem::transmute::<*mut libc::c_void, ForkFn>(f));
    let s = libc::dlsym(libc::RTLD_NEXT, b"signal\0".as_ptr() as _);
    REAL_SIGNAL = Some(std::mem::transmute::<*mut libc::c_void, SignalFn>(s));
}

#[no_mangle]
pub unsafe extern "C" fn pipe(fds: *mut i32) -> i32 {
    if let Some(e) = fault(K_PIPE) {
        let r = fail(e);
        if logging() {
            let mut b = Buf::new();
            b.s("pipe");
            b.end(r);
        }
        return r as i32;
    }
    let r = libc::syscall(libc::SYS_pipe2, fds, 0);
    if logging() {
        let mut b = Buf::new();
        b.s("pipe ");
        if r == 0 {
            b.num(*fds as i64);
            b.byte(b' ');
            b.num(*fds.add(1) as i64);
        }
        b.end(r);
    }
    r as i32
}

#[no_mangle]
pub unsafe extern "C" fn pipe2(fds: *mut i32, flags: i32) -> i32 {
    let r = libc::syscall(libc::SYS_pipe2, fds, flags);
    if logging() {
        let mut b = Buf::new();
        b.s("pipe2 ");
        if r == 0 {
            b.num(*fds as i64);
            b.byte(b' ');
            b.num(*fds.add(1) as i64);
            b.byte(b' ');
        }
        b.num(flags as i64);
        b.end(r);
    }
    r as i32
}

#[no_mangle]
pub unsafe extern "C" fn fcntl(fd: i32, cmd: i32, arg: libc::c_long) -> i32 {
    // duplicating a descriptor (File::try_clone) is a descriptor allocation: it can fail with EMFILE
    if (cmd == libc::F_DUPFD || cmd == libc::F_DUPFD_CLOEXEC) && logging() && fd < 900 {
        if let Some(e) = fault(K_DUPFD) {
            let r = fail(e);
            let mut b = Buf::new();
            b.s("dupfd ");
            b.num(fd as i64);
            b.end(r);
            return r as i32;
        }
    }
    let watched = cmd == libc::F_GETFD || cmd == libc::F_SETFD;
    if watched && logging() && fd < 900 {
        if let Some(e) = fault(K_FCNTL) {
            let r = fail(e);
            let mut b = Buf::new();
            b.s("fcntl ");
            b.num(fd as i64);
            b.byte(b' ');
            b.num(cmd as i64);
            b.byte(b' ');
            b.num(if cmd == libc::F_SETFD { arg as i64 } else { 0 });
            b.end(r);
            return r as i32;
        }
    }
    let r = libc::syscall(libc::SYS_fcntl, fd, cmd, arg);
    if watched && logging() && fd < 900 {
        let mut b = Buf::new();
        b.s("fcntl ");
        b.num(fd as i64);
        b.byte(b' ');
        b.num(cmd as i64);
        b.byte(b' ');
        b.num(if cmd == libc::F_SETFD { arg as i64 } else { 0 });
        b.end(r);
    }
    r as i32
}

#[no_mangle]
pub unsafe extern "C" fn dup2(a: i32, bfd: i32) -> i32 {
    let r = match fault(K_DUP2) {
        Some(e) => fail(e),
        None => libc::syscall(libc::SYS_dup3, a, bfd, 0).max(if a == bfd { bfd as i64 } else { -1 }),
    };
    // dup3 rejects a == b with EINVAL where dup2 returns b; the library never calls dup2 with equal descriptors
    if logging() {
        let mut b = Buf::new();
        b.s("dup2 ");
        b.num(a as i64);
        b.byte(b' ');
        b.num(bfd as i64);
        b.end(r);
    }
    r as i32
}

#[no_mangle]
pub unsafe extern "C" fn close(fd: i32) -> i32 {
    let r = libc::syscall(libc::SYS_close, fd);
    if logging() && fd < 900 {
        let mut b = Buf::new();
        b.s("close ");
        b.num(fd as i64);
        b.end(r);
    }
    r as i32
}

#[no_mangle]
pub unsafe extern "C" fn fork() -> i32 {
    if let Some(e) = fault(K_FORK) {
        let r = fail(e);
        if logging() {
            let mut b = Buf::new();
            b.s("fork");
            b.end(r);
        }
        return r as i32;
    }
    let was_logging = logging();
    sched_before_fork();
    if REAL_FORK.is_none() {
        resolve_real();
    }
    let r = (REAL_FORK.unwrap())();
    if r == 0 {
        // the child: own log file, own call counters, allocator probe armed until exec
        IN_CHILD.store(true, Ordering::SeqCst);
        for c in COUNT.iter() {
            c.store(0, Ordering::SeqCst);
        }
        if was_logging {
            open_log();
            let mut b = Buf::new();
            b.s("fork");
            b.end(0);
            ALLOC_ARMED.store(true, Ordering::SeqCst);
        }
    } else if was_logging {
        let mut b = Buf::new();
        b.s("fork");
        b.end(r as i64);
    }
    r
}

#[no_mangle]
pub unsafe extern "C" fn chdir(p: *const libc::c_char) -> i32 {
    let r = match fault(K_CHDIR) {
        Some(e) => fail(e),
        None => libc::syscall(libc::SYS_chdir, p),
    };
    if logging() {
        let mut b = Buf::new();
        b.s("chdir ");
        b.hex(CStr::from_ptr(p).to_bytes());
        b.end(r);
    }
    r as i32
}

#[no_mangle]
pub unsafe extern "C" fn setuid(u: libc::uid_t) -> i32 {
    let r = match fault(K_SETUID) {
        Some(e) => fail(e),
        None => libc::syscall(libc::SYS_setuid, u),
    };
    if logging() {
        let mut b = Buf::new();
        b.s("setuid ");
        b.num(u as i64);
        b.end(r);
    }
    r as i32
}

#[no_mangle]
pub unsafe extern "C" fn setgid(g: libc::gid_t) -> i32 {
    let r = match fault(K_SETGID) {
        Some(e) => fail(e),
        None => libc::syscall(libc::SYS_setgid, g),
    };
    if logging() {
        let mut b = Buf::new();
        b.s("setgid ");
        b.num(g as i64);
        b.end(r);
    }
    r as i32
}

#[no_mangle]
pub unsafe extern "C" fn setpgid(p: libc::pid_t, g: libc::pid_t) -> i32 {
    let r = match fault(K_SETPGID) {
        Some(e) => fail(e),
        None => libc::syscall(libc::SYS_setpgid, p, g),
    };
    if logging() {
        let mut b = Buf::new();
        b.s("setpgid ");
        b.num(p as i64);
        b.byte(b' ');
        b.num(g as i64);
        b.end(r);
    }
    r as i32
}

#[no_mangle]
pub unsafe extern "C" fn pthread_sigmask(how: i32, set: *const libc::sigset_t, old: *mut libc::sigset_t) -> i32 {
    if IN_CHILD.load(Ordering::SeqCst) || (logging() && !set.is_null()) {
        if let Some(e) = fault(K_SIGMASK) {
            let mut b = Buf::new();
            b.s("sigmask");
            unsafe { *libc::__errno_location() = e };
            b.end(-1);
            return e; // pthread_sigmask returns the error number
        }
    }
    let r = libc::syscall(libc::SYS_rt_sigprocmask, how, set, old, 8usize);
    if logging() && !set.is_null() {
        let mut b = Buf::new();
        b.s("sigmask ");
        b.num(how as i64);
        b.byte(b' ');
        let words = std::slice::from_raw_parts(set as *const u8, 8);
        b.hex(words);
        b.end(r);
    }
    if r < 0 {
        *libc::__errno_location()
    } else {
        0
    }
}

#[no_mangle]
pub unsafe extern "C" fn signal(sig: i32, h: libc::sighandler_t) -> libc::sighandler_t {
    if logging() {
        if let Some(e) = fault(K_SIGNAL) {
            fail(e);
            let mut b = Buf::new();
            b.s("signal ");
            b.num(sig as i64);
            b.byte(b' ');
            b.num(h as i64);
            b.end(-1);
            return libc::SIG_ERR;
        }
    }
    if REAL_SIGNAL.is_none() {
        resolve_real();
    }
    let r = (REAL_SIGNAL.unwrap())(sig, h);
    if logging() {
        let mut b = Buf::new();
        b.s("signal ");
        b.num(sig as i64);
        b.byte(b' ');
        b.num(h as i64);
        b.end(if r == libc::SIG_ERR { -1 } else { 0 });
    }
    r
}

unsafe fn log_exec(path: *const libc::c_char, argv: *const *const libc::c_char, envp: *const *const libc::c_char, has_env: bool) {
    let mut b = Buf::new();
    b.s("exec ");
    b.hex(CStr::from_ptr(path).to_bytes());
    b.s(" argv=");
    let mut i = 0;
    while !(*argv.add(i)).is_null() {
        if i > 0 {
            b.byte(b',');
        }
        b.hex(CStr::from_ptr(*argv.add(i)).to_bytes());
        i += 1;
    }
    b.s(" env=");
    if !has_env {
        b.s("inherit");
    } else {
        let mut i = 0;
        if (*envp).is_null() {
            b.s("empty");
        }
        while !(*envp.add(i)).is_null() {
            if i > 0 {
                b.byte(b',');
            }
            b.hex(CStr::from_ptr(*envp.add(i)).to_bytes());
            i += 1;
        }
    }
    b.flush_partial();
}

extern "C" {
    static environ: *const *const libc::c_char;
}

unsafe fn do_exec(path: *const libc::c_char, argv: *const *const libc::c_char, envp: *const *const libc::c_char, has_env: bool) -> i32 {
    let lg = logging();
    if lg {
        log_exec(path, argv, envp, has_env);
    }
    let r = match fault(K_EXEC) {
        Some(e) => fail(e),
        None => {
            // the probe must not fire in the new image's start-up; it cannot anyway (new address space), but
            // a failed exec continues here:
            libc::syscall(libc::SYS_execve, path, argv, envp)
        }
    };
    if lg {
        let mut b = Buf::new();
        b.end(r);
    }
    r as i32
}

#[no_mangle]
pub unsafe extern "C" fn execve(path: *const libc::c_char, argv: *const *const libc::c_char, envp: *const *const libc::c_char) -> i32 {
    do_exec(path, argv, envp, true)
}

#[no_mangle]
pub unsafe extern "C" fn execv(path: *const libc::c_char, argv: *const *const libc::c_char) -> i32 {
    do_exec(path, argv, environ, false)
}

#[no_mangle]
pub unsafe extern "C" fn _exit(code: i32) -> ! {
    if logging() {
        let mut b = Buf::new();
        b.s("_exit ");
        b.num(code as i64);
        b.byte(b'\n');
        b.flush_partial();
    }
    libc::syscall(libc::SYS_exit_group, code);
    loop {}
}

#[no_mangle]
pub unsafe extern "C" fn waitpid(pid: i32, status: *mut i32, flags: i32) -> i32 {
    let r = libc::syscall(libc::SYS_wait4, pid, status, flags, 0);
    if logging() {
        let mut b = Buf::new();
        b.s("waitpid ");
        b.num(pid as i64);
        b.byte(b' ');
        b.num(flags as i64);
        if r > 0 && !status.is_null() {
            b.s(" st=");
            b.num(*status as i64);
        }
        b.end(r);
    }
    r as i32
}

#[no_mangle]
pub unsafe extern "C" fn kill(pid: i32, sig: i32) -> i32 {
    let r = libc::syscall(libc::SYS_kill, pid, sig);
    if logging() {
        let mut b = Buf::new();
        b.s("kill ");
        b.num(pid as i64);
        b.byte(b' ');
        b.num(sig as i64);
        b.end(r);
    }
    r as i32
}

#[no_mangle]
pub unsafe extern "C" fn read(fd: i32, buf: *mut u8, n: usize) -> isize {
    let r = libc::syscall(libc::SYS_read, fd, buf, n);
    if logging() && fd >= 3 && fd < 900 && n <= 64 {
        let mut b = Buf::new();
        b.s("read ");
        b.num(fd as i64);
        b.byte(b' ');
        b.num(n as i64);
        b.byte(b' ');
        if r > 0 {
            b.hex(std::slice::from_raw_parts(buf, r as usize));
        } else {
            b.byte(b'-');
        }
        b.end(r);
    }
    r as isize
}

#[no_mangle]
pub unsafe extern "C" fn write(fd: i32, buf: *const u8, n: usize) -> isize {
    let r = libc::syscall(libc::SYS_write, fd, buf, n);
    if logging() && fd >= 3 && fd < 900 && n <= 64 {
        let mut b = Buf::new();
        b.s("write ");
        b.num(fd as i64);
        b.byte(b' ');
        b.hex(std::slice::from_raw_parts(buf, n));
        b.end(r);
    }
    r as isize
}

// ------------------------------------------------------------------------------------------------
// scenario

fn hexdec(s: &str) -> Vec<u8> {
    if s == "-" {
        return vec![];
    }
    (0..s.len() / 2).map(|i| u8::from_str_radix(&s[2 * i..2 * i + 2], 16).unwrap()).collect()
}

fn hexenc(b: &[u8]) -> String {
    if b.is_empty() {
        return "-".into();
    }
    b.iter().map(|c| format!("{:02x}", c)).collect()
}

fn fd_table() -> Vec<(i32, String, bool)> {
    // (fd, target, cloexec), excluding our own log descriptor and the directory being read
    let mut v = vec![];
    let dir = std::fs::read_dir("/proc/self/fd").unwrap();
    let names: Vec<i32> = dir.filter_map(|e| e.ok()).filter_map(|e| e.file_name().to_str().and_then(|s| s.parse().ok())).collect();
    for fd in names {
        if fd >= 900 {
            continue;
        }
        if let Ok(t) = std::fs::read_link(format!("/proc/self/fd/{}", fd)) {
            let t = t.to_string_lossy().into_owned();
            if t.contains("/proc/") && t.ends_with("/fd") {
                continue;
            }
            let fl = unsafe { libc::syscall(libc::SYS_fcntl, fd, libc::F_GETFD, 0) };
            v.push((fd, t, fl & 1 == 1));
        }
    }
    v.sort();
    v
}

fn show_table(tag: &str) {
    let t = fd_table();
    let s: Vec<String> = t.iter().map(|(fd, tg, ce)| format!("{}:{}:{}", fd, hexenc(tg.as_bytes()), *ce as i32)).collect();
    println!("{} {}", tag, s.join(","));
}

fn show_status(s: ExitStatus) -> String {
    match s {
        ExitStatus::Exited(c) => format!("exited:{}", c),
        ExitStatus::Signaled(s) => format!("signaled:{}", s),
        ExitStatus::Other(r) => format!("other:{}", r),
        ExitStatus::Undetermined => "undetermined".into(),
    }
}

fn show_err(e: &PopenError) -> String {
    match e {
        PopenError::IoError(e) => match e.raw_os_error() {
            Some(c) => format!("io:{}", c),
            None => format!("iokind:{:?}", e.kind()),
        },
        PopenError::LogicError(m) => format!("logic:{}", m.replace(' ', "_")),
        _ => "other".into(),
    }
}

struct Spec {
    kv: Vec<(String, String)>,
}

impl Spec {
    fn get(&self, k: &str) -> Option<&str> {
        self.kv.iter().find(|(a, _)| a == k).map(|(_, b)| b.as_str())
    }
    fn all(&self, k: &str) -> Vec<&str> {
        self.kv.iter().filter(|(a, _)| a == k).map(|(_, b)| b.as_str()).collect()
    }
}

fn mk_redir(spec: &str, rcs: &mut Vec<(String, Rc<File>)>, for_input: bool) -> Redirection {
    if spec == "none" {
        Redirection::None
    } else if spec == "pipe" {
        Redirection::Pipe
    } else if spec == "merge" {
        Redirection::Merge
    } else if let Some(p) = spec.strip_prefix("file:") {
        let f = if for_input {
            File::open(p).unwrap()
        } else {
            std::fs::OpenOptions::new().create(true).append(true).open(p).unwrap()
        };
        println!("userfd file {}", f.as_raw_fd());
        Redirection::File(f)
    } else if let Some(rest) = spec.strip_prefix("rcfile:") {
        // rcfile:<id>:<path> -- the same id shares one Rc<File>
        let (id, p) = rest.split_once(':').unwrap();
        if let Some((_, rc)) = rcs.iter().find(|(i, _)| i == id) {
            return Redirection::RcFile(Rc::clone(rc));
        }
        let f = if for_input {
            std::fs::OpenOptions::new().read(true).write(true).open(p).unwrap()
        } else {
            std::fs::OpenOptions::new().create(true).read(true).append(true).open(p).unwrap()
        };
        println!("userfd rc{} {}", id, f.as_raw_fd());
        let rc = Rc::new(f);
        rcs.push((id.to_string(), Rc::clone(&rc)));
        Redirection::RcFile(rc)
    } else {
        panic!("bad redirection {}", spec)
    }
}

fn zombies() -> (usize, usize) {
    // (children reaped now because they were zombies, children still running) -- after the scenario
    let mut z = 0;
    let mut running = 0;
    let mut pids = vec![];
    loop {
        let mut st = 0i32;
        let r = unsafe { libc::syscall(libc::SYS_wait4, -1, &mut st as *mut i32, libc::WNOHANG, 0) };
        if r > 0 {
            z += 1;
            pids.push(r.to_string());
        } else if r == 0 {
            running += 1;
            break;
        } else {
            break;
        }
    }
    println!("zombie_pids {}", pids.join(","));
    (z, running)
}

fn main() {
    let args: Vec<String> = std::env::args().collect();
    let text = std::fs::read_to_string(&args[1]).unwrap();
    let wd = args[2].as_bytes();
    unsafe {
        WORKDIR[..wd.len()].copy_from_slice(wd);
    }
    WORKDIR_LEN.store(wd.len(), Ordering::SeqCst);
    unsafe { resolve_real() };
    let spec = Spec {
        kv: text
            .lines()
            .filter(|l| !l.trim().is_empty() && !l.starts_with('#'))
            .map(|l| {
                let (a, b) = l.trim().split_once(' ').unwrap_or((l.trim(), ""));
                (a.to_string(), b.to_string())
            })
            .collect(),
    };
    for (i, f) in spec.all("fault").iter().enumerate() {
        let p: Vec<&str> = f.split(' ').collect();
        let kind = KIND_NAMES.iter().position(|k| *k == p[0]).expect("fault kind");
        unsafe {
            FAULTS[i] = (kind, p[1].parse().unwrap(), p[2].parse().unwrap(), p[3] == "child");
        }
    }
    // the stub's behaviour for this scenario
    if let Some(cfg) = spec.get("stubcfg") {
        std::fs::write(format!("{}/cfg.{}", args[2], std::process::id()), cfg.replace(';', "\n")).unwrap();
    }
    if let Some(m) = spec.get("mask") {
        // block these signals in the spawning thread
        let bytes = hexdec(m);
        let mut set = [0u8; 8];
        set[..bytes.len().min(8)].copy_from_slice(&bytes[..bytes.len().min(8)]);
        unsafe { libc::syscall(libc::SYS_rt_sigprocmask, libc::SIG_SETMASK, set.as_ptr(), 0usize, 8usize) };
    }
    if let Some(d) = spec.get("sigpipe") {
        unsafe {
            (REAL_SIGNAL.unwrap())(libc::SIGPIPE, if d == "dfl" { libc::SIG_DFL } else { libc::SIG_IGN });
        }
    }
    if let Some(p) = spec.get("path") {
        if p == "unset" {
            std::env::remove_var("PATH");
        } else {
            std::env::set_var("PATH", OsString::from_vec(hexdec(p)));
        }
    }
    let stub = spec.get("stub").unwrap_or("/verif/.build/cargo/debug/childstub").to_string();
    std::env::set_var("STUB_DIR", &args[2]);

    if spec.get("show_environ") == Some("1") {
        let mut e: Vec<String> = vec![];
        unsafe {
            let mut i = 0;
            while !environ.is_null() && !(*environ.add(i)).is_null() {
                e.push(hexenc(CStr::from_ptr(*environ.add(i)).to_bytes()));
                i += 1;
            }
        }
        println!("environ {}", e.join(","));
    }
    open_log();
    show_table("fds_before");
    let t0 = Instant::now();
    let kind = spec.get("kind").unwrap_or("create").to_string();
    match kind.as_str() {
        "create" if spec.get("in_thread") == Some("1") => {
            // the launch happens on a short-lived thread; its thread-local state is gone when we look again
            let (sp, st) = (Spec { kv: spec.kv.clone() }, stub.clone());
            std::thread::spawn(move || run_create(&sp, &st)).join().unwrap();
        }
        "create" => run_create(&spec, &stub),
        "exec" => run_exec(&spec, &stub),
        "pipeline" => run_pipeline(&spec, &stub),
        "handle" => run_handle(&spec, &stub),
        "threads" => run_threads(&spec, &stub),
        _ => panic!("unknown kind"),
    }
    LOGGING.store(false, Ordering::SeqCst);
    println!("elapsed_ms {}", t0.elapsed().as_millis());
    show_table("fds_after");
    // give detached / killed children a moment, then look for zombies and stragglers
    std::thread::sleep(Duration::from_millis(spec.get("settle_ms").map(|s| s.parse().unwrap()).unwrap_or(30)));
    let (z, running) = zombies();
    println!("zombies {} running {}", z, running);
}

fn argv_of(spec: &Spec, stub: &str, key: &str) -> Vec<OsString> {
    // argv <hex>,<hex>,... ; the token "STUB" stands for the stub's path
    let a = spec.get(key).unwrap();
    if a == "none" {
        return vec![];
    }
    a.split(',')
        .map(|a| if a == "STUB" { OsString::from(stub) } else { OsString::from_vec(hexdec(a)) })
        .collect()
}

fn config_of(spec: &Spec, rcs: &mut Vec<(String, Rc<File>)>) -> PopenConfig {
    let mut c = PopenConfig::default();
    c.stdin = mk_redir(spec.get("stdin").unwrap_or("none"), rcs, true);
    c.stdout = mk_redir(spec.get("stdout").unwrap_or("none"), rcs, false);
    c.stderr = mk_redir(spec.get("stderr").unwrap_or("none"), rcs, false);
    c.detached = spec.get("detached") == Some("1");
    if let Some(e) = spec.get("executable") {
        c.executable = Some(if e == "STUB" { OsString::from(spec.get("stub").unwrap_or("/verif/.build/cargo/debug/childstub")) } else { OsString::from_vec(hexdec(e)) });
    }
    if let Some(e) = spec.get("env") {
        c.env = Some(if e == "empty" {
            vec![]
        } else {
            e.split(',')
                .map(|kv| {
                    let (k, v) = kv.split_once('=').unwrap();
                    (OsString::from_vec(hexdec(k)), OsString::from_vec(hexdec(v)))
                })
                .collect()
        });
    }
    if let Some(d) = spec.get("cwd") {
        c.cwd = Some(OsString::from_vec(hexdec(d)));
    }
    if let Some(u) = spec.get("setuid") {
        c.setuid = Some(u.parse().unwrap());
    }
    if let Some(g) = spec.get("setgid") {
        c.setgid = Some(g.parse().unwrap());
    }
    c.setpgid = spec.get("setpgid") == Some("1");
    c
}

fn after_popen(spec: &Spec, mut p: Popen) {
    println!(
        "fields stdin={} stdout={} stderr={} pid={}",
        p.stdin.as_ref().map(|f| f.as_raw_fd()).unwrap_or(-1),
        p.stdout.as_ref().map(|f| f.as_raw_fd()).unwrap_or(-1),
        p.stderr.as_ref().map(|f| f.as_raw_fd()).unwrap_or(-1),
        p.pid().map(|x| x as i64).unwrap_or(-1)
    );
    show_table("fds_running");
    match spec.get("after").unwrap_or("communicate") {
        "communicate" => {
            let input = spec.get("input").map(hexdec);
            let has_in = p.stdin.is_some();
            let r = p.communicate_bytes(if has_in { Some(input.as_deref().unwrap_or(b"")) } else { None });
            match r {
                Ok((o, e)) => println!(
                    "communicate ok out={} err={}",
                    o.map(|b| hexenc(&b)).unwrap_or("none".into()),
                    e.map(|b| hexenc(&b)).unwrap_or("none".into())
                ),
                Err(e) => println!("communicate err {:?}", e.raw_os_error()),
            }
            match p.wait() {
                Ok(s) => println!("wait {}", show_status(s)),
                Err(e) => println!("wait err {}", show_err(&e)),
            }
        }
        "wait" => {
            drop(p.stdin.take());
            match p.wait() {
                Ok(s) => println!("wait {}", show_status(s)),
                Err(e) => println!("wait err {}", show_err(&e)),
            }
        }
        "drop" => {
            let t = Instant::now();
            drop(p);
            println!("dropped_ms {}", t.elapsed().as_millis());
            return;
        }
        a if a.starts_with("signals:") => {
            // signalling calls on a live child (logged by the kill interposer), then clean up
            for op in a[8..].split(',') {
                let r = match op {
                    "term" => p.terminate(),
                    "kill" => p.kill(),
                    "poll" => {
                        println!("sigop poll {}", p.poll().map(show_status).unwrap_or("none".into()));
                        continue;
                    }
                    "wait" => {
                        println!("sigop wait {}", p.wait().map(show_status).unwrap_or("err".into()));
                        continue;
                    }
                    s => {
                        use subprocess::unix::PopenExt;
                        p.send_signal(s[3..].parse().unwrap())
                    }
                };
                println!("sigop {} {}", op, if r.is_ok() { "ok".to_string() } else { format!("err {:?}", r.err().and_then(|e| e.raw_os_error())) });
            }
            mark("cleanup");
            if let Some(pid) = p.pid() {
                unsafe { libc::syscall(libc::SYS_kill, pid as i32, libc::SIGKILL) };
                p.wait().ok();
            }
        }
        "kill" => {
            p.kill().ok();
            match p.wait() {
                Ok(s) => println!("wait {}", show_status(s)),
                Err(e) => println!("wait err {}", show_err(&e)),
            }
        }
        _ => {}
    }
    drop(p);
}

fn run_create(spec: &Spec, stub: &str) {
    let mut rcs = vec![];
    let argv = argv_of(spec, stub, "argv");
    let cfg = config_of(spec, &mut rcs);
    LOGGING.store(true, Ordering::SeqCst);
    let r = Popen::create(&argv, cfg);
    LOGGING.store(spec.get("log_after") == Some("1"), Ordering::SeqCst);
    match r {
        Ok(p) => {
            println!("result ok");
            after_popen(spec, p);
        }
        Err(e) => {
            println!("result err {}", show_err(&e));
            show_table("fds_after_err");
        }
    }
    if spec.get("relaunch_path").is_some() || spec.get("relaunch_sigpipe").is_some() || spec.get("relaunch_stderr").is_some() {
        if let Some(p) = spec.get("relaunch_stderr") {
            // the parent re-points its own standard error (as a daemon does with its log) between the two launches
            let f = File::create(p).unwrap();
            unsafe { libc::syscall(libc::SYS_dup2, f.as_raw_fd(), 2) };
        }
        // the same launch once more in the same process after the parent's PATH / SIGPIPE disposition / signal mask
        // has changed
        if let Some(p2) = spec.get("relaunch_path") {
            if p2 == "unset" {
                std::env::remove_var("PATH");
            } else {
                std::env::set_var("PATH", OsString::from_vec(hexdec(p2)));
            }
        }
        if let Some(d) = spec.get("relaunch_sigpipe") {
            unsafe {
                (REAL_SIGNAL.unwrap())(libc::SIGPIPE, if d == "dfl" { libc::SIG_DFL } else { libc::SIG_IGN });
            }
        }
        if let Some(m) = spec.get("relaunch_mask") {
            let bytes = hexdec(m);
            let mut set = [0u8; 8];
            set[..bytes.len().min(8)].copy_from_slice(&bytes[..bytes.len().min(8)]);
            unsafe { libc::syscall(libc::SYS_rt_sigprocmask, libc::SIG_SETMASK, set.as_ptr(), 0usize, 8usize) };
        }
        let cfg = config_of(spec, &mut rcs);
        LOGGING.store(true, Ordering::SeqCst);
        mark("relaunch");
        let r = Popen::create(&argv, cfg);
        LOGGING.store(false, Ordering::SeqCst);
        match r {
            Ok(mut p) => {
                println!("result2 ok");
                drop(p.stdin.take());
                p.wait().ok();
            }
            Err(e) => println!("result2 err {}", show_err(&e)),
        }
    }
    drop(rcs);
}

fn build_exec(spec: &Spec, stub: &str, key: &str) -> Exec {
    let argv = argv_of(spec, stub, key);
    let mut e = Exec::cmd(&argv[0]);
    for a in &argv[1..] {
        e = e.arg(a);
    }
    e
}

fn mark(text: &str) {
    let mut b = Buf::new();
    b.s("mark ");
    b.s(text);
    b.byte(b'\n');
    b.flush_partial();
}

fn apply_builder_op(e: Exec, op: &str, idx: usize, wd: &str) -> Exec {
    let (name, arg) = op.split_once(' ').unwrap_or((op, ""));
    let os = |h: &str| OsString::from_vec(hexdec(h));
    let file = |input: bool| -> File {
        let p = format!("{}/f{}.txt", wd, idx);
        if input {
            std::fs::write(&p, b"file-input\n").unwrap();
            File::open(&p).unwrap()
        } else {
            File::create(&p).unwrap()
        }
    };
    match name {
        "setuid" => {
            use subprocess::ExecExt;
            e.setuid(arg.parse().unwrap())
        }
        "setgid" => {
            use subprocess::ExecExt;
            e.setgid(arg.parse().unwrap())
        }
        "arg" => e.arg(os(arg)),
        "args" => {
            let v: Vec<OsString> = if arg == "none" { vec![] } else { arg.split(',').map(os).collect() };
            e.args(&v)
        }
        "env" => {
            let (k, v) = arg.split_once(' ').unwrap();
            e.env(os(k), os(v))
        }
        "env_extend" => {
            let v: Vec<(OsString, OsString)> = if arg == "none" {
                vec![]
            } else {
                arg.split(',')
                    .map(|kv| {
                        let (k, v) = kv.split_once('=').unwrap();
                        (os(k), os(v))
                    })
                    .collect()
            };
            e.env_extend(&v)
        }
        "env_remove" => e.env_remove(os(arg)),
        "env_clear" => e.env_clear(),
        "cwd" => e.cwd(std::path::PathBuf::from(os(arg))),
        "detached" => e.detached(),
        "stdin" => match arg {
            "pipe" => e.stdin(Redirection::Pipe),
            "none" => e.stdin(Redirection::None),
            "merge" => e.stdin(Redirection::Merge),
            "null" => e.stdin(subprocess::NullFile),
            "file" => e.stdin(file(true)),
            d if d.starts_with("data:") => e.stdin(hexdec(&d[5..])),
            _ => panic!("bad stdin op"),
        },
        "stdout" | "stderr" => {
            let set = |e: Exec, r: Redirection| if name == "stdout" { e.stdout(r) } else { e.stderr(r) };
            match arg {
                "pipe" => set(e, Redirection::Pipe),
                "none" => set(e, Redirection::None),
                "merge" => set(e, Redirection::Merge),
                "null" => {
                    if name == "stdout" {
                        e.stdout(subprocess::NullFile)
                    } else {
                        e.stderr(subprocess::NullFile)
                    }
                }
                "file" => set(e, Redirection::File(file(false))),
                _ => panic!("bad output op"),
            }
        }
        _ => panic!("unknown builder op {}", name),
    }
}

fn run_terminator(e: Exec, term: &str, tag: &str) {
    let show = |r: Result<String, PopenError>| match r {
        Ok(d) => println!("{} ok {}", tag, d),
        Err(e) => println!("{} err {}", tag, show_err(&e)),
    };
    match term {
        "popen" => show(e.popen().map(|mut p| {
            let d = format!(
                "stdin={} stdout={} stderr={} detached={} pid={}",
                p.stdin.is_some() as u8,
                p.stdout.is_some() as u8,
                p.stderr.is_some() as u8,
                format!("{:?}", p).contains("detached: true") as u8,
                p.pid().unwrap_or(0)
            );
            drop(p.stdin.take());
            let st = p.wait();
            format!("{} wait={}", d, st.map(show_status).unwrap_or("err".into()))
        })),
        "join" => show(e.join().map(show_status)),
        "stream_stdout" | "stream_stderr" => {
            let r = if term == "stream_stdout" {
                e.stream_stdout().map(|mut r| {
                    let mut v = vec![];
                    r.read_to_end(&mut v).ok();
                    v
                })
            } else {
                e.stream_stderr().map(|mut r| {
                    let mut v = vec![];
                    r.read_to_end(&mut v).ok();
                    v
                })
            };
            show(r.map(|v| format!("read={}", hexenc(&v))));
        }
        "stream_stdin" => show(e.stream_stdin().map(|mut w| {
            w.write_all(b"streamed-in").ok();
            drop(w);
            "written".to_string()
        })),
        "communicate" => show(e.communicate().map(|mut c| match c.read() {
            Ok((o, e)) => format!(
                "out={} err={}",
                o.map(|v| hexenc(&v)).unwrap_or("none".into()),
                e.map(|v| hexenc(&v)).unwrap_or("none".into())
            ),
            Err(e) => format!("readerr={:?}", e.kind()),
        })),
        "capture" => show(e.capture().map(|c| format!("out={} err={} status={}", hexenc(&c.stdout), hexenc(&c.stderr), show_status(c.exit_status)))),
        _ => panic!("unknown terminator"),
    }
}

/// Builder scenarios (C16): a constructor, a sequence of builder calls on up to two handles (clone / swap),
/// then one terminator per handle.  A panic in a builder call or terminator is an outcome, not a failure.
fn run_exec(spec: &Spec, stub: &str) {
    let wd = std::env::var("STUB_DIR").unwrap();
    let start = spec.get("start").unwrap().to_string();
    let ops: Vec<String> = spec.all("op").iter().map(|s| s.to_string()).collect();
    let at = std::cell::Cell::new(0usize);
    std::panic::set_hook(Box::new(|_| {}));
    let built = std::panic::catch_unwind(std::panic::AssertUnwindSafe(|| {
        let mut cur = match start.split_once(' ').unwrap() {
            ("cmd", "STUB") => Exec::cmd(stub),
            ("cmd", h) => Exec::cmd(OsString::from_vec(hexdec(h))),
            ("shell", h) => Exec::shell(OsString::from_vec(hexdec(h))),
            _ => panic!("bad start"),
        };
        let mut other: Option<Exec> = None;
        for (i, op) in ops.iter().enumerate() {
            at.set(i);
            match op.as_str() {
                "clone" => other = Some(cur.clone()),
                "swap" => {
                    if let Some(o) = other.take() {
                        other = Some(cur);
                        cur = o;
                    }
                }
                _ => cur = apply_builder_op(cur, op, i, &wd),
            }
        }
        (cur, other)
    }));
    let (cur, other) = match built {
        Ok(x) => x,
        Err(_) => {
            println!("panic_at {}", at.get());
            return;
        }
    };
    LOGGING.store(true, Ordering::SeqCst);
    for (tag, e, key) in [("term1", Some(cur), "term"), ("term2", other, "term2")] {
        if let Some(e) = e {
            mark(tag);
            if let Some(cfg) = spec.get(if tag == "term1" { "stubcfg1" } else { "stubcfg2" }) {
                std::fs::write(format!("{}/cfg.{}", wd, std::process::id()), cfg.replace(';', "\n")).unwrap();
            }
            let term = spec.get(key).unwrap_or("popen").to_string();
            let r = std::panic::catch_unwind(std::panic::AssertUnwindSafe(|| run_terminator(e, &term, tag)));
            if r.is_err() {
                println!("{} panic", tag);
            }
        }
    }
    LOGGING.store(false, Ordering::SeqCst);
}

fn stage_exec(spec_line: &str, stub: &str, detached: bool) -> Exec {
    // stage <argv0 hex | STUB>,<hex>,...
    let argv: Vec<OsString> = spec_line
        .split(',')
        .map(|a| if a == "STUB" { OsString::from(stub) } else { OsString::from_vec(hexdec(a)) })
        .collect();
    let mut e = Exec::cmd(&argv[0]);
    for a in &argv[1..] {
        e = e.arg(a);
    }
    if detached {
        e = e.detached();
    }
    e
}

fn show_popens(v: &[Popen]) {
    for (i, p) in v.iter().enumerate() {
        println!(
            "stage {} stdin={} stdout={} stderr={} pid={}",
            i,
            p.stdin.as_ref().map(|f| f.as_raw_fd()).unwrap_or(-1),
            p.stdout.as_ref().map(|f| f.as_raw_fd()).unwrap_or(-1),
            p.stderr.as_ref().map(|f| f.as_raw_fd()).unwrap_or(-1),
            p.pid().map(|x| x as i64).unwrap_or(-1)
        );
    }
}

/// What to do with a reader / writer / vector of Popens once the terminator returned.
fn use_reader(mut r: impl Read, after: &str) {
    if after == "read_all" {
        let mut v = vec![];
        let res = r.read_to_end(&mut v);
        println!("read_all {} {}", if res.is_ok() { "ok" } else { "err" }, hexenc(&v));
    } else if let Some(n) = after.strip_prefix("read:") {
        let n: usize = n.parse().unwrap();
        let mut buf = vec![0u8; n];
        let mut got = 0;
        while got < n {
            match r.read(&mut buf[got..]) {
                Ok(0) | Err(_) => break,
                Ok(k) => got += k,
            }
        }
        println!("read_some {}", got);
    }
    mark("drop");
    let t = Instant::now();
    drop(r);
    println!("dropped_ms {}", t.elapsed().as_millis());
}

fn use_writer(mut w: impl Write, after: &str) {
    if let Some(h) = after.strip_prefix("write:") {
        let r = w.write_all(&hexdec(h));
        println!("write {}", if r.is_ok() { "ok" } else { "err" });
    }
    mark("drop");
    let t = Instant::now();
    drop(w);
    println!("dropped_ms {}", t.elapsed().as_millis());
}

/// Pipeline scenarios (C12, C13, C14): stages, composition shape, pipeline-level stream settings, a
/// terminator, and what is done with what it returns.
fn run_pipeline(spec: &Spec, stub: &str) {
    let wd = std::env::var("STUB_DIR").unwrap();
    let det = spec.get("stage_detached") == Some("1");
    let mut stages: Vec<Exec> = spec.all("stage").iter().map(|l| stage_exec(l, stub, det)).collect();
    let shape = spec.get("shape").unwrap_or("left").to_string();
    // the pipeline-level settings, applicable to the finished pipeline or (shapes cate / pushe) to an operand of `|`
    let set_in = |pl: Pipeline| -> Pipeline {
        match spec.get("pstdin").unwrap_or("none") {
            "none" => pl,
            "pipe" => pl.stdin(Redirection::Pipe),
            "null" => pl.stdin(subprocess::NullFile),
            "file" => pl.stdin(File::open(format!("{}/pin.txt", wd)).unwrap()),
            d if d.starts_with("data:") => pl.stdin(hexdec(&d[5..])),
            _ => panic!("bad pstdin"),
        }
    };
    let set_out = |pl: Pipeline| -> Pipeline {
        match spec.get("pstdout").unwrap_or("none") {
            "none" => pl,
            "pipe" => pl.stdout(Redirection::Pipe),
            "null" => pl.stdout(subprocess::NullFile),
            "file" => pl.stdout(File::create(format!("{}/pout.txt", wd)).unwrap()),
            _ => panic!("bad pstdout"),
        }
    };
    let set_err = |pl: Pipeline| -> Pipeline {
        if spec.get("stderr_to") == Some("file") {
            pl.stderr_to(std::fs::OpenOptions::new().create(true).append(true).open(format!("{}/perr.txt", wd)).unwrap())
        } else {
            pl
        }
    };
    let build = |v: Vec<Exec>| -> Pipeline {
        let mut it = v.into_iter();
        let a = it.next().unwrap();
        let b = it.next().unwrap();
        let mut p = a | b;
        for e in it {
            p = p | e;
        }
        p
    };
    let pl: Pipeline = if shape == "iter" {
        set_err(set_out(set_in(Pipeline::from_exec_iter(stages))))
    } else if let Some(k) = shape.strip_prefix("cat:") {
        // (first k commands) | (the rest), both built left-nested
        let k: usize = k.parse().unwrap();
        let rest: Vec<Exec> = stages.split_off(k);
        set_err(set_out(set_in(build(stages) | build(rest))))
    } else if let Some(k) = shape.strip_prefix("cate:") {
        // the same, but configured BEFORE composing: input and stderr sink on the left operand, output on the right one
        let k: usize = k.parse().unwrap();
        let rest: Vec<Exec> = stages.split_off(k);
        set_err(set_in(build(stages))) | set_out(build(rest))
    } else if shape == "pushe" {
        // (a | b) configured, then every further command pushed onto the configured pipeline
        let rest: Vec<Exec> = stages.split_off(2);
        let mut p = set_err(set_out(set_in(build(stages))));
        for e in rest {
            p = p | e;
        }
        p
    } else {
        set_err(set_out(set_in(build(stages))))
    };
    let term = spec.get("term").unwrap_or("popen").to_string();
    let after = spec.get("after").unwrap_or("drop").to_string();
    std::panic::set_hook(Box::new(|_| {}));
    LOGGING.store(true, Ordering::SeqCst);
    mark("term");
    let t0 = Instant::now();
    let r = std::panic::catch_unwind(std::panic::AssertUnwindSafe(|| match term.as_str() {
        "popen" => match pl.popen() {
            Ok(mut v) => {
                println!("term ok");
                show_popens(&v);
                show_table("fds_running");
                if after == "io" {
                    // feed the first command, drain the last one, then wait for all in order
                    if let Some(mut w) = v[0].stdin.take() {
                        if let Some(h) = spec.get("input") {
                            w.write_all(&hexdec(h)).ok();
                        }
                    }
                    let n = v.len();
                    if let Some(mut rd) = v[n - 1].stdout.take() {
                        let mut out = vec![];
                        rd.read_to_end(&mut out).ok();
                        println!("out {}", hexenc(&out));
                    }
                    for (i, p) in v.iter_mut().enumerate() {
                        println!("wait {} {}", i, p.wait().map(show_status).unwrap_or("err".into()));
                    }
                }
                mark("drop");
                let t = Instant::now();
                drop(v);
                println!("dropped_ms {}", t.elapsed().as_millis());
            }
            Err(e) => println!("term err {}", show_err(&e)),
        },
        "join" => match pl.join() {
            Ok(st) => println!("term ok status={}", show_status(st)),
            Err(e) => println!("term err {}", show_err(&e)),
        },
        "capture" => match pl.capture() {
            Ok(c) => println!("term ok out={} err={} status={}", hexenc(&c.stdout), hexenc(&c.stderr), show_status(c.exit_status)),
            Err(e) => println!("term err {}", show_err(&e)),
        },
        "communicate" => match pl.communicate() {
            Ok(mut c) => match c.read() {
                Ok((o, e)) => println!(
                    "term ok out={} err={}",
                    o.map(|v| hexenc(&v)).unwrap_or("none".into()),
                    e.map(|v| hexenc(&v)).unwrap_or("none".into())
                ),
                Err(e) => println!("term ok readerr={:?}", e.kind()),
            },
            Err(e) => println!("term err {}", show_err(&e)),
        },
        "stream_stdout" => match pl.stream_stdout() {
            Ok(r) => {
                println!("term ok");
                use_reader(r, &after);
            }
            Err(e) => println!("term err {}", show_err(&e)),
        },
        "stream_stdin" => match pl.stream_stdin() {
            Ok(w) => {
                println!("term ok");
                use_writer(w, &after);
            }
            Err(e) => println!("term err {}", show_err(&e)),
        },
        _ => panic!("unknown terminator"),
    }));
    if r.is_err() {
        println!("term panic");
    }
    println!("term_ms {}", t0.elapsed().as_millis());
    LOGGING.store(false, Ordering::SeqCst);
}

/// Single-command handle scenarios (C12): Exec terminators and what becomes of the handle.
fn run_handle(spec: &Spec, stub: &str) {
    let det = spec.get("stage_detached") == Some("1");
    let mut e = stage_exec(spec.get("stage").unwrap(), stub, det);
    match spec.get("pstdin").unwrap_or("none") {
        "none" => {}
        "pipe" => e = e.stdin(Redirection::Pipe),
        d if d.starts_with("data:") => e = e.stdin(hexdec(&d[5..])),
        _ => panic!("bad pstdin"),
    }
    match spec.get("pstdout").unwrap_or("none") {
        "none" => {}
        "pipe" => e = e.stdout(Redirection::Pipe),
        "null" => e = e.stdout(subprocess::NullFile),
        _ => panic!("bad pstdout"),
    }
    match spec.get("pstderr").unwrap_or("none") {
        "none" => {}
        "pipe" => e = e.stderr(Redirection::Pipe),
        "null" => e = e.stderr(subprocess::NullFile),
        _ => panic!("bad pstderr"),
    }
    let term = spec.get("term").unwrap_or("popen").to_string();
    let after = spec.get("after").unwrap_or("drop").to_string();
    std::panic::set_hook(Box::new(|_| {}));
    LOGGING.store(true, Ordering::SeqCst);
    mark("term");
    let t0 = Instant::now();
    let r = std::panic::catch_unwind(std::panic::AssertUnwindSafe(|| match term.as_str() {
        "popen" => match e.popen() {
            Ok(p) => {
                println!("term ok");
                show_popens(std::slice::from_ref(&p));
                if let Some(ms) = after.strip_prefix("sleep_drop:") {
                    std::thread::sleep(Duration::from_millis(ms.parse().unwrap()));
                }
                mark("drop");
                let t = Instant::now();
                drop(p);
                println!("dropped_ms {}", t.elapsed().as_millis());
            }
            Err(e) => println!("term err {}", show_err(&e)),
        },
        "join" => match e.join() {
            Ok(st) => println!("term ok status={}", show_status(st)),
            Err(e) => println!("term err {}", show_err(&e)),
        },
        "capture" => match e.capture() {
            Ok(c) => println!("term ok out={} err={} status={}", hexenc(&c.stdout), hexenc(&c.stderr), show_status(c.exit_status)),
            Err(e) => println!("term err {}", show_err(&e)),
        },
        "communicate" => match e.communicate() {
            Ok(mut c) => match c.read() {
                Ok((o, e)) => println!(
                    "term ok out={} err={}",
                    o.map(|v| hexenc(&v)).unwrap_or("none".into()),
                    e.map(|v| hexenc(&v)).unwrap_or("none".into())
                ),
                Err(e) => println!("term ok readerr={:?}", e.kind()),
            },
            Err(e) => println!("term err {}", show_err(&e)),
        },
        "stream_stdout" => match e.stream_stdout() {
            Ok(r) => {
                println!("term ok");
                use_reader(r, &after);
            }
            Err(e) => println!("term err {}", show_err(&e)),
        },
        "stream_stderr" => match e.stream_stderr() {
            Ok(r) => {
                println!("term ok");
                use_reader(r, &after);
            }
            Err(e) => println!("term err {}", show_err(&e)),
        },
        "stream_stdin" => match e.stream_stdin() {
            Ok(w) => {
                println!("term ok");
                use_writer(w, &after);
            }
            Err(e) => println!("term err {}", show_err(&e)),
        },
        _ => panic!("unknown terminator"),
    }));
    if r.is_err() {
        println!("term panic");
    }
    println!("term_ms {}", t0.elapsed().as_millis());
    LOGGING.store(false, Ordering::SeqCst);
}

static SCHED_ON: AtomicBool = AtomicBool::new(false);
static A_AT_FORK: AtomicBool = AtomicBool::new(false);
static B_DONE: AtomicBool = AtomicBool::new(false);
static A_TID: AtomicUsize = AtomicUsize::new(0);

/// called by the fork interposer: thread A stops right before its fork until thread B's launch is complete
fn sched_before_fork() {
    if SCHED_ON.load(Ordering::SeqCst) && unsafe { libc::pthread_self() } as usize == A_TID.load(Ordering::SeqCst) {
        A_AT_FORK.store(true, Ordering::SeqCst);
        let t = Instant::now();
        while !B_DONE.load(Ordering::SeqCst) && t.elapsed() < Duration::from_secs(5) {
            std::thread::yield_now();
        }
    }
}

/// Two threads launch concurrently under a fixed schedule (C08): thread A (stdin and stdout piped) is held
/// between the creation of its pipes and its fork while thread B performs a complete launch.
fn run_threads(spec: &Spec, stub: &str) {
    let sched = spec.get("schedule").unwrap_or("a-in-flight") == "a-in-flight";
    SCHED_ON.store(sched, Ordering::SeqCst);
    LOGGING.store(true, Ordering::SeqCst);
    let stub_a = stub.to_string();
    let stub_b = stub.to_string();
    let ta = std::thread::spawn(move || {
        A_TID.store(unsafe { libc::pthread_self() } as usize, Ordering::SeqCst);
        let cfg = PopenConfig { stdin: Redirection::Pipe, stdout: Redirection::Pipe, ..Default::default() };
        let r = Popen::create(&[OsString::from(stub_a), OsString::from("a")], cfg);
        match r {
            Ok(mut p) => {
                println!("thread a ok pid={}", p.pid().unwrap_or(0));
                drop(p.stdin.take());
                let mut out = vec![];
                let t = Instant::now();
                p.stdout.take().unwrap().read_to_end(&mut out).ok();
                println!("thread a eof_ms {}", t.elapsed().as_millis());
                p.wait().ok();
            }
            Err(e) => println!("thread a err {}", show_err(&e)),
        }
    });
    let tb = std::thread::spawn(move || {
        let t = Instant::now();
        while sched && !A_AT_FORK.load(Ordering::SeqCst) && t.elapsed() < Duration::from_secs(5) {
            std::thread::yield_now();
        }
        let r = Popen::create(&[OsString::from(stub_b), OsString::from("b")], PopenConfig::default());
        B_DONE.store(true, Ordering::SeqCst);
        match r {
            Ok(mut p) => {
                println!("thread b ok pid={}", p.pid().unwrap_or(0));
                p.wait().ok();
            }
            Err(e) => println!("thread b err {}", show_err(&e)),
        }
    });
    ta.join().unwrap();
    tb.join().unwrap();
    LOGGING.store(false, Ordering::SeqCst);
}

#[allow(dead_code)]
fn unused(_: &OsStr, _: Pipeline, _: &dyn Read, _: &dyn Write) {
    let _ = build_exec;
    let _ = unsafe { File::from_raw_fd(-1) };
}
