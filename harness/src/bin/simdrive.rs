//! Engine E1 ("kernel in the loop"): the real Communicator / Popen code of /repo runs on fake
//! descriptors (1000, 1001, 1002), a virtual monotonic clock and a virtual child process, all served
//! by `spsim`, the extracted Coq kernel model.  Every libc call the library makes on those objects is
//! interposed here (the symbols defined in this binary override libc's for the statically linked
//! `subprocess` and `std` code alike) and forwarded over a pipe; everything else passes through as a
//! raw system call.
//!
//! usage: simdrive <scenario-file> <spsim-binary> <report-file>
//!
//! scenario file: blocks separated by blank lines
//!   scn <id>
//!   comm <pi> <po> <pe> <cap_in> <cap_out> <cap_err>      | popen <exit_ns|never> <raw> <reap_ns|never> <dies>
//!   input <bytes|none>
//!   prog <ops>
//!   choices <n,...>
//!   maxcalls <n>
//!   reads <mode>:<limit|->:<tl_ns|->;...      mode: b = read(), s = read_string(), B = communicate_bytes, S = communicate
//!   ops poll;wait;wt<ns>;pid;status;term;kill;sig<n>;detach;drop
use spharness::*;
use std::fs::File;
use std::io::Write as _;
use std::os::unix::io::{FromRawFd, IntoRawFd};
use std::sync::atomic::{AtomicBool, AtomicI32, AtomicU64, Ordering};
use std::time::Duration;
use subprocess::{ExitStatus, Popen, PopenConfig};

static ACTIVE: AtomicBool = AtomicBool::new(false);
static POPEN_MODE: AtomicBool = AtomicBool::new(false);
static SIM_W: AtomicI32 = AtomicI32::new(-1);
static SIM_R: AtomicI32 = AtomicI32::new(-1);
static POPEN_PID: AtomicI32 = AtomicI32::new(-1);
static CALLS: AtomicU64 = AtomicU64::new(0);
static MAXCALLS: AtomicU64 = AtomicU64::new(u64::MAX);
static HANG: AtomicBool = AtomicBool::new(false);
static UNWIND: AtomicBool = AtomicBool::new(false);

const FAKE_IN: i32 = 1000;
const FAKE_OUT: i32 = 1001;
const FAKE_ERR: i32 = 1002;
const EDEADLK: i32 = 35;

fn is_fake(fd: i32) -> bool {
    (FAKE_IN..=FAKE_ERR).contains(&fd)
}

fn raw_write_all(fd: i32, mut b: &[u8]) {
    while !b.is_empty() {
        let n = unsafe { libc::syscall(libc::SYS_write, fd, b.as_ptr(), b.len()) };
        if n <= 0 {
            unsafe { libc::syscall(libc::SYS_exit_group, 97) };
        }
        b = &b[n as usize..];
    }
}

/// One request/response round trip with spsim.  No allocation-sensitive context here (the parent
/// process), so a String reply is fine.
fn sim(req: &str) -> String {
    let w = SIM_W.load(Ordering::SeqCst);
    let r = SIM_R.load(Ordering::SeqCst);
    raw_write_all(w, req.as_bytes());
    raw_write_all(w, b"\n");
    let mut out: Vec<u8> = Vec::new();
    let mut buf = [0u8; 65536];
    loop {
        let n = unsafe { libc::syscall(libc::SYS_read, r, buf.as_mut_ptr(), buf.len()) };
        if n <= 0 {
            unsafe { libc::syscall(libc::SYS_exit_group, 98) };
        }
        out.extend_from_slice(&buf[..n as usize]);
        if out.last() == Some(&b'\n') {
            break;
        }
    }
    out.pop();
    String::from_utf8(out).unwrap()
}

fn set_errno(e: i32) {
    unsafe { *libc::__errno_location() = e };
}

/// Counts interposed calls; past the scenario's bound the run is a HANG and every further call fails
/// so that the real code unwinds.
fn tick() -> bool {
    if UNWIND.load(Ordering::SeqCst) {
        return false;
    }
    let c = CALLS.fetch_add(1, Ordering::SeqCst);
    if c > MAXCALLS.load(Ordering::SeqCst) {
        HANG.store(true, Ordering::SeqCst);
        UNWIND.store(true, Ordering::SeqCst);
        return false;
    }
    true
}

fn fail_unwind() -> isize {
    UNWIND.store(true, Ordering::SeqCst);
    set_errno(EDEADLK);
    -1
}

#[no_mangle]
pub unsafe extern "C" fn read(fd: i32, buf: *mut u8, n: usize) -> isize {
    if ACTIVE.load(Ordering::SeqCst) && (fd == FAKE_OUT || fd == FAKE_ERR) {
        if !tick() {
            return fail_unwind();
        }
        let rep = sim(&format!("read {} {}", if fd == FAKE_OUT { "o" } else { "e" }, n));
        if let Some(u) = rep.strip_prefix("data ") {
            let b = dec_bytes(u);
            let m = b.len().min(n);
            std::ptr::copy_nonoverlapping(b.as_ptr(), buf, m);
            return m as isize;
        }
        if let Some(e) = rep.strip_prefix("err ") {
            set_errno(e.parse().unwrap());
            return -1;
        }
        return fail_unwind();
    }
    libc::syscall(libc::SYS_read, fd, buf, n) as isize
}

#[no_mangle]
pub unsafe extern "C" fn write(fd: i32, buf: *const u8, n: usize) -> isize {
    if ACTIVE.load(Ordering::SeqCst) && fd == FAKE_IN {
        if !tick() {
            return fail_unwind();
        }
        let b = std::slice::from_raw_parts(buf, n);
        let rep = sim(&format!("write {}", enc_bytes(b)));
        if let Some(e) = rep.strip_prefix("err ") {
            set_errno(e.parse().unwrap());
            return -1;
        }
        if let Ok(k) = rep.parse::<isize>() {
            return k;
        }
        return fail_unwind();
    }
    libc::syscall(libc::SYS_write, fd, buf, n) as isize
}

#[no_mangle]
pub unsafe extern "C" fn close(fd: i32) -> i32 {
    if is_fake(fd) {
        if ACTIVE.load(Ordering::SeqCst) && fd == FAKE_IN && !UNWIND.load(Ordering::SeqCst) {
            CALLS.fetch_add(1, Ordering::SeqCst);
            sim("close");
        }
        return 0;
    }
    libc::syscall(libc::SYS_close, fd) as i32
}

#[no_mangle]
pub unsafe extern "C" fn fcntl(fd: i32, cmd: i32, arg: libc::c_long) -> i32 {
    if is_fake(fd) {
        return 0;
    }
    libc::syscall(libc::SYS_fcntl, fd, cmd, arg) as i32
}

#[no_mangle]
pub unsafe extern "C" fn poll(fds: *mut libc::pollfd, nfds: libc::nfds_t, timeout: i32) -> i32 {
    if ACTIVE.load(Ordering::SeqCst) && !POPEN_MODE.load(Ordering::SeqCst) && nfds == 3 {
        if !tick() {
            return fail_unwind() as i32;
        }
        let f = std::slice::from_raw_parts_mut(fds, 3);
        let rep = sim(&format!(
            "poll {} {} {} {}",
            (f[0].fd != -1) as i32,
            (f[1].fd != -1) as i32,
            (f[2].fd != -1) as i32,
            timeout
        ));
        if let Some(e) = rep.strip_prefix("err ") {
            set_errno(e.parse().unwrap());
            return -1;
        }
        let p: Vec<&str> = rep.split(' ').collect();
        if p.len() == 4 {
            for i in 0..3 {
                f[i].revents = p[i + 1].parse::<i16>().unwrap();
            }
            return p[0].parse().unwrap();
        }
        return fail_unwind() as i32;
    }
    libc::syscall(libc::SYS_poll, fds, nfds, timeout) as i32
}

#[no_mangle]
pub unsafe extern "C" fn clock_gettime(clk: libc::clockid_t, ts: *mut libc::timespec) -> i32 {
    if ACTIVE.load(Ordering::SeqCst) && clk == libc::CLOCK_MONOTONIC {
        if !tick() {
            // keep time readable while unwinding
            (*ts).tv_sec = 1 << 40;
            (*ts).tv_nsec = 0;
            return 0;
        }
        let rep = sim(if POPEN_MODE.load(Ordering::SeqCst) { "pclock" } else { "clock" });
        if let Ok(ns) = rep.parse::<u64>() {
            // the virtual clock starts at 0; keep Instants comfortably positive
            (*ts).tv_sec = (ns / 1_000_000_000) as i64 + 1000;
            (*ts).tv_nsec = (ns % 1_000_000_000) as i64;
            return 0;
        }
        UNWIND.store(true, Ordering::SeqCst);
        (*ts).tv_sec = 1 << 40;
        (*ts).tv_nsec = 0;
        return 0;
    }
    libc::syscall(libc::SYS_clock_gettime, clk, ts) as i32
}

unsafe fn virtual_sleep(req: *const libc::timespec) -> i32 {
    if !tick() {
        return 0;
    }
    let ns = (*req).tv_sec as u64 * 1_000_000_000 + (*req).tv_nsec as u64;
    sim(&format!("sleep {}", ns));
    0
}

#[no_mangle]
pub unsafe extern "C" fn nanosleep(req: *const libc::timespec, rem: *mut libc::timespec) -> i32 {
    if ACTIVE.load(Ordering::SeqCst) && POPEN_MODE.load(Ordering::SeqCst) {
        return virtual_sleep(req);
    }
    libc::syscall(libc::SYS_nanosleep, req, rem) as i32
}

#[no_mangle]
pub unsafe extern "C" fn clock_nanosleep(
    clk: libc::clockid_t,
    flags: i32,
    req: *const libc::timespec,
    rem: *mut libc::timespec,
) -> i32 {
    if ACTIVE.load(Ordering::SeqCst) && POPEN_MODE.load(Ordering::SeqCst) {
        return virtual_sleep(req);
    }
    // clock_nanosleep returns the error number directly
    let r = libc::syscall(libc::SYS_clock_nanosleep, clk, flags, req, rem);
    if r < 0 {
        *libc::__errno_location()
    } else {
        0
    }
}

#[no_mangle]
pub unsafe extern "C" fn waitpid(pid: i32, status: *mut i32, flags: i32) -> i32 {
    if ACTIVE.load(Ordering::SeqCst) && pid == POPEN_PID.load(Ordering::SeqCst) {
        if !tick() {
            return fail_unwind() as i32;
        }
        let rep = sim(&format!("waitpid {} {}", ((flags & libc::WNOHANG) != 0) as i32, flags & !libc::WNOHANG));
        if rep == "zero" {
            return 0;
        }
        if let Some(e) = rep.strip_prefix("err ") {
            set_errno(e.parse().unwrap());
            return -1;
        }
        if let Some(r) = rep.strip_prefix("pid ") {
            let p: Vec<&str> = r.split(' ').collect();
            if !status.is_null() {
                *status = p[1].parse::<u32>().unwrap() as i32;
            }
            return if p[0] == "1" { pid } else { pid + 1 };
        }
        return fail_unwind() as i32;
    }
    libc::syscall(libc::SYS_wait4, pid, status, flags, 0) as i32
}

#[no_mangle]
pub unsafe extern "C" fn kill(pid: i32, sig: i32) -> i32 {
    if ACTIVE.load(Ordering::SeqCst) && pid == POPEN_PID.load(Ordering::SeqCst) {
        if !tick() {
            return fail_unwind() as i32;
        }
        let rep = sim(&format!("kill {}", sig));
        if let Some(e) = rep.strip_prefix("err ") {
            set_errno(e.parse().unwrap());
            return -1;
        }
        return 0;
    }
    if ACTIVE.load(Ordering::SeqCst) && POPEN_MODE.load(Ordering::SeqCst) {
        // a signal aimed at anything but the child: record it, never deliver it
        sim(&format!("fkill {} {}", pid, sig));
        set_errno(libc::ESRCH);
        return -1;
    }
    libc::syscall(libc::SYS_kill, pid, sig) as i32
}

// ------------------------------------------------------------------------------------------------

fn pat(salt: usize, i: usize) -> u8 {
    ((salt * 97 + i * 131 + (i / 256) * 31 + (i / 65536) * 7) & 255) as u8
}

fn dec_data(s: &str) -> Vec<u8> {
    if s == "none" || s == "-" {
        return vec![];
    }
    if let Some(p) = s.strip_prefix('p') {
        let v: Vec<usize> = p.split(':').map(|x| x.parse().unwrap()).collect();
        return (0..v[2]).map(|i| pat(v[0], v[1] + i)).collect();
    }
    dec_bytes(s)
}

fn show_status(s: ExitStatus) -> String {
    match s {
        ExitStatus::Exited(c) => format!("exited:{}", c),
        ExitStatus::Signaled(s) => format!("signaled:{}", s),
        ExitStatus::Other(r) => format!("other:{}", r as u32),
        ExitStatus::Undetermined => "undetermined".to_string(),
    }
}

fn kind_of(e: &std::io::Error) -> String {
    if e.kind() == std::io::ErrorKind::TimedOut && e.raw_os_error().is_none() {
        "timedout".to_string()
    } else if let Some(c) = e.raw_os_error() {
        format!("os:{}", c)
    } else {
        "other".to_string()
    }
}

fn enc_opt(v: &Option<Vec<u8>>) -> String {
    match v {
        Some(b) => enc_bytes(b),
        None => "none".to_string(),
    }
}

struct Scn {
    id: String,
    lines: Vec<(String, String)>,
}

fn main() {
    let args: Vec<String> = std::env::args().collect();
    let text = std::fs::read_to_string(&args[1]).unwrap();
    let mut child = std::process::Command::new(&args[2])
        .arg(&args[3])
        .stdin(std::process::Stdio::piped())
        .stdout(std::process::Stdio::piped())
        .spawn()
        .expect("cannot start spsim");
    SIM_W.store(child.stdin.take().unwrap().into_raw_fd(), Ordering::SeqCst);
    SIM_R.store(child.stdout.take().unwrap().into_raw_fd(), Ordering::SeqCst);

    let mut scns: Vec<Scn> = vec![];
    for block in text.split("\n\n") {
        let mut s = Scn { id: String::new(), lines: vec![] };
        for l in block.lines() {
            let l = l.trim();
            if l.is_empty() || l.starts_with('#') {
                continue;
            }
            let (k, v) = l.split_once(' ').unwrap_or((l, ""));
            if k == "scn" {
                s.id = v.to_string();
            }
            s.lines.push((k.to_string(), v.to_string()));
        }
        if !s.id.is_empty() {
            scns.push(s);
        }
    }

    let out = std::io::stdout();
    for s in scns {
        let mut o = out.lock();
        writeln!(o, "scn {}", s.id).unwrap();
        drop(o);
        HANG.store(false, Ordering::SeqCst);
        UNWIND.store(false, Ordering::SeqCst);
        CALLS.store(0, Ordering::SeqCst);
        MAXCALLS.store(u64::MAX, Ordering::SeqCst);
        let mut input: Option<Vec<u8>> = None;
        let mut piped = (false, false, false);
        let mut is_popen = false;
        let mut reads = String::new();
        let mut ops = String::new();
        for (k, v) in &s.lines {
            match k.as_str() {
                "scn" | "prog" | "choices" => {
                    sim(&format!("{} {}", k, v));
                }
                "comm" => {
                    let p: Vec<&str> = v.split(' ').collect();
                    piped = (p[0] == "1", p[1] == "1", p[2] == "1");
                    sim(&format!("{} {}", k, v));
                }
                "popen" => {
                    is_popen = true;
                    sim(&format!("{} {}", k, v));
                }
                "input" => {
                    if v != "none" {
                        input = Some(dec_data(v));
                    }
                    sim(&format!("{} {}", k, v));
                }
                "maxcalls" => MAXCALLS.store(v.parse().unwrap(), Ordering::SeqCst),
                "reads" => reads = v.clone(),
                "ops" => ops = v.clone(),
                _ => {}
            }
        }
        // a real, throw-away child gives us a genuine Popen value
        let mut p = Popen::create(&["true"], PopenConfig::default()).expect("cannot spawn `true`");
        let real_pid = p.pid().unwrap() as i32;
        let r = std::panic::catch_unwind(std::panic::AssertUnwindSafe(|| {
            if is_popen {
                run_popen(&mut p, real_pid, &ops);
            } else {
                run_comm(&mut p, piped, input.clone(), &reads);
            }
        }));
        ACTIVE.store(false, Ordering::SeqCst);
        POPEN_MODE.store(false, Ordering::SeqCst);
        POPEN_PID.store(-1, Ordering::SeqCst);
        let mut o = out.lock();
        if r.is_err() {
            writeln!(o, "panic").unwrap();
        }
        if HANG.load(Ordering::SeqCst) {
            writeln!(o, "hang calls={}", CALLS.load(Ordering::SeqCst)).unwrap();
        }
        writeln!(o, "endscn calls={}", CALLS.load(Ordering::SeqCst)).unwrap();
        drop(o);
        sim("end");
        // reap the real child whatever the Popen believes
        unsafe {
            let mut st = 0i32;
            libc::syscall(libc::SYS_wait4, real_pid, &mut st as *mut i32, 0, 0);
        }
        std::mem::forget(p);
    }
    unsafe { libc::syscall(libc::SYS_close, SIM_W.load(Ordering::SeqCst)) };
    child.wait().ok();
}

fn run_comm(p: &mut Popen, piped: (bool, bool, bool), input: Option<Vec<u8>>, reads: &str) {
    unsafe {
        if piped.0 {
            p.stdin = Some(File::from_raw_fd(FAKE_IN));
        }
        if piped.1 {
            p.stdout = Some(File::from_raw_fd(FAKE_OUT));
        }
        if piped.2 {
            p.stderr = Some(File::from_raw_fd(FAKE_ERR));
        }
    }
    let out = std::io::stdout();
    let specs: Vec<&str> = reads.split(';').collect();
    // one-shot variants first: communicate_bytes / communicate
    if specs.len() == 1 && (specs[0].starts_with('B') || specs[0].starts_with('S')) {
        sim("oneshot");
        sim("start - -");
        ACTIVE.store(true, Ordering::SeqCst);
        if specs[0].starts_with('B') {
            let r = p.communicate_bytes(input.as_deref());
            ACTIVE.store(false, Ordering::SeqCst);
            let line = match &r {
                Ok((o, e)) => format!("ret ok {} {}", enc_opt(o), enc_opt(e)),
                Err(e) => format!("ret {} ? ?", kind_of(e)),
            };
            sim(&line);
            writeln!(out.lock(), "{}", line_short(&line)).unwrap();
        } else {
            let instr = input.as_ref().map(|b| String::from_utf8_lossy(b).into_owned());
            let r = p.communicate(instr.as_deref());
            ACTIVE.store(false, Ordering::SeqCst);
            report_string_result(r.map_err(|e| (kind_of(&e), None)));
        }
        return;
    }
    let mut comm = Some(p.communicate_start(input));
    // limit_size / limit_time are sticky: a later read without a new setting keeps the previous one
    let mut eff_lim = "-".to_string();
    let mut eff_tl = "-".to_string();
    for spec in specs {
        let f: Vec<&str> = spec.split(':').collect();
        let mut c = comm.take().unwrap();
        if f[1] != "-" {
            c = c.limit_size(f[1].parse().unwrap());
            eff_lim = f[1].to_string();
        }
        if f[2] != "-" {
            c = c.limit_time(Duration::from_nanos(f[2].parse().unwrap()));
            eff_tl = f[2].to_string();
        }
        sim(&format!("start {} {}", eff_lim, eff_tl));
        ACTIVE.store(true, Ordering::SeqCst);
        if f[0] == "s" {
            let r = c.read_string();
            ACTIVE.store(false, Ordering::SeqCst);
            report_string_result(r.map_err(|e| (kind_of(&e.error), Some(e.capture))));
        } else {
            let r = c.read();
            ACTIVE.store(false, Ordering::SeqCst);
            let line = match &r {
                Ok((o, e)) => format!("ret ok {} {}", enc_opt(o), enc_opt(e)),
                Err(e) => format!("ret {} {} {}", kind_of(&e.error), enc_opt(&e.capture.0), enc_opt(&e.capture.1)),
            };
            sim(&line);
            writeln!(out.lock(), "{}", line_short(&line)).unwrap();
        }
        comm = Some(c);
        if UNWIND.load(Ordering::SeqCst) {
            break;
        }
    }
    // dropping the communicator closes the fake descriptors (swallowed by the interposer)
    drop(comm);
}

fn line_short(l: &str) -> String {
    if l.len() > 200 {
        format!("{}..", &l[..200])
    } else {
        l.to_string()
    }
}

/// The text-returning variants: ask spsim what bytes the model says were returned, and check that
/// the Strings equal their lossy decoding.
fn report_string_result(r: Result<(Option<String>, Option<String>), (String, Option<(Option<Vec<u8>>, Option<Vec<u8>>)>)>) {
    let out = std::io::stdout();
    match r {
        Ok((o, e)) => {
            let rep = sim("retstr ok");
            let parts: Vec<&str> = rep.split(' ').collect();
            let mo = if parts[0] == "none" { None } else { Some(String::from_utf8_lossy(&dec_bytes(parts[0])).into_owned()) };
            let me = if parts[1] == "none" { None } else { Some(String::from_utf8_lossy(&dec_bytes(parts[1])).into_owned()) };
            writeln!(out.lock(), "retstr ok lossy_equal={}", (mo == o && me == e) as i32).unwrap();
        }
        Err((k, cap)) => {
            let line = match cap {
                Some(c) => format!("ret {} {} {}", k, enc_opt(&c.0), enc_opt(&c.1)),
                None => format!("ret {} ? ?", k),
            };
            sim(&line);
            writeln!(out.lock(), "{}", line_short(&line)).unwrap();
        }
    }
}

fn run_popen(p: &mut Popen, real_pid: i32, ops: &str) {
    use subprocess::unix::PopenExt;
    POPEN_PID.store(real_pid, Ordering::SeqCst);
    POPEN_MODE.store(true, Ordering::SeqCst);
    let out = std::io::stdout();
    for name in ops.split(';') {
        if name.is_empty() {
            continue;
        }
        sim(&format!("op {}", name));
        ACTIVE.store(true, Ordering::SeqCst);
        let v: String = if name == "poll" {
            match p.poll() {
                Some(s) => show_status(s),
                None => "none".into(),
            }
        } else if name == "wait" {
            match p.wait() {
                Ok(s) => show_status(s),
                Err(subprocess::PopenError::IoError(e)) => format!("err:{}", e.raw_os_error().unwrap_or(-1)),
                Err(_) => "err:logic".into(),
            }
        } else if let Some(ns) = name.strip_prefix("wt") {
            match p.wait_timeout(Duration::from_nanos(ns.parse().unwrap())) {
                Ok(Some(s)) => show_status(s),
                Ok(None) => "none".into(),
                Err(subprocess::PopenError::IoError(e)) => format!("err:{}", e.raw_os_error().unwrap_or(-1)),
                Err(_) => "err:logic".into(),
            }
        } else if name == "pid" {
            if p.pid().is_some() { "pid".into() } else { "nopid".into() }
        } else if name == "status" {
            match p.exit_status() {
                Some(s) => show_status(s),
                None => "none".into(),
            }
        } else if name == "term" || name == "kill" || name.starts_with("sig") {
            let r = if name == "term" {
                p.terminate()
            } else if name == "kill" {
                p.kill()
            } else {
                p.send_signal(name[3..].parse().unwrap())
            };
            match r {
                Ok(()) => "unit".into(),
                Err(e) => format!("err:{}", e.raw_os_error().unwrap_or(-1)),
            }
        } else if name == "detach" {
            p.detach();
            "unit".into()
        } else if name == "drop" {
            // run Popen::drop on a bitwise copy, then keep using the original value only for reaping
            let copy: Popen = unsafe { std::ptr::read(p as *const Popen) };
            drop(copy);
            "unit".into()
        } else {
            panic!("unknown op {}", name)
        };
        ACTIVE.store(false, Ordering::SeqCst);
        sim(&format!("opret {} {}", name, v));
        writeln!(out.lock(), "opret {} {}", name, v).unwrap();
        if UNWIND.load(Ordering::SeqCst) || name == "drop" {
            break;
        }
    }
}
