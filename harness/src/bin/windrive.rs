//! Drives the cfg(windows) thread-based communicator (cut out of /repo/src/communicate.rs, see build.rs) on
//! real pipes.  The driver itself plays the child, between reads: a scenario is a list of steps
//!   w <out|err> <hex>     the child writes these bytes to its stdout / stderr (at most PIPE_BUF at a time)
//!   c <out|err|in>        the child closes that end
//!   r <n>                 the child reads up to n bytes from its stdin
//!   read <limit|-> <timeout_ms|->    the parent calls RawCommunicator::read
//! and prints, per read:   read <ok|timedout|err:<kind>> out=<hex|none> err=<hex|none>
//! and, per child read:    got <hex>
//! usage: windrive <scenario file>     (first line: cfg <in 0|1> <out 0|1> <err 0|1> <input hex>)
use spharness::wincomm::raw::RawCommunicator;
use std::fs::File;
use std::io::{Read, Write};
use std::os::unix::io::FromRawFd;
use std::time::{Duration, Instant};

fn hexdec(s: &str) -> Vec<u8> {
    if s == "-" {
        return vec![];
    }
    (0..s.len() / 2).map(|i| u8::from_str_radix(&s[2 * i..2 * i + 2], 16).unwrap()).collect()
}
fn hexenc(b: &[u8]) -> String {
    if b.is_empty() {
        return "-".into();
    }
    b.iter().map(|c| format!("{:02x}", c)).collect()
}
fn mkpipe(one_page: bool) -> (File, File) {
    let mut fds = [0i32; 2];
    unsafe {
        assert_eq!(libc::pipe2(fds.as_mut_ptr(), libc::O_CLOEXEC), 0);
        if one_page {
            // the capacity the model is run with for the stdin pipe
            libc::fcntl(fds[1], libc::F_SETPIPE_SZ, 4096);
        }
        (File::from_raw_fd(fds[0]), File::from_raw_fd(fds[1]))
    }
}

fn main() {
    if !spharness::wincomm::WINCOMM_OK {
        println!("CUT-FAILED");
        return;
    }
    let path = std::env::args().nth(1).unwrap();
    let text = std::fs::read_to_string(path).unwrap();
    let mut lines = text.lines().filter(|l| !l.trim().is_empty() && !l.starts_with('#'));
    let cfg: Vec<&str> = lines.next().unwrap().split(' ').collect();
    assert_eq!(cfg[0], "cfg");
    let (pin, pout, perr) = (cfg[1] == "1", cfg[2] == "1", cfg[3] == "1");
    let input = hexdec(cfg[4]);
    // the child's ends stay with the driver
    let mut child_in: Option<File> = None;
    let mut child_out: Option<File> = None;
    let mut child_err: Option<File> = None;
    let stdin = if pin {
        let (r, w) = mkpipe(true);
        child_in = Some(r);
        Some(w)
    } else {
        None
    };
    let stdout = if pout {
        let (r, w) = mkpipe(false);
        child_out = Some(w);
        Some(r)
    } else {
        None
    };
    let stderr = if perr {
        let (r, w) = mkpipe(false);
        child_err = Some(w);
        Some(r)
    } else {
        None
    };
    let mut comm = RawCommunicator::new(stdin, stdout, stderr, if pin { Some(input) } else { None });
    for ln in lines {
        let p: Vec<&str> = ln.split(' ').collect();
        match p[0] {
            "w" => {
                let f = if p[1] == "out" { child_out.as_mut() } else { child_err.as_mut() };
                if let Some(f) = f {
                    f.write_all(&hexdec(p[2])).unwrap();
                }
            }
            "c" => match p[1] {
                "out" => drop(child_out.take()),
                "err" => drop(child_err.take()),
                _ => drop(child_in.take()),
            },
            "r" => {
                let n: usize = p[1].parse().unwrap();
                let mut buf = vec![0u8; n];
                let mut got = 0;
                if let Some(f) = child_in.as_mut() {
                    // non-blocking-ish: read what is there (the writer thread has had time to fill the pipe)
                    unsafe {
                        use std::os::unix::io::AsRawFd;
                        let fl = libc::fcntl(f.as_raw_fd(), libc::F_GETFL);
                        libc::fcntl(f.as_raw_fd(), libc::F_SETFL, fl | libc::O_NONBLOCK);
                    }
                    match f.read(&mut buf[..]) {
                        Ok(0) => println!("got_eof"),
                        Ok(k) => got = k,
                        Err(_) => {}
                    }
                }
                println!("got {}", hexenc(&buf[..got]));
            }
            "settle" => std::thread::sleep(Duration::from_millis(p[1].parse().unwrap())),
            "read" => {
                let limit = if p[1] == "-" { None } else { Some(p[1].parse::<usize>().unwrap()) };
                let deadline = if p[2] == "-" { None } else { Some(Instant::now() + Duration::from_millis(p[2].parse().unwrap())) };
                let t = Instant::now();
                let r = std::panic::catch_unwind(std::panic::AssertUnwindSafe(|| comm.read(deadline, limit)));
                match r {
                    Ok((err, (o, e))) => {
                        let kind = match err {
                            None => "ok".to_string(),
                            Some(e) if e.kind() == std::io::ErrorKind::TimedOut => "timedout".to_string(),
                            Some(e) => format!("err:{:?}", e.raw_os_error().unwrap_or(-1)),
                        };
                        println!(
                            "read {} out={} err={} ms={}",
                            kind,
                            o.map(|v| hexenc(&v)).unwrap_or("none".into()),
                            e.map(|v| hexenc(&v)).unwrap_or("none".into()),
                            t.elapsed().as_millis()
                        );
                    }
                    Err(_) => println!("read panic"),
                }
            }
            _ => panic!("bad step {}", ln),
        }
    }
    println!("end");
    // helper threads blocked in a rendezvous are abandoned with the process
    std::process::exit(0);
}
