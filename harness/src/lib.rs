//! Shared helpers for the harness binaries: the text encoding of strings used
//! between the Python orchestrator, the Rust drivers and the Coq/OCaml evaluators.
//!
//! word  = code points (or bytes) in decimal joined by '.', or "-" for the empty word
//! argv  = words joined by ','
//! cmds  = argvs joined by '|'

pub fn enc_units<I: IntoIterator<Item = u32>>(it: I) -> String {
    let v: Vec<String> = it.into_iter().map(|c| c.to_string()).collect();
    if v.is_empty() {
        "-".to_string()
    } else {
        v.join(".")
    }
}

pub fn enc_str(s: &str) -> String {
    enc_units(s.chars().map(|c| c as u32))
}

pub fn enc_bytes(b: &[u8]) -> String {
    enc_units(b.iter().map(|&c| c as u32))
}

pub fn dec_units(w: &str) -> Vec<u32> {
    if w == "-" {
        return vec![];
    }
    w.split('.').map(|x| x.parse::<u32>().expect("bad unit")).collect()
}

pub fn dec_str(w: &str) -> String {
    dec_units(w).into_iter().map(|c| char::from_u32(c).expect("bad scalar")).collect()
}

pub fn dec_bytes(w: &str) -> Vec<u8> {
    dec_units(w).into_iter().map(|c| c as u8).collect()
}

pub fn dec_argv_str(a: &str) -> Vec<String> {
    a.split(',').map(dec_str).collect()
}

pub fn dec_argv_bytes(a: &str) -> Vec<Vec<u8>> {
    a.split(',').map(dec_bytes).collect()
}

pub mod wincut;

/// The cfg(windows) thread-based communicator (communicate.rs `mod raw`), cut out of /repo's source by build.rs.
#[allow(dead_code, unused_imports, clippy::all)]
pub mod wincomm {
    include!(concat!(env!("OUT_DIR"), "/wincomm.rs"));
    include!(concat!(env!("OUT_DIR"), "/wincomm_ok.rs"));
}

pub fn dec_argv_u16(a: &str) -> Vec<Vec<u16>> {
    a.split(',').map(|w| dec_units(w).into_iter().map(|c| c as u16).collect()).collect()
}
