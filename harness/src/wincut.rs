//! The cfg(windows) pure functions of /repo/src/popen.rs, compiled from their cut-out source text
//! against a minimal UTF-16 shim for OsString / OsStr.
#![allow(dead_code, unused_imports, clippy::all)]
use std::collections::HashSet;
use std::io;

#[derive(Clone, PartialEq, Eq, Hash, Debug)]
pub struct OsString(pub Vec<u16>);
pub type OsStr = OsString;

impl OsString {
    pub fn from_wide(w: &[u16]) -> OsString {
        OsString(w.to_vec())
    }
    pub fn encode_wide(&self) -> impl Iterator<Item = u16> + '_ {
        self.0.iter().copied()
    }
    pub fn is_empty(&self) -> bool {
        self.0.is_empty()
    }
}

mod win32 {
    pub const ERROR_BAD_PATHNAME: u32 = 161;
}

include!(concat!(env!("OUT_DIR"), "/wincut_ok.rs"));
include!(concat!(env!("OUT_DIR"), "/wincut.rs"));

pub fn real_assemble_cmdline(argv: Vec<Vec<u16>>) -> Result<Vec<u16>, String> {
    match assemble_cmdline(argv.into_iter().map(OsString).collect()) {
        Ok(s) => Ok(s.0),
        Err(e) => Err(match e.raw_os_error() {
            Some(c) => c.to_string(),
            None => e.to_string(),
        }),
    }
}

pub fn real_format_env_block(env: Vec<(Vec<u16>, Vec<u16>)>) -> Vec<u16> {
    let env: Vec<(OsString, OsString)> = env.into_iter().map(|(k, v)| (OsString(k), OsString(v))).collect();
    format_env_block(&env)
}
