#!/bin/sh
# Extract the Gallina models (coqc run with cwd = ocaml/gen, where Separate Extraction writes) and build the drivers.
set -e
cd "$(dirname "$0")"
HERE=$(pwd)
rm -rf gen && mkdir -p gen bin
cd gen
coqc -noglob -Q "$HERE/../coq/theories" SP -o "$HERE/gen/Extract.vo" "$HERE/../coq/theories/Extract/Extract.v" >/dev/null
rm -f Extract.vo Extract.vok Extract.vos
cp ../src/*.ml .
SORTED=$(ocamlfind ocamldep -sort *.mli *.ml)
for drv in sppure spsim; do
  OTHERS=$(for f in $SORTED; do case "$f" in sppure.ml|spsim.ml|sptrace.ml) ;; *) echo "$f";; esac; done)
  ocamlfind ocamlopt -O2 -w -a -package unix -linkpkg $OTHERS $drv.ml -o ../bin/$drv 2>/dev/null || \
  ocamlfind ocamlopt -w -a -package unix -linkpkg $OTHERS $drv.ml -o ../bin/$drv
done
echo "ocaml drivers built"
