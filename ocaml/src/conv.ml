(* Conversions between OCaml ints/strings and the extracted Coq numerals, and the text encoding. *)
open BinNums
let rec pos_of_int n = if n = 1 then Coq_xH else if n land 1 = 0 then Coq_xO (pos_of_int (n lsr 1)) else Coq_xI (pos_of_int (n lsr 1))
let n_of_int n = if n = 0 then N0 else Npos (pos_of_int n)
let rec int_of_pos = function Coq_xH -> 1 | Coq_xO p -> 2 * int_of_pos p | Coq_xI p -> 2 * int_of_pos p + 1
let int_of_n = function N0 -> 0 | Npos p -> int_of_pos p
let nat_of_int n = let r = ref Datatypes.O in for _ = 1 to n do r := Datatypes.S !r done; !r
let int_of_nat n = let rec go acc = function Datatypes.O -> acc | Datatypes.S m -> go (acc + 1) m in go 0 n

let dec_units w = if w = "-" then [] else Stdlib.List.map (fun x -> n_of_int (int_of_string x)) (String.split_on_char '.' w)
let dec_argv a = Stdlib.List.map dec_units (String.split_on_char ',' a)
let enc_units l = if l = [] then "-" else String.concat "." (Stdlib.List.map (fun n -> string_of_int (int_of_n n)) l)
let enc_argv a = String.concat "," (Stdlib.List.map enc_units a)
let b2s b = if b then "1" else "0"
let dec_env e = if e = "none" then [] else
  Stdlib.List.map (fun kv -> match String.split_on_char '=' kv with
      | [k; v] -> (dec_units k, dec_units v)
      | _ -> failwith "env") (String.split_on_char ',' e)
