(* Pure evaluators over the extracted models, one case per line (same text encoding as the harness).
     c19 exec <argv> <real debug> <real lossy>   -> "1" if model = real else "0", then sh_eval verdict
     c20 <argv> <ok units | err>                 -> corr monitor_crt monitor_shell32 *)
open Conv

let () =
  try
    while true do
      let line = input_line stdin in
      match String.split_on_char ' ' line with
      | ["c19"; "exec"; argv; dbg; lossy] ->
        let argv = dec_argv argv in
        let corr = Str.str_eqb (Quote.debug_exec argv) (dec_units dbg) && Str.str_eqb (Quote.render argv) (dec_units lossy) in
        let ev = match Sh.sh_eval (dec_units lossy) with Some [a] -> Str.strs_eqb a argv | _ -> false in
        print_endline (b2s corr ^ " " ^ b2s ev)
      | ["c19"; "pipe"; cmds; dbg] ->
        let cmds = Stdlib.List.map dec_argv (String.split_on_char '|' cmds) in
        let corr = Str.str_eqb (Quote.debug_pipeline cmds) (dec_units dbg) in
        print_endline (b2s corr ^ " 1")
      | ["c20"; argv; "ok"; cl] ->
        let argv = dec_argv argv and cl = dec_units cl in
        let corr = (match WinCmdline.assemble_cmdline argv with Some m -> Str.str_eqb m cl | None -> false) in
        let m1 = Str.strs_eqb (MsParse.parse_args (n_of_int 1) cl) argv in
        let m2 = Str.strs_eqb (MsParse.parse_args (n_of_int 2) cl) argv in
        print_endline (b2s corr ^ " " ^ b2s m1 ^ " " ^ b2s m2)
      | ["c20"; argv; "err"; code] ->
        let argv = dec_argv argv in
        let corr = (WinCmdline.assemble_cmdline argv = None) && code = "161" in
        let has_nul = Stdlib.List.exists (fun a -> Stdlib.List.exists (fun c -> c = BinNums.N0) a) argv in
        print_endline (b2s corr ^ " " ^ b2s has_nul ^ " " ^ b2s has_nul)
      | _ -> print_endline "?"
    done
  with End_of_file -> ()
