(* Pure evaluators over the extracted models, one case per line (same text encoding as the harness).
     c19 exec <argv> <real debug> <real lossy>   -> "1" if model = real else "0", then sh_eval verdict
     c20 <argv> <ok units | err>                 -> corr monitor_crt monitor_shell32 *)
open Conv

let () =
  try
    while true do
      let line = input_line stdin in
      match String.split_on_char ' ' line with
      | ["c19"; "exec"; argv; dbg; lossy] ->
        let argv = dec_argv argv in
        let corr = Str.str_eqb (Quote.debug_exec argv) (dec_units dbg) && Str.str_eqb (Quote.render argv) (dec_units lossy) in
        let ev = match Sh.sh_eval (dec_units lossy) with Some [a] -> Str.strs_eqb a argv | _ -> false in
        print_endline (b2s corr ^ " " ^ b2s ev)
      | ["c19"; "pipe"; cmds; dbg] ->
        let cmds = Stdlib.List.map dec_argv (String.split_on_char '|' cmds) in
        let corr = Str.str_eqb (Quote.debug_pipeline cmds) (dec_units dbg) in
        print_endline (b2s corr ^ " 1")
      | ["c20"; argv; "ok"; cl] ->
        let argv = dec_argv argv and cl = dec_units cl in
        let corr = (match WinCmdline.assemble_cmdline argv with Some m -> Str.str_eqb m cl | None -> false) in
        let m1 = Str.strs_eqb (MsParse.parse_args (n_of_int 1) cl) argv in
        let m2 = Str.strs_eqb (MsParse.parse_args (n_of_int 2) cl) argv in
        print_endline (b2s corr ^ " " ^ b2s m1 ^ " " ^ b2s m2)
      | ["c20"; argv; "err"; code] ->
        let argv = dec_argv argv in
        let corr = (WinCmdline.assemble_cmdline argv = None) && code = "161" in
        let has_nul = Stdlib.List.exists (fun a -> Stdlib.List.exists (fun c -> c = BinNums.N0) a) argv in
        print_endline (b2s corr ^ " " ^ b2s has_nul ^ " " ^ b2s has_nul)
      | ["splitpath"; p; got] ->
        let got = if got = "none" then [] else dec_argv got in
        print_endline (b2s (Str.strs_eqb (Path.split_path (dec_units p)) got))
      | ["fmtenv"; env; got] ->
        let got = if got = "none" then [] else dec_argv got in
        print_endline (b2s (Str.strs_eqb (Env.format_env (dec_env env)) got))
      | ["prealloc"; cmd; path; cap; longest] ->
        let cmd = dec_units cmd and sp = (if path = "none" then None else Some (dec_units path)) in
        let a = int_of_nat (Path.prealloc_capacity cmd sp) and b = int_of_nat (Path.longest_assembled cmd sp) in
        print_endline (b2s (a = int_of_string cap && b = int_of_string longest) ^ " " ^ string_of_int a ^ " " ^ string_of_int b)
      | ["c06conf"; argv; exe; env; cwd; path; fs; oargv; oenvp; ocwd; otried; out] ->
        let strs a = if a = "none" then [] else dec_argv a in
        let ostr a = if a = "none" then None else Some (dec_units a) in
        let req = { ExecArgs.r_argv = strs argv; r_exe = ostr exe;
                    r_env = (if env = "inherit" then None else Some (dec_env env));
                    r_cwd = ostr cwd; r_path = ostr path } in
        let fs = if fs = "none" then [] else
            Stdlib.List.map (fun kv -> match String.split_on_char '=' kv with
                | [k; "ok"] -> (dec_units k, None)
                | [k; e] -> (dec_units k, Some (n_of_int (int_of_string e)))
                | _ -> failwith "fs") (String.split_on_char ',' fs) in
        let oenvp = if oenvp = "inherit" then None else Some (strs oenvp) in
        let out = match String.split_on_char ':' out with
          | ["ran"; p] -> Datatypes.Coq_inl (dec_units p)
          | ["err"; e] -> Datatypes.Coq_inr (n_of_int (int_of_string e))
          | _ -> failwith "out" in
        print_endline (string_of_int (int_of_n (ExecArgs.conforms req fs (strs oargv) oenvp (ostr ocwd) (strs otried) out)))
      | ["c16"; base; start; ops; t1; t2] ->
        let open Builder in
        let redir r = match r with
          | "N" -> BNone | "P" -> BPipe | "M" -> BMerge
          | _ -> BFile (n_of_int (int_of_string (String.sub r 1 (String.length r - 1)))) in
        let tail s k = String.sub s k (String.length s - k) in
        let op o = match String.index_opt o ':' with
          | None -> (match o with "clear" -> OEnvClear | "det" -> ODetached | "clone" -> OClone | "swap" -> OSwap | _ -> failwith "op")
          | Some i ->
            let k = String.sub o 0 i and v = tail o (i + 1) in
            (match k with
             | "arg" -> OArg (dec_units v)
             | "args" -> OArgs (if v = "none" then [] else dec_argv v)
             | "env" -> (match dec_env v with [(a, b)] -> OEnv (a, b) | _ -> failwith "env")
             | "ext" -> OEnvExtend (dec_env v)
             | "rm" -> OEnvRemove (dec_units v)
             | "cwd" -> OCwd (dec_units v)
             | "in" -> if v.[0] = 'D' then OStdin (IData (dec_units (tail v 1))) else OStdin (IRedir (redir v))
             | "out" -> OStdout (redir v)
             | "err" -> OStderr (redir v)
             | _ -> failwith "op") in
        let term t = match t with
          | "popen" -> TPopen | "join" -> TJoin | "stream_stdout" -> TStreamStdout | "stream_stderr" -> TStreamStderr
          | "stream_stdin" -> TStreamStdin | "communicate" -> TCommunicate | "capture" -> TCapture | _ -> failwith "term" in
        let start = match String.index_opt start ':' with
          | Some i when String.sub start 0 i = "shell" -> shell (dec_units (tail start (i + 1)))
          | Some i -> cmd (dec_units (tail start (i + 1)))
          | None -> failwith "start" in
        let ops = if ops = "none" then [] else Stdlib.List.map op (String.split_on_char ';' ops) in
        let show_r = function BNone -> "N" | BPipe -> "P" | BMerge -> "M" | BFile i -> "F" ^ string_of_int (int_of_n i) in
        let strs l = if l = [] then "none" else enc_argv l in
        let show = function
          | None -> "PANIC"
          | Some l ->
            Printf.sprintf "argv=%s envp=%s cwd=%s in=%s out=%s err=%s det=%s after=%s data=%s"
              (strs l.l_argv)
              (match l.l_env with None -> "inherit" | Some e -> strs (Env.format_env e))
              (match l.l_cwd with None -> "none" | Some d -> enc_units d)
              (show_r l.l_in) (show_r l.l_out) (show_r l.l_err) (b2s l.l_detached) (b2s l.l_panics_after)
              (match l.l_data with None -> "none" | Some d -> enc_units d) in
        (match program (dec_env base) start ops (term t1) (term t2) with
         | Datatypes.Coq_inr i -> print_endline ("panic_at " ^ string_of_int (int_of_n i))
         | Datatypes.Coq_inl (a, b) ->
           print_endline (show a ^ " | " ^ (match b with None -> "-" | Some x -> show x)))
      | ["status"; raw] ->
        (* Lib/Status.v: what posix.rs decode_exit_status makes of a raw wait status *)
        print_endline (match Status.decode_exit_status (n_of_int (int_of_string raw)) with
            | Status.Exited c -> Printf.sprintf "exited:%d" (int_of_n c)
            | Status.Signaled g -> Printf.sprintf "signaled:%d" (int_of_n g)
            | Status.Other r -> Printf.sprintf "other:%d" (int_of_n r)
            | Status.Undetermined -> "undetermined")
      | ["c13"; stages; shape; pin; pout; errfile; failk; mode] ->
        (* stages: argv|argv|... ; shape: left | iter | cat:<k> ; pin: N|P|F<id>|D<units> ; pout: N|P|F<id> ;
           errfile: 0|1 ; failk: -1|k ; mode: popen | comm *)
        let open Builder in
        let open Pipeline in
        let tail s k = String.sub s k (String.length s - k) in
        let redir r = match r with
          | "N" -> BNone | "P" -> BPipe | "M" -> BMerge
          | _ -> BFile (n_of_int (int_of_string (tail r 1))) in
        let execs = Stdlib.List.map (fun a -> match dec_argv a with
            | c :: args -> (match apply_op [] (cmd c) (OArgs args) with Some e -> e | None -> failwith "args")
            | [] -> failwith "stage") (String.split_on_char '|' stages) in
        let rec left = function
          | a :: b :: rest -> Stdlib.List.fold_left (fun p e -> PPush (p, e)) (PNew (a, b)) rest
          | _ -> failwith "left" in
        let rec take k l = if k = 0 then [] else (match l with x :: r -> x :: take (k - 1) r | [] -> []) in
        let rec drop k l = if k = 0 then l else (match l with _ :: r -> drop (k - 1) r | [] -> []) in
        let set_in x = if pin = "N" then x else if pin.[0] = 'D' then PStdin (x, IData (dec_units (tail pin 1))) else PStdin (x, IRedir (redir pin)) in
        let set_out x = if pout = "N" then x else PStdout (x, redir pout) in
        let set_err x = if errfile = "1" then PStderrTo (x, n_of_int 800) else x in
        let x3 = match String.split_on_char ':' shape with
          | ["left"] -> set_err (set_out (set_in (left execs)))
          | ["iter"] -> set_err (set_out (set_in (PIter execs)))
          | ["cat"; k] -> let k = int_of_string k in set_err (set_out (set_in (PCat (left (take k execs), left (drop k execs)))))
          (* configured before composing: input and stderr sink on the left operand, output on the right one *)
          | ["cate"; k] -> let k = int_of_string k in PCat (set_err (set_in (left (take k execs))), set_out (left (drop k execs)))
          | ["pushe"] -> Stdlib.List.fold_left (fun p e -> PPush (p, e)) (set_err (set_out (set_in (left (take 2 execs))))) (drop 2 execs)
          | _ -> failwith "shape" in
        let show_r = function BNone -> "N" | BPipe -> "P" | BMerge -> "M" | BFile i -> "F" ^ string_of_int (int_of_n i) in
        (match build x3 with
         | None -> print_endline "build-panic"
         | Some p ->
           let k = int_of_string failk in
           let fails i = (int_of_nat i = k) in
           let (ls, o), data = if mode = "comm" then setup_comm fails p else (ppopen fails p, None) in
           let oc = match o with OOk -> "ok" | OErr k -> "err:" ^ string_of_int (int_of_nat k) | OPanic -> "panic" in
           let stages = Stdlib.List.map (fun l -> Printf.sprintf "in=%s out=%s err=%s det=%s argv=%s"
               (show_r l.l_in) (show_r l.l_out) (show_r l.l_err) (b2s l.l_detached) (enc_argv l.l_argv)) ls in
           (* which command's status join / capture report: status k = k *)
           let jr = (if mode = "comm" then pcapture else pjoin) fails p (fun k -> n_of_int (int_of_nat k)) in
           let js = match jr with JPanic -> "panic" | JErr k -> "err:" ^ string_of_int (int_of_nat k) | JStatus s -> "of:" ^ string_of_int (int_of_n s) in
           print_endline (String.concat " | " ((Printf.sprintf "outcome=%s n=%d data=%s status=%s" oc (Stdlib.List.length ls)
             (match data with None -> "none" | Some d -> enc_units d) js) :: stages)))
      | ["c12"; kind; det; held] ->
        (* held: per stage the streams whose parent end is held, e.g. "0.1,-,1" *)
        let open DropOrder in
        let d = (det = "1") in
        let heldl = Stdlib.List.map (fun w -> if w = "-" then [] else Stdlib.List.map (fun x -> nat_of_int (int_of_string x)) (String.split_on_char '.' w))
            (String.split_on_char ',' held) in
        let h0 = match heldl with x :: _ -> x | [] -> [] in
        let h = match kind with
          | "popen" -> HPopen (d, h0) | "readout" -> HReadOut (d, h0) | "readerr" -> HReadErr (d, h0) | "write" -> HWrite (d, h0)
          | "join" -> HJoin h0 | "vec" -> HVec (d, heldl) | "readpipe" -> HReadPipe (d, heldl) | "writepipe" -> HWritePipe (d, heldl)
          | "joinpipe" -> HJoinPipe (d, heldl) | "failed" -> HFailed (d, heldl) | _ -> failwith "kind" in
        let ws = held_at_waits (all_held heldl) (acts h) in
        print_endline ("waits " ^ String.concat ";" (Stdlib.List.map (fun (i, op) ->
            string_of_int (int_of_nat i) ^ ":" ^ String.concat "," (Stdlib.List.map (fun (a, b) -> string_of_int (int_of_nat a) ^ "." ^ string_of_int (int_of_nat b)) op)) ws))
      | ["winc"; pi; po; pe; input; prog; phases] ->
        (* the thread-based communicator: all result sequences of a script *)
        let b x = (x = "1") in
        let tail s k = String.sub s k (String.length s - k) in
        let cop o = match String.split_on_char ':' o with
          | ["w"; "o"; u] -> CommK.CWrite (Comm.SOut, dec_units u)
          | ["w"; "e"; u] -> CommK.CWrite (Comm.SErr, dec_units u)
          | ["r"; n] -> CommK.CRead (nat_of_int (int_of_string n))
          | ["c"; "o"] -> CommK.CCloseS Comm.SOut
          | ["c"; "e"] -> CommK.CCloseS Comm.SErr
          | ["c"; "i"] -> CommK.CCloseS Comm.SIn
          | _ -> failwith "cop" in
        let ph p = if p.[0] = 'c' then WinSim.PhChild (nat_of_int (int_of_string (tail p 1)))
          else (match String.split_on_char ':' (tail p 1) with
              | [l; d] -> WinSim.PhRead ((if l = "-" then None else Some (nat_of_int (int_of_string l))), d = "1")
              | _ -> failwith "phase") in
        let progl = if prog = "none" then [] else Stdlib.List.map cop (String.split_on_char ';' prog) in
        let phl = Stdlib.List.map ph (String.split_on_char ';' phases) in
        (* the stdin pipe is one page (the driver sets it so); the output pipes keep the default 64 KiB *)
        let s0 = WinComm.winit (b pi) (b po) (b pe) (nat_of_int 4096) (nat_of_int 65536) (nat_of_int 65536) progl (dec_units input) in
        let show_o = function
          | WinSim.OBlocked -> "blocked"
          | WinSim.ORet ((r, o), e) ->
            let k = (match r with WinComm.WOk -> "ok" | WinComm.WTimedOut -> "timedout" | WinComm.WErr e -> "err:" ^ string_of_int (int_of_n e)) in
            let so = function None -> "none" | Some l -> enc_units l in
            k ^ ":" ^ so o ^ ":" ^ so e in
        let outs = WinSim.run_script (nat_of_int 64) phl s0 [] in
        let strs = Stdlib.List.sort_uniq compare (Stdlib.List.map (fun ((os, got), eof) ->
            String.concat "," (Stdlib.List.map show_o os) ^ "|" ^ enc_units got ^ "|" ^ b2s eof) outs) in
        print_endline (if strs = [] then "none" else String.concat " || " strs)
      | _ -> print_endline "?"
    done
  with End_of_file -> ()
