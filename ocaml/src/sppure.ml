(* Pure evaluators over the extracted models, one case per line (same text encoding as the harness).
     c19 exec <argv> <real debug> <real lossy>   -> "1" if model = real else "0", then sh_eval verdict
     c20 <argv> <ok units | err>                 -> corr monitor_crt monitor_shell32 *)
open Conv

let () =
  try
    while true do
      let line = input_line stdin in
      match String.split_on_char ' ' line with
      | ["c19"; "exec"; argv; dbg; lossy] ->
        let argv = dec_argv argv in
        let corr = Str.str_eqb (Quote.debug_exec argv) (dec_units dbg) && Str.str_eqb (Quote.render argv) (dec_units lossy) in
        let ev = match Sh.sh_eval (dec_units lossy) with Some [a] -> Str.strs_eqb a argv | _ -> false in
        print_endline (b2s corr ^ " " ^ b2s ev)
      | ["c19"; "pipe"; cmds; dbg] ->
        let cmds = Stdlib.List.map dec_argv (String.split_on_char '|' cmds) in
        let corr = Str.str_eqb (Quote.debug_pipeline cmds) (dec_units dbg) in
        print_endline (b2s corr ^ " 1")
      | ["c20"; argv; "ok"; cl] ->
        let argv = dec_argv argv and cl = dec_units cl in
        let corr = (match WinCmdline.assemble_cmdline argv with Some m -> Str.str_eqb m cl | None -> false) in
        let m1 = Str.strs_eqb (MsParse.parse_args (n_of_int 1) cl) argv in
        let m2 = Str.strs_eqb (MsParse.parse_args (n_of_int 2) cl) argv in
        print_endline (b2s corr ^ " " ^ b2s m1 ^ " " ^ b2s m2)
      | ["c20"; argv; "err"; code] ->
        let argv = dec_argv argv in
        let corr = (WinCmdline.assemble_cmdline argv = None) && code = "161" in
        let has_nul = Stdlib.List.exists (fun a -> Stdlib.List.exists (fun c -> c = BinNums.N0) a) argv in
        print_endline (b2s corr ^ " " ^ b2s has_nul ^ " " ^ b2s has_nul)
      | ["splitpath"; p; got] ->
        let got = if got = "none" then [] else dec_argv got in
        print_endline (b2s (Str.strs_eqb (Path.split_path (dec_units p)) got))
      | ["fmtenv"; env; got] ->
        let got = if got = "none" then [] else dec_argv got in
        print_endline (b2s (Str.strs_eqb (Env.format_env (dec_env env)) got))
      | ["prealloc"; cmd; path; cap; longest] ->
        let cmd = dec_units cmd and sp = (if path = "none" then None else Some (dec_units path)) in
        let a = int_of_nat (Path.prealloc_capacity cmd sp) and b = int_of_nat (Path.longest_assembled cmd sp) in
        print_endline (b2s (a = int_of_string cap && b = int_of_string longest) ^ " " ^ string_of_int a ^ " " ^ string_of_int b)
      | ["c06conf"; argv; exe; env; cwd; path; fs; oargv; oenvp; ocwd; otried; out] ->
        let strs a = if a = "none" then [] else dec_argv a in
        let ostr a = if a = "none" then None else Some (dec_units a) in
        let req = { ExecArgs.r_argv = strs argv; r_exe = ostr exe;
                    r_env = (if env = "inherit" then None else Some (dec_env env));
                    r_cwd = ostr cwd; r_path = ostr path } in
        let fs = if fs = "none" then [] else
            Stdlib.List.map (fun kv -> match String.split_on_char '=' kv with
                | [k; "ok"] -> (dec_units k, None)
                | [k; e] -> (dec_units k, Some (n_of_int (int_of_string e)))
                | _ -> failwith "fs") (String.split_on_char ',' fs) in
        let oenvp = if oenvp = "inherit" then None else Some (strs oenvp) in
        let out = match String.split_on_char ':' out with
          | ["ran"; p] -> Datatypes.Coq_inl (dec_units p)
          | ["err"; e] -> Datatypes.Coq_inr (n_of_int (int_of_string e))
          | _ -> failwith "out" in
        print_endline (string_of_int (int_of_n (ExecArgs.conforms req fs (strs oargv) oenvp (ostr ocwd) (strs otried) out)))
      | _ -> print_endline "?"
    done
  with End_of_file -> ()
