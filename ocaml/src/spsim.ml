(* spsim: the extracted Coq kernel model K served live to the real library (engine E1), with the
   library model L stepped in lockstep.  Hand-written glue only: parse a line, call the extracted
   function, print a line.

   usage: spsim <report-file>      commands on stdin, replies on stdout

   scenario commands (sent by simdrive before it runs the real code):
     scn <id>
     comm <pi> <po> <pe> <cap_in> <cap_out> <cap_err>     start a communicate scenario
     input <units|none>
     prog <op>;<op>...         r<n> | wo:<bytes> | we:<bytes> | ci | co | ce | s<ns> | x
                               <bytes> = explicit units a.b.c  or  p<salt>:<start>:<len> (pattern)
     choices <n,n,...>
     popen <exit_ns|never> <raw> <reap_ns|never> <dies 0|1>   start a Popen scenario
   run-time commands (sent by the interposed libc calls of the real code):
     start <limit|-> <tl_ns|->      Communicator::read about to be called with these limits
     clock | poll <fi> <fo> <fe> <ms> | write <units> | close | read <o|e> <n>
     ret <ok|timedout|os:N|other> <out units|none> <err units|none>
     op <name>                      a Popen method about to be called
     waitpid <nohang 0|1> | kill <sig> | pclock | sleep <ns>
     opret <value>
     end                            scenario over: write the report *)
open Conv

let report = ref stdout
let rp fmt = Printf.fprintf !report fmt

let z_of_int n = if n = 0 then BinNums.Z0 else if n > 0 then BinNums.Zpos (pos_of_int n) else BinNums.Zneg (pos_of_int (-n))
let int_of_z = function BinNums.Z0 -> 0 | BinNums.Zpos p -> int_of_pos p | BinNums.Zneg p -> - (int_of_pos p)

let pat salt i = (salt * 97 + i * 131 + (i / 256) * 31 + (i / 65536) * 7) land 255

let dec_bytes (s : string) : BinNums.coq_N list =
  if s = "none" || s = "-" then []
  else if String.length s > 0 && s.[0] = 'p' then begin
    match String.split_on_char ':' (String.sub s 1 (String.length s - 1)) with
    | [salt; start; len] ->
      let salt = int_of_string salt and start = int_of_string start and len = int_of_string len in
      Stdlib.List.init len (fun i -> n_of_int (pat salt (start + i)))
    | _ -> failwith "bad pattern"
  end else dec_units s

let enc_bytes l = enc_units l
let enc_opt = function None -> "none" | Some l -> enc_units l

let stream_of = function "o" -> Comm.SOut | "e" -> Comm.SErr | _ -> Comm.SIn

let parse_op (s : string) : CommK.cop =
  let rest k = String.sub s k (String.length s - k) in
  if s = "x" then CommK.CExit
  else if s = "ci" then CommK.CCloseS Comm.SIn
  else if s = "co" then CommK.CCloseS Comm.SOut
  else if s = "ce" then CommK.CCloseS Comm.SErr
  else if String.length s > 3 && String.sub s 0 3 = "wo:" then CommK.CWrite (Comm.SOut, dec_bytes (rest 3))
  else if String.length s > 3 && String.sub s 0 3 = "we:" then CommK.CWrite (Comm.SErr, dec_bytes (rest 3))
  else if s.[0] = 'r' then CommK.CRead (nat_of_int (int_of_string (rest 1)))
  else if s.[0] = 's' then CommK.CSleep (n_of_int (int_of_string (rest 1)))
  else failwith ("bad op " ^ s)

let show_call = function
  | Comm.KPoll (a, b, c, t) -> Printf.sprintf "poll(%b,%b,%b,%d)" a b c (int_of_z t)
  | Comm.KWrite b -> Printf.sprintf "write(%d:%s)" (Stdlib.List.length b)
                       (let e = enc_units b in if String.length e > 60 then String.sub e 0 60 ^ ".." else e)
  | Comm.KClose -> "close"
  | Comm.KRead (s, n) -> Printf.sprintf "read(%s,%d)" (match s with Comm.SOut -> "out" | Comm.SErr -> "err" | Comm.SIn -> "in") (int_of_n n)
  | Comm.KClock -> "clock"

let show_err = function
  | None -> "ok"
  | Some Comm.ETimedOut -> "timedout"
  | Some (Comm.EOs e) -> "os:" ^ string_of_int (int_of_n e)
  | Some Comm.EModel -> "model-error"

let show_action = function
  | Comm.Call c -> show_call c
  | Comm.Ret e -> "return(" ^ show_err e ^ ")"
  | Comm.Stuck -> "STUCK"

(* ---------------- state ---------------- *)
let fuel = nat_of_int 3_000_000

let world : CommK.world option ref = ref None
let choices : Datatypes.nat list ref = ref []
let lstate : Comm.cst option ref = ref None          (* L's state *)
let lcomm : Comm.comm option ref = ref None           (* L's persistent communicator *)
let lexpect : Comm.action option ref = ref None       (* what L does next *)
let ncalls = ref 0
let ndiv = ref 0
let firstdiv = ref ""
let verdict = ref "ok"
let readidx = ref 0
let read_t0 = ref 0
let read_calls = ref 0
let read_deadline = ref (-1)
let read_tl = ref (-1)
let first_clock = ref true
let polls_after_deadline = ref 0
(* job-control part of the kernel state (Kernel/JobCtl.v): which stop signal suspended the child, and whether that
   stop has been reported *)
let xstopped : BinNums.coq_N option ref = ref None
let xseen = ref false
(* the blocking waitpid (counted over the scenario) that a signal handler of the caller interrupts; 0 = none *)
let intr_at = ref 0
let big_k = ref 0
let big_secs = ref 0
let sleeps_seen = ref 0
let intr_poll = ref 0
let intr_read = ref 0
let blocking_reads = ref 0
let polls_seen = ref 0
let blocking_waits = ref 0
(* poll reported stdin writable, and the library polled again (or returned) without having written to it *)
let pending_in = ref false
let starved = ref 0
let consumed_out = ref 0
let consumed_err = ref 0
let max_single = ref 0

let pw : PopenSM.pworld option ref = ref None
let lp : PopenSM.popen ref = ref { PopenSM.cstate = PopenSM.Running; PopenSM.detached = false }
let lpst : PopenSM.pst option ref = ref None
let lpexpect : PopenSM.paction option ref = ref None
let opidx = ref 0
let op_calls = ref 0
let op_t0 = ref 0
let op_log = Buffer.create 256

let oneshot = ref false

let reset () =
  world := None; choices := []; lstate := None; lcomm := None; lexpect := None; ncalls := 0; ndiv := 0;
  firstdiv := ""; verdict := "ok"; readidx := 0; oneshot := false; pw := None; lpst := None; lpexpect := None; opidx := 0;
  lp := { PopenSM.cstate = PopenSM.Running; PopenSM.detached = false }

let diverge what =
  incr ndiv;
  if !firstdiv = "" then firstdiv := what

let now_of_world () = match !world with Some w -> int_of_n w.CommK.now | None -> 0

(* feed a result to L and remember what it does next *)
let l_feed (r : Comm.result) =
  match !lstate with
  | None -> ()
  | Some s ->
    let (s', act) = Comm.step s r in
    lstate := Some s'; lexpect := Some act

let l_check_call (c : Comm.call) =
  (match !lexpect, c with
   (* communicate_bytes / communicate drop their temporary Communicator before returning: a stdin still
      open (the exchange ended with an error) is closed then, after L's read() has returned *)
   | Some (Comm.Ret _), Comm.KClose when !oneshot -> ()
   | _ ->
  match !lexpect with
   | Some (Comm.Call c') when CommSim.call_eqb c c' -> ()
   | Some a -> diverge (Printf.sprintf "E1:Comm read#%d call#%d: real=%s model=%s" !readidx !read_calls (show_call c) (show_action a))
   | None -> diverge (Printf.sprintf "E1:Comm read#%d call#%d: real=%s model=<not in a call>" !readidx !read_calls (show_call c)));
  (* after a divergence keep L following the real code: pretend L issued the real call *)
  ()

let resync (s : Comm.cst) (c : Comm.call) : Comm.cst =
  (* put L at the program point that awaits the result of the call the real code made *)
  let pc = match c with
    | Comm.KPoll _ -> Comm.PPoll (None, false)
    | Comm.KWrite _ -> Comm.PWrite (true, true)
    | Comm.KClose -> Comm.PClose (true, true)
    | Comm.KRead (Comm.SErr, _) -> Comm.PReadErr
    | Comm.KRead (_, _) -> Comm.PReadOut true
    | Comm.KClock -> s.Comm.pc in
  Comm.set_pc s pc


let serve_call (c : Comm.call) : Comm.result option =
  match !world with
  | None -> None
  | Some w ->
    incr ncalls; incr read_calls;
    l_check_call c;
    (match c with
     | Comm.KPoll _ -> if !read_deadline >= 0 && int_of_n w.CommK.now > !read_deadline then incr polls_after_deadline
     | _ -> ());
    (* a signal handler of the caller interrupts the k-th poll of the scenario (EINTR): the kernel model serves the poll
       with a timeout of at most 3 ms; if nothing is ready by then the call fails with EINTR instead of going on waiting *)
    let interrupt = (match c with
        | Comm.KPoll (_, _, _, ms) ->
          incr polls_seen;
          !intr_poll > 0 && !polls_seen = !intr_poll && (int_of_z ms < 0 || int_of_z ms > 3)
        | _ -> false) in
    let kc = (match c with
        | Comm.KPoll (a, b, d, _) when interrupt -> Comm.KPoll (a, b, d, z_of_int 3)
        | _ -> c) in
    (* ... or the k-th read(2) that has to block (empty pipe, writer still there): EINTR, nothing consumed *)
    let read_blocks = (match c with
        | Comm.KRead (st, _) ->
          let p = (match st with Comm.SErr -> w.CommK.perr | _ -> w.CommK.pout) in
          p.CommK.buf = [] && p.CommK.wr
        | _ -> false) in
    let intr_r = read_blocks && (incr blocking_reads; !intr_read > 0 && !blocking_reads = !intr_read) in
    let ((res0, w'), ch') = if intr_r then ((CommSim.SRes (Comm.RErr (n_of_int 4)), w), !choices) else CommSim.serve fuel w kc !choices in
    world := Some w'; choices := ch';
    let res = (match res0 with
        | CommSim.SRes (Comm.RPoll (cnt, _, _, _)) when interrupt && int_of_n cnt = 0 -> CommSim.SRes (Comm.RErr (n_of_int 4))
        | r -> r) in
    match res with
    | CommSim.SRes r ->
      (* the deadline of this read() is the first clock value it obtains plus the time limit *)
      (match c, r with
       | Comm.KClock, Comm.RNow t when !first_clock ->
         first_clock := false; if !read_tl >= 0 then read_deadline := int_of_n t + !read_tl
       | _ -> ());
      (match c, r with
       | Comm.KPoll _, Comm.RPoll (_, a, _, _) ->
         if !pending_in then incr starved;
         pending_in := (int_of_n a <> 0)
       | Comm.KPoll _, _ -> if !pending_in then incr starved; pending_in := false
       | (Comm.KWrite _ | Comm.KClose), _ -> pending_in := false
       | _ -> ());
      (match r with
       | Comm.RData b ->
         let n = Stdlib.List.length b in
         (match c with
          | Comm.KRead (Comm.SErr, _) -> consumed_err := !consumed_err + n
          | _ -> consumed_out := !consumed_out + n)
       | _ -> ());
      (* L follows the real call when they differ, so that one divergence is reported once *)
      (match !lexpect, c with
       | Some (Comm.Call c'), _ when CommSim.call_eqb c c' -> l_feed r
       | Some (Comm.Ret _), Comm.KClose when !oneshot -> ()
       | _ -> (match !lstate with
           | Some s -> let s' = resync s c in lstate := Some s'; l_feed r
           | None -> ()));
      Some r
    | CommSim.SDeadlock -> verdict := "deadlock"; None
    | CommSim.SFuel -> verdict := "fuel"; None
let reply s = print_string s; print_char '\n'; flush stdout

let reply_result = function
  | Some (Comm.RPoll (cnt, a, b, c)) -> reply (Printf.sprintf "%d %d %d %d" (int_of_n cnt) (int_of_n a) (int_of_n b) (int_of_n c))
  | Some (Comm.RWrote n) -> reply (string_of_int (int_of_n n))
  | Some (Comm.RData b) -> reply ("data " ^ enc_units b)
  | Some Comm.RDone -> reply "ok"
  | Some (Comm.RNow t) -> reply (string_of_int (int_of_n t))
  | Some (Comm.RErr e) -> reply ("err " ^ string_of_int (int_of_n e))
  | None -> reply "deadlock"

(* ---------------- Popen side ---------------- *)
let show_pcall = function
  | PopenSM.PWaitpid nh -> Printf.sprintf "waitpid(%s)" (if nh then "WNOHANG" else "0")
  | PopenSM.PKill s -> Printf.sprintf "kill(%d)" (int_of_n s)
  | PopenSM.PClock -> "clock"
  | PopenSM.PSleep n -> Printf.sprintf "sleep(%dns)" (int_of_n n)

let show_status = function
  | Status.Exited c -> Printf.sprintf "exited:%d" (int_of_n c)
  | Status.Signaled s -> Printf.sprintf "signaled:%d" (int_of_n s)
  | Status.Other r -> Printf.sprintf "other:%d" (int_of_n r)
  | Status.Undetermined -> "undetermined"

let show_value = function
  | PopenSM.VStatus None -> "none"
  | PopenSM.VStatus (Some s) -> show_status s
  | PopenSM.VHasPid b -> if b then "pid" else "nopid"
  | PopenSM.VUnit -> "unit"
  | PopenSM.VErr e -> "err:" ^ string_of_int (int_of_n e)
  | PopenSM.VModel -> "model-error"

let show_paction = function
  | PopenSM.PCall c -> show_pcall c
  | PopenSM.PRet v -> "return(" ^ show_value v ^ ")"
  | PopenSM.PStuck -> "STUCK"

let next_choice () = match !choices with [] -> 0 | x :: r -> choices := r; int_of_nat x

let serve_pcall (c : PopenSM.pcall) : PopenSM.presult option =
  match !pw with
  | None -> None
  | Some w ->
    incr ncalls; incr op_calls;
    (match !lpexpect with
     | Some (PopenSM.PCall c') when PopenSM.pcall_eqb c c' -> ()
     | Some a -> diverge (Printf.sprintf "E1:PopenSM op#%d call#%d: real=%s model=%s" !opidx !op_calls (show_pcall c) (show_paction a))
     | None -> diverge (Printf.sprintf "E1:PopenSM op#%d call#%d: real=%s model=<no call expected>" !opidx !op_calls (show_pcall c)));
    let dur = n_of_int ((next_choice () mod 50) * 1000) in
    let over = n_of_int (let k = next_choice () in if k mod 4 = 0 then (k mod 3000) * 1000 else 0) in
    (* the caller is not scheduled for a long time: the k-th sleep of the scenario overshoots by big_secs seconds *)
    let over = (match c with
        | PopenSM.PSleep _ -> incr sleeps_seen;
          if !big_k > 0 && !sleeps_seen = !big_k then n_of_int (!big_secs * 1000000000) else over
        | _ -> over) in
    let t_before = int_of_n w.PopenSM.pnow in
    let xw0 = { JobCtl.xbase = w; JobCtl.xstopped = !xstopped; JobCtl.xseen = !xseen } in
    let interrupted = (match c with
        | PopenSM.PWaitpid false -> incr blocking_waits; !intr_at > 0 && !blocking_waits = !intr_at
        | _ -> false) in
    match (if interrupted then JobCtl.xinterrupt xw0 dur else JobCtl.xserve xw0 (JobCtl.XBase c) dur over) with
    | JobCtl.XNever -> verdict := "never"; None
    | JobCtl.XRes (xw, r) ->
      let w' = xw.JobCtl.xbase in
      xstopped := xw.JobCtl.xstopped; xseen := xw.JobCtl.xseen;
      pw := Some w';
      Buffer.add_string op_log (Printf.sprintf " %s@%d" (show_pcall c) t_before);
      (match !lpst, !lpexpect with
       | Some s, Some (PopenSM.PCall c') when PopenSM.pcall_eqb c c' ->
         let (s', a) = PopenSM.pstep s r in lpst := Some s'; lpexpect := Some a
       | _ -> lpexpect := None);
      Some r

let reply_presult = function
  | Some (PopenSM.RWaitPid (same, raw)) -> reply (Printf.sprintf "pid %d %d" (if same then 1 else 0) (int_of_n raw))
  | Some PopenSM.RWaitZero -> reply "zero"
  | Some (PopenSM.RErrno e) -> reply ("err " ^ string_of_int (int_of_n e))
  | Some PopenSM.RUnit -> reply "ok"
  | Some (PopenSM.RTime t) -> reply (string_of_int (int_of_n t))
  | None -> reply "never"

let parse_opname (s : string) : PopenSM.op =
  let rest k = String.sub s k (String.length s - k) in
  match s with
  | "poll" -> PopenSM.OpPoll | "wait" -> PopenSM.OpWait | "pid" -> PopenSM.OpPid | "status" -> PopenSM.OpExitStatus
  | "term" -> PopenSM.OpTerminate | "kill" -> PopenSM.OpKill | "detach" -> PopenSM.OpDetach | "drop" -> PopenSM.OpDrop
  | _ when String.length s > 2 && String.sub s 0 2 = "wt" -> PopenSM.OpWaitTimeout (n_of_int (int_of_string (rest 2)))
  | _ when String.length s > 3 && String.sub s 0 3 = "sig" -> PopenSM.OpSignal (n_of_int (int_of_string (rest 3)))
  | _ -> failwith ("bad op " ^ s)

let show_proc = function PopenSM.PAlive -> "alive" | PopenSM.PZombie r -> Printf.sprintf "zombie:%d" (int_of_n r) | PopenSM.PReaped -> "reaped"

(* ---------------- main loop ---------------- *)
let () =
  report := open_out Sys.argv.(1);
  (try
     while true do
       let line = input_line stdin in
       let toks = String.split_on_char ' ' line in
       match toks with
       | ["scn"; id] -> reset (); rp "scn %s\n" id; reply "ok"
       | "comm" :: pi :: po :: pe :: ci :: co :: ce :: more ->
         let b s = s = "1" in
         intr_poll := (match more with k :: _ -> int_of_string k | _ -> 0); polls_seen := 0;
         intr_read := (match more with [_; k] -> int_of_string k | _ -> 0); blocking_reads := 0;
         world := Some (CommK.init_world (b pi) (b po) (b pe) (nat_of_int (int_of_string ci)) (nat_of_int (int_of_string co))
                          (nat_of_int (int_of_string ce)) []);
         lcomm := Some { Comm.c_in = b pi; Comm.c_out = b po; Comm.c_err = b pe; Comm.c_input = [] };
         consumed_out := 0; consumed_err := 0;
         reply "ok"
       | ["input"; u] ->
         (match !lcomm with
          | Some c -> lcomm := Some { c with Comm.c_input = dec_bytes u }
          | None -> ());
         reply "ok"
       | ["prog"; p] ->
         let ops = if p = "-" then [] else Stdlib.List.map parse_op (String.split_on_char ';' p) in
         (match !world with Some w -> world := Some (CommK.set_prog w ops) | None -> ());
         reply "ok"
       | ["choices"; c] ->
         choices := if c = "-" then [] else Stdlib.List.map (fun x -> nat_of_int (int_of_string x)) (String.split_on_char ',' c);
         reply "ok"
       | "popen" :: ex :: raw :: reap :: dies :: more ->
         xstopped := None; xseen := false; blocking_waits := 0;
         intr_at := (match more with k :: _ -> int_of_string k | _ -> 0);
         sleeps_seen := 0;
         (match more with [_; bk; bs] -> big_k := int_of_string bk; big_secs := int_of_string bs | _ -> big_k := 0; big_secs := 0);
         pw := Some { PopenSM.pr = PopenSM.PAlive;
                      PopenSM.exit_at = (if ex = "never" then None else Some (n_of_int (int_of_string ex), n_of_int (int_of_string raw)));
                      PopenSM.reap_at = (if reap = "never" then None else Some (n_of_int (int_of_string reap)));
                      PopenSM.dies_on_signal = (dies = "1"); PopenSM.pnow = n_of_int 0; PopenSM.kills = [] };
         lp := { PopenSM.cstate = PopenSM.Running; PopenSM.detached = false };
         reply "ok"
       (* ---- communicate run-time ---- *)
       | ["oneshot"] -> oneshot := true; reply "ok"
       | ["start"; lim; tl] ->
         incr readidx; read_calls := 0; polls_after_deadline := 0; pending_in := false; starved := 0;
         read_t0 := now_of_world ();
         read_deadline := -1; first_clock := true;
         read_tl := (if tl = "-" then -1 else int_of_string tl);
         let lim' = if lim = "-" then None else Some (n_of_int (int_of_string lim)) in
         let tl' = if tl = "-" then None else Some (n_of_int (int_of_string tl)) in
         (match !lcomm with
          | Some c -> let (s, a) = Comm.start c lim' tl' in lstate := Some s; lexpect := Some a
          | None -> ());
         consumed_out := 0; consumed_err := 0;
         reply "ok"
       | ["clock"] -> reply_result (serve_call Comm.KClock)
       | ["poll"; a; b; c; ms] -> reply_result (serve_call (Comm.KPoll (a = "1", b = "1", c = "1", z_of_int (int_of_string ms))))
       | ["write"; u] -> reply_result (serve_call (Comm.KWrite (dec_units u)))
       | ["close"] -> reply_result (serve_call Comm.KClose)
       | ["read"; s; n] -> reply_result (serve_call (Comm.KRead (stream_of s, n_of_int (int_of_string n))))
       | ["ret"; kind; o; e] ->
         let t1 = now_of_world () in
         let (mkind, mo, me) = match !lexpect, !lstate with
           | Some (Comm.Ret er), Some s -> let (a, b) = Comm.output s in (show_err er, enc_opt a, enc_opt b)
           | Some a, _ -> (show_action a, "?", "?")
           | None, _ -> ("?", "?", "?") in
         if mkind <> kind || (o <> "?" && (mo <> o || me <> e)) then
           diverge (Printf.sprintf "E1:Comm read#%d return: real=%s/%d/%d model=%s/%d/%d" !readidx kind
                      (String.length o) (String.length e) mkind (String.length mo) (String.length me));
         (* the communicator persists: carry L's persistent part to the next read *)
         (match !lstate with Some s -> lcomm := Some s.Comm.cm | None -> ());
         (* if the real code diverged on what is left of the input we cannot know it; keep L's view *)
         let w = match !world with Some w -> w | None -> failwith "no world" in
         rp "read %d kind=%s out=%s err=%s t0=%d t1=%d deadline=%d calls=%d polls_after_deadline=%d consumed_out=%d consumed_err=%d pin_buf=%d pout_buf=%d perr_buf=%d pout_wr=%b perr_wr=%b pin_wr=%b written=%d starved=%d\n"
           !readidx kind o e !read_t0 t1 !read_deadline !read_calls !polls_after_deadline !consumed_out !consumed_err
           (Stdlib.List.length w.CommK.pin.CommK.buf) (Stdlib.List.length w.CommK.pout.CommK.buf)
           (Stdlib.List.length w.CommK.perr.CommK.buf) w.CommK.pout.CommK.wr w.CommK.perr.CommK.wr w.CommK.pin.CommK.wr
           (Stdlib.List.length w.CommK.child_got + Stdlib.List.length w.CommK.pin.CommK.buf)
           (if !pending_in && (kind = "ok" || kind = "timedout") then !starved + 1 else !starved);
         lstate := None; lexpect := None;
         reply "ok"
       | ["retstr"; kind] ->
         (* text-returning variant: hand the model's byte result back so that the driver can compare
            the real Strings with its lossy decoding *)
         let t1 = now_of_world () in
         let (mkind, mo, me) = match !lexpect, !lstate with
           | Some (Comm.Ret er), Some s -> let (a, b) = Comm.output s in (show_err er, enc_opt a, enc_opt b)
           | Some a, _ -> (show_action a, "none", "none")
           | None, _ -> ("?", "none", "none") in
         if mkind <> kind then diverge (Printf.sprintf "E1:Comm read#%d return: real=%s model=%s" !readidx kind mkind);
         (match !lstate with Some s -> lcomm := Some s.Comm.cm | None -> ());
         let w = match !world with Some w -> w | None -> failwith "no world" in
         rp "read %d kind=%s out=%s err=%s t0=%d t1=%d deadline=%d calls=%d polls_after_deadline=%d consumed_out=%d consumed_err=%d pin_buf=%d pout_buf=%d perr_buf=%d pout_wr=%b perr_wr=%b pin_wr=%b written=%d starved=%d\n"
           !readidx kind mo me !read_t0 t1 !read_deadline !read_calls !polls_after_deadline !consumed_out !consumed_err
           (Stdlib.List.length w.CommK.pin.CommK.buf) (Stdlib.List.length w.CommK.pout.CommK.buf)
           (Stdlib.List.length w.CommK.perr.CommK.buf) w.CommK.pout.CommK.wr w.CommK.perr.CommK.wr w.CommK.pin.CommK.wr
           (Stdlib.List.length w.CommK.child_got + Stdlib.List.length w.CommK.pin.CommK.buf)
           (if !pending_in && (kind = "ok" || kind = "timedout") then !starved + 1 else !starved);
         lstate := None; lexpect := None;
         reply (mo ^ " " ^ me)
       (* ---- Popen run-time ---- *)
       | ["op"; name] ->
         incr opidx; op_calls := 0; Buffer.clear op_log;
         (match !pw with Some w -> op_t0 := int_of_n w.PopenSM.pnow | None -> ());
         let (s, a) = PopenSM.start_op !lp (parse_opname name) in
         lpst := Some s; lpexpect := Some a;
         reply "ok"
       | ["waitpid"; nh; other] ->
         (* L (Lib/PopenSM.v) issues waitpid with WNOHANG or no option only: any other bit is a call L never makes
            and breaks the tie; the job-control kernel (Kernel/JobCtl.v, extracted) says what it observes *)
         let o = int_of_string other in
         if o = 0 then reply_presult (serve_pcall (PopenSM.PWaitpid (nh = "1")))
         else begin
           diverge (Printf.sprintf "E1:PopenSM op#%d: real=waitpid(options %s| 0x%x) model=waitpid(WNOHANG or 0 only)" !opidx (if nh = "1" then "WNOHANG " else "") o);
           match !pw with
           | None -> reply "?"
           | Some w ->
             incr ncalls; incr op_calls;
             let dur = n_of_int ((next_choice () mod 50) * 1000) in
             let over = n_of_int 0 in
             (match JobCtl.xserve { JobCtl.xbase = w; JobCtl.xstopped = !xstopped; JobCtl.xseen = !xseen } (JobCtl.XWaitOpts (nh = "1", n_of_int o)) dur over with
              | JobCtl.XNever -> verdict := "never"; reply_presult None
              | JobCtl.XRes (xw, r) ->
                pw := Some xw.JobCtl.xbase; xstopped := xw.JobCtl.xstopped; xseen := xw.JobCtl.xseen;
                Buffer.add_string op_log (Printf.sprintf " waitpid(0x%x)@%d" o (int_of_n w.PopenSM.pnow));
                lpexpect := None;
                reply_presult (Some r))
         end
       | ["kill"; sg] -> reply_presult (serve_pcall (PopenSM.PKill (n_of_int (int_of_string sg))))
       | ["fkill"; pid; sg] ->
         diverge (Printf.sprintf "E1:PopenSM op#%d: real=kill(pid %s, sig %s) aimed at a foreign pid" !opidx pid sg);
         Buffer.add_string op_log (Printf.sprintf " FOREIGNKILL(%s,%s)" pid sg);
         reply "ok"
       | ["pclock"] -> reply_presult (serve_pcall PopenSM.PClock)
       | ["sleep"; ns] -> reply_presult (serve_pcall (PopenSM.PSleep (n_of_int (int_of_string ns))))
       | ["opret"; name; v] ->
         let mv = match !lpexpect with Some (PopenSM.PRet v) -> show_value v | Some a -> show_paction a | None -> "?" in
         if mv <> v then diverge (Printf.sprintf "E1:PopenSM op#%d %s return: real=%s model=%s" !opidx name v mv);
         (match !lpst with Some s -> lp := s.PopenSM.po | None -> ());
         let w = match !pw with Some w -> w | None -> failwith "no pworld" in
         rp "op %d name=%s value=%s t0=%d t1=%d calls=%d proc=%s log=%s\n" !opidx name v !op_t0 (int_of_n w.PopenSM.pnow)
           !op_calls (show_proc w.PopenSM.pr) (Buffer.contents op_log);
         lpst := None; lpexpect := None;
         reply "ok"
       | ["end"] ->
         (match !world with
          | Some w ->
            rp "world wrote_out=%s wrote_err=%s child_got=%s child_eof=%b input_left=%d alive=%b prog_left=%d now=%d eof_at=%s last_write_at=%s closed_at=%s pin_wr=%b\n"
              (enc_units w.CommK.wrote_out) (enc_units w.CommK.wrote_err) (enc_units w.CommK.child_got) w.CommK.child_eof
              (match !lcomm with Some c -> Stdlib.List.length c.Comm.c_input | None -> -1) w.CommK.alive
              (Stdlib.List.length w.CommK.prog) (int_of_n w.CommK.now)
              (match w.CommK.eof_at with Some t -> string_of_int (int_of_n t) | None -> "-")
              (match w.CommK.last_write_at with Some t -> string_of_int (int_of_n t) | None -> "-")
              (match w.CommK.closed_at with Some t -> string_of_int (int_of_n t) | None -> "-")
              w.CommK.pin.CommK.wr
          | None -> ());
         (match !pw with
          | Some w ->
            rp "pworld proc=%s now=%d kills=%s\n" (show_proc w.PopenSM.pr) (int_of_n w.PopenSM.pnow)
              (String.concat "," (Stdlib.List.map (fun ((s, t), r) -> Printf.sprintf "%d@%d%s" (int_of_n s) (int_of_n t) (if r then "!" else "")) w.PopenSM.kills))
          | None -> ());
         rp "verdict %s calls=%d divergences=%d\n" !verdict !ncalls !ndiv;
         if !firstdiv <> "" then rp "div %s\n" !firstdiv;
         rp "endscn\n"; flush !report;
         reply "ok"
       | _ -> reply "?"
     done
   with End_of_file -> ());
  close_out !report
