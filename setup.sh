#!/bin/sh
# MANIFEST.setup_cmd: build the framework from files on disk only (offline).
set -e
cd "$(dirname "$0")"
export CARGO_NET_OFFLINE=true
python3 tools/params.py
( cd coq && coq_makefile -f _CoqProject -o Makefile && timeout 3000 make -j16 )
( cd harness && CARGO_TARGET_DIR=../.build/cargo RUSTFLAGS="--cfg subprocess_verif" timeout 1500 cargo build --offline --bins )
if [ -f ocaml/build.sh ]; then sh ocaml/build.sh; fi
echo setup done
