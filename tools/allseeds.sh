#!/bin/sh
# usage: allseeds.sh [out] : apply every seeded change in turn, run the quick check of its property, undo; one line per seed
OUT=${1:-/verif/.build/allseeds.txt}
: > $OUT
for d in /verif/seeded/*/; do
  n=$(basename $d); p=$(echo $n | cut -c1-3)
  cd /repo && git apply $d/patch.diff 2>/dev/null || { echo "$n APPLY-FAILED" >> $OUT; git checkout -- . ; continue; }
  cd /verif && timeout 1500 ./check $p > /verif/.build/seed_run.out 2>&1; rc=$?
  cd /repo && git checkout -- .
  nv=$(grep -c "violation:" /verif/.build/seed_run.out)
  tie=$(grep -c "TIE BROKEN\|PROOF OBL" /verif/.build/seed_run.out)
  nofail=$(grep -c "no-failing-input-found" /verif/.build/seed_run.out)
  echo "$n rc=$rc violations=$nv tie=$tie nofailinginput=$nofail" >> $OUT
done
cd /verif && python3 tools/params.py >/dev/null
echo done >> $OUT
