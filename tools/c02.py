import e1props


def run(chk, tier):
    e1props.run(chk, tier, "C02")


def replay(chk, path):
    e1props.replay(chk, path, "C02")
