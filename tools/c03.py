import e1props


def run(chk, tier):
    e1props.run(chk, tier, "C03")


def replay(chk, path):
    e1props.replay(chk, path, "C03")
