import spawnprops


def run(chk, tier):
    spawnprops.run(chk, tier, "C05")


def replay(chk, path):
    spawnprops.replay(chk, path, "C05")
