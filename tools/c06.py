import execprops


def run(chk, tier):
    execprops.run(chk, tier, "C06")


def replay(chk, path):
    execprops.replay(chk, path, "C06")
