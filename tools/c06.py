import execprops


def run(chk, tier):
    execprops.run(chk, tier, "C06")
    # the environment clause where the list reaches the launch through the builder (env_extend / env with duplicates)
    import c16
    c16.c06_builder(chk, tier)


def replay(chk, path):
    lines = [l.rstrip("\n") for l in open(path, encoding="utf-8") if l.strip() and not l.startswith("#")]
    if lines and lines[0].strip() == "builder":
        import c16
        import common as C
        chk.obligations(C.props_check("C06", execprops.DEPS["C06"] if isinstance(getattr(execprops, "DEPS", None), dict) else c16.DEPS))
        C.build_harness()
        c16.c06_builder(chk, "quick", explicit=[c16.prog_from_json(lines[1])])
        return
    execprops.replay(chk, path, "C06")
