import spawnprops


def run(chk, tier):
    spawnprops.run(chk, tier, "C07")
    # the same clause where the process that cannot be created is a command of a pipeline
    import pipeprops
    pipeprops.c07_pipelines(chk, tier)
    # ... and with the failure causes the operating system really produces
    spawnprops.c07_real_causes(chk, tier)


def replay(chk, path):
    lines = [l.rstrip("\n") for l in open(path, encoding="utf-8") if l.strip() and not l.startswith("#")]
    if lines and lines[0].strip() == "pipeline":
        import pipeprops
        import common as C
        chk.obligations(C.props_check("C07", spawnprops.DEPS))
        C.build_harness()
        pipeprops.c07_pipelines(chk, "quick", explicit=[pipeprops.tpl_from_json(lines[1])])
        return
    if lines and lines[0].strip() == "oscause":
        import json
        import common as C
        chk.obligations(C.props_check("C07", spawnprops.DEPS))
        C.build_harness()
        spawnprops.c07_real_causes(chk, "quick", explicit=[json.loads(lines[1])])
        return
    spawnprops.replay(chk, path, "C07")
