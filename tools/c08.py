import spawnprops


def run(chk, tier):
    spawnprops.run(chk, tier, "C08")
    import pipeprops
    pipeprops.c08_pipelines(chk, tier)
    pipeprops.c08_threads(chk, tier)


def replay(chk, path):
    lines = [l.rstrip("\n") for l in open(path, encoding="utf-8") if l.strip() and not l.startswith("#")]
    if lines and lines[0].startswith("threads "):
        import pipeprops
        import common as C
        chk.obligations(C.props_check("C08", spawnprops.DEPS))
        C.build_harness()
        pipeprops.c08_threads(chk, "quick")
        return
    if lines and lines[0].startswith("{"):
        import pipeprops
        import common as C
        chk.obligations(C.props_check("C08", spawnprops.DEPS))
        C.build_harness()
        pipeprops.c08_replay(chk, lines[0])
        return
    spawnprops.replay(chk, path, "C08")
