import spawnprops


def run(chk, tier):
    spawnprops.run(chk, tier, "C08")


def replay(chk, path):
    spawnprops.replay(chk, path, "C08")
