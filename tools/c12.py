import pipeprops


def run(chk, tier):
    pipeprops.run(chk, tier, "C12")


def replay(chk, path):
    pipeprops.replay(chk, path, "C12")
