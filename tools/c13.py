import pipeprops


def run(chk, tier):
    pipeprops.run(chk, tier, "C13")


def replay(chk, path):
    pipeprops.replay(chk, path, "C13")
