import pipeprops


def run(chk, tier):
    pipeprops.run(chk, tier, "C14")
    # ... and where the command cannot be started because a descriptor cannot be allocated
    pipeprops.c14_fd_exhaustion(chk, tier)


def replay(chk, path):
    lines = [l.rstrip("\n") for l in open(path, encoding="utf-8") if l.strip() and not l.startswith("#")]
    if lines and lines[0].strip() == "fdexhaust":
        import common as C
        chk.obligations(C.props_check("C14", pipeprops.DEPS["C14"]))
        C.build_harness()
        pipeprops.c14_fd_exhaustion(chk, "quick", explicit=[pipeprops.tpl_from_json(lines[1])])
        return
    pipeprops.replay(chk, path, "C14")
