import pipeprops


def run(chk, tier):
    pipeprops.run(chk, tier, "C14")


def replay(chk, path):
    pipeprops.replay(chk, path, "C14")
