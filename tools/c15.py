import execprops


def run(chk, tier):
    execprops.run(chk, tier, "C15")


def replay(chk, path):
    execprops.replay(chk, path, "C15")
