"""C16 -- Exec builder calls compose.  Engine E2: generated builder programs (a constructor, calls on up to two
handles with clone/swap, one terminator per handle) run on the real Exec under catch_unwind; the terminators launch
the self-reporting stub under the logging interposers.  The model's prediction (Lib/Builder.v `program`, through the
extracted model, cross-checked by vm_compute) is compared with: panic or not and where, the logged execve argv/envp,
the chdir argument, the child's descriptor kinds, the Popen fields, delivery of input data and captured output."""
import json
import os
import re

import common as C
import e2
import execprops as X

TERMS = ["popen", "join", "stream_stdout", "stream_stderr", "stream_stdin", "communicate", "capture"]
NAMES = [b"A", b"B", b"AB", b"PATH", b"HOME", b"x y", b"\xff", b"K"]
VALS = [b"", b"1", b"2", b"v v", b"a=b", b"\xc3\xa9\xff", b"'q\"", b"longer value 123"]


def fnv(data):
    h = 0x811c9dc5
    for c in data:
        h = ((h ^ c) * 0x01000193) & 0xffffffff
    return h


def gen_prog(r, sid, tier):
    ops = []
    n = r.choice([0, 1, 2, 3, 5, 8, 12])
    shell = r.chance(1, 8)
    cloned = False
    for i in range(n):
        k = r.choice(["arg", "arg", "args", "env", "env", "env_extend", "env_remove", "env_remove", "env_clear", "cwd",
                      "stdin", "stdout", "stderr", "detached", "clone", "swap", "stdout", "stdin"])
        if k == "arg":
            ops.append(("arg", X.gen_arg(r)))
        elif k == "args":
            ops.append(("args", [X.gen_arg(r) for _ in range(r.below(4))]))
        elif k == "env":
            ops.append(("env", r.choice(NAMES), r.choice(VALS)))
        elif k == "env_extend":
            ops.append(("env_extend", [(r.choice(NAMES), r.choice(VALS)) for _ in range(r.below(4))]))
        elif k == "env_remove":
            ops.append(("env_remove", r.choice(NAMES + [b"LANG", b"CARGO_NET_OFFLINE"])))
        elif k == "env_clear":
            ops.append(("env_clear",))
        elif k == "cwd":
            ops.append(("cwd", r.choice([b"/", b"$WD", b"$WD/sub", b"sub"])))
        elif k == "stdin":
            v = r.choice(["pipe", "pipe", "none", "null", "file", "data", "data", "merge"])
            ops.append(("stdin", v, X.rand_bytes(r, r.choice([0, 1, 5, 300, 70000]), 0, 255)) if v == "data" else ("stdin", v))
        elif k in ("stdout", "stderr"):
            ops.append((k, r.choice(["pipe", "pipe", "none", "null", "file", "merge"])))
        elif k == "detached":
            ops.append(("detached",))
        elif k == "clone":
            ops.append(("clone",))
            cloned = True
        elif k == "swap":
            ops.append(("swap",))
    if r.chance(1, 3):
        # an edit log concentrated on two or three names (one of them inherited): set twice then remove, remove then
        # set again, clear in the middle
        names = [r.choice([b"A", b"B"]), r.choice([b"LANG", b"HOME", b"PATH"]), b"AB"]
        for _ in range(3 + r.below(8)):
            k = r.choice(["env", "env", "env", "env_remove", "env_remove", "env_extend", "env_clear"]) if r.chance(9, 10) else "env_clear"
            if k == "env":
                e = ("env", r.choice(names), r.choice(VALS))
            elif k == "env_remove":
                e = ("env_remove", r.choice(names))
            elif k == "env_extend":
                e = ("env_extend", [(r.choice(names), r.choice(VALS)) for _ in range(1 + r.below(3))])
            else:
                e = ("env_clear",)
            ops.insert(r.below(len(ops) + 1), e)
    if r.chance(1, 4):
        # toggling: one or two names set back and forth between two values (and back to the inherited one), so that a
        # pair (name, value) given now is often one that was given -- and overridden -- before
        import os as _os
        inh = [(k, v) for k, v in _os.environb.items() if k in (b"HOME", b"LANG", b"USER", b"SHELL") and v]
        names = [b"A", r.choice([b"B", b"A"])]
        vals = [b"1", b"2"]
        tog = []
        for _ in range(3 + r.below(6)):
            if inh and r.chance(1, 4):
                k, v = r.choice(inh)
                tog.append(("env", k, r.choice([v, b"tmp", v])))
            elif r.chance(1, 6):
                tog.append(("env_extend", [(r.choice(names), r.choice(vals)) for _ in range(1 + r.below(2))]))
            else:
                tog.append(("env", r.choice(names), r.choice(vals)))
        pos = r.below(len(ops) + 1)
        ops[pos:pos] = tog
    if r.chance(1, 5):
        # cwd() called more than once, a relative directory after an earlier setting (possibly with a clone in
        # between): plain edits, the last one wins and is not resolved against the earlier one
        pos = r.below(len(ops) + 1)
        ops.insert(pos, ("cwd", r.choice([b"$WD/sub", b"sub", b"/", b"$WD"])))
        pos2 = pos + 1 + r.below(len(ops) - pos)
        ops.insert(pos2, ("cwd", r.choice([b"sub", b"sub", b".", b"$WD/sub"])))
        if r.chance(1, 3):
            ops.insert(pos + 1 + r.below(pos2 - pos), ("clone",))
    t_force = None
    if r.chance(1, 6):
        # detached() before clone(): the clone is as detached as the original (observable on the Popen of popen())
        pos = r.below(len(ops) + 1)
        ops.insert(pos, ("detached",))
        ops.insert(pos + 1 + r.below(len(ops) - pos), ("clone",))
        t_force = "popen"
    if r.chance(1, 4):
        # input data on a handle that is then cloned: both handles must carry it
        pos = r.below(len(ops) + 1)
        ops.insert(pos, ("stdin", "data", X.rand_bytes(r, r.choice([1, 7, 300]), 0, 255)))
        ops.insert(pos + 1 + r.below(len(ops) - pos), ("clone",))
    return {"id": sid, "shell": X.gen_arg(r) if shell else None, "ops": ops, "t1": t_force or r.choice(TERMS), "t2": t_force or r.choice(TERMS)}


def prog_to_json(p):
    def enc(v):
        if isinstance(v, bytes):
            return {"b": v.hex()}
        if isinstance(v, (list, tuple)):
            return [enc(x) for x in v]
        return v
    return json.dumps({"id": p["id"], "shell": enc(p["shell"]), "ops": enc(p["ops"]), "t1": p["t1"], "t2": p["t2"]}, sort_keys=True)


def prog_from_json(text):
    def dec(v):
        if isinstance(v, dict) and "b" in v:
            return bytes.fromhex(v["b"])
        if isinstance(v, list):
            return [dec(x) for x in v]
        return v
    d = json.loads(text)
    ops = []
    for o in dec(d["ops"]):
        o = list(o)
        if o[0] in ("args",):
            o[1] = list(o[1])
        if o[0] == "env_extend":
            o[1] = [tuple(kv) for kv in o[1]]
        ops.append(tuple(o))
    return {"id": d["id"], "shell": dec(d["shell"]), "ops": ops, "t1": d["t1"], "t2": d["t2"]}


def describe(p):
    return "%s start=%s ops=[%s] terminators=%s/%s" % (p["id"], "shell" if p["shell"] is not None else "cmd",
                                                        " ".join(o[0] + (":" + o[1] if o[0] in ("stdin", "stdout", "stderr") else "") for o in p["ops"]), p["t1"], p["t2"])


def scenario_of(p):
    s = {"id": p["id"], "prog": p, "mkdirs": ["sub"], "timeout": 60}

    def specfn(wd):
        wdb = os.fsencode(wd)
        res = lambda b: b.replace(b"$WD", wdb)
        spec = ["kind exec"]
        if p["shell"] is not None:
            spec.append("start shell " + e2.hexs(p["shell"]))
            spec.append("path " + e2.hexs(b"/nonexistent-c16"))      # the shell is not found: nothing runs, the exec is logged
        else:
            spec.append("start cmd STUB")
            spec.append("path " + e2.hexs(b"/usr/bin:/bin"))
        rops = []
        for o in p["ops"]:
            k = o[0]
            if k == "arg":
                spec.append("op arg " + e2.hexs(o[1]))
            elif k == "args":
                spec.append("op args " + (",".join(e2.hexs(a) for a in o[1]) if o[1] else "none"))
            elif k == "env":
                spec.append("op env %s %s" % (e2.hexs(o[1]), e2.hexs(o[2])))
            elif k == "env_extend":
                spec.append("op env_extend " + (",".join("%s=%s" % (e2.hexs(a), e2.hexs(b)) for a, b in o[1]) if o[1] else "none"))
            elif k == "env_remove":
                spec.append("op env_remove " + e2.hexs(o[1]))
            elif k == "cwd":
                o = ("cwd", res(o[1]))
                spec.append("op cwd " + e2.hexs(o[1]))
            elif k == "stdin" and o[1] == "data":
                spec.append("op stdin data:" + e2.hexs(o[2]))
            elif k in ("stdin", "stdout", "stderr"):
                spec.append("op %s %s" % (k, o[1]))
            elif k in ("setuid", "setgid"):
                spec.append("op %s %d" % (k, o[1]))
            else:
                spec.append("op " + k)
            rops.append(o)
        s["rops"] = rops
        spec.append("term " + p["t1"])
        spec.append("term2 " + p["t2"])
        spec.append("show_environ 1")
        # a child may wait for end-of-file on stdin only under terminators that close it
        closing = ("popen", "stream_stdin", "capture", "communicate")
        for j, t in ((1, p["t1"]), (2, p["t2"])):
            spec.append("stubcfg%d %swrite 1 3;write 2 2;exit 0" % (j, "readeof;" if t in closing else ""))
        return spec
    s["specfn"] = specfn
    return s


def model_line(s, base):
    p = s["prog"]
    eu = X.eu

    def redir(v, i):
        return {"pipe": "P", "none": "N", "merge": "M"}.get(v) or "F%d" % i
    ops = []
    for i, o in enumerate(s["rops"]):
        k = o[0]
        if k == "arg":
            ops.append("arg:" + eu(o[1]))
        elif k == "args":
            ops.append("args:" + (",".join(eu(a) for a in o[1]) if o[1] else "none"))
        elif k == "env":
            ops.append("env:%s=%s" % (eu(o[1]), eu(o[2])))
        elif k == "env_extend":
            ops.append("ext:" + (",".join("%s=%s" % (eu(a), eu(b)) for a, b in o[1]) if o[1] else "none"))
        elif k == "env_remove":
            ops.append("rm:" + eu(o[1]))
        elif k == "env_clear":
            ops.append("clear")
        elif k == "cwd":
            ops.append("cwd:" + eu(o[1]))
        elif k == "stdin":
            ops.append("in:" + ("D" + eu(o[2]) if o[1] == "data" else redir(o[1], i)))
        elif k == "stdout":
            ops.append("out:" + redir(o[1], i))
        elif k == "stderr":
            ops.append("err:" + redir(o[1], i))
        elif k == "detached":
            ops.append("det")
        elif k in ("setuid", "setgid"):
            continue                    # (the identity options are not part of Lib/Builder.v; C06 judges them on the child's report)
        else:
            ops.append(k)
    start = ("shell:" + eu(p["shell"])) if p["shell"] is not None else ("cmd:" + eu(X.STUB))
    basel = ",".join("%s=%s" % (eu(k), eu(v)) for k, v in base) if base else "none"
    return "c16 %s %s %s %s %s" % (basel, start, ";".join(ops) if ops else "none", p["t1"], p["t2"])


def parse_launch(txt):
    txt = txt.strip()
    if txt == "PANIC":
        return "PANIC"
    if txt == "-":
        return None
    d = dict(kv.split("=", 1) for kv in txt.split(" "))
    strs = lambda a: [] if a == "none" else [bytes(C.dec_units(w)) for w in a.split(",")]
    return {"argv": strs(d["argv"]), "envp": None if d["envp"] == "inherit" else strs(d["envp"]),
            "cwd": None if d["cwd"] == "none" else bytes(C.dec_units(d["cwd"])), "in": d["in"], "out": d["out"], "err": d["err"],
            "det": d["det"] == "1", "after": d["after"] == "1", "data": None if d["data"] == "none" else bytes(C.dec_units(d["data"]))}


def parent_base(s):
    base = []
    for ln in s["out"]:
        if ln.startswith("environ "):
            for x in ln[8:].split(","):
                e = e2.unhex(x)
                pos = e.find(b"=", 1)
                if pos > 0:
                    base.append((e[:pos], e[pos + 1:]))
    return base


def children_by_mark(s):
    """{'term1': child pid | None, 'term2': ...} from the parent's log"""
    res, cur = {}, None
    for ln in s["logs"].get(s["parent_pid"], []):
        if ln.startswith("mark "):
            cur = ln.split()[1]
            res[cur] = None
        elif ln.startswith("fork = ") and cur:
            pid = int(ln.split("=")[1])
            if pid > 0 and res.get(cur) is None:
                res[cur] = pid
    return res


def judge(chk, s, mline):
    """compare the model's prediction with what happened; returns list of disagreement strings"""
    p = s["prog"]
    bad = []
    out = "\n".join(s["out"])
    real_panic = re.search(r"panic_at (\d+)", out)
    if mline.startswith("panic_at"):
        if not real_panic:
            bad.append("model: builder call #%s panics; implementation did not panic there" % mline.split()[1])
        elif real_panic.group(1) != mline.split()[1]:
            bad.append("model: builder call #%s panics; implementation panicked at #%s" % (mline.split()[1], real_panic.group(1)))
        return bad
    if real_panic:
        bad.append("implementation panicked at builder call #%s (%s); the model accepts the sequence" % (real_panic.group(1), p["ops"][int(real_panic.group(1))][0]))
        return bad
    l1, l2 = [parse_launch(x) for x in mline.split(" | ")]
    kids = children_by_mark(s)
    before = {}
    for ln in s["out"]:
        if ln.startswith("fds_before "):
            before = e2.parse_fdtable(ln)
    for tag, L, term in (("term1", l1, p["t1"]), ("term2", l2, p["t2"])):
        m = re.search(r"%s (ok|err|panic)(.*)" % tag, out)
        if L is None:
            if m:
                bad.append("%s ran although no second handle exists in the model" % tag)
            continue
        if not m:
            bad.append("%s: no outcome reported" % tag)
            continue
        st, det = m.group(1), m.group(2).strip()
        if L == "PANIC":
            if st != "panic":
                bad.append("%s (%s): the model refuses loudly (panic), the implementation %s %s" % (tag, term, st, det[:80]))
            continue
        if L["after"] and p["shell"] is not None:
            # the shell is not on PATH in these scenarios: the launch fails before the point of the panic
            if not (st == "err" and det.startswith("io:2")):
                bad.append("%s (%s): expected ENOENT for the missing shell, got %s %s" % (tag, term, st, det[:40]))
                continue
        elif L["after"]:
            # the process is started, then the terminator panics (piped stdin without input data)
            if st != "panic":
                bad.append("%s (%s): the model says started-then-panic, the implementation %s" % (tag, term, st))
                continue
        elif st == "panic":
            bad.append("%s (%s): the implementation panicked, the model launches %s" % (tag, term, L["argv"][:2]))
            continue
        invalid = L["in"] == "M" or (L["out"] == "M" and L["err"] == "M")
        pid = kids.get(tag)
        if invalid:
            if not (st == "err" and det.startswith("logic")):
                bad.append("%s: invalid Merge combination was %s %s" % (tag, st, det[:60]))
            continue
        if pid is None:
            bad.append("%s (%s): nothing was forked (%s %s)" % (tag, term, st, det[:60]))
            continue
        clog = s["logs"].get(pid, [])
        execs = [ln for ln in clog if ln.startswith("exec ")]
        if not execs:
            bad.append("%s: the child never reached exec" % tag)
            continue
        e = execs[0].split(" ")
        argv = [e2.unhex(a) for a in e[2][5:].split(",")]
        envs = e[3][4:]
        envp = None if envs == "inherit" else ([] if envs == "empty" else [e2.unhex(a) for a in envs.split(",")])
        if argv != L["argv"]:
            bad.append("%s (%s): argv at exec differs from the model: %s" % (tag, term, X.first_diff(argv, L["argv"])))
        if envp != L["envp"]:
            if envp is None or L["envp"] is None:
                bad.append("%s: environment %s, model %s" % (tag, "inherited" if envp is None else "explicit", "inherit" if L["envp"] is None else "explicit"))
            elif sorted(envp) == sorted(L["envp"]):
                bad.append("TIE-ONLY %s (%s): the environment block has the model's entries in a different order" % (tag, term))
            else:
                bad.append("%s (%s): environment block at exec differs from the model: %s" % (tag, term, X.first_diff(sorted(envp), sorted(L["envp"]))))
        ch = [ln for ln in clog if ln.startswith("chdir ")]
        cwd = e2.unhex(ch[0].split(" ")[1]) if ch else None
        if cwd != L["cwd"]:
            bad.append("%s: chdir %r, model %r" % (tag, cwd, L["cwd"]))
        if p["shell"] is not None:
            if not (st == "err" and det.startswith("io:2")):
                bad.append("%s: the shell is not on PATH, expected ENOENT, got %s %s" % (tag, st, det[:40]))
            continue
        if L["after"]:
            continue
        if st != "ok":
            bad.append("%s (%s): launch failed: %s" % (tag, term, det[:80]))
            continue
        rep = e2.parse_report(s["reps"][pid]) if pid in s["reps"] else None
        if rep is None:
            bad.append("%s: the stub did not report" % tag)
            continue
        # descriptor kinds
        for i, key in enumerate(("in", "out", "err")):
            want = L[key]
            got = rep["fds"].get(i)
            if got is None:
                bad.append("%s: child has no descriptor %d" % (tag, i))
                continue
            par = before.get(i, (None,))[0]
            if want == "N":
                ok = got["target"] == par
            elif want == "P":
                ok = got["target"].startswith("pipe:") and got["target"] != par
            elif want == "M":
                o = rep["fds"].get(1 if i == 2 else 2)
                ok = o is not None and (o["target"], o["ino"]) == (got["target"], got["ino"])
            else:
                k = int(want[1:])
                opk = s["rops"][k]
                ok = got["target"] == "/dev/null" if opk[1] == "null" else got["target"].endswith("/f%d.txt" % k)
            if not ok:
                bad.append("%s (%s): child's descriptor %d is %s, the model says %s" % (tag, term, i, got["target"], want))
        kv = dict(x.split("=", 1) for x in det.split() if "=" in x)
        if term == "popen":
            for key, f in (("in", "stdin"), ("out", "stdout"), ("err", "stderr")):
                if (kv.get(f) == "1") != (L[key] == "P"):
                    bad.append("%s: Popen.%s is %s, model stream %s" % (tag, f, kv.get(f), L[key]))
            if (kv.get("detached") == "1") != L["det"]:
                bad.append("%s: Popen detached=%s, model %s" % (tag, kv.get("detached"), L["det"]))
        eof = rep.get("stdin_eof")
        if L["in"] == "P":
            want = L["data"] if L["data"] is not None else (b"streamed-in" if term == "stream_stdin" else b"")
            if term not in ("popen", "stream_stdin", "capture", "communicate"):
                pass
            elif eof is None and L["det"]:
                pass      # nobody waits for a detached child: it may not have finished reading when the scenario ends
            elif eof is None:
                bad.append("%s: the child never saw end-of-file on its piped stdin" % tag)
            elif eof.get("bytes") != len(want) or eof.get("fnv") != fnv(want):
                bad.append("%s (%s): the child read %s bytes (fnv %s) from stdin, expected the %d bytes of input data (fnv %d)" % (
                    tag, term, eof.get("bytes"), eof.get("fnv"), len(want), fnv(want)))
        if term in ("capture", "communicate"):
            wout = (b"bbb" + (b"cc" if L["err"] == "M" else b"")) if L["out"] == "P" else None
            werr = (b"cc" + b"") if L["err"] == "P" else None
            if L["out"] == "M" and L["err"] == "P":
                werr = b"bbbcc"
            gout = kv.get("out")
            gerr = kv.get("err")
            norm = lambda h: None if h in (None, "none") else e2.unhex(h)
            if term == "capture":
                wout, werr = wout or b"", werr or b""
                g1, g2 = norm(gout) or b"", norm(gerr) or b""
            else:
                g1, g2 = norm(gout), norm(gerr)
            if (g1, g2) != (wout, werr):
                bad.append("%s (%s): captured (out, err) = (%r, %r), expected (%r, %r)" % (tag, term, g1, g2, wout, werr))
    return bad


VM_HDR = ("From Coq Require Import List NArith Bool.\nRequire Import SP.Base.Str SP.Lib.Env SP.Lib.Builder.\n"
          "Import ListNotations.\nLocal Open Scope N_scope.\nSet Printing Width 1000000.\nSet Printing Depth 1000000.\n")


def vm_crosscheck(scns, mlines):
    """the panic index / number of launches of small programs, by vm_compute on the kernel-checked definitions"""
    body, idx = [], []
    for s, ml in zip(scns, mlines):
        p = s["prog"]
        if p["shell"] is not None or len(s["rops"]) > 6 or any(o[0] == "stdin" and o[1] == "data" and len(o[2]) > 50 for o in s["rops"]):
            continue
        ops = []

        def redir(v, i):
            return {"pipe": "BPipe", "none": "BNone", "merge": "BMerge"}.get(v) or "(BFile %d)" % i
        cs = lambda b: C.coq_str(list(b))
        for i, o in enumerate(s["rops"]):
            k = o[0]
            if k == "arg":
                ops.append("OArg %s" % cs(o[1]))
            elif k == "args":
                ops.append("OArgs %s" % C.coq_strs([list(a) for a in o[1]]))
            elif k == "env":
                ops.append("OEnv %s %s" % (cs(o[1]), cs(o[2])))
            elif k == "env_extend":
                ops.append("OEnvExtend [%s]" % ";".join("(%s,%s)" % (cs(a), cs(b)) for a, b in o[1]))
            elif k == "env_remove":
                ops.append("OEnvRemove %s" % cs(o[1]))
            elif k == "env_clear":
                ops.append("OEnvClear")
            elif k == "cwd":
                ops.append("OCwd %s" % cs(o[1]))
            elif k == "stdin":
                ops.append("OStdin (IData %s)" % cs(o[2]) if o[1] == "data" else "OStdin (IRedir %s)" % redir(o[1], i))
            elif k == "stdout":
                ops.append("OStdout %s" % redir(o[1], i))
            elif k == "stderr":
                ops.append("OStderr %s" % redir(o[1], i))
            elif k == "detached":
                ops.append("ODetached")
            elif k == "clone":
                ops.append("OClone")
            else:
                ops.append("OSwap")
        t = lambda x: "T" + "".join(w.capitalize() for w in x.split("_"))
        body.append("Eval vm_compute in (match program [] (cmd [120]) [%s] %s %s with inr i => (1, i) | inl (a, b) => "
                    "(0, (match a with None => 1 | Some _ => 2 end) * 3 + match b with None => 0 | Some None => 1 | Some (Some _) => 2 end) end)."
                    % ("; ".join(ops), t(p["t1"]), t(p["t2"])))
        idx.append(ml)
        if len(body) >= 25:
            break
    if not body:
        return 0
    rc, out, err = C.coq_eval("c16_vm", VM_HDR + "\n".join(body) + "\n")
    got = [ln.strip() for ln in out.splitlines() if ln.strip().startswith("= ")]
    if rc != 0 or len(got) != len(body):
        raise RuntimeError("coq evaluation of Builder.program failed: %s" % (err[-1200:] or out[-300:]))
    for g, ml in zip(got, idx):
        a, b = [int(x) for x in re.findall(r"\d+", g)[:2]]
        if ml.startswith("panic_at"):
            want = (1, int(ml.split()[1]))
        else:
            l1, l2 = ml.split(" | ")
            want = (0, (1 if l1.strip() == "PANIC" else 2) * 3 + (0 if l2.strip() == "-" else (1 if l2.strip() == "PANIC" else 2)))
        if (a, b) != want:
            raise RuntimeError("extracted model and vm_compute disagree: %s vs %s (%s)" % ((a, b), want, ml[:200]))
    return len(body)


DEPS = ["theories/Proofs/BuilderProofs.vo", "theories/Proofs/ExecArgsProofs.vo"]


def run(chk, tier, explicit=None):
    r = C.Rng(chk.seed * 15485863 + 16)
    chk.cov["trusted_base"] = C.BASE_TRUSTED + [
        "harness/src/bin/realdrive.rs (builder programs run on the real Exec under catch_unwind; logging interposers), harness/src/bin/childstub.rs",
        "extraction of Lib/Builder.v to OCaml (ExtrOcamlBasic only; ocaml/bin/sppure), cross-checked against vm_compute on the small programs of every run",
        "Lib/Builder.v is a hand-written model; the environment snapshot `base` is the parent's environ as std::env::vars_os parses it (entries without '=' are skipped), mirrored by the harness",
        "cloning a Redirection::File duplicates the descriptor (File::try_clone); the model identifies a file by the builder call that opened it",
    ]
    pr = C.props_check("C16", DEPS)
    chk.obligations(pr)
    ok, log = C.build_harness()
    if not ok:
        chk.tie_broken("harness does not build against /repo: " + log[-800:])
        return
    n = 250 if tier == "quick" else 3000
    progs = explicit if explicit is not None else [gen_prog(r, "c16-%d" % i, tier) for i in range(n)]
    scns = [scenario_of(p) for p in progs]
    e2.run_scenarios(scns, "C16")
    good = [s for s in scns if not s.get("timed_out") and s.get("rc") == 0]
    for s in scns:
        if s not in good:
            chk.violation("C16: the builder program did not complete (rc=%s timed_out=%s): %s %s" % (
                s.get("rc"), s.get("timed_out"), describe(s["prog"]), s.get("stderr", "")[-200:].replace("\n", " ")), prog_to_json(s["prog"]))
    mlines = X.sppure([model_line(s, parent_base(s)) for s in good]) if good else []
    nvm = vm_crosscheck(good, mlines)
    ndiv = 0
    tie_only = []
    dist = {"outcome": {}, "terminator": {}, "ops": {}}
    for s, ml in zip(good, mlines):
        s["mline"] = ml
        bad = judge(chk, s, ml)
        oc = "builder-panic" if ml.startswith("panic_at") else ("terminator-panic" if "PANIC" in ml else "launch")
        dist["outcome"][oc] = dist["outcome"].get(oc, 0) + 1
        for t in (s["prog"]["t1"],):
            dist["terminator"][t] = dist["terminator"].get(t, 0) + 1
        for o in s["prog"]["ops"]:
            dist["ops"][o[0]] = dist["ops"].get(o[0], 0) + 1
        if bad:
            ndiv += 1
            s["div"] = bad
            # a disagreement on what the child got is a failing input of the property itself; a difference the
            # property does not speak about (order of the environment block) only breaks the tie to the model
            sem = [b for b in bad if not b.startswith("TIE-ONLY")]
            if sem:
                chk.violation("C16: %s [%s]" % ("; ".join(sem[:3]), describe(s["prog"])), prog_to_json(s["prog"]))
            else:
                tie_only.append("%s [%s]" % (bad[0], describe(s["prog"])))
    if ndiv:
        chk.tie_broken("E2: %d of %d builder programs behave differently from Lib/Builder.v%s" % (ndiv, len(good), "; e.g. " + tie_only[0] if tie_only else ""))
    chk.cov["evaluations"] = len(scns)
    chk.cov["traces_validated_against_impl"] = len(good) - ndiv
    chk.cov["distinct_nontrivial"] = len(set(prog_to_json(s["prog"]) for s in scns if len(s["prog"]["ops"]) >= 2))
    chk.cov["rule"] = ("program = Exec::cmd(stub) or Exec::shell(s), then 0..12 calls out of arg/args/env/env_extend/env_remove/env_clear/cwd/"
                       "stdin(pipe|none|null|file|data|merge)/stdout/stderr/detached/clone/swap with names and values from a small colliding "
                       "alphabet plus arbitrary bytes, then one of the 7 terminators per handle; non-trivial = at least 2 calls; distinct by text")
    chk.cov["samples"] = [{"id": s["id"], "program": describe(s["prog"]), "model": (s.get("mline") or "")[:300]} for s in scns[:4]]
    chk.cov["input_distribution"] = dist
    chk.cov["vm_compute_crosschecked"] = nvm


def c06_builder(chk, tier, explicit=None):
    """C06's environment clause where the list reaches the launch through the builder: env_extend with lists that
    carry duplicate names, env() on a name that already occurs once or several times, in any order -- the child must
    see exactly one entry per name with the value of the LATEST setting (the property's own words, computed here from
    the edit list, and Lib/Builder.v + Lib/Env.v through the extracted model)"""
    r = C.Rng(chk.seed * 4111 + 6)
    if explicit is not None:
        progs = explicit
    else:
        progs = []
        names = [b"V", b"W", b"HOME"]
        vals = [b"first", b"second", b"third", b""]
        for i in range(60 if tier == "quick" else 600):
            ops = []
            if r.chance(1, 3):
                ops.append(("env_clear",))
            for _ in range(1 + r.below(5)):
                k = r.below(5)
                if k < 2:
                    ops.append(("env_extend", [(r.choice(names), r.choice(vals)) for _ in range(1 + r.below(4))]))
                elif k < 4:
                    ops.append(("env", r.choice(names), r.choice(vals)))
                else:
                    ops.append(("env_remove", r.choice(names)))      # every entry of that name goes, wherever it stands
            progs.append({"id": "c06-b%d" % i, "shell": None, "ops": ops, "t1": r.choice(["join", "popen", "capture"]), "t2": "join"})
        # the identity options through the builder, also on a clone (a copy is an equivalent command)
        import os as _os
        if _os.getuid() == 0:
            for i in range(12 if tier == "quick" else 60):
                ops = []
                ids = {}
                for k in r.choice([["setuid"], ["setgid"], ["setuid", "setgid"], ["setgid", "setuid"]]):
                    v = r.choice([1000, 1234, 65534])
                    ops.append((k, v))
                ops.insert(r.below(len(ops) + 1), ("env", b"V", b"x"))
                ops.append(("clone",))
                if r.chance(1, 2):
                    ops.append(("arg", b"later"))
                progs.append({"id": "c06-i%d" % i, "shell": None, "ops": ops, "t1": "join", "t2": "join", "ids": True})
    scns = [scenario_of(p) for p in progs]
    for s in scns:
        if s["prog"].get("ids"):
            s["open_wd"] = True          # the child reports after it has given up root
    e2.run_scenarios(scns, "C06b")
    good = [s for s in scns if not s.get("timed_out") and s.get("rc") == 0]
    for s in scns:
        if s not in good:
            chk.violation("C06: the builder program did not complete: %s" % describe(s["prog"]), "builder\n" + prog_to_json(s["prog"]))
    mlines = X.sppure([model_line(s, parent_base(s)) for s in good]) if good else []
    nbad = 0
    for s, ml in zip(good, mlines):
        bad = [b for b in judge(chk, s, ml) if not b.startswith("TIE-ONLY")]
        if s["prog"].get("ids"):
            want_u = want_g = None
            for o in s["prog"]["ops"]:
                if o[0] == "setuid":
                    want_u = o[1]
                elif o[0] == "setgid":
                    want_g = o[1]
                elif o[0] == "clone":
                    break
            plog = s["logs"].get(s["parent_pid"], [])
            kids = [int(l.split("=")[1].split()[0]) for l in plog if l.startswith("fork = ") and int(l.split("=")[1].split()[0]) > 0]
            for which, pid_ in zip(("the command", "its clone"), kids[:2]):
                rep = e2.parse_report(s["reps"][pid_]) if pid_ in s.get("reps", {}) else None
                ids = (rep or {}).get("ids", {})
                wu = want_u if want_u is not None else 0
                wg = want_g if want_g is not None else 0
                if rep is None:
                    bad.append("%s did not report" % which)
                elif (ids.get("ruid"), ids.get("euid")) != (wu, wu) or (ids.get("rgid"), ids.get("egid")) != (wg, wg):
                    bad.append("%s runs with uid %s/%s gid %s/%s, requested uid %s gid %s" % (which, ids.get("ruid"), ids.get("euid"), ids.get("rgid"), ids.get("egid"), wu, wg))
            if len(kids) < 2:
                bad.append("only %d of the two commands were started" % len(kids))
        if bad:
            nbad += 1
            chk.violation("C06: %s [%s]" % ("; ".join(bad[:2]), describe(s["prog"])), "builder\n" + prog_to_json(s["prog"]))
    chk.cov["evaluations"] = chk.cov.get("evaluations", 0) + len(scns)
    chk.cov["traces_validated_against_impl"] = chk.cov.get("traces_validated_against_impl", 0) + len(good) - nbad
    chk.cov["builder_env_programs"] = len(scns)


def replay(chk, path):
    lines = [l.rstrip("\n") for l in open(path, encoding="utf-8") if l.strip() and not l.startswith("#")]
    run(chk, "quick", explicit=[prog_from_json(lines[0])])
