import execprops


def run(chk, tier):
    execprops.run(chk, tier, "C17")


def replay(chk, path):
    execprops.replay(chk, path, "C17")
