"""C19 -- the printable command line is a faithful shell quoting of the command.

Obligations: Props/C19.v.  Correspondence (engine E3): the real Debug / to_cmdline_lossy output is
compared, inside Coq (vm_compute on the kernel-checked definitions), with Quote.debug_exec /
debug_pipeline.  Monitor: the real rendering is evaluated by the installed /bin/sh with the program
in command position (PATH points at a directory of symlinks to the argv-reporting stub) and must
reproduce the original vectors.  The shell model Sh.v itself is validated against /bin/sh."""
import os
import shutil
import subprocess
import tempfile
from concurrent.futures import ThreadPoolExecutor

import common as C

DEPS = ["theories/Proofs/QuoteProofs.vo"]

NICE = [ord(c) for c in "abzAZ09-_.,/"]
META = [ord(c) for c in " \t\n'\"\\|&;<>()$`*?[]#~=%!{}^"]
NONASCII = [0xE9, 0x2603, 0x1F600, 0x3A9, 0xA0, 0x2028, 0xFF5C]
RESERVED = ["if", "then", "else", "elif", "fi", "do", "done", "case", "esac", "while", "until", "for", "in",
            "function", "select", "time", "coproc", "!", "{", "}", "[[", "]]", "exec", "eval", "."]


def gen_word(r, cmdpos):
    k = r.below(100)
    if k < 8:
        return []
    if k < 14 and cmdpos or k < 10:
        return [ord(c) for c in r.choice(RESERVED)]
    n = r.choice([1, 1, 2, 3, 4, 6, 9, 17])
    mode = r.below(6)
    w = []
    for _ in range(n):
        if mode == 0:
            w.append(r.choice(NICE))
        elif mode == 1:
            w.append(r.choice(META))
        elif mode == 2:
            w.append(r.choice(NICE + META))
        elif mode == 3:
            w.append(r.choice(NICE + META + NONASCII))
        elif mode == 4:
            w.append(r.choice([39, 39, 92, 32, 97]))
        else:
            c = 1 + r.below(0x2FF)
            w.append(c)
    return w


def gen_argv(r):
    n = r.choice([1, 1, 2, 2, 3, 4, 7])
    return [gen_word(r, i == 0) for i in range(n)]


def to_s(us):
    return "".join(chr(u) for u in us)


def valid_scalar(u):
    return 0 < u < 0x110000 and not (0xD800 <= u < 0xE000)


def is_nontrivial(argv):
    return any((not w) or any(u not in NICE and not chr(u).isalnum() for u in w) for w in argv)


def run_real(cases):
    """cases: list of ('exec', argv) | ('pipe', cmds).  Returns list of result tuples of unit lists."""
    lines = []
    for kind, x in cases:
        if kind == "exec":
            lines.append("exec " + C.enc_argv(x))
        else:
            lines.append("pipe " + "|".join(C.enc_argv(c) for c in x))
    rc, out, err = C.run([os.path.join(C.BIN, "puredrive")], inp="\n".join(lines) + "\n", timeout=300)
    if rc != 0:
        raise RuntimeError("puredrive failed: %s" % err[-2000:])
    res = []
    for ln in out.splitlines():
        parts = ln.split(" ")
        res.append([C.dec_units(p) for p in parts[1:]])
    if len(res) != len(cases):
        raise RuntimeError("puredrive returned %d results for %d cases" % (len(res), len(cases)))
    return res


def coq_compare(name, cases, reals):
    """Returns list of booleans: does the model's Debug text equal the real one?"""
    hdr = ("From Coq Require Import List NArith Bool.\nRequire Import SP.Base.Str SP.Lib.Quote.\n"
           "Import ListNotations.\nOpen Scope N_scope.\n")
    body = []
    for (kind, x), real in zip(cases, reals):
        if kind == "exec":
            body.append("Eval vm_compute in (str_eqb (debug_exec %s) %s && str_eqb (render %s) %s)." % (
                C.coq_strs(x), C.coq_str(real[0]), C.coq_strs(x), C.coq_str(real[1])))
        else:
            body.append("Eval vm_compute in (str_eqb (debug_pipeline [%s]) %s)." % (
                ";".join(C.coq_strs(c) for c in x), C.coq_str(real[0])))
    rc, out, err = C.coq_eval(name, hdr + "\n".join(body) + "\n")
    vals = [ln.strip() == "= true" for ln in out.splitlines() if ln.strip().startswith("= ")]
    if rc != 0 or len(vals) != len(cases):
        raise RuntimeError("coq evaluation failed (%d values for %d cases): %s" % (len(vals), len(cases), err[-1500:]))
    return vals


def coq_sh_model(name, lines):
    """sh_eval of each line (unit list) -> None | list of list of unit lists; printed by Coq, parsed here."""
    hdr = ("From Coq Require Import List NArith Bool.\nRequire Import SP.Base.Str SP.Lib.Sh.\n"
           "Import ListNotations.\nOpen Scope N_scope.\nSet Printing Width 1000000.\nSet Printing Depth 1000000.\n")
    body = ["Eval vm_compute in (sh_eval %s)." % C.coq_str(l) for l in lines]
    rc, out, err = C.coq_eval(name, hdr + "\n".join(body) + "\n")
    res = []
    for ln in out.splitlines():
        s = ln.strip()
        if not s.startswith("= "):
            continue
        s = s[2:]
        if s.startswith("None"):
            res.append(None)
        else:
            inner = s[len("Some "):].replace("%N", "")
            inner = inner.replace(";", ",").replace("[", "[").strip()
            res.append(eval(inner, {"__builtins__": {}}))  # nested lists of ints only
    if rc != 0 or len(res) != len(lines):
        raise RuntimeError("coq sh model evaluation failed: %s" % err[-1500:])
    return res


class ShRunner:
    """Evaluates lines with the installed /bin/sh; every program name that can be a file name is a
    symlink to the argv-reporting stub in a private PATH directory."""

    def __init__(self):
        self.dir = tempfile.mkdtemp(prefix="c19-", dir=C.BUILD)
        self.stub = os.path.join(C.BIN, "childstub")
        self.sh = os.path.realpath("/bin/sh")
        os.symlink(self.stub, os.path.join(self.dir, "p"))
        self.kinds = {}

    def close(self):
        shutil.rmtree(self.dir, ignore_errors=True)

    def linkable(self, name):
        b = name.encode("utf-8", "surrogatepass") if name else b""
        return bool(name) and "/" not in name and name not in (".", "..") and len(b) <= 200 and "\0" not in name

    def external(self, name):
        """Would sh run a file for this name?  Builtins are always found first, so a builtin's name cannot
        be observed in command position; `type` is asked (keywords still go to command position)."""
        if name in self.kinds:
            return self.kinds[name]
        r = subprocess.run(["/bin/sh", "-c", 'type "$1"', "sh", name], env={"PATH": "/nonexistent"},
                           capture_output=True, timeout=20)
        ext = b"builtin" not in r.stdout
        self.kinds[name] = ext
        return ext

    def ensure(self, name):
        p = os.path.join(self.dir, name)
        if not os.path.lexists(p):
            try:
                os.symlink(self.stub, p)
            except FileExistsError:
                pass

    def eval_line(self, line):
        """-> (rc, list of argv (each a list of unit lists)), stages in pipeline order."""
        env = {"PATH": self.dir, "STUB_MODE": "argvcat", "LC_ALL": "C.UTF-8"}
        try:
            # the leading blank keeps a line that starts with `-` from being taken as an option of sh itself
            # cwd is the private directory: when the quoting under test is broken, a stray `>` in the
            # line becomes a redirection, and the file it creates must not land in /verif
            r = subprocess.run(["/bin/sh", "-c", " " + line], env=env, stdin=subprocess.DEVNULL,
                               capture_output=True, timeout=20, cwd=self.dir)
        except subprocess.TimeoutExpired:
            return 124, []
        out = []
        for ln in r.stdout.decode("ascii", "replace").splitlines():
            if ln.startswith("argv "):
                bs = [bytes(C.dec_units(w)) for w in ln[5:].split(",")]
                out.append([[ord(ch) for ch in b.decode("utf-8", "surrogateescape")] for b in bs])
        return r.returncode, out


def parse_case(line):
    kind, rest = line.split(" ", 1)
    if kind == "exec":
        return ("exec", C.dec_argv(rest))
    return ("pipe", [C.dec_argv(c) for c in rest.split("|")])


def replay(chk, path):
    cases = [parse_case(l.strip()) for l in open(path, encoding="utf-8")
             if l.strip() and not l.startswith("#") and l.split(" ", 1)[0] in ("exec", "pipe")]
    run(chk, "quick", explicit=cases)


def run(chk, tier, explicit=None):
    r = C.Rng(chk.seed)
    n_exec, n_pipe, n_model = (500, 120, 250) if tier == "quick" else (24000, 6000, 6000)
    chk.cov["trusted_base"] = C.BASE_TRUSTED + [
        "harness/src/bin/puredrive.rs, childstub.rs (argv report)",
        "Lib/Sh.v is a model of POSIX-shell word recognition; validated against %s on every run, not proved" % os.path.realpath("/bin/sh"),
        "to_cmdline_lossy's K=V environment prefix is outside the property and not modelled",
    ]
    chk.assumptions = ["program names and arguments are valid Unicode without NUL (the property's own restriction)"]

    pr = C.props_check("C19", DEPS)
    chk.obligations(pr)
    ok, log = C.build_harness()
    if not ok:
        chk.tie_broken("harness does not build against /repo: " + log[-800:])
        return

    def make_cases(rr, ne, npipe):
        cases = []
        # fixed corner cases first (the minimised corpus)
        for argv in (["echo", ""], ["if"], ["a", "'"], ["a", "''"], ["a b"], ["in", "do"], ["a", "\\"], ["a", "x'y z'"],
                     ["a", "\n"], ["time", "-p"], ["a", "*"], ["a", "~"], ["a=b", "c"], ["a", "#x"], ["é", "☃"]):
            cases.append(("exec", [[ord(c) for c in w] for w in argv]))
        cases.append(("pipe", [[[105, 102]], [[100, 111], []], [[97], [124]]]))
        while sum(1 for c in cases if c[0] == "exec") < ne:
            a = gen_argv(rr)
            if all(all(valid_scalar(u) for u in w) for w in a):
                cases.append(("exec", a))
        cnt = 0
        while cnt < npipe:
            cs = [gen_argv(rr) for _ in range(rr.choice([2, 2, 3, 4, 6]))]
            if all(all(valid_scalar(u) for u in w) for a in cs for w in a):
                cases.append(("pipe", cs))
                cnt += 1
        return cases

    cases = explicit if explicit is not None else make_cases(r, n_exec, n_pipe)
    if explicit is not None:
        n_model = 0
    reals = run_real(cases)

    # ---- correspondence: model text == real text, decided inside Coq, sharded
    shards = 1 if tier == "quick" else 16
    per = (len(cases) + shards - 1) // shards
    agree = []
    with ThreadPoolExecutor(max_workers=shards) as ex:
        futs = [ex.submit(coq_compare, "c19_cmp_%d" % i, cases[i * per:(i + 1) * per], reals[i * per:(i + 1) * per])
                for i in range(shards) if cases[i * per:(i + 1) * per]]
        for f in futs:
            agree += f.result()
    ndiv = agree.count(False)
    chk.cov["traces_validated_against_impl"] = len(cases)
    if ndiv:
        i = agree.index(False)
        chk.tie_broken("E3:Quote.debug_%s differs from the real Debug output on %d of %d cases; first: %s -> real %r"
                       % (cases[i][0], ndiv, len(cases), cases[i][1], to_s(reals[i][0])))

    # ---- monitor: real sh on the real rendering, program in command position
    sh = ShRunner()
    try:
        jobs = []
        for (kind, x), real in zip(cases, reals):
            cmds = [x] if kind == "exec" else x
            line_units = real[1] if kind == "exec" else real[0][len("Pipeline { "):-2]
            if kind == "exec":
                dbg = to_s(real[0])
                if not (dbg.startswith("Exec { ") and dbg.endswith(" }") and dbg[7:-2] == to_s(real[1])):
                    chk.violation("Debug for Exec is not `Exec { <to_cmdline_lossy> }` for %r" % (x,),
                                  "exec " + C.enc_argv(x))
            line = to_s(line_units)
            names = [to_s(c[0]) for c in cmds]
            if all(sh.linkable(nm) and sh.external(nm) for nm in names):
                for nm in names:
                    sh.ensure(nm)
                jobs.append((kind, x, cmds, line, False))
            elif kind == "exec":
                jobs.append((kind, x, cmds, "p " + line, True))
        with ThreadPoolExecutor(max_workers=16) as ex:
            results = list(ex.map(lambda j: sh.eval_line(j[3]), jobs))
        nsh = 0
        for (kind, x, cmds, line, prefixed), (rc, got) in zip(jobs, results):
            nsh += 1
            want = [([[112]] + c) if prefixed else c for c in cmds]
            if got != want:
                chk.violation("sh evaluates the printed line %r to %r, not to the original %r (rc=%d)"
                              % (line, [[to_s(w) for w in a] for a in got], [[to_s(w) for w in a] for a in cmds], rc),
                              ("exec " + C.enc_argv(x)) if kind == "exec" else ("pipe " + "|".join(C.enc_argv(c) for c in x)))
        chk.cov["sh_evaluations_command_position"] = sum(1 for j in jobs if not j[4])
        chk.cov["sh_evaluations_prefixed"] = sum(1 for j in jobs if j[4])

        # ---- validation of the shell model against /bin/sh on lines that are NOT renderings
        alpha = [97, 98, 32, 32, 39, 39, 92, 9, 112]
        lines = []
        while len(lines) < n_model:
            st = []
            for _ in range(r.choice([1, 1, 2, 3])):
                body = [r.choice(alpha + ([r.choice(META)] if r.chance(1, 4) else [])) for _ in range(r.choice([0, 2, 5, 9]))]
                st.append([112, 32] + body)
            l = []
            for i, s in enumerate(st):
                if i:
                    l += [32, 124, 32]
                l += s
            lines.append(l)
        shardsz = (len(lines) + shards - 1) // shards
        model = []
        with ThreadPoolExecutor(max_workers=shards) as ex:
            futs = [ex.submit(coq_sh_model, "c19_sh_%d" % i, lines[i * shardsz:(i + 1) * shardsz])
                    for i in range(shards) if lines[i * shardsz:(i + 1) * shardsz]]
            for f in futs:
                model += f.result()
        somes = []
        for l, m in zip(lines, model):
            if m is None:
                continue
            # a metacharacter in a generated body can start a new stage whose command word is not `p`: every command
            # word the model sees must be runnable as the reporting stub, otherwise the line says nothing
            names = ["".join(chr(c) for c in st[0]) for st in m if st]
            if len(names) == len(m) and all(sh.linkable(nm) and sh.external(nm) for nm in names):
                for nm in names:
                    sh.ensure(nm)
                somes.append((l, m))
        with ThreadPoolExecutor(max_workers=16) as ex:
            sres = list(ex.map(lambda lm: sh.eval_line(to_s(lm[0])), somes))
        bad = [(l, m, g) for (l, m), (rc, g) in zip(somes, sres) if g != m]
        chk.cov["sh_model_validated_lines"] = len(somes)
        chk.cov["sh_model_lines_where_model_abstains"] = len(lines) - len(somes)
        if bad:
            l, m, g = bad[0]
            chk.tie_broken("Lib/Sh.v disagrees with %s on %r: model %r, sh %r" % (sh.sh, to_s(l), m, g))
    finally:
        sh.close()

    distinct = set()
    for kind, x in cases:
        cmds = [x] if kind == "exec" else x
        if any(is_nontrivial(c) for c in cmds):
            distinct.add(repr((kind, x)))
    chk.cov["evaluations"] = len(cases)
    chk.cov["distinct_nontrivial"] = len(distinct)
    chk.cov["rule"] = ("argument vectors (1-7 words of 0-17 scalars) drawn from nice characters, every ASCII shell "
                       "metacharacter, blanks, quotes, newlines, non-ASCII, the empty string and reserved words "
                       "(biased to command position), plus pipelines of 2-6 such commands; a case is non-trivial "
                       "when some word needs quoting; distinct by value")
    chk.cov["samples"] = [{"kind": k, "argv": ([[to_s(w) for w in x]] if k == "exec" else [[to_s(w) for w in c] for c in x]),
                           "real_debug": to_s(rl[0])} for (k, x), rl in (list(zip(cases, reals))[15:21] or list(zip(cases, reals))[:3])]
    chk.cov["input_distribution"] = {
        "exec_cases": sum(1 for c in cases if c[0] == "exec"), "pipeline_cases": sum(1 for c in cases if c[0] == "pipe"),
        "with_empty_word": sum(1 for k, x in cases if any(not w for c in ([x] if k == "exec" else x) for w in c)),
        "reserved_in_command_position": sum(1 for k, x in cases if any(to_s(c[0]) in RESERVED for c in ([x] if k == "exec" else x))),
        "with_single_quote": sum(1 for k, x in cases if any(39 in w for c in ([x] if k == "exec" else x) for w in c)),
        "with_non_ascii": sum(1 for k, x in cases if any(u > 127 for c in ([x] if k == "exec" else x) for w in c for u in w)),
    }
