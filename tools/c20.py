"""C20 -- Windows command-line assembly round-trips through Microsoft parsing rules.

Obligations: Props/C20.v.  Correspondence (E3): assemble_cmdline / append_quoted are cut out of the
cfg(windows) source text of /repo/src/popen.rs at build time, compiled against a UTF-16 shim and run
on generated vectors; the output is compared with WinCmdline.assemble_cmdline (vm_compute inside Coq
for the quick tier, and the extracted code, cross-checked against each other).  Monitor: the real
output is parsed by both reference parsers and must give back the input; NUL must be rejected with
ERROR_BAD_PATHNAME (161)."""
import itertools
import os

import common as C

DEPS = ["theories/Proofs/WinProofs.vo"]
ALPHA = [97, 32, 9, 10, 34, 92, 0x2603]
EXTRA = [11, 98, 0xD800, 0xFFFF, 39, 47]


def run_real(argvs):
    inp = "\n".join("wincmd " + C.enc_argv(a) for a in argvs) + "\n"
    rc, out, err = C.run([os.path.join(C.BIN, "puredrive")], inp=inp, timeout=600)
    if rc != 0:
        raise RuntimeError("puredrive failed: %s" % err[-1500:])
    res = []
    for ln in out.splitlines():
        p = ln.split(" ")
        res.append((p[1], p[2]))
    if len(res) != len(argvs):
        raise RuntimeError("puredrive: %d results for %d cases" % (len(res), len(argvs)))
    return res


def run_extracted(argvs, reals):
    inp = "\n".join("c20 %s %s %s" % (C.enc_argv(a), k, v) for a, (k, v) in zip(argvs, reals)) + "\n"
    rc, out, err = C.run([os.path.join(C.ROOT, "ocaml", "bin", "sppure")], inp=inp, timeout=900)
    rows = [tuple(x == "1" for x in ln.split()) for ln in out.splitlines()]
    if rc != 0 or len(rows) != len(argvs) or any(len(r) != 3 for r in rows):
        raise RuntimeError("sppure failed: %s" % err[-1500:])
    return rows


def run_coq(name, argvs, reals):
    hdr = ("From Coq Require Import List NArith Bool.\nRequire Import SP.Base.Str SP.Lib.WinCmdline SP.Lib.MsParse.\n"
           "Import ListNotations.\nOpen Scope N_scope.\n"
           "Definition ok (argv : list str) (cl : str) : bool * bool * bool :=\n"
           "  (match assemble_cmdline argv with Some m => str_eqb m cl | None => false end,\n"
           "   strs_eqb (parse_args 1 cl) argv, strs_eqb (parse_args 2 cl) argv).\n"
           "Definition er (argv : list str) : bool * bool * bool :=\n"
           "  (match assemble_cmdline argv with None => true | _ => false end, existsb has_nul argv, existsb has_nul argv).\n")
    body = []
    for a, (k, v) in zip(argvs, reals):
        if k == "ok":
            body.append("Eval vm_compute in (ok %s %s)." % (C.coq_strs(a), C.coq_str(C.dec_units(v))))
        else:
            body.append("Eval vm_compute in (er %s)." % C.coq_strs(a))
    rc, out, err = C.coq_eval(name, hdr + "\n".join(body) + "\n")
    rows = []
    for ln in out.splitlines():
        s = ln.strip()
        if s.startswith("= ("):
            rows.append(tuple(x.strip() == "true" for x in s[3:].rstrip(")").split(",")))
    if rc != 0 or len(rows) != len(argvs):
        raise RuntimeError("coq evaluation failed: %s" % err[-1500:])
    return rows


def words_upto(alpha, n):
    for k in range(n + 1):
        for t in itertools.product(alpha, repeat=k):
            yield list(t)


def gen_random(r, n):
    out = []
    for _ in range(n):
        na = r.choice([1, 1, 2, 3, 3, 5])
        argv = []
        for _ in range(na):
            ln = r.choice([0, 1, 2, 3, 5, 8, 13, 30])
            mode = r.below(4)
            w = []
            for _ in range(ln):
                if mode == 0:
                    w.append(r.choice(ALPHA))
                elif mode == 1:
                    w.append(r.choice([92, 92, 92, 34, 97, 32]))
                elif mode == 2:
                    w.append(r.choice(ALPHA + EXTRA))
                else:
                    w.append(1 + r.below(0xFFFE))
            if r.chance(1, 60):
                w.insert(r.below(len(w) + 1), 0)
            argv.append(w)
        out.append(argv)
    return out


def parse_case(line):
    return C.dec_argv(line.split(" ", 1)[1])


def replay(chk, path):
    cases = [parse_case(l.strip()) for l in open(path, encoding="utf-8") if l.startswith("wincmd ")]
    run(chk, "quick", explicit=cases)


def run(chk, tier, explicit=None):
    r = C.Rng(chk.seed)
    chk.cov["trusted_base"] = C.BASE_TRUSTED + [
        "harness/build.rs source cutter + harness/src/wincut.rs UTF-16 shim (OsString over Vec<u16>)",
        "Lib/MsParse.v: Microsoft argv parsing rules as documented (example table proved in Props/C20.v); no Windows runtime in the sandbox",
        "extraction (ExtrOcamlBasic only, no Extract Constant) for the bulk of the cases; cross-checked against vm_compute on the quick sample",
    ]
    chk.assumptions = ["arguments after the program name are parsed by the C-runtime / CommandLineToArgvW argument rules as documented by Microsoft"]
    pr = C.props_check("C20", DEPS)
    chk.obligations(pr)
    ok, log = C.build_harness()
    if not ok:
        chk.tie_broken("harness does not build against /repo: " + log[-800:])
        return

    if explicit is not None:
        argvs = explicit
        exhaustive_note = "replay"
    elif tier == "quick":
        argvs = [[w] for w in words_upto(ALPHA, 3)]                        # 400 single arguments, exhaustive
        argvs += [[[97], w, [98]] for w in words_upto([34, 92, 32], 4)]     # 121, quote/backslash/space exhaustive to 4
        argvs += gen_random(r, 700)
        exhaustive_note = "single arguments over the 7-letter alphabet exhaustively to length 3; {quote,backslash,space} to length 4 between two arguments"
    else:
        argvs = [[w] for w in words_upto(ALPHA, 6)]                        # 137 257
        small = list(words_upto(ALPHA, 2))
        argvs += [[a, b, c] for a in small for b in small for c in small]   # 57^3 = 185 193
        argvs += [[[97], w, [98]] for w in words_upto([34, 92, 32], 9)]     # 29 524
        argvs += gen_random(r, 150000)
        exhaustive_note = ("single arguments over the 7-letter alphabet {a,space,tab,newline,quote,backslash,U+2603} "
                           "exhaustively to length 6; all vectors of 3 arguments of length <= 2; "
                           "{quote,backslash,space} exhaustively to length 9")
    reals = run_real(argvs)
    if any(v == "CUT-FAILED" or "CUT" in v for _, v in reals[:1]):
        chk.tie_broken("source cutter: assemble_cmdline/append_quoted no longer found in /repo/src/popen.rs")
        return
    rows = run_extracted(argvs, reals)
    nq = min(len(argvs), 1300)
    crow = run_coq("c20_cmp", argvs[:nq], reals[:nq])
    if crow != rows[:nq]:
        i = [a != b for a, b in zip(crow, rows[:nq])].index(True)
        chk.tie_broken("extraction cross-check: vm_compute and the extracted code disagree on %r" % (argvs[i],))
    ndiv = 0
    first = None
    for a, rl, (corr, m1, m2) in zip(argvs, reals, rows):
        if not corr:
            ndiv += 1
            first = first or (a, rl)
        if not (m1 and m2):
            what = ("rejected although no argument contains NUL" if rl[0] == "err" else
                    "does not parse back (crt=%s shell32=%s): real line %r" % (m1, m2, "".join(chr(u) for u in C.dec_units(rl[1]))))
            chk.violation("assemble_cmdline %r %s" % (a, what), "wincmd " + C.enc_argv(a))
        if rl[0] == "ok" and any(0 in w for w in a):
            chk.violation("assemble_cmdline accepted an argument containing NUL: %r" % (a,), "wincmd " + C.enc_argv(a))
    if ndiv:
        chk.tie_broken("E3:WinCmdline.assemble_cmdline differs from the cut-out real function on %d of %d vectors; first: %r -> %r"
                       % (ndiv, len(argvs), first[0], first[1]))
    chk.cov["traces_validated_against_impl"] = len(argvs)
    chk.cov["evaluations"] = len(argvs)
    chk.cov["evaluated_inside_coq_vm_compute"] = nq
    distinct = set(repr(a) for a in argvs if any((not w) or any(u in (32, 9, 10, 11, 34, 92) for u in w) for w in a))
    chk.cov["distinct_nontrivial"] = len(distinct)
    chk.cov["rule"] = exhaustive_note + "; plus random vectors (1-5 arguments of 0-30 UTF-16 units, backslash/quote-heavy, arbitrary units incl. lone surrogates, NUL in 1/60 of arguments); non-trivial = some argument is empty or contains white space, quote or backslash; distinct by value"
    chk.cov["exhaustive"] = False
    chk.cov["samples"] = [{"argv": ["".join(chr(u) for u in w) for w in a], "real": rl[1] if rl[0] == "err" else "".join(chr(u) for u in C.dec_units(rl[1]))}
                          for a, rl in list(zip(argvs, reals))[350:354] + list(zip(argvs, reals))[-3:]]
    chk.cov["input_distribution"] = {"vectors": len(argvs), "with_nul": sum(1 for a in argvs if any(0 in w for w in a)),
                                     "with_empty_argument": sum(1 for a in argvs if any(not w for w in a)),
                                     "with_backslash_before_quote": sum(1 for a in argvs if any(any(w[i] == 92 and w[i + 1] == 34 for i in range(len(w) - 1)) for w in a)),
                                     "with_trailing_backslash": sum(1 for a in argvs if any(w and w[-1] == 92 for w in a))}
