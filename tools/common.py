"""Shared machinery of the checks: builds, Coq obligations, evidence, verdicts."""
import fcntl
import hashlib
import json
import os
import re
import subprocess
import sys
import time

ROOT = os.path.dirname(os.path.dirname(os.path.abspath(__file__)))
REPO = os.environ.get("VERIF_REPO", "/repo")
COQ = os.path.join(ROOT, "coq")
BUILD = os.path.join(ROOT, ".build")
CARGO_TARGET = os.path.join(BUILD, "cargo")
BIN = os.path.join(CARGO_TARGET, "debug")
EVID = os.path.join(ROOT, "evidence")
REPLAY = os.path.join(EVID, "replay")
GUARD_CFG = "subprocess_verif"

sys.path.insert(0, os.path.join(ROOT, "tools"))
import params  # noqa: E402

ENV = dict(os.environ)
ENV.update({"CARGO_NET_OFFLINE": "true", "CARGO_TARGET_DIR": CARGO_TARGET,
            "RUSTFLAGS": "--cfg %s" % GUARD_CFG, "LC_ALL": "C.UTF-8"})


class Rng:
    """splitmix64; every random choice of a run derives from one state seeded by VERIF_SEED."""

    def __init__(self, seed):
        self.s = seed & 0xFFFFFFFFFFFFFFFF

    def next(self):
        self.s = (self.s + 0x9E3779B97F4A7C15) & 0xFFFFFFFFFFFFFFFF
        z = self.s
        z = ((z ^ (z >> 30)) * 0xBF58476D1CE4E5B9) & 0xFFFFFFFFFFFFFFFF
        z = ((z ^ (z >> 27)) * 0x94D049BB133111EB) & 0xFFFFFFFFFFFFFFFF
        return z ^ (z >> 31)

    def below(self, n):
        return self.next() % n if n > 0 else 0

    def choice(self, xs):
        return xs[self.below(len(xs))]

    def chance(self, num, den):
        return self.below(den) < num

    def fork(self):
        return Rng(self.next())


class Lock:
    def __init__(self, name):
        os.makedirs(BUILD, exist_ok=True)
        self.path = os.path.join(BUILD, name + ".lock")

    def __enter__(self):
        self.f = open(self.path, "w")
        fcntl.flock(self.f, fcntl.LOCK_EX)
        return self

    def __exit__(self, *a):
        fcntl.flock(self.f, fcntl.LOCK_UN)
        self.f.close()


def _big_stack():
    # extracted code recurses along lists: give the OCaml drivers (and their children) an unlimited stack
    import resource
    try:
        resource.setrlimit(resource.RLIMIT_STACK, (resource.RLIM_INFINITY, resource.RLIM_INFINITY))
    except (ValueError, OSError):
        pass


def run(cmd, timeout=600, cwd=None, env=None, inp=None):
    try:
        r = subprocess.run(cmd, cwd=cwd, env=env or ENV, input=inp, capture_output=True,
                           timeout=timeout, text=isinstance(inp, str) or inp is None, preexec_fn=_big_stack)
        return r.returncode, r.stdout, r.stderr
    except subprocess.TimeoutExpired as e:
        out = e.stdout or ""
        err = e.stderr or ""
        if isinstance(out, bytes):
            out = out.decode("utf-8", "replace")
        if isinstance(err, bytes):
            err = err.decode("utf-8", "replace")
        return 124, out, err + "\nTIMEOUT after %ss" % timeout


# ----------------------------------------------------------------------------- Coq

FORBIDDEN = re.compile(
    r"\b(Admitted|admit|Axiom|Axioms|Parameter|Parameters|Conjecture|Conjectures|"
    r"Admit\s+Obligations|Unset\s+Guard\s+Checking|bypass_check|Unset\s+Positivity|"
    r"Unset\s+Universe\s+Checking|type-in-type|impredicative-set)\b")
SECTIONLESS = re.compile(r"^\s*(Variable|Variables|Hypothesis|Hypotheses)\b", re.M)
ALLOWED_AXIOMS = set()   # the development is closed under the global context (DESIGN.md section 7)


def strip_comments(src):
    out = []
    depth = 0
    i = 0
    in_str = False
    while i < len(src):
        if depth == 0 and src[i] == '"':
            in_str = not in_str
            out.append(src[i])
            i += 1
            continue
        if not in_str and src.startswith("(*", i):
            depth += 1
            i += 2
            continue
        if not in_str and depth > 0 and src.startswith("*)", i):
            depth -= 1
            i += 2
            continue
        if depth == 0:
            out.append(src[i])
        elif src[i] == "\n":
            out.append("\n")
        i += 1
    return "".join(out)


def coq_sources():
    res = []
    for d, _, fs in os.walk(os.path.join(COQ, "theories")):
        for f in fs:
            if f.endswith(".v"):
                res.append(os.path.join(d, f))
    return sorted(res)


def scan_forbidden():
    """Admitted / Axiom / Parameter / ... anywhere in the development -> list of offences."""
    bad = []
    for p in coq_sources():
        src = strip_comments(open(p, encoding="utf-8").read())
        for m in FORBIDDEN.finditer(src):
            ln = src.count("\n", 0, m.start()) + 1
            bad.append("%s:%d: %s" % (os.path.relpath(p, ROOT), ln, m.group(0)))
        # Variable/Hypothesis outside a section
        depth = 0
        for ln, line in enumerate(src.split("\n"), 1):
            if re.match(r"^\s*Section\b", line):
                depth += 1
            elif re.match(r"^\s*End\b", line) and depth > 0:
                depth -= 1
            elif depth == 0 and SECTIONLESS.match(line):
                bad.append("%s:%d: %s outside a section" % (os.path.relpath(p, ROOT), ln, line.strip()))
    return bad


def ensure_params():
    """Regenerate Params.v from /repo.  Returns (params|None, error|None)."""
    with Lock("params"):
        try:
            p, _ = params.regenerate()
            return p, None
        except params.ParamError as e:
            return None, str(e)
        except Exception as e:  # unreadable source etc.
            return None, "%s: %s" % (type(e).__name__, e)


def coq_make(targets, timeout=1500):
    """Full .vo build (never -vos) of the given targets (paths relative to coq/)."""
    with Lock("coq"):
        mk = os.path.join(COQ, "Makefile")
        cp = os.path.join(COQ, "_CoqProject")
        if not os.path.exists(mk) or os.path.getmtime(mk) < os.path.getmtime(cp):
            rc, out, err = run(["coq_makefile", "-f", "_CoqProject", "-o", "Makefile"], cwd=COQ, timeout=120)
            if rc != 0:
                return False, out + err
        rc, out, err = run(["make", "-j16"] + list(targets), cwd=COQ, timeout=timeout)
        return rc == 0, out + err


def props_check(pid, deps):
    """Build the dependencies, then compile Props/<pid>.v with coqc, capturing Print Assumptions.
    Returns dict(ok, obligations, discharged, theorems=[(name, closed, axioms)], log, failed)."""
    res = {"ok": False, "obligations": 0, "discharged": 0, "theorems": [], "log": "", "failed": None}
    src_path = os.path.join(COQ, "theories", "Props", pid + ".v")
    src = strip_comments(open(src_path, encoding="utf-8").read())
    names = re.findall(r"^\s*Theorem\s+(\w+)", src, re.M)
    res["obligations"] = len(names)
    pa = re.findall(r"^\s*Print\s+Assumptions\s+(\w+)", src, re.M)
    missing = [n for n in names if n not in pa]
    if missing:
        res["log"] = "Print Assumptions missing for %s" % missing
        res["failed"] = "Props/%s.v: %s" % (pid, res["log"])
        return res
    ok, log = coq_make(deps)
    if not ok:
        m = re.search(r'File "([^"]+)", line (\d+)', log)
        res["log"] = log[-4000:]
        res["failed"] = "proof obligation no longer checks: %s" % (
            ("%s line %s" % (m.group(1), m.group(2))) if m else "coq build of %s" % deps)
        return res
    with Lock("coq"):
        rc, out, err = run(["coqc", "-Q", "theories", "SP", os.path.join("theories", "Props", pid + ".v")],
                           cwd=COQ, timeout=600)
    res["log"] = (out + err)[-4000:]
    if rc != 0:
        m = re.search(r'line (\d+)', err)
        res["failed"] = "Props/%s.v no longer checks (%s)" % (pid, ("line " + m.group(1)) if m else "coqc failed")
        return res
    # Parse the Print Assumptions blocks in order.
    blocks = re.split(r"(?m)^(?=Closed under the global context|Axioms:)", out)
    blocks = [b for b in blocks if b.startswith("Closed under") or b.startswith("Axioms:")]
    if len(blocks) != len(pa):
        res["failed"] = "Props/%s.v: %d Print Assumptions outputs for %d commands" % (pid, len(blocks), len(pa))
        return res
    disc = 0
    for n, b in zip(pa, blocks):
        if b.startswith("Closed under"):
            res["theorems"].append((n, True, []))
            disc += 1
        else:
            axs = re.findall(r"(?m)^(\S+)\s*:", b[len("Axioms:"):])
            extra = [a for a in axs if a not in ALLOWED_AXIOMS]
            res["theorems"].append((n, not extra, axs))
            if not extra:
                disc += 1
            else:
                res["failed"] = "theorem %s depends on axioms outside the allow-list: %s" % (n, extra)
    res["discharged"] = disc
    if os.environ.get("VERIF_TIER_EFFECTIVE") == "thorough":
        # independent re-check of the compiled proofs (and of everything they depend on) with coqchk
        mods = ["SP." + d[len("theories/"):-3].replace("/", ".") for d in deps]
        with Lock("coq"):
            rc, out, err = run(["coqchk", "-o", "-silent", "-Q", "theories", "SP"] + mods, cwd=COQ, timeout=1800)
        txt = out + err
        res["coqchk"] = {"modules": mods, "rc": rc, "axioms": re.findall(r"\* Axioms:\s*(.*)", txt)[:1],
                         "type_in_type": re.findall(r"type-in-type:\s*(.*)", txt)[:1], "unsafe_fix": re.findall(r"unsafe \(co\)fixpoints:\s*(.*)", txt)[:1],
                         "positivity_assumed": re.findall(r"positivity is assumed:\s*(.*)", txt)[:1]}
        clean = rc == 0 and all(v == ["<none>"] for k, v in res["coqchk"].items() if k not in ("modules", "rc"))
        if not clean:
            res["failed"] = "coqchk does not accept %s cleanly: %s" % (mods, txt[-600:])
    bad = scan_forbidden()
    if bad:
        res["failed"] = "forbidden construct in the development: " + "; ".join(bad[:5])
        res["discharged"] = 0
        return res
    res["ok"] = res["failed"] is None and disc == len(names)
    return res


def coq_eval(name, text, timeout=600):
    """Evaluate a generated cases file inside Coq (vm_compute on the kernel-checked definitions)."""
    d = os.path.join(BUILD, "cases")
    os.makedirs(d, exist_ok=True)
    path = os.path.join(d, name + ".v")
    with open(path, "w", encoding="utf-8") as f:
        f.write(text)
    rc, out, err = run(["coqc", "-noglob", "-Q", os.path.join(COQ, "theories"), "SP", path], cwd=d, timeout=timeout)
    for ext in (".vo", ".vok", ".vos", ".glob"):
        try:
            os.remove(os.path.join(d, name + ext))
        except OSError:
            pass
    return rc, out, err


# --------------------------------------------------------------------------- harness

def build_harness(timeout=900):
    with Lock("cargo"):
        hd = os.path.join(ROOT, "harness")
        lock_src = os.path.join(REPO, "Cargo.lock")
        rc, out, err = run(["cargo", "build", "--offline", "--bins"], cwd=hd, timeout=timeout)
        if rc != 0 and os.path.exists(lock_src):
            # a stale lock file is the one harmless way this can fail: refresh it from /repo once
            import shutil
            shutil.copy(lock_src, os.path.join(hd, "Cargo.lock"))
            rc, out, err = run(["cargo", "build", "--offline", "--bins"], cwd=hd, timeout=timeout)
        return rc == 0, (out + err)[-4000:]


def build_ocaml(timeout=900):
    """Re-extract and rebuild the OCaml drivers when a model or a driver source is newer than the binaries."""
    with Lock("ocaml"):
        bins = [os.path.join(ROOT, "ocaml", "bin", b) for b in ("sppure", "spsim")]
        srcs = coq_sources() + [os.path.join(ROOT, "ocaml", "src", f) for f in os.listdir(os.path.join(ROOT, "ocaml", "src"))]
        srcs.append(os.path.join(ROOT, "ocaml", "build.sh"))
        if all(os.path.exists(b) for b in bins):
            newest = max(os.path.getmtime(x) for x in srcs)
            if min(os.path.getmtime(b) for b in bins) >= newest:
                return True, ""
        # the extraction needs the (proof-free) models only, so it still works when a proof is broken
        models = []
        for sub in ("Base", "Lib", "Kernel"):
            d = os.path.join(COQ, "theories", sub)
            for f in sorted(os.listdir(d)):
                if f.endswith(".v") and f != "StrFacts.v":
                    models.append("theories/%s/%s" % (sub, f[:-2] + ".vo"))
        ok, log = coq_make(["theories/Params.vo"] + models)
        if not ok:
            return False, log[-3000:]
        rc, out, err = run(["sh", os.path.join(ROOT, "ocaml", "build.sh")], timeout=timeout)
        return rc == 0, (out + err)[-3000:]


# ------------------------------------------------------------------ known findings

def load_known():
    """known_findings.txt: lines `known: property=Cxx id=<Fi> match=<regex on the failure signature> <text>`
    and `fixed: property=Cxx <commit> <what failed>` (a fixed entry suppresses nothing)."""
    known = []
    p = os.path.join(ROOT, "known_findings.txt")
    if os.path.exists(p):
        for line in open(p, encoding="utf-8"):
            line = line.strip()
            m = re.match(r"known:\s+property=(\S+)\s+id=(\S+)\s+match=/(.*?)/\s+(.*)$", line)
            if m:
                known.append({"property": m.group(1), "id": m.group(2), "re": re.compile(m.group(3)),
                              "text": m.group(4)})
    return known


# ------------------------------------------------------------------------- verdicts

class Check:
    """Accumulates what one run of one property's check did, and renders verdict + evidence."""

    def __init__(self, pid, tier, seed):
        self.pid = pid
        self.tier = tier
        self.seed = seed
        self.t0 = time.time()
        self.cov = {"obligations": 0, "discharged": 0,
                    "checker_cmd": "coq_makefile -f coq/_CoqProject && make (full .vo) ; coqc -Q theories SP theories/Props/%s.v (Print Assumptions compared with the allow-list)" % pid,
                    "trusted_base": [], "evaluations": 0, "distinct_nontrivial": 0, "rule": "",
                    "samples": [], "traces_validated_against_impl": 0}
        self.assumptions = []
        self.violations = []      # (signature, replay text)
        self.broken = []          # ties/obligations that no longer check (strings)
        self.known_hits = {}
        self.notes = []
        self.known = [k for k in load_known() if k["property"] == pid]

    def note(self, s):
        self.notes.append(s)
        print("[%s] %s" % (self.pid, s), flush=True)

    def obligations(self, pr):
        self.cov["obligations"] = pr["obligations"]
        self.cov["discharged"] = pr["discharged"]
        self.cov["theorems"] = [{"name": n, "closed_under_global_context": c and not a, "axioms": a}
                                for (n, c, a) in pr["theorems"]]
        if pr.get("coqchk"):
            self.cov["coqchk"] = pr["coqchk"]
        if not pr["ok"]:
            self.broken.append(pr["failed"] or "proof obligations of %s" % self.pid)
            self.note("PROOF OBLIGATION BROKEN: %s" % pr["failed"])
            self.note(pr["log"][-1500:])
        else:
            self.note("proof obligations: %d/%d discharged, all closed under the global context"
                      % (pr["discharged"], pr["obligations"]))

    def tie_broken(self, what):
        self.broken.append(what)
        self.note("TIE BROKEN: %s" % (what if len(what) < 1500 else what[:1500] + " ..."))

    def violation(self, signature, replay_text):
        """A monitor failed on the real code.  Matched against the known findings first."""
        for k in self.known:
            if k["re"].search(signature):
                self.known_hits.setdefault(k["id"], (k, signature))
                return
        self.violations.append((signature, replay_text))

    def finish(self):
        os.makedirs(EVID, exist_ok=True)
        os.makedirs(REPLAY, exist_ok=True)
        rc = 0
        for kid, (k, sig) in sorted(self.known_hits.items()):
            print("KNOWN-FINDING: property=%s %s %s" % (self.pid, kid, k["text"]), flush=True)
        nviol = 0
        if self.violations:
            # the smallest failing case is the replay (poor man's shrinking: generators emit small cases too)
            sig, txt = min(self.violations, key=lambda v: (len(v[1]), v[1]))
            h = hashlib.sha1((sig + txt).encode("utf-8", "replace")).hexdigest()[:10]
            path = os.path.join(REPLAY, "%s-%s.replay" % (self.pid, h))
            with open(path, "w", encoding="utf-8") as f:
                f.write("# property=%s tier=%s seed=%d\n# %s\n%s\n" % (self.pid, self.tier, self.seed, sig, txt))
            for s, _ in self.violations[:10]:
                self.note("violation: %s" % s)
            print("VIOLATION property=%s replay=%s" % (self.pid, path), flush=True)
            nviol = len(self.violations)
            rc = 1
        elif self.broken:
            txt = "\n".join(self.broken)
            h = hashlib.sha1(txt.encode("utf-8", "replace")).hexdigest()[:10]
            path = os.path.join(REPLAY, "%s-%s.replay" % (self.pid, h))
            with open(path, "w", encoding="utf-8") as f:
                f.write("# property=%s tier=%s seed=%d\n# no failing input found; the following no longer checks:\n%s\n"
                        % (self.pid, self.tier, self.seed, txt))
            print("VIOLATION property=%s replay=%s no-failing-input-found" % (self.pid, path), flush=True)
            nviol = 1
            rc = 1
        ev = {"property_id": self.pid, "tier": self.tier, "seed": self.seed, "level": "proof",
              "coverage": self.cov, "assumptions": self.assumptions, "wall_s": round(time.time() - self.t0, 2),
              "violations": nviol, "notes": self.notes[-40:],
              "known_findings_hit": sorted(self.known_hits.keys())}
        tmp = os.path.join(EVID, self.pid + ".json.tmp")
        with open(tmp, "w", encoding="utf-8") as f:
            json.dump(ev, f, indent=1, ensure_ascii=True)
        os.replace(tmp, os.path.join(EVID, self.pid + ".json"))
        print("[%s] %s tier=%s seed=%d wall=%.1fs evaluations=%d" % (
            self.pid, "OK" if rc == 0 else "FAIL", self.tier, self.seed, time.time() - self.t0,
            self.cov.get("evaluations", 0)), flush=True)
        return rc


BASE_TRUSTED = [
    "Coq 8.16.1 kernel (coqc, full .vo build); vm_compute used for finite sweeps and case evaluation; native_compute not used",
    "axioms: none (every property theorem prints 'Closed under the global context')",
    "tools/params.py (constants translator) and the check orchestrator (tools/*.py)",
]


# ------------------------------------------------------------------------ encodings

def enc_units(us):
    return ".".join(str(u) for u in us) if us else "-"


def dec_units(w):
    return [] if w == "-" else [int(x) for x in w.split(".")]


def enc_argv(argv):
    return ",".join(enc_units(w) for w in argv)


def dec_argv(a):
    return [dec_units(w) for w in a.split(",")]


def coq_str(us):
    return "[" + ";".join(str(u) for u in us) + "]"


def coq_strs(ws):
    return "[" + ";".join(coq_str(w) for w in ws) + "]"
