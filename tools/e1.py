"""Engine E1, orchestration side: scenario generation, running simdrive+spsim, parsing the reports
and the property monitors for the communicate family (C01-C04) and the Popen family (C09-C11)."""
import os
import shutil
import tempfile
from concurrent.futures import ThreadPoolExecutor

import common as C

PIPE_BUF = 4096
CHUNK = 4096
MS = 1_000_000


def pat(salt, i):
    return (salt * 97 + i * 131 + (i // 256) * 31 + (i // 65536) * 7) & 255


def pat_bytes(salt, start, ln):
    return bytes(pat(salt, start + i) for i in range(ln))


def dec_data(s):
    if s in ("none", "-"):
        return b""
    if s.startswith("p"):
        a, b, c = (int(x) for x in s[1:].split(":"))
        return pat_bytes(a, b, c)
    return bytes(C.dec_units(s))


# ------------------------------------------------------------------ scenario generation (comm)

SIZES = [0, 1, 2, CHUNK - 1, CHUNK, CHUNK + 1, 100, 777, 3000, 5000, 9000]


def gen_comm(r, sid, klass=None, with_limits=False, with_time=False, big=False):
    """Returns the scenario as a dict; `text` is the block for simdrive."""
    pi = r.chance(2, 3)
    po = r.chance(3, 4)
    pe = r.chance(1, 2)
    if not (pi or po or pe):
        po = True
    caps = [r.choice([4096, 8192, 65536]) for _ in range(3)]
    cap_boundary = [caps[0] - 1, caps[0], caps[0] + 1, 3 * caps[0] + 7]
    inlen = r.choice(SIZES + cap_boundary) if pi else 0
    if big and pi:
        inlen = r.choice([200000, 70000, 131072 + 5])
    klass = klass or r.choice(["echo", "readall_then_write", "write_then_read", "close_stdin_early", "never_read",
                               "flood", "trickle", "exit_full", "interleave", "silent"])
    ops = []
    nout = [0]
    nerr = [0]

    def w(stream, n):
        if n <= 0:
            return
        if stream == "o":
            ops.append("wo:p2:%d:%d" % (nout[0], n))
            nout[0] += n
        else:
            ops.append("we:p3:%d:%d" % (nerr[0], n))
            nerr[0] += n

    def reads_to_eof(chunk):
        # enough read() calls to drain the input (short reads included), but never more than ~300 ops
        chunk = max(chunk, inlen // 150 + 1)
        for _ in range(2 * (inlen // chunk) + 6):
            ops.append("r%d" % chunk)

    outlen = r.choice(SIZES + [caps[1] - 1, caps[1], caps[1] + 1, 3 * caps[1] + 7])
    errlen = r.choice(SIZES[:8] + [caps[2] + 1])
    if big:
        outlen = r.choice([150000, 66000])
    rc = r.choice([1, 100, 4096, 65536])
    if klass == "echo":
        lag = r.choice([1, 3, 8])
        left_o, left_e, step = outlen, errlen, r.choice([512, 4096, 10000])
        rc = max(rc, inlen // 150 + 1)
        for i in range(max(1, (inlen + rc - 1) // rc) + 2):
            ops.append("r%d" % rc)
            if i >= lag or True:
                n = min(step, left_o)
                w("o", n)
                left_o -= n
            if r.chance(1, 3):
                n = min(step // 2 + 1, left_e)
                w("e", n)
                left_e -= n
        w("o", left_o)
        w("e", left_e)
        reads_to_eof(65536)
    elif klass == "readall_then_write":
        reads_to_eof(rc)
        w("o", outlen)
        w("e", errlen)
    elif klass == "write_then_read":
        w("o", outlen)
        w("e", errlen)
        reads_to_eof(rc)
    elif klass == "close_stdin_early":
        if r.chance(1, 2):
            ops.append("r%d" % rc)
        if r.chance(1, 2):
            ops.append("s%d" % r.choice([1000, 300000, 5 * MS]))
        ops.append("ci")
        w("o", outlen)
        w("e", errlen)
        if r.chance(1, 2):
            ops.append("s%d" % r.choice([1000, 2 * MS]))
    elif klass == "never_read":
        w("o", outlen)
        ops.append("s%d" % r.choice([1000, 3 * MS, 50 * MS]))
        w("e", errlen)
    elif klass == "flood":
        for _ in range(r.choice([5, 10, 20])):
            w("o", r.choice([4096, 16384, 30000]))
            if r.chance(1, 4):
                w("e", 1000)
    elif klass == "trickle":
        for _ in range(r.choice([3, 8, 20])):
            w(r.choice(["o", "o", "e"]), r.choice([1, 10, 500]))
            ops.append("s%d" % r.choice([100, 50000, MS, 7 * MS]))
        reads_to_eof(rc)
    elif klass == "exit_full":
        w("o", min(outlen, caps[1]))
        w("e", min(errlen, caps[2]))
        ops.append("x")
    elif klass == "interleave":
        lo, le = outlen, errlen
        while lo > 0 or le > 0:
            n = min(lo, r.choice([1, 100, 4096, 5000]))
            w("o", n)
            lo -= n
            n = min(le, r.choice([1, 100, 4096]))
            w("e", n)
            le -= n
            if r.chance(1, 5):
                ops.append("r%d" % rc)
        if r.chance(1, 2):
            ops.append("co")
            ops.append("s%d" % (2 * MS))
        reads_to_eof(rc)
    elif klass == "utf8":
        # text for the text-returning variants: valid characters of every length, characters cut short, invalid
        # bytes, in any order, cut anywhere by the child's write sizes (and by limit_size below)
        frags = [b"a", b"xyz ", b"\xc3\xa9", b"\xe2\x82\xac", b"\xf0\x9f\x98\x80", b"\xe2\x82", b"\xe2", b"\xf0\x9f\x98", b"\xf0\x9f",
                 b"\xf0", b"\xc3", b"\xff", b"\x80", b"\xc0\x80", b"\xed\xa0\x80", b"\xf4\x90\x80\x80", b"\xe0\x80\x80", b"\n", b"\x00"]
        for stream in ("o", "e"):
            data = b"".join(r.choice(frags) for _ in range(r.choice([1, 2, 5, 20, 60])))
            pos = 0
            while pos < len(data):
                n = r.choice([1, 2, 3, 5, 50])
                ops.append("w%s:%s" % (stream, C.enc_units(list(data[pos:pos + n]))))
                pos += n
            if stream == "o":
                nout[0] += len(data)
            else:
                nerr[0] += len(data)
        reads_to_eof(rc)
    else:  # silent
        ops.append("s%d" % r.choice([10 * MS, 200 * MS, 5000 * MS]))
        if r.chance(1, 2):
            w("o", 10)
    if r.chance(1, 6):
        ops.append(r.choice(["co", "ce", "ci"]))
    if r.chance(1, 8):
        ops.append("s%d" % r.choice([1000, MS]))
    nch = r.choice([0, 8, 40, 200])
    choices = []
    for _ in range(nch):
        k = r.below(10)
        choices.append(0 if k < 5 else (r.below(8) if k < 8 else r.choice([1, 7, 100, 4095, 4097, 70000])))
    # history of reads
    reads = []
    total = nout[0] + nerr[0]
    if with_limits:
        lims = [1, 2, CHUNK - 1, CHUNK, CHUNK + 1, max(1, total - 1), max(1, total), total + 1, 10, 1000]
        for _ in range(r.choice([2, 3, 5, 9])):
            reads.append(["b", str(r.choice(lims)) if r.chance(3, 4) else "-", "-"])
        reads.append(["b", str(total + inlen + 10), "-"])
        reads.append(["b", "-", "-"])
    if with_time:
        tls = [0, 1, 999_000, MS, 50 * MS, 3000 * MS, (2 ** 31 - 1) * MS, (2 ** 31) * MS, 30 * 86400 * 1000 * MS, (2 ** 32 + 300) * MS, (2 ** 33 + 500) * MS]
        n = r.choice([1, 2, 4])
        extra = []
        for _ in range(n):
            extra.append(["b", str(r.choice([1, CHUNK, 100000])) if (with_limits and r.chance(1, 2)) else "-", str(r.choice(tls))])
        reads = extra + reads
        if not with_limits:
            reads.append(["b", "-", str(r.choice(tls[4:]))])
    if klass == "utf8":
        # the text-returning variants only; read_string() also under a size limit that cuts characters
        if r.chance(1, 2):
            reads = [[r.choice(["S", "s"]), "-", "-"]]
        else:
            reads = [["s", str(r.choice([1, 2, 3, 4, 7])), "-"] for _ in range(r.choice([2, 5, 12]))] + [["s", "-", "-"]]
    if not reads:
        mode = r.choice(["b", "b", "s", "B", "S"])
        reads = [[mode, "-", "-"]]
    inp = "none"
    if pi:
        salt = 1
        inp = "p%d:0:%d" % (salt, inlen)
        if reads[0][0] == "S":
            # communicate(&str): the input must be valid UTF-8
            inp = C.enc_units([65 + (i * 7) % 26 for i in range(min(inlen, 3000))])
            inlen = min(inlen, 3000)
    # a signal handler of the caller interrupts the k-th poll() of the exchange (EINTR): the read reports that error
    # (never a timeout, never a longer wait) and a later read resumes
    intr = r.choice([1, 2, 3, 6]) if r.chance(1, 5) else 0
    if intr:
        reads = reads + [["b", "-", reads[-1][2] if reads[-1][2] != "-" and with_time else "-"], ["b", "-", "-"]]
    # ... or the k-th read(2) that has to block (a single captured stream is read without poll): an error, not end-of-file
    intr_read = r.choice([1, 2]) if (r.chance(1, 4) and (pi, po, pe).count(True) == 1 and not pi) else 0
    if intr_read and not intr:
        reads = reads + [["b", "-", "-"], ["b", "-", "-"]]
    work = inlen + nout[0] + nerr[0]
    maxcalls = 4 * (work // 1 if work < 3000 else work // 64) + 40 * len(ops) + 4000 + 400 * len(reads)
    text = "\n".join([
        "scn %s" % sid,
        "comm %d %d %d %d %d %d %d %d" % (pi, po, pe, caps[0], caps[1], caps[2], intr, intr_read),
        "input %s" % inp,
        "prog %s" % (";".join(ops) if ops else "-"),
        "choices %s" % (",".join(str(c) for c in choices) if choices else "-"),
        "maxcalls %d" % maxcalls,
        "reads %s" % ";".join(":".join(x) for x in reads),
    ])
    return {"id": sid, "kind": "comm", "klass": klass, "piped": (pi, po, pe), "caps": caps, "input": inp, "inlen": inlen,
            "ops": ops, "reads": reads, "text": text, "nout": nout[0], "nerr": nerr[0], "intr": intr}


# ------------------------------------------------------------------ scenario generation (popen)

def gen_popen(r, sid, focus=None):
    exit_kind = r.choice(["code", "code", "signal", "core", "never"])
    if exit_kind == "code":
        code = r.choice([0, 1, 2, 127, 255, r.below(256)])
        raw = code << 8
        expect = "exited:%d" % code
    elif exit_kind in ("signal", "core"):
        sig = r.choice([1, 2, 6, 9, 11, 13, 15, 1 + r.below(64)])
        raw = sig | (128 if exit_kind == "core" else 0)
        expect = "signaled:%d" % sig
    else:
        raw, expect = 0, None
    durs = [0, 1, 999_000, MS, 7 * MS, 100 * MS, 1000 * MS, 20 * 1000 * MS]
    if focus == "hour":
        durs = [3600 * 1000 * MS]
    if focus == "long":
        # days and weeks: only with a child that exits soon (a 26-day wait on a live child is 22 million iterations;
        # that regime is covered by the theorem, which is for every d)
        durs = [86400 * 1000 * MS, 26 * 86400 * 1000 * MS]
        if exit_kind == "never":
            exit_kind, raw, expect = "code", 3 << 8, "exited:3"
    te = None
    if exit_kind != "never":
        te = r.choice([0, 500_000, MS, 3 * MS, 7 * MS, 15 * MS, 40 * MS, 100 * MS, 163 * MS, 500 * MS, 2000 * MS, 10 ** 10])
        if focus == "long":
            te = r.choice([0, 7 * MS, 163 * MS, 2000 * MS])
    reap = None
    if te is not None and r.chance(1, 5):
        reap = te + r.choice([0, 1000, MS, 50 * MS])
    dies = r.chance(1, 2)
    names = []
    n = r.choice([1, 3, 6, 12, 30])
    # "for all signal numbers": also numbers no signal has (the kernel refuses them; what is passed must be the number given)
    pool = ["poll", "poll", "pid", "status", "term", "kill", "sig%d" % r.choice([0, 1, 2, 10, 15, 19, 1 + r.below(64), 271, 265, 65537, 300, 4096 + 9]),
            "detach"] + ["wt%d" % r.choice(durs) for _ in range(3)]
    for _ in range(n):
        names.append(r.choice(pool))
    if focus == "wt":
        names = ["wt%d" % r.choice(durs) for _ in range(r.choice([1, 2, 3]))] + names[:3]
    # a blocking wait only when the child is going to exit (or a fatal signal was sent: then it dies)
    if te is not None and r.chance(1, 2):
        names.insert(r.below(len(names) + 1), "wait")
    if r.chance(1, 3):
        names.append("drop" if (te is not None) else "detach")
    nch = r.choice([0, 10, 60])
    choices = [r.choice([0, 0, 1, 3, 4, 8, 49, 1000, 2999]) for _ in range(nch)]
    # a one-hour wait makes 36000 iterations of 4 calls
    longest = max([int(x[2:]) for x in names if x.startswith("wt")] + [0])
    maxcalls = 2000 + 60 * len(names) + 5 * (longest // (100 * MS) + 40) * max(1, sum(1 for x in names if x.startswith("wt")))
    # weeks: the caller is not scheduled for 25 days during one of the sleeps of a 26-30 day wait (any schedule),
    # the child exits shortly afterwards
    big = (0, 0)
    if focus == "weeks":
        days = 86400 * 1000 * MS
        d = r.choice([26, 27, 30]) * days
        names = ["wt%d" % d] + r.choice([[], ["poll"], ["status", "pid"]])
        exit_kind, raw, expect = "code", 5 << 8, "exited:5"
        te = 25 * days + r.choice([2000 * MS, 10 * 1000 * MS])
        reap, dies = None, False
        big = (r.choice([1, 2, 4, 7]), 25 * 86400)
        maxcalls = 20000
    # a signal handler of the caller interrupts the k-th blocking waitpid (EINTR): an error, never a status
    intr = 0
    if "wait" in names and r.chance(1, 4):
        intr = 1
    text = "\n".join([
        "scn %s" % sid,
        "popen %s %d %s %d %d %d %d" % ("never" if te is None else te, raw, "never" if reap is None else reap, dies, intr, big[0], big[1]),
        "choices %s" % (",".join(str(c) for c in choices) if choices else "-"),
        "maxcalls %d" % maxcalls,
        "ops %s" % ";".join(names),
    ])
    return {"id": sid, "kind": "popen", "te": te, "raw": raw, "expect": expect, "reap": reap, "dies": dies,
            "names": names, "text": text, "intr": intr}


# ------------------------------------------------------------------ running

SHARD_TIMEOUT = 240      # a shard of a few dozen scenarios takes well under two minutes
SINGLE_TIMEOUT = 25      # one scenario alone: a fraction of a second


def run_batch(scns, tag):
    """Runs the scenarios through simdrive+spsim, 16 processes; returns {id: (driver lines, report lines, rc, stderr)}.
    A shard that does not finish (the real library spinning or blocked for good) is re-run one scenario per process
    under a short watchdog, so that the scenario in which the library never returns is identified; it is reported with
    rc = 'hang'."""
    d = tempfile.mkdtemp(prefix="e1-%s-" % tag, dir=C.BUILD)
    nsh = min(16, max(1, len(scns) // 4))
    shards = [scns[i::nsh] for i in range(nsh)]

    def budget(items, base):
        # a scenario may legitimately make very many calls (an hour-long wait_timeout is 36 000 loop iterations):
        # the watchdog allows for the calls the scenario itself says it may make
        n = 0
        for it in items:
            for ln in it["text"].splitlines():
                if ln.startswith("maxcalls "):
                    n += int(ln.split()[1])
        return min(base + n // 4000, 1500)

    def drive(name, items, timeout):
        sf = os.path.join(d, "s%s.scn" % name)
        rf = os.path.join(d, "r%s.txt" % name)
        with open(sf, "w") as f:
            f.write("\n\n".join(s["text"] for s in items) + "\n")
        rc, out, err = C.run([os.path.join(C.BIN, "simdrive"), sf, os.path.join(C.ROOT, "ocaml", "bin", "spsim"), rf],
                             timeout=timeout)
        rep = open(rf, errors="replace").read() if os.path.exists(rf) else ""
        return rc, out, err, rep

    res = {}

    def collect(items, rc, out, err, rep):
        drv = split_blocks(out, "scn ", "endscn")
        rp = split_blocks(rep, "scn ", "endscn")
        for s in items:
            res[s["id"]] = (drv.get(s["id"]), rp.get(s["id"]), rc, err[-500:])

    try:
        with ThreadPoolExecutor(max_workers=nsh) as ex:
            outs = list(ex.map(lambda i: drive(str(i), shards[i], budget(shards[i], SHARD_TIMEOUT)), range(nsh)))
        stuck = []
        for i, (rc, out, err, rep) in enumerate(outs):
            if rc == 124:
                stuck += shards[i]
            else:
                collect(shards[i], rc, out, err, rep)
        if stuck:
            with ThreadPoolExecutor(max_workers=16) as ex:
                singles = list(ex.map(lambda js: drive("x%d" % js[0], [js[1]], budget([js[1]], SINGLE_TIMEOUT)), enumerate(stuck)))
            for s, (rc, out, err, rep) in zip(stuck, singles):
                if rc == 124:
                    drv = split_blocks(out, "scn ", "endscn")
                    rp = split_blocks(rep, "scn ", "endscn")
                    res[s["id"]] = (drv.get(s["id"]), rp.get(s["id"]), "hang", err[-300:])
                else:
                    collect([s], rc, out, err, rep)
    finally:
        shutil.rmtree(d, ignore_errors=True)
    return res


def split_blocks(text, start, end):
    blocks = {}
    cur = None
    for ln in text.splitlines():
        if ln.startswith(start):
            cur = ln[len(start):].strip()
            blocks[cur] = []
        elif cur is not None:
            blocks[cur].append(ln)
            if ln.startswith(end):
                cur = None
    return blocks


def kv(line):
    d = {}
    for tok in line.split(" "):
        if "=" in tok:
            k, v = tok.split("=", 1)
            d[k] = v
    return d


def units_bytes(s):
    if s in ("none", "?"):
        return None
    return bytes(C.dec_units(s))


# ------------------------------------------------------------------ monitors (comm)

def monitors_comm(s, drv, rep):
    """Judges what the REAL code did in one scenario, independently of L.
    Returns (failures {prop: [text]}, divergence or None, facts)."""
    fails = {"C01": [], "C02": [], "C03": [], "C04": []}
    if drv is None or rep is None:
        return fails, "E1: scenario produced no report (driver crashed?)", {}
    verdict = {}
    world = {}
    reads = []
    div = None
    for ln in rep:
        if ln.startswith("verdict "):
            verdict = kv(ln)
            verdict["v"] = ln.split(" ")[1]
        elif ln.startswith("world "):
            world = kv(ln)
        elif ln.startswith("read "):
            reads.append(kv(ln))
        elif ln.startswith("div "):
            div = ln[4:]
    hang = any(l.startswith("hang") for l in drv)
    panic = any(l.startswith("panic") for l in drv)
    strbad = any(l.startswith("retstr") and "lossy_equal=0" in l for l in drv)
    v = verdict.get("v", "?")
    facts = {"verdict": v, "reads": len(reads), "hang": hang}
    if v == "deadlock":
        fails["C01"].append("DEADLOCK: parent blocked in a call while the child cannot move")
    if v == "fuel" or hang:
        fails["C01"].append("HANG: the call did not finish within the step bound (%s)" % ("driver" if hang else "kernel fuel"))
    if panic:
        for k_ in fails:
            fails[k_].append("the library panicked inside the exchange (no result, input/EOF not delivered)")
    if v in ("deadlock", "fuel") or hang or panic:
        if s["piped"][0] and world.get("input_left") == "0" and world.get("pin_wr") == "true" and v == "deadlock":
            fails["C02"].append("the whole input was written but stdin was never closed: the child waits for end-of-file forever")
        return fails, div, facts
    inp = dec_data(s["input"]) if s["piped"][0] else b""
    wrote_out = units_bytes(world.get("wrote_out", "-")) or b""
    wrote_err = units_bytes(world.get("wrote_err", "-")) or b""
    got = units_bytes(world.get("child_got", "-")) or b""
    outs = b""
    errs = b""
    eff_lim, eff_tl = None, None
    for i, rd in enumerate(reads):
        spec = s["reads"][i] if i < len(s["reads"]) else ["b", "-", "-"]
        if spec[1] != "-":
            eff_lim = int(spec[1])
        if spec[2] != "-":
            eff_tl = int(spec[2])
        kind = rd["kind"]
        o = units_bytes(rd["out"])
        e = units_bytes(rd["err"])
        # Option-ness mirrors which streams were piped
        if kind in ("ok", "timedout") and rd["out"] != "?":
            if (o is not None) != s["piped"][1] or (e is not None) != s["piped"][2]:
                fails["C02"].append("read#%d: Option-ness of the result does not mirror the piped streams" % (i + 1))
        lo, le = len(o or b""), len(e or b"")
        outs += o or b""
        errs += e or b""
        if not wrote_out.startswith(outs):
            fails["C02"].append("read#%d: stdout bytes returned so far are not a prefix of what the child wrote (lost, duplicated, reordered or foreign bytes)" % (i + 1))
        if not wrote_err.startswith(errs):
            fails["C02"].append("read#%d: stderr bytes returned so far are not a prefix of what the child wrote" % (i + 1))
        co, ce = int(rd["consumed_out"]), int(rd["consumed_err"])
        if kind in ("ok", "timedout") and (co != lo or ce != le):
            fails["C03" if eff_lim is not None else "C02"].append(
                "read#%d: consumed %d+%d bytes from the pipes but returned %d+%d (data lost for later reads)" % (i + 1, co, ce, lo, le))
        if eff_lim is not None and kind in ("ok", "timedout") and lo + le > eff_lim:
            fails["C03"].append("read#%d: returned %d bytes with size limit %d" % (i + 1, lo + le, eff_lim))
        if kind == "ok" and lo + le == 0 and (eff_lim is None or eff_lim >= 1):
            eof_out = (not s["piped"][1]) or (rd["pout_wr"] == "false" and rd["pout_buf"] == "0")
            eof_err = (not s["piped"][2]) or (rd["perr_wr"] == "false" and rd["perr_buf"] == "0")
            if not (eof_out and eof_err):
                fails["C03"].append("read#%d: returned all-empty data although a captured stream has not reached end-of-file" % (i + 1))
        if s["piped"][0] and kind in ("ok", "timedout") and rd.get("pin_wr") == "false" and int(rd.get("written", len(inp))) < len(inp):
            which = "C03" if (eff_lim is not None and kind == "ok") else ("C04" if kind == "timedout" else "C02")
            fails[which].append("read#%d: stdin was closed with %d of %d input bytes still undelivered (a read cut short must leave the rest to later reads)" % (
                i + 1, len(inp) - int(rd["written"]), len(inp)))
        if int(rd.get("starved", 0)) > 0 and eff_lim is not None:
            fails["C03"].append("read#%d: cut short by the size limit, and %s time(s) poll() reported stdin writable with input pending without the library writing to it (the remaining input is not being delivered)" % (i + 1, rd["starved"]))
        if int(rd.get("starved", 0)) > 0:
            fails["C02"].append("read#%d: %s time(s) poll() reported stdin writable with input pending and the library polled again or returned without writing to it (input and its end-of-file withheld while output is being produced)" % (i + 1, rd["starved"]))
        t0, t1, dl = int(rd["t0"]), int(rd["t1"]), int(rd["deadline"])
        if kind == "timedout":
            if eff_tl is None:
                fails["C04"].append("read#%d: reported a timeout although no time limit was set" % (i + 1))
            elif t1 + MS <= dl:
                fails["C04"].append("read#%d: reported a timeout %d ns before the limit had elapsed" % (i + 1, dl - t1))
        if eff_tl is not None and t1 > dl + 2 * MS:
            fails["C04"].append("read#%d: returned %d ns after its time limit (limit %d ns)" % (i + 1, t1 - dl, eff_tl))
        if eff_tl is not None and int(rd["polls_after_deadline"]) > 1:
            fails["C04"].append("read#%d: %s poll() calls issued after the deadline" % (i + 1, rd["polls_after_deadline"]))
        if kind == "ok" and eff_lim is None:
            # an unlimited successful read returns only at end-of-file of everything captured
            if s["piped"][1] and not (rd["pout_wr"] == "false" and rd["pout_buf"] == "0"):
                fails["C02"].append("read#%d: unlimited read returned Ok before stdout reached end-of-file (truncated)" % (i + 1))
            if s["piped"][2] and not (rd["perr_wr"] == "false" and rd["perr_buf"] == "0"):
                fails["C02"].append("read#%d: unlimited read returned Ok before stderr reached end-of-file (truncated)" % (i + 1))
    if not inp.startswith(got):
        msg = "the child received bytes that are not a prefix of the supplied input (duplicated or reordered)"
        fails["C02"].append(msg)
        # an exchange resumed after a timeout / a size-limited read must continue exactly where it stopped
        if any(r_["kind"] == "timedout" for r_ in reads[:-1]):
            fails["C04"].append(msg + " after a read that timed out was resumed")
        if any((sp[1] != "-") for sp in s["reads"][:len(reads)]):
            fails["C03"].append(msg + " in an exchange of size-limited reads")
    last_ok_unlimited = bool(reads) and reads[-1]["kind"] == "ok" and eff_lim is None
    if s["piped"][0] and last_ok_unlimited:
        if world.get("pin_wr") != "false":
            fails["C02"].append("stdin was not closed although the exchange completed")
        lw, ca = world.get("last_write_at", "-"), world.get("closed_at", "-")
        if lw != "-" and ca != "-" and int(ca) - int(lw) > 200_000:
            fails["C02"].append("stdin closed %d ns after the last input byte was written (EOF not immediate)" % (int(ca) - int(lw)))
        if world.get("child_eof") == "true" and got != inp:
            fails["C02"].append("the child read to end-of-file but received %d of %d input bytes" % (len(got), len(inp)))
    if strbad:
        fails["C02"].append("text-returning variant differs from the lossy UTF-8 decoding of the byte result")
    facts.update({"out_bytes": len(outs), "err_bytes": len(errs), "timedout_reads": sum(1 for r_ in reads if r_["kind"] == "timedout"),
                  "kinds": [r_["kind"] for r_ in reads]})
    return fails, div, facts


# ------------------------------------------------------------------ monitors (popen)

def monitors_popen(s, drv, rep):
    fails = {"C09": [], "C10": [], "C11": []}
    if drv is None or rep is None:
        return fails, "E1: scenario produced no report (driver crashed?)", {}
    ops = []
    div = None
    pworld = {}
    v = "?"
    for ln in rep:
        if ln.startswith("op "):
            d = kv(ln)
            d["log"] = ln.split(" log=", 1)[1] if " log=" in ln else ""
            ops.append(d)
        elif ln.startswith("div "):
            div = ln[4:]
        elif ln.startswith("pworld "):
            pworld = kv(ln)
        elif ln.startswith("verdict "):
            v = ln.split(" ")[1]
    hang = any(l.startswith("hang") for l in drv)
    if any(l.startswith("panic") for l in drv):
        fails["C09"].append("the library panicked")
    facts = {"verdict": v, "ops": len(ops)}
    if hang:
        fails["C11"].append("HANG: operation did not finish within the call bound (busy-wait?)")
        return fails, div, facts
    te, reap, expect = s["te"], s["reap"], s["expect"]
    reported = None
    finished_at_op = None
    killed_at = None
    intr_seen = False
    bogus_report = False    # termination was "observed" while the child was alive and unreaped
    found_reaped = None     # index of the first query that ran a status check after somebody else had reaped the child
    for i, o in enumerate(ops):
        name, val = o["name"], o["value"]
        t0, t1, calls = int(o["t0"]), int(o["t1"]), int(o["calls"])
        log = o["log"].split()
        nwait = sum(1 for c in log if c.startswith("waitpid"))
        nsleep = sum(1 for c in log if c.startswith("sleep"))
        is_query = name in ("poll", "wait", "status") or name.startswith("wt")
        exit_time = te if killed_at is None else (min(te, killed_at) if te is not None else killed_at)
        if reported is not None:
            if calls != 0:
                fails["C09"].append("op#%d %s: %d system calls although the status %s was already known" % (i + 1, name, calls, reported))
            if is_query and val != reported:
                fails["C09"].append("op#%d %s returned %s after %s had been reported" % (i + 1, name, val, reported))
            if name == "pid" and val != "nopid":
                fails["C09"].append("op#%d pid() still present after the status was reported" % (i + 1))
            if name in ("term", "kill") or name.startswith("sig"):
                if val != "unit":
                    fails["C10"].append("op#%d %s after termination was observed returned %s instead of success" % (i + 1, name, val))
        else:
            if name == "pid" and val != "pid":
                fails["C09"].append("op#%d pid() absent although no status was reported yet" % (i + 1))
            if name == "status" and val != "none":
                fails["C09"].append("op#%d exit_status() = %s before any query observed termination" % (i + 1, val))
        if is_query and val not in ("none",) and not val.startswith("err:") and name != "status" and reported is None:
            # first report
            if val != "undetermined":
                want = expect if killed_at is None or (te is not None and te <= killed_at) else None
                if exit_time is None or t1 < exit_time:
                    fails["C09"].append("op#%d %s reported %s at t=%d while the child was still running" % (i + 1, name, val, t1))
                    bogus_report = True
                elif want is not None and val != want:
                    fails["C09"].append("op#%d %s reported %s but the child's real status is %s" % (i + 1, name, val, want))
            else:
                if reap is None:
                    fails["C09"].append("op#%d %s reported Undetermined although nobody else reaped the child" % (i + 1, name))
                    if exit_time is None or t1 < exit_time:
                        bogus_report = True
            reported = val
            finished_at_op = i
        if is_query and val.startswith("err:"):
            if val == "err:4" and s.get("intr") and "waitpid(0)" in o["log"] and not intr_seen:
                intr_seen = True          # the injected EINTR: an error is the right answer, the handle stays as it was
            else:
                fails["C09"].append("op#%d %s returned an error (%s)" % (i + 1, name, val))
        if is_query and name != "status" and found_reaped is None and reap is not None and nwait >= 1 and t0 >= reap:
            found_reaped = i
        # C10: signalling
        if (name in ("term", "kill") or name.startswith("sig")) and found_reaped is not None and reported is None:
            kills_ = [c for c in log if c.startswith("kill(")]
            if kills_ or val != "unit":
                fails["C10"].append("op#%d %s after op#%d had found the child reaped by someone else: sent %s, returned %s (expected no signal and success)" % (
                    i + 1, name, found_reaped + 1, kills_, val))
        if name in ("term", "kill") or name.startswith("sig"):
            want_sig = 15 if name == "term" else 9 if name == "kill" else int(name[3:])
            kills = [c for c in log if c.startswith("kill(")]
            if reported is None:
                if len(kills) != 1 or not kills[0].startswith("kill(%d)" % want_sig):
                    fails["C10"].append("op#%d %s while running issued %s instead of exactly kill(%d)" % (i + 1, name, kills, want_sig))
                elif s["dies"] and want_sig != 0 and killed_at is None and (te is None or t0 < te):
                    killed_at = int(kills[0].split("@")[1])
                    if te is None or killed_at < te:
                        expect_sig = "signaled:%d" % want_sig
                        expect = expect_sig
            elif bogus_report:
                if not kills:
                    fails["C10"].append("op#%d %s sent nothing and returned %s although the child is alive and was never reaped (it had only been %s)" % (
                        i + 1, name, val, reported))
            else:
                if kills:
                    fails["C10"].append("op#%d %s sent %s after termination had been observed" % (i + 1, name, kills))
        if any(c.startswith("FOREIGNKILL") for c in log):
            fails["C10"].append("op#%d %s sent a signal to a process other than the child: %s" % (
                i + 1, name, [c for c in log if c.startswith("FOREIGNKILL")]))
        # C11
        if name == "poll":
            if nsleep or nwait > 1 or val.startswith("err"):
                fails["C11"].append("op#%d poll(): %d waitpid, %d sleeps, value %s" % (i + 1, nwait, nsleep, val))
        if name.startswith("wt"):
            d = int(name[2:])
            # the bounds of theorems C11_wt_not_late / C11_wt_prompt_status with the scheduler's D = 50 us, O = 3 ms
            D_, O_ = 50_000, 3 * MS
            if val == "none":
                if t1 < t0 + d:
                    fails["C11"].append("op#%d wait_timeout(%d) reported 'still running' %d ns early" % (i + 1, d, t0 + d - t1))
                if t1 > t0 + d + 4 * D_ + O_:
                    fails["C11"].append("op#%d wait_timeout(%d) reported 'still running' %d ns late" % (i + 1, d, t1 - t0 - d))
                # the answer rests on a status check made no earlier than one call duration before the deadline
                if exit_time is not None and reap is None and exit_time + D_ <= t0 + d:
                    fails["C11"].append("op#%d wait_timeout(%d) reported 'still running' although the child had exited %d ns before the deadline (stale status check)"
                                        % (i + 1, d, t0 + d - exit_time))
            elif not val.startswith("err") and reported is not None and finished_at_op == i and exit_time is not None:
                if t1 > max(exit_time, t0 + D_) + 100 * MS + 3 * D_ + O_:
                    fails["C11"].append("op#%d wait_timeout(%d) reported the exit %d ns after it happened" % (i + 1, d, t1 - max(exit_time, t0)))
            if calls:
                bound = 8 + 2 + d // (100 * MS) + 1
                if nwait > bound:
                    fails["C11"].append("op#%d wait_timeout(%d) made %d status checks (bound %d)" % (i + 1, d, nwait, bound))
                # between two status checks there is a sleep
                seq = [c.split("(")[0] for c in log if c.startswith("waitpid") or c.startswith("sleep")]
                for a, b in zip(seq, seq[1:]):
                    if a == "waitpid" and b == "waitpid":
                        fails["C11"].append("op#%d wait_timeout(%d): two status checks without a sleep in between (spinning)" % (i + 1, d))
                        break
                if any(c.startswith("sleep(0ns)") for c in log):
                    fails["C11"].append("op#%d wait_timeout(%d): zero-length sleep" % (i + 1, d))
    ks = pworld.get("kills", "")
    # a kill that found the pid already reaped is the library's fault only once termination had been observed
    # (before that, an external reaper is invisible to it; the property speaks of observed termination)
    if reported is not None and finished_at_op is not None:
        t_obs = int(ops[finished_at_op]["t1"])
        late = [k for k in ks.split(",") if k.endswith("!") and int(k.rstrip("!").split("@")[1]) > t_obs]
        if late:
            fails["C10"].append("a signal was sent to the pid after the child had been reaped and its end observed: %s" % late)
    facts["kills"] = ks
    facts["values"] = [o["value"] for o in ops]
    return fails, div, facts
