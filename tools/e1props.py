"""Checks of the E1 family: C01-C04 (communicate) and C09-C11 (Popen state machine)."""
import os

import common as C
import e1

COMM = ("C01", "C02", "C03", "C04")
POPEN = ("C09", "C10", "C11")

PLAN = {
    # pid: (quick count, thorough count, generator kwargs cycle)
    "C01": (280, 12000, [dict(), dict(), dict(big=True), dict(with_limits=True), dict(klass="echo"), dict(klass="flood"), dict(klass="close_stdin_early"),
                         dict(with_time=True)]),
    "C02": (280, 12000, [dict(), dict(), dict(big=True), dict(klass="echo"), dict(klass="interleave"), dict(with_limits=True), dict(klass="utf8")]),
    "C03": (260, 12000, [dict(with_limits=True), dict(with_limits=True), dict(with_limits=True, klass="interleave"), dict(with_limits=True, with_time=True)]),
    "C04": (260, 12000, [dict(with_time=True), dict(with_time=True, klass="flood"), dict(with_time=True, klass="silent"), dict(with_time=True, klass="trickle"),
                         dict(with_time=True, with_limits=True), dict(with_time=True, klass="close_stdin_early")]),
    "C09": (300, 15000, [None, None, "wt"]),
    "C10": (300, 15000, [None]),
    "C11": (300, 15000, ["wt", "wt", None, "long", "wt", None, "wt", "long", "wt", "wt", None, "hour", "weeks"]),
}

DEPS = {
    "C01": ["theories/Proofs/CommThms.vo", "theories/Proofs/WinCommProofs.vo"], "C02": ["theories/Proofs/CommThms.vo", "theories/Proofs/WinCommProofs.vo"],
    "C03": ["theories/Proofs/CommThms.vo", "theories/Proofs/WinCommProofs.vo"],
    "C04": ["theories/Proofs/CommThms.vo", "theories/Proofs/CommTime.vo", "theories/Proofs/WinCommProofs.vo"],
    "C09": ["theories/Proofs/PopenProofs.vo", "theories/Proofs/StatusProofs.vo", "theories/Proofs/JobCtlProofs.vo"],
    "C10": ["theories/Proofs/PopenProofs.vo", "theories/Proofs/JobCtlProofs.vo"], "C11": ["theories/Proofs/PopenProofs.vo"],
}


def gen(pid, r, n, prefix):
    scns = []
    cyc = PLAN[pid][2]
    for i in range(n):
        kw = cyc[i % len(cyc)]
        sid = "%s%d" % (prefix, i)
        if pid in COMM:
            scns.append(e1.gen_comm(r, sid, **kw))
        else:
            scns.append(e1.gen_popen(r, sid, focus=kw))
    return scns


def corpus(pid):
    d = os.path.join(C.ROOT, "corpus", pid)
    scns = []
    if os.path.isdir(d):
        for f in sorted(os.listdir(d)):
            if f.endswith(".scn"):
                scns += load_scn_file(os.path.join(d, f), "corpus-" + f[:-4] + "-")
    return scns


def load_scn_file(path, prefix=""):
    scns = []
    text = open(path, encoding="utf-8").read()
    for block in text.split("\n\n"):
        lines = [l for l in block.splitlines() if l.strip() and not l.startswith("#")]
        if not lines or not lines[0].startswith("scn "):
            continue
        d = {"id": prefix + lines[0][4:].strip(), "ops": [], "names": [], "reads": [["b", "-", "-"]], "input": "none",
             "piped": (False, False, False), "te": None, "reap": None, "raw": 0, "expect": None, "dies": False, "klass": "corpus"}
        for l in lines[1:]:
            k, _, v = l.partition(" ")
            if k == "comm":
                p = v.split()
                d["kind"] = "comm"
                d["piped"] = (p[0] == "1", p[1] == "1", p[2] == "1")
                d["caps"] = [int(x) for x in p[3:6]]
                d["intr"] = int(p[6]) if len(p) > 6 else 0
            elif k == "popen":
                p = v.split()
                d["kind"] = "popen"
                d["te"] = None if p[0] == "never" else int(p[0])
                d["raw"] = int(p[1])
                d["reap"] = None if p[2] == "never" else int(p[2])
                d["dies"] = p[3] == "1"
                d["intr"] = int(p[4]) if len(p) > 4 else 0
                raw = d["raw"]
                d["expect"] = None if d["te"] is None else ("exited:%d" % (raw >> 8) if raw & 127 == 0 else "signaled:%d" % (raw & 127))
            elif k == "input":
                d["input"] = v
            elif k == "prog":
                d["ops"] = [] if v == "-" else v.split(";")
            elif k == "reads":
                d["reads"] = [x.split(":") for x in v.split(";")]
            elif k == "ops":
                d["names"] = v.split(";")
        lines[0] = "scn " + d["id"]
        d["text"] = "\n".join(lines)
        scns.append(d)
    return scns


def judge(pid, scns, res, chk, stats):
    for s in scns:
        drv, rep, rc, err = res.get(s["id"], (None, None, 1, ""))
        if rc == "hang":
            # the real library neither returned nor made a system call for SINGLE_TIMEOUT seconds of wall time
            stats["n"] += 1
            stats["div"].append((s, "E1: the library never returned in scenario %s (watchdog)" % s["id"]))
            chk.violation("[%s %s] HANG: the call never returned and issued no further system call for %d s of wall time (busy loop or blocked for good)" % (
                s["id"], s.get("klass", ""), e1.SINGLE_TIMEOUT), s["text"])
            continue
        if s["kind"] == "comm":
            fails, div, facts = e1.monitors_comm(s, drv, rep)
        else:
            fails, div, facts = e1.monitors_popen(s, drv, rep)
        stats["n"] += 1
        stats["klass"][s.get("klass", "popen")] = stats["klass"].get(s.get("klass", "popen"), 0) + 1
        if div:
            stats["div"].append((s, div))
        for f in fails.get(pid, []):
            chk.violation("[%s %s] %s" % (s["id"], s.get("klass", ""), f), s["text"])
        stats["facts"].append((s, facts))


def run(chk, tier, pid, explicit=None):
    r = C.Rng(chk.seed * 1000003 + int(pid[1:]))
    chk.cov["trusted_base"] = C.BASE_TRUSTED + [
        "harness/src/bin/simdrive.rs: libc interposers (read write close fcntl poll clock_gettime nanosleep clock_nanosleep waitpid kill), fake descriptors, virtual clock",
        "ocaml/src/spsim.ml main loop; extraction (ExtrOcamlBasic only) of Kernel/CommK.v, Kernel/CommSim.v, Lib/Comm.v, Lib/PopenSM.v",
        "K (Kernel/CommK.v, PopenSM.pworld) is a model of Linux pipe/poll/wait semantics: validated, not proved",
        "std: File::read/write = one read/write call, Instant::now = clock_gettime(MONOTONIC), thread::sleep sleeps at least the request",
    ]
    pr = C.props_check(pid, DEPS[pid])
    chk.obligations(pr)
    ok, log = C.build_harness()
    if not ok:
        chk.tie_broken("harness does not build against /repo: " + log[-800:])
        return
    ok, log = C.build_ocaml()
    if not ok:
        chk.tie_broken("extraction / OCaml build failed: " + log[-800:])
        return
    n = PLAN[pid][0] if tier == "quick" else PLAN[pid][1]
    stats = {"n": 0, "div": [], "klass": {}, "facts": []}
    if explicit is not None:
        scns = explicit
    else:
        scns = corpus(pid) + gen(pid, r, n, pid.lower() + "-")
    res = e1.run_batch(scns, pid)
    judge(pid, scns, res, chk, stats)
    if stats["div"] and not chk.violations and explicit is None:
        # the model and the code part ways: search for a concrete failing input before giving up
        s0, d0 = stats["div"][0]
        chk.note("divergence: %s -- searching for a failing input" % d0)
        more = gen(pid, r.fork(), 5 * n if tier == "quick" else n, pid.lower() + "-search-")
        res2 = e1.run_batch(more, pid + "s")
        judge(pid, more, res2, chk, stats)
    if stats["div"]:
        s0, d0 = stats["div"][0]
        chk.tie_broken("%s  (%d of %d scenarios diverge; first scenario %s)\n%s" % (d0, len(stats["div"]), stats["n"], s0["id"], s0["text"]))
    chk.cov["evaluations"] = stats["n"]
    chk.cov["traces_validated_against_impl"] = stats["n"] - len(stats["div"])
    if pid in ("C01", "C02", "C03", "C04") and explicit is None:
        # the cfg(windows) thread-based communicator, same properties, its own model (Lib/WinComm.v)
        import wincomm
        wincomm.run_part(chk, pid, tier)
    if pid == "C10" and explicit is None:
        # real children started with every combination of setpgid / detached: which kill(2) calls the signalling methods make
        import pipeprops
        pipeprops.c10_real(chk, tier)
    if pid == "C09" and explicit is None:
        # real children that exit with every code / die of every fatal signal: the reported status against the cause
        # and against Lib/Status.v on the raw status the kernel returned
        import pipeprops
        pipeprops.c09_real(chk, tier)
    if pid == "C01" and explicit is None:
        # the same exchange with real processes and real pipes (capture / communicate of commands and pipelines):
        # the kernel model's assumption that a pipe end is held only by the processes it was wired to
        import pipeprops
        pipeprops.c01_real(chk, tier)
    nontrivial = set()
    for s, f in stats["facts"]:
        if s["kind"] == "comm":
            if f.get("reads", 0) and (f.get("out_bytes", 0) + f.get("err_bytes", 0) > 0 or s.get("inlen", 0) > 0):
                nontrivial.add(s["text"].split("\n", 1)[1])
        elif f.get("ops", 0) > 1:
            nontrivial.add(s["text"].split("\n", 1)[1])
    chk.cov["distinct_nontrivial"] = len(nontrivial)
    chk.cov["rule"] = ("scenario = (piped subset, pipe capacities, input length, scripted child program from a class grammar, "
                       "kernel choice stream, history of reads with limits) for communicate; (exit instant/status, external reap, "
                       "operation history, choice stream) for Popen; non-trivial = moved at least one byte / made more than one "
                       "operation; distinct by scenario text")
    chk.cov["samples"] = [s["text"].split("\n") for s, _ in stats["facts"][:2]] + \
                         [{"id": s["id"], "facts": f} for s, f in stats["facts"][2:5]]
    chk.cov["input_distribution"] = {"classes": stats["klass"],
                                     "verdicts": _count(f.get("verdict") for _, f in stats["facts"]),
                                     "timed_out_reads": sum(f.get("timedout_reads", 0) for _, f in stats["facts"])}


def _count(it):
    d = {}
    for x in it:
        d[str(x)] = d.get(str(x), 0) + 1
    return d


def replay(chk, path, pid):
    lines = [l.rstrip("\n") for l in open(path, encoding="utf-8") if not l.startswith("#")]
    if lines and lines[0].strip() == "wincomm":
        import wincomm
        chk.obligations(C.props_check(pid, DEPS[pid]))
        C.build_harness()
        wincomm.replay(chk, "\n".join(lines[1:]), pid)
        return
    if lines and lines[0].strip() == "real":
        import pipeprops
        chk.obligations(C.props_check(pid, DEPS[pid]))
        C.build_harness()
        if pid == "C10":
            pipeprops.c10_real(chk, "quick", explicit=[pipeprops.tpl_from_json(lines[1])])
        elif pid == "C09":
            pipeprops.c09_real(chk, "quick", explicit=[pipeprops.tpl_from_json(lines[1])])
        else:
            pipeprops.c01_real(chk, "quick", explicit=[pipeprops.tpl_from_json(lines[1])])
        return
    scns = load_scn_file(path)
    run(chk, "quick", pid, explicit=scns)
