"""Engine E2, orchestration side: real spawns through harness/src/bin/realdrive.rs with logged and
fault-injected libc calls; conformance of the logged call sequences with the Gallina model Lib/Spawn.v
(evaluated by vm_compute inside Coq); monitors on the children's self-reports."""
import glob
import os
import re
import shutil
import tempfile
from concurrent.futures import ThreadPoolExecutor
import subprocess

import common as C

E2DIR = os.path.join(C.BUILD, "e2")
BYPPID = os.path.join(E2DIR, "byppid")
REALDRIVE = os.path.join(C.BIN, "realdrive")
STUB = os.path.join(C.BIN, "childstub")


def hexs(b):
    if isinstance(b, str):
        b = b.encode()
    return b.hex() if b else "-"


def unhex(s):
    return b"" if s == "-" else bytes.fromhex(s)


KINDS = ["pipe", "fcntl", "fork", "dup2", "chdir", "sigmask", "signal", "setuid", "setgid", "setpgid", "exec"]
COQ_KIND = {"pipe": "KPipe", "fcntl": "KFcntl", "fork": "KFork", "dup2": "KDup2", "chdir": "KChdir", "sigmask": "KSigmask",
            "signal": "KSignal", "setuid": "KSetuid", "setgid": "KSetgid", "setpgid": "KSetpgid", "exec": "KExec"}


# ------------------------------------------------------------------------------- running

def run_scenarios(scns, tag, timeout=30):
    """scns: list of dicts with key 'spec' (list of lines).  Fills in 'out' (stdout lines), 'logs' {pid: [lines]},
    'reps' {pid: text}, 'rc', 'parent_pid', 'timed_out'."""
    os.makedirs(BYPPID, exist_ok=True)
    base = tempfile.mkdtemp(prefix="run-%s-" % tag, dir=E2DIR)

    def one(i):
        s = scns[i]
        wd = os.path.join(base, str(i))
        os.makedirs(wd)
        if s.get("open_wd"):
            # a child that changes its user id must still be able to report into the work directory
            os.chmod(base, 0o755)
            os.chmod(wd, 0o777)
        for d in s.get("mkdirs", []):
            os.makedirs(os.path.join(wd, d), exist_ok=True)
        for name, data in s.get("files", {}).items():
            with open(os.path.join(wd, name), "wb") as f:
                f.write(data)
        for name, target in s.get("symlinks", {}).items():
            os.symlink(target, os.path.join(wd, name))
        for name, mode in s.get("modes", {}).items():
            os.chmod(os.path.join(wd, name), mode)
        if "specfn" in s:
            s["spec"] = s["specfn"](wd)
            s["wd"] = wd
        spec = [l.replace("$WD", wd) for l in s["spec"]]
        with open(os.path.join(wd, "s.txt"), "w") as f:
            f.write("\n".join(spec) + "\n")

        def pre():
            try:
                os.symlink(wd, os.path.join(BYPPID, str(os.getpid())))
            except OSError:
                pass
            os.setsid()
        env = dict(C.ENV)
        env.update(s.get("env", {}))
        p = subprocess.Popen([REALDRIVE, os.path.join(wd, "s.txt"), wd], stdout=subprocess.PIPE, stderr=subprocess.PIPE,
                             stdin=subprocess.DEVNULL, preexec_fn=pre, env=env, cwd=wd)
        try:
            out, err = p.communicate(timeout=s.get("timeout", timeout))
            s["timed_out"] = False
        except subprocess.TimeoutExpired:
            s["timed_out"] = True
            try:
                os.killpg(p.pid, 9)
            except OSError:
                pass
            out, err = p.communicate()
        try:
            os.unlink(os.path.join(BYPPID, str(p.pid)))
        except OSError:
            pass
        # whatever the scenario left running belongs to the session we created
        try:
            os.killpg(p.pid, 9)
        except OSError:
            pass
        s["rc"] = p.returncode
        s["parent_pid"] = p.pid
        s["out"] = out.decode("utf-8", "replace").splitlines()
        s["stderr"] = err.decode("utf-8", "replace")[-2000:]
        s["logs"] = {}
        for f in glob.glob(os.path.join(wd, "log.*")):
            s["logs"][int(f.rsplit(".", 1)[1])] = open(f, errors="replace").read().splitlines()
        s["reps"] = {}
        for f in glob.glob(os.path.join(wd, "rep.*")):
            s["reps"][int(f.rsplit(".", 1)[1])] = open(f, errors="replace").read()
        s["wd_files"] = {}
        for name in s.get("collect", []):
            pth = os.path.join(wd, name)
            if os.path.exists(pth):
                s["wd_files"][name] = open(pth, "rb").read()
        return i

    try:
        with ThreadPoolExecutor(max_workers=12) as ex:
            list(ex.map(one, range(len(scns))))
    finally:
        shutil.rmtree(base, ignore_errors=True)
    return scns


# ------------------------------------------------------------------------------- log -> model encoding

def parse_fdtable(line):
    """'tag fd:hex:cx,...' -> {fd: (target, cloexec)}"""
    res = {}
    parts = line.split(" ", 1)
    if len(parts) < 2 or not parts[1].strip():
        return res
    for ent in parts[1].split(","):
        fd, tg, cx = ent.split(":")
        res[int(fd)] = (unhex(tg).decode("utf-8", "replace"), cx == "1")
    return res


class FdMap:
    """real descriptor numbers -> model atoms (1000+i std, 2000+j user, 3000+k fresh)"""

    def __init__(self, user):
        self.m = {0: 1000, 1: 1001, 2: 1002}
        self.m.update(user)
        self.nfresh = 0

    def fresh(self, fd):
        self.m[fd] = 3000 + self.nfresh
        self.nfresh += 1
        return self.m[fd]

    def get(self, fd):
        return self.m.get(fd, 9000 + fd)


def strip_std_checks(lines):
    """std's debug-build descriptor check: fcntl(fd, F_GETFD) immediately before close(fd)."""
    out = []
    i = 0
    while i < len(lines):
        m = re.match(r"fcntl (\d+) 1 0 = ", lines[i])
        if m and i + 1 < len(lines) and lines[i + 1].startswith("close %s " % m.group(1)):
            i += 1
            continue
        out.append(lines[i])
        i += 1
    return out


def ret_of(line):
    m = re.search(r" = (-?\d+)(?: e(\d+))?$", line)
    if not m:
        return None, None
    return int(m.group(1)), (int(m.group(2)) if m.group(2) else None)


def encode_log(lines, fm, is_child):
    """-> (encoded calls, allocation events, exec records)"""
    enc = []
    allocs = []
    execs = []
    nexec = 0
    lines = strip_std_checks([l for l in lines if l.strip()])
    for ln in lines:
        if ln.startswith("alloc "):
            allocs.append(ln)
            continue
        if ln.startswith("dealloc "):
            continue
        r, e = ret_of(ln)
        tok = ln.split(" ")
        name = tok[0]
        res = [3, e] if (r is not None and r < 0) else None
        if name == "pipe":
            if res:
                enc.append([1, 99] + res)
            else:
                a, b = int(tok[1]), int(tok[2])
                enc.append([1, 99, 1, fm.fresh(a), fm.fresh(b)])
        elif name == "fcntl":
            fd, cmd, arg = int(tok[1]), int(tok[2]), int(tok[3])
            if cmd == 1:
                enc.append([2, fm.get(fd), 99] + (res or [2, r & 1]))
            else:
                enc.append([3, fm.get(fd), arg & 1, 99] + (res or [0]))
        elif name == "fork":
            if is_child and r == 0:
                continue
            enc.append([4, 99] + (res or [4]))
        elif name == "close":
            enc.append([5, fm.get(int(tok[1])), 99, 0])
        elif name == "dup2":
            enc.append([6, fm.get(int(tok[1])), fm.get(int(tok[2])), 99] + (res or [0]))
        elif name == "chdir":
            enc.append([7, 99] + (res or [0]))
        elif name == "sigmask":
            enc.append([8, 99] + (res or [0]))
        elif name == "signal":
            enc.append([9, 99] + (res or [0]))
        elif name == "setuid":
            enc.append([10, 99] + (res or [0]))
        elif name == "setgid":
            enc.append([11, 99] + (res or [0]))
        elif name == "setpgid":
            enc.append([12, 99] + (res or [0]))
        elif name == "exec":
            # exec <path> argv=<..> env=<..> [= -1 eN]   (no result when the image started)
            m = re.match(r"exec (\S+) argv=(\S+) env=(\S+)(?: = (-?\d+)(?: e(\d+))?)?$", ln)
            path, argv, env, rr, ee = m.groups()
            execs.append({"path": unhex(path), "argv": [unhex(a) for a in argv.split(",")],
                          "env": None if env == "inherit" else ([] if env == "empty" else [unhex(x) for x in env.split(",")]),
                          "errno": int(ee) if ee else None})
            enc.append([13, nexec, 99] + ([3, int(ee)] if ee else [0]))
            nexec += 1
        elif name == "write":
            data = unhex(tok[2])
            if len(data) == 4:
                code = int.from_bytes(data, "little")
                enc.append([14, fm.get(int(tok[1])), 0 if code == 0xFFFFFFFF else code, 99, 0])
        elif name == "_exit":
            enc.append([15, 99, 0])
        elif name == "read":
            fd, n = int(tok[1]), int(tok[2])
            if n == 4:
                if r == 0:
                    enc.append([16, fm.get(fd), 99, 5])
                elif r == 4:
                    code = int.from_bytes(unhex(tok[3]), "little")
                    enc.append([16, fm.get(fd), 99, 6, 0 if code == 0xFFFFFFFF else code])
                else:
                    enc.append([16, fm.get(fd), 99, 7, r])
        elif name == "waitpid":
            enc.append([17, 99, 0])
    return enc, allocs, execs


# ------------------------------------------------------------------------------- model evaluation

def coq_redir(r):
    if r == "none":
        return "RNone"
    if r == "pipe":
        return "RPipe"
    if r == "merge":
        return "RMerge"
    if r.startswith("file"):
        return "(RFile %d)" % int(r[4:])          # file<idx>
    if r.startswith("rc"):
        return "(RRc %d)" % int(r[2:])            # rc<id>
    raise ValueError(r)


def coq_config(c):
    b = lambda x: "true" if x else "false"
    return ("{| c_stdin := %s; c_stdout := %s; c_stderr := %s; c_cwd := %s; c_setuid := %s; c_setgid := %s; c_setpgid := %s; "
            "c_prep_fails := %s; c_ncand := %d; c_detached := %s; c_inflight := false |}") % (
        coq_redir(c["stdin"]), coq_redir(c["stdout"]), coq_redir(c["stderr"]), b(c.get("cwd")), b(c.get("setuid")),
        b(c.get("setgid")), b(c.get("setpgid")), b(c.get("prep_fails")), c.get("ncand", 1), b(c.get("detached")))


def coq_fault(f):
    if not f:
        return "None"
    return "(Some {| f_kind := %s; f_nth := %d; f_errno := %d; f_child := %s |})" % (
        COQ_KIND[f[0]], f[1], f[2], "true" if f[3] else "false")


def coq_exec_ok(errs):
    """errs: list (per candidate) of None | errno"""
    body = "fun i => " + "".join("if Nat.eqb i %d then %s else " % (i, "None" if e is None else "Some %d" % e) for i, e in enumerate(errs)) + "Some 2"
    return "(%s)" % body


def model_summaries(name, items):
    """items: list of (config dict, fault, exec errs) -> list of parsed summaries"""
    hdr = ("From Coq Require Import List NArith Bool Arith.\nRequire Import SP.Lib.Spawn.\nImport ListNotations.\n"
           "Set Printing Width 1000000.\nSet Printing Depth 1000000.\n")
    body = ["Eval vm_compute in (summary %s %s %s)." % (coq_fault(f), coq_exec_ok(e), coq_config(c)) for c, f, e in items]
    rc, out, err = C.coq_eval(name, hdr + "\n".join(body) + "\n")
    res = []
    for ln in out.splitlines():
        s = ln.strip()
        if s.startswith("= ("):
            s = s[2:].replace(";", ",").replace("%N", "")
            res.append(eval(s, {"__builtins__": {}}))
    if rc != 0 or len(res) != len(items):
        raise RuntimeError("coq evaluation of the spawn model failed: %s" % (err[-1500:] or out[-500:]))
    return res


# ------------------------------------------------------------------------------- child reports

def parse_report(text):
    rep = {"fds": {}, "raw": text}
    for ln in text.splitlines():
        k, _, v = ln.partition(" ")
        if k == "argv":
            rep["argv"] = [unhex(a) for a in v.split(",")]
        elif k == "env":
            rep["env"] = [] if v == "empty" else [unhex(a) for a in v.split(",")]
        elif k == "cwd":
            rep["cwd"] = unhex(v) if v != "?" else None
        elif k == "execfn":
            rep["execfn"] = unhex(v)
        elif k == "ids":
            rep["ids"] = {a.split("=")[0]: int(a.split("=")[1]) for a in v.split(" ")}
        elif k == "sig":
            rep["sig"] = {a.split("=")[0]: int(a.split("=")[1] or "0", 16) for a in v.split(" ")}
        elif k == "fd":
            p = v.split(" ")
            rep["fds"][int(p[0])] = {"target": unhex(p[1]).decode("utf-8", "replace"), "cloexec": p[2].endswith("1"),
                                     "ino": p[3].split("=")[1], "acc": int(p[4].split("=")[1])}
        elif k == "sigpipe_at_start":
            rep["sigpipe_at_start"] = int(v)
        elif k == "stdin_eof":
            rep["stdin_eof"] = {a.split("=")[0]: int(a.split("=")[1]) for a in v.split(" ")}
        elif k == "write_failed":
            rep["write_failed"] = v
    return rep
