"""Checks of the exec-argument family: C06 (the child gets exactly the requested argv / program / environment / cwd /
identity), C15 (PATH lookup), C17 (nothing allocated between fork and exec).

Engine E3: the pure helpers behind the hooks (format_env, split_path, prealloc_exe) against Lib/Env.v and Lib/Path.v.
Engine E2: real launches of the self-reporting stub under the logging interposers; the logged chdir/execve calls
are compared with Lib/ExecArgs.v (`conforms`, evaluated by vm_compute), the stub's self-report and the allocator
probe are the monitors."""
import json
import os

import common as C
import e2
import spawnprops as sp

STUB = e2.STUB.encode()
EINVAL, ENOENT, EACCES, ENOTDIR, ENOEXEC, ENAMETOOLONG, ELOOP = 22, 2, 13, 20, 8, 36, 40
IS_ROOT = os.geteuid() == 0


def hx(b):
    return b.hex()


def unhx(s):
    return bytes.fromhex(s)


# ----------------------------------------------------------------------------------------- generators

def rand_bytes(r, n, lo=1, hi=255):
    return bytes(lo + r.below(hi - lo + 1) for _ in range(n))


ARG_CLASSES = ["empty", "blank", "quotes", "nonutf8", "plain", "random", "long", "eq", "newline"]


def gen_arg(r, big=False):
    k = r.choice(ARG_CLASSES)
    if k == "empty":
        return b""
    if k == "blank":
        return r.choice([b" ", b"  ", b"\t", b" \t "])
    if k == "quotes":
        return bytes(r.choice(list(b"\"'\\ $`a")) for _ in range(1 + r.below(8)))
    if k == "nonutf8":
        return rand_bytes(r, 1 + r.below(12), 0x80, 0xff)
    if k == "plain":
        return bytes(r.choice(list(b"abcXYZ019-_./")) for _ in range(1 + r.below(10)))
    if k == "eq":
        return r.choice([b"=", b"A=1", b"=x", b"x="])
    if k == "newline":
        return r.choice([b"\n", b"a\nb", b"\r\n"])
    if k == "long":
        n = r.choice([4000, 20000, 40000, 100000]) if big else r.choice([300, 1000, 5000])
        return rand_bytes(r, n)
    return rand_bytes(r, 1 + r.below(40))


KEYS = [b"A", b"B", b"a", b"PATH", b"HOME", b"K1", b"AB", b"A_", b"HOMEDIR", b"K", b"K10", b"PATHEXT", b"LONGER_NAME", b"\xc3\xa9", b"\xff\xfe", b"k k"]


def gen_env(r, big=False):
    n = r.choice([0, 1, 2, 3, 5, 8, 20]) if not big else r.choice([100, 300, 600])
    env = []
    for _ in range(n):
        if big and r.chance(1, 2):
            k = b"K%d" % r.below(n)
        elif r.chance(1, 6):
            k = rand_bytes(r, 1 + r.below(6))
            k = k.replace(b"=", b"_")
        else:
            k = r.choice(KEYS)
        if r.chance(1, 12):
            k = b""                       # an empty name is just an entry "=value"
        v = gen_arg(r, big=False) if not r.chance(1, 10) else b"v=%d" % r.below(5)
        env.append((k, v))
    return env


def new_layout():
    return {"mkdirs": [], "files": {}, "modes": {}, "symlinks": {}}


def base_tpl(sid):
    return {"id": sid, "argv": [b"$STUB", b"x"], "exe": None, "env": None, "cwd": None, "path": b"/usr/bin:/bin",
            "uid": None, "gid": None, "setpgid": False, "streams": {"stdin": "none", "stdout": "none", "stderr": "none"},
            "fault": None, "layout": new_layout(), "family": "c06"}


LONGDIR = "/".join(["d" * 200] * 19)          # 3819 bytes below the work directory


def gen_cwd(r, t, want=None):
    k = want or r.choice(["none", "none", "root", "sub", "odd", "rel", "long", "edge"])
    if k == "none":
        return
    if k == "root":
        t["cwd"] = b"/"
    elif k == "sub":
        t["layout"]["mkdirs"].append("sub/deeper")
        t["cwd"] = b"$WD/sub/deeper"
    elif k == "odd":
        name = b"o \xff\xc3'\"$x"
        t["layout"]["mkdirs"].append(name)
        t["cwd"] = b"$WD/" + name
    elif k == "rel":
        t["layout"]["mkdirs"].append("sub/deeper")
        t["cwd"], t["cwd_up"] = r.choice([(b"sub", b"../"), (b"sub/deeper", b"../../"), (b"./sub/../sub", b"../"), (b".", b"")])
    elif k == "long":
        t["layout"]["mkdirs"].append(LONGDIR)
        t["cwd"] = b"$WD/" + LONGDIR.encode()
    elif k == "private":
        # a directory only the parent's user may enter: the child must get there before it gives up its identity
        t["layout"]["mkdirs"].append("priv")
        t["layout"]["modes"]["priv"] = 0o700
        t["cwd"] = b"$WD/priv"
    elif k == "edge":
        # lengths around std's on-stack C-string buffer (384)
        t["layout"]["mkdirs"].append("e")
        t["cwd_pad_to"] = r.choice([382, 383, 384, 385, 386, 500])
        t["cwd"] = b"$WD/e"


def gen_c06(r, n, tier):
    out = []
    for i in range(n):
        t = base_tpl("c06-%d" % i)
        big = (tier == "thorough" and r.chance(1, 6)) or (tier == "quick" and i < 4)
        mode = r.choice(["abs", "abs", "override", "override", "path"])
        nargs = r.choice([0, 1, 2, 3, 5, 12]) if not big else r.choice([50, 300, 800])
        args = [gen_arg(r, big=big and j < 3) for j in range(nargs)]
        if mode == "abs":
            t["argv"] = [b"$STUB"] + args
        elif mode == "override":
            t["argv"] = [gen_arg(r)] + args
            t["exe"] = b"$STUB"
        else:
            t["argv"] = [b"childstub"] + args
            t["path"] = b"/nonexistent-dir:" + os.path.dirname(STUB)
        if r.chance(2, 3):
            t["env"] = gen_env(r, big=big and r.chance(1, 2))
        gen_cwd(r, t)
        if r.chance(1, 3):
            t["uid"] = r.choice([1000, 65534, 12345]) if IS_ROOT else os.getuid()
        if r.chance(1, 3):
            t["gid"] = r.choice([1000, 65534, 54321]) if IS_ROOT else os.getgid()
        if r.chance(1, 3):
            t["setpgid"] = True
        if r.chance(1, 4):
            t["streams"] = {"stdin": r.choice(["none", "pipe"]), "stdout": r.choice(["none", "pipe"]), "stderr": r.choice(["none", "merge"])}
        out.append(t)
    # every combination of the launch options (executable override, cwd, setuid, setgid, setpgid)
    q = 0
    for exe in (False, True):
        for cwdk in ("none", "sub", "private"):
            for uid in (None, 65534 if IS_ROOT else os.getuid()):
                for gid in (None, 65534 if IS_ROOT else os.getgid()):
                    for pg in (False, True):
                        t = base_tpl("c06-opt-%d" % q)
                        q += 1
                        if exe:
                            t["argv"] = [b"shown-name", b"a"]
                            t["exe"] = b"$STUB"
                        gen_cwd(r, t, want=cwdk)
                        t["uid"], t["gid"], t["setpgid"] = uid, gid, pg
                        out.append(t)
    # NUL anywhere: refused, nothing started
    places = ["argv0", "argvk", "exe", "envkey", "envval", "cwd", "envkey-shadowed"]
    m = max(len(places), n // 4)
    for i in range(m):
        t = base_tpl("c06-nul-%d" % i)
        t["argv"] = [b"$STUB", gen_arg(r), gen_arg(r)]
        t["env"] = [(b"A", b"1"), (b"B", b"2")]
        pl = places[i % len(places)]
        t["nul"] = pl

        def poison(b):
            p = r.below(len(b) + 1)
            return b[:p] + b"\0" + b[p:]
        if pl == "argv0":
            t["argv"][0] = poison(b"$STUB")
            if r.chance(1, 2):
                t["exe"] = b"$STUB"
        elif pl == "argvk":
            k = 1 + r.below(2)
            t["argv"][k] = poison(t["argv"][k])
        elif pl == "exe":
            t["exe"] = poison(b"$STUB")
        elif pl == "envkey":
            t["env"].insert(r.below(3), (poison(b"KEY"), b"v"))
        elif pl == "envkey-shadowed":
            k = poison(b"KEY")
            t["env"] = [(k, b"v1"), (b"A", b"1"), (k, b"v2")]
        elif pl == "envval":
            t["env"].insert(r.below(3), (b"KEY", poison(b"value")))
        elif pl == "cwd":
            t["cwd"] = poison(b"/tmp")
        out.append(t)
    t = base_tpl("c06-empty-argv")
    t["argv"] = []
    out.append(t)
    return out


CAND_KINDS = ["exec", "missing", "noexec", "dir", "notdir", "garbage", "emptyfile", "exec", "missing"]


def gen_c15(r, n, tier):
    out = []
    for i in range(n):
        t = base_tpl("c15-%d" % i)
        t["family"] = "c15"
        lay = t["layout"]
        shape = r.choice(["search", "search", "search", "search", "slash", "only-empty", "unset", "empty", "override", "override-slash"])
        clen = r.choice([1, 1, 2, 8, 40, 254, 255, 256])
        cmd = bytes(r.choice(list(b"abcxyz0_-. \xe9")) for _ in range(clen))
        if cmd in (b".", b".."):
            cmd = b"c" * clen
        gen_cwd(r, t, want=r.choice(["none", "none", "sub", "rel"]))
        nent = r.choice([1, 2, 3, 5, 9]) if tier == "quick" or r.chance(3, 4) else r.choice([20, 40])
        entries = []
        odd_entry = r.below(nent) if r.chance(1, 3) else -1      # a PATH entry that is not valid UTF-8
        for j in range(nent):
            kind = r.choice(CAND_KINDS)
            d = "p%d" % j
            if j == odd_entry:
                d = os.fsdecode(b"p\xff\xc3%d" % j)
            rel = r.chance(1, 6)
            if kind == "notdir":
                lay["files"][d] = b"plain file used as a directory\n"
            else:
                lay["mkdirs"].append(d)
                target = os.path.join(d, os.fsdecode(cmd))
                if len(cmd) <= 255:
                    if kind == "exec":
                        lay["symlinks"][os.fsencode(target)] = STUB
                    elif kind == "noexec":
                        lay["files"][os.fsencode(target)] = b"\x7fELF not executable\n"
                        lay["modes"][os.fsencode(target)] = 0o644
                    elif kind == "dir":
                        lay["mkdirs"].append(os.fsencode(target))
                    elif kind == "garbage":
                        lay["files"][os.fsencode(target)] = b"neither ELF nor script\n"
                        lay["modes"][os.fsencode(target)] = 0o755
                    elif kind == "emptyfile":
                        lay["files"][os.fsencode(target)] = b""
                        lay["modes"][os.fsencode(target)] = 0o755
            ent = (b"" if rel else b"$WD/") + os.fsencode(d)
            if rel and t["cwd"] is not None:
                # a relative entry is resolved in the child's working directory
                ent = b"$WD/" + os.fsencode(d) if r.chance(1, 3) else t.get("cwd_up", b"../../") + os.fsencode(d)
            entries.append(ent)
            r2 = r.below(10)
            if r2 == 0:
                entries.append(b"")                      # empty entry
            elif r2 == 1:
                entries.append(ent)                      # duplicate
            elif r2 == 2:
                entries.append(b"$WD/" + b"L" * r.choice([300, 4000, 5000]))   # very long, missing
            elif r2 == 3:
                entries.append(b"/nonexistent-%d" % j)
        if r.chance(1, 5):
            entries.insert(0, b"")
        if r.chance(1, 5):
            entries.append(b"")
        t["path"] = b":".join(entries)
        t["argv"] = [cmd, b"arg"]
        if r.chance(1, 3) and len(cmd) <= 255:
            # the child is given a PATH of its own: the search is made against the parent's all the same
            lay["mkdirs"].append("decoy")
            how = r.choice(["decoy-has-it", "decoy-has-it", "decoy-empty", "reversed"])
            if how == "decoy-has-it":
                lay["symlinks"][os.fsencode(os.path.join("decoy", os.fsdecode(cmd)))] = STUB
                cpath = b"$WD/decoy"
            elif how == "decoy-empty":
                cpath = b"$WD/decoy"
            else:
                cpath = b":".join(reversed(entries))
            t["env"] = [(b"OTHER", b"1"), (b"PATH", cpath)] + ([(b"PATH", cpath + b":/usr/bin")] if r.chance(1, 3) else [])
        if shape == "search" and r.chance(1, 3) and len(cmd) <= 255:
            # launched twice in one process, the parent's PATH changed in between: a second directory that holds the
            # program, the entries reversed, unset, or a directory without it
            lay["mkdirs"].append("second")
            how = r.choice(["second-has-it", "reversed", "unset", "second-empty"])
            if how == "second-has-it":
                lay["symlinks"][os.fsencode(os.path.join("second", os.fsdecode(cmd)))] = STUB
                t["path2"] = b"$WD/second:" + t["path"]
            elif how == "reversed":
                t["path2"] = b":".join(reversed(entries))
            elif how == "unset":
                t["path2"] = None
            else:
                t["path2"] = b"$WD/second"
        if shape == "slash":
            # a name with a slash: used as given, relative to the child's cwd, whatever PATH offers
            lay["mkdirs"].append("sl")
            kind = r.choice(["exec", "missing", "noexec"])
            nm = b"sl/" + (cmd[:200] or b"c")
            if kind == "exec":
                lay["symlinks"][nm] = STUB
            elif kind == "noexec":
                lay["files"][nm] = b"x"
                lay["modes"][nm] = 0o600
            t["argv"][0] = r.choice([b"$WD/", b"./" if t["cwd"] is None else b"$WD/./"]) + nm
        elif shape == "only-empty":
            t["path"] = r.choice([b":", b"::", b":::::"])
        elif shape == "unset":
            t["path"] = None
        elif shape == "empty":
            t["path"] = b""
        elif shape == "override":
            t["exe"] = cmd
            t["argv"][0] = gen_arg(r)
        elif shape == "override-slash":
            lay["mkdirs"].append("sl")
            lay["symlinks"][b"sl/prog"] = STUB
            t["exe"] = b"$WD/sl/prog" if r.chance(1, 2) else b"$WD/sl/missing"
            t["argv"][0] = gen_arg(r)
        out.append(t)
    return out


def gen_c17(r, n, tier):
    """sizes and shapes that matter to the preallocation: command lengths, PATH shapes (longest entry first / last /
    middle), cwd lengths around std's stack buffer, argument and environment sizes, stream configurations, successful
    and failing exec, failing child-side steps"""
    out = []
    cfgs = [c for c in sp.all_configs() if c["stdin"] != "merge" and not (c["stdout"] == "merge" and c["stderr"] == "merge")]
    for i in range(n):
        t = base_tpl("c17-%d" % i)
        t["family"] = "c17"
        lay = t["layout"]
        clen = r.choice([1, 5, 60, 255])
        cmd = b"c" * clen
        nent = r.choice([1, 2, 4, 10, 30])
        lens = [r.choice([1, 3, 10, 100]) for _ in range(nent)]
        where = r.choice(["first", "last", "middle", "none"])
        if where != "none":
            pos = {"first": 0, "last": nent - 1, "middle": nent // 2}[where]
            lens[pos] = r.choice([200, 1000, 3000])
        succeed = r.chance(1, 2)
        win = r.below(nent)
        entries = []
        for j, ln in enumerate(lens):
            name = ("q%d" % j).ljust(min(ln, 200), "q")
            rest = ln - len(name)
            d = name
            while rest > 0:
                seg = "r" * min(rest, 200)
                d = d + "/" + seg
                rest -= len(seg) + 1
            lay["mkdirs"].append(d)
            if succeed and j == win:
                lay["symlinks"][os.path.join(d, os.fsdecode(cmd)).encode()] = STUB
            entries.append(b"$WD/" + d.encode())
        t["path"] = b":".join(entries)
        t["argv"] = [cmd] + [gen_arg(r) for _ in range(r.choice([0, 2, 30]))]
        if r.chance(1, 2):
            t["env"] = gen_env(r)
        gen_cwd(r, t, want=r.choice(["none", "sub", "long", "edge", "edge", "root"]))
        c = r.choice(cfgs)
        t["streams"] = {k: c[k] for k in sp.STREAMS}
        if r.chance(1, 4):
            t["uid"] = 0 if IS_ROOT else os.getuid()
            t["gid"] = 0 if IS_ROOT else os.getgid()
            t["setpgid"] = True
        if r.chance(1, 4):
            kinds = ["exec", "sigmask", "signal"]
            if t["cwd"] is not None:
                kinds.append("chdir")
            if t["uid"] is not None:
                kinds += ["setuid", "setgid", "setpgid"]
            if any(t["streams"][k] != "none" for k in sp.STREAMS):
                kinds.append("dup2")
            t["fault"] = [r.choice(kinds), 1, r.choice([EACCES, ENOENT, 1, 12]), True]
        out.append(t)
    return out


# ----------------------------------------------------------------------------------------- template -> scenario

def tpl_to_json(t):
    def enc(v):
        if isinstance(v, bytes):
            return {"b": v.hex()}
        if isinstance(v, (list, tuple)):
            return [enc(x) for x in v]
        if isinstance(v, dict):
            return {"d": [[enc(k), enc(x)] for k, x in v.items()]}
        return v
    return json.dumps(enc({k: v for k, v in t.items() if k not in ("scn",)}), sort_keys=True)


def tpl_from_json(text):
    def dec(v):
        if isinstance(v, dict) and "b" in v:
            return bytes.fromhex(v["b"])
        if isinstance(v, dict) and "d" in v:
            return {dec(k): dec(x) for k, x in v["d"]}
        if isinstance(v, list):
            return [dec(x) for x in v]
        return v
    t = dec(json.loads(text))
    if t.get("env") is not None:
        t["env"] = [tuple(kv) for kv in t["env"]]
    return t


def exec_errno(path, cwd):
    """the kernel's answer to execve(path) from directory cwd, from the layout on disk (None = starts); path
    resolution errors are the ones stat reports for the same path"""
    import stat as S
    if path == b"":
        return ENOENT
    try:
        dfd = os.open(cwd, os.O_RDONLY | os.O_DIRECTORY)
    except OSError as e:
        return e.errno
    try:
        try:
            st = os.stat(path, dir_fd=dfd)
        except OSError as e:
            return e.errno
        if S.S_ISDIR(st.st_mode):
            return EACCES
        if not (st.st_mode & 0o111):
            return EACCES
        fd = os.open(path, os.O_RDONLY, dir_fd=dfd)
        try:
            head = os.read(fd, 4)
        finally:
            os.close(fd)
    finally:
        os.close(dfd)
    if head == b"\x7fELF":
        return None
    return ENOEXEC


def scenario_of(t):
    """the runnable E2 scenario of a template; paths are resolved when the work directory is known"""
    s = {"id": t["id"], "tpl": t, "open_wd": True, "cfg": dict(t["streams"]), "fault": tuple(t["fault"]) if t["fault"] else None}
    lay = t["layout"]
    s["mkdirs"] = [os.fsdecode(d) if isinstance(d, bytes) else d for d in lay["mkdirs"]]
    s["files"] = {(os.fsdecode(k) if isinstance(k, bytes) else k): v for k, v in lay["files"].items()}
    s["files"].update({"in0.txt": b"input-file\n", "shared0.txt": b"", "shared1.txt": b"", "shared2.txt": b""})
    s["modes"] = {(os.fsdecode(k) if isinstance(k, bytes) else k): v for k, v in lay["modes"].items()}
    s["symlinks"] = {(os.fsdecode(k) if isinstance(k, bytes) else k): os.fsdecode(v) for k, v in lay["symlinks"].items()}

    def specfn(wd):
        wdb = os.fsencode(wd)

        def res(b):
            return b.replace(b"$WD", wdb).replace(b"$STUB", STUB)
        req = {"argv": [res(a) for a in t["argv"]], "exe": res(t["exe"]) if t["exe"] is not None else None,
               "env": [(k, res(v)) for k, v in t["env"]] if t["env"] is not None else None,
               "cwd": res(t["cwd"]) if t["cwd"] is not None else None,
               "path": res(t["path"]) if t["path"] is not None else None}
        if t.get("cwd_pad_to"):
            # an absolute path of exactly the wanted length naming the directory e: $WD/e/././.
            base = req["cwd"]
            want = t["cwd_pad_to"]
            pad = want - len(base)
            if pad >= 2:
                base = base + b"/." * (pad // 2) + (b"/" if pad % 2 else b"")
            req["cwd"] = base
        s["req"] = req
        # the child's working directory, for resolving relative candidates and for the report
        if req["cwd"] is not None and b"\0" not in req["cwd"]:
            cdir = req["cwd"] if req["cwd"].startswith(b"/") else os.path.join(wdb, req["cwd"])
            s["child_cwd"] = os.path.realpath(cdir)
        else:
            s["child_cwd"] = os.path.realpath(wdb)
        s["child_cwd_raw"] = s["child_cwd"]
        spec = ["kind create"]
        spec.append("argv " + (",".join(e2.hexs(a) for a in req["argv"]) if req["argv"] else "none"))
        for i, st in enumerate(sp.STREAMS):
            spec.append("%s %s" % (st, sp.redir_spec(i, t["streams"][st])))
        if req["exe"] is not None:
            spec.append("executable " + e2.hexs(req["exe"]))
        if req["env"] is not None:
            spec.append("env " + (",".join("%s=%s" % (e2.hexs(k), e2.hexs(v)) for k, v in req["env"]) if req["env"] else "empty"))
        if req["cwd"] is not None:
            spec.append("cwd " + e2.hexs(req["cwd"]))
        spec.append("path " + ("unset" if req["path"] is None else e2.hexs(req["path"])))
        if "path2" in t:
            # the same launch again in the same process after the parent's PATH has changed
            p2 = res(t["path2"]) if t["path2"] is not None else None
            s["req2"] = dict(req, path=p2)
            spec.append("relaunch_path " + ("unset" if p2 is None else e2.hexs(p2)))
        if t["uid"] is not None:
            spec.append("setuid %d" % t["uid"])
        if t["gid"] is not None:
            spec.append("setgid %d" % t["gid"])
        if t["setpgid"]:
            spec.append("setpgid 1")
        if t["fault"]:
            f = t["fault"]
            spec.append("fault %s %d %d %s" % (f[0], f[1], f[2], "child" if f[3] else "parent"))
        spec.append("show_environ 1")
        spec.append("stubcfg report;exit 0")
        spec.append("after wait")
        return spec
    s["specfn"] = specfn
    s["timeout"] = 60
    return s


def fs_oracle(s, cands):
    """(candidate -> errno | None) for the candidates of this request, from the layout (computed while it exists)"""
    return {c: exec_errno(c, s["child_cwd"]) for c in cands}


# ----------------------------------------------------------------------------------------- python mirror (monitors)

def has_nul(b):
    return b"\0" in b


def py_candidates(req):
    """what the statement of C15 says is tried, for the monitors (the model is Lib/Path.v; this is the property text)"""
    if not req["argv"]:
        return None
    cmd = req["exe"] if req["exe"] is not None else req["argv"][0]
    if b"/" in cmd or not req["path"]:
        return [cmd]
    return [d + b"/" + cmd for d in req["path"].split(b":") if d]


def py_env(env):
    keep = []
    for i, (k, v) in enumerate(env):
        if not any(k2 == k for k2, _ in env[i + 1:]):
            keep.append(k + b"=" + v)
    return keep


# ----------------------------------------------------------------------------------------- observation

def observe(s):
    """what the logs say: (forked, chdir arg | None, [(path, argv, envp | 'inherit', errno | None)], alloc lines)"""
    o = {"forked": False, "chdir": None, "execs": [], "allocs": [], "child_pid": None, "chdir_ret": None, "order": []}
    plog = s["logs"].get(s["parent_pid"], [])
    for ln in plog:
        if ln.startswith("mark relaunch"):
            break                      # what follows belongs to the second launch of the same process
        if ln.startswith("fork = "):
            pid = int(ln.split("=")[1])
            if pid > 0:
                o["forked"] = True
                o["child_pid"] = pid
    if o["child_pid"] is None:
        return o
    for ln in s["logs"].get(o["child_pid"], []):
        p = ln.split(" ")
        if p[0] in ("chdir", "setuid", "setgid", "setpgid", "exec"):
            o["order"].append(p[0])
        if p[0] == "chdir":
            o["chdir"] = e2.unhex(p[1])
            o["chdir_ret"] = ln.split(" = ")[1] if " = " in ln else None
        elif p[0] == "exec":
            argv = [e2.unhex(a) for a in p[2][5:].split(",")] if p[2] != "argv=" else []
            envs = p[3][4:]
            envp = "inherit" if envs == "inherit" else ([] if envs == "empty" else [e2.unhex(a) for a in envs.split(",")])
            err = None
            if " = " in ln:
                r = ln.split(" = ")[1].split()
                err = int(r[1][1:]) if len(r) > 1 else 0
            o["execs"].append((e2.unhex(p[1]), argv, envp, err))
        elif p[0] == "alloc":
            o["allocs"].append(ln)
    return o


def coq_ostr(b):
    return "None" if b is None else "(Some %s)" % C.coq_str(list(b))


def coq_ostrs(l):
    return "None" if l is None else "(Some %s)" % C.coq_strs([list(x) for x in l])


def coq_request(req):
    env = "None" if req["env"] is None else "(Some [%s])" % ";".join("(%s,%s)" % (C.coq_str(list(k)), C.coq_str(list(v))) for k, v in req["env"])
    return "(mkreq %s %s %s %s %s)" % (C.coq_strs([list(a) for a in req["argv"]]), coq_ostr(req["exe"]), env,
                                        coq_ostr(req["cwd"]), coq_ostr(req["path"]))


HDR = ("From Coq Require Import List NArith Bool.\nRequire Import SP.Base.Str SP.Lib.Env SP.Lib.Path SP.Lib.ExecArgs.\n"
       "Import ListNotations.\nLocal Open Scope N_scope.\nSet Printing Width 1000000.\nSet Printing Depth 1000000.\n")

CODE = {0: "refused: LogicError", 1: "refused: EINVAL", 2: "agrees", 3: "argv differs", 4: "environment block differs",
        5: "chdir argument differs", 6: "the sequence of paths tried differs", 7: "the outcome differs"}


def coq_conforms_vm(tag, items):
    """items: list of (req, fs dict, o_argv, o_envp, o_cwd, o_tried, o_out) -> list of codes, by vm_compute inside Coq"""
    res = []
    for base in range(0, len(items), 40):
        body = []
        for (req, fs, oa, oe, oc, ot, oo) in items[base:base + 40]:
            fsl = "[%s]" % ";".join("(%s,%s)" % (C.coq_str(list(k)), "None" if v is None else "Some %d" % v) for k, v in fs.items())
            out = "(inl %s)" % C.coq_str(list(oo[1])) if oo[0] == "ran" else "(inr %d)" % oo[1]
            body.append("Eval vm_compute in (conforms %s %s %s %s %s %s %s)." % (
                coq_request(req), fsl, C.coq_strs([list(a) for a in oa]), coq_ostrs(oe), coq_ostr(oc),
                C.coq_strs([list(a) for a in ot]), out))
        rc, out, err = C.coq_eval("%s_%d" % (tag, base), HDR + "\n".join(body) + "\n", timeout=900)
        got = [int(ln.split("=")[1].split("%")[0].split(":")[0]) for ln in out.splitlines() if ln.strip().startswith("= ")]
        if rc != 0 or len(got) != len(body):
            raise RuntimeError("coq evaluation of ExecArgs.conforms failed: %s" % (err[-1500:] or out[-500:]))
        res += got
    return res


def eu(b):
    return C.enc_units(list(b))


def eus(l):
    return ",".join(eu(x) for x in l) if l else "none"


def sppure(lines):
    ok, log = C.build_ocaml()
    if not ok:
        raise RuntimeError("extraction / OCaml driver build failed: " + log[-800:])
    rc, out, err = C.run([os.path.join(C.ROOT, "ocaml", "bin", "sppure")], inp="\n".join(lines) + "\n", timeout=900)
    res = out.splitlines()
    if rc != 0 or len(res) != len(lines) or "?" in res:
        raise RuntimeError("sppure failed: %s" % (err[-800:] or out[-300:]))
    return res


def conf_line(it):
    (req, fs, oa, oe, oc, ot, oo) = it
    env = "inherit" if req["env"] is None else (",".join("%s=%s" % (eu(k), eu(v)) for k, v in req["env"]) if req["env"] else "none")
    fsl = ",".join("%s=%s" % (eu(k), "ok" if v is None else str(v)) for k, v in fs.items()) if fs else "none"
    ost = lambda b: "none" if b is None else eu(b)
    return "c06conf %s %s %s %s %s %s %s %s %s %s %s" % (
        eus(req["argv"]), ost(req["exe"]), env, ost(req["cwd"]), ost(req["path"]), fsl, eus(oa),
        "inherit" if oe is None else eus(oe), ost(oc), eus(ot), ("ran:" + eu(oo[1])) if oo[0] == "ran" else "err:%d" % oo[1])


def coq_conforms(tag, items):
    """the model's verdict on every observation: the extracted model (ocaml/bin/sppure) for all of them, and the
    kernel-checked definitions by vm_compute for the small ones (which also ties the extraction to the definitions)"""
    codes = [int(x) for x in sppure([conf_line(it) for it in items])]
    small = [i for i, it in enumerate(items) if len(conf_line(it)) < 1500][:25]
    if small:
        vm = coq_conforms_vm(tag, [items[i] for i in small])
        for i, c in zip(small, vm):
            if c != codes[i]:
                raise RuntimeError("extracted model and vm_compute disagree on a case (extraction is part of the trusted base): %s" % conf_line(items[i])[:600])
    return codes


# ----------------------------------------------------------------------------------------- E2 judge

def result_of(s):
    return sp.result_of(s)


def judge_all(chk, pid, scns, tag):
    """conformance with Lib/ExecArgs.v and the monitors of `pid`; returns number of divergences"""
    items, idx = [], []
    for s in scns:
        s["obs"] = None
        if s.get("timed_out") or s.get("rc") != 0:
            chk.violation("%s: the launch did not complete (rc=%s timed_out=%s) %s" % (pid, s.get("rc"), s.get("timed_out"), s.get("stderr", "")[-200:].replace("\n", " ")),
                          tpl_to_json(s["tpl"]))
            continue
        o = observe(s)
        s["obs"] = o
        req = s["req"]
        res = result_of(s) or "?"
        cands = py_candidates(req) or []
        if not any(has_nul(c) for c in cands):
            fs = s["fs"]
        else:
            fs = {}
        # the oracle is validated against what the kernel answered for the paths that were tried
        for k, (p, _, _, err) in enumerate(o["execs"]):
            if s["fault"] and s["fault"][0] == "exec" and k + 1 == s["fault"][1]:
                fs[p] = s["fault"][2]
            elif p in fs and fs[p] != err:
                s["oracle_unsure"] = (p, fs[p], err)
                fs[p] = err
        if res == "ok":
            out = ("ran", o["execs"][-1][0] if o["execs"] else b"?")
        elif res.startswith("err io:"):
            out = ("err", int(res[7:]))
        else:
            out = ("err", 99999)
        oa = o["execs"][0][1] if o["execs"] else req["argv"]
        oe = o["execs"][0][2] if o["execs"] else (None if req["env"] is None else "?")
        if oe == "inherit":
            oe = None
        elif oe == "?":
            oe = py_env(req["env"])        # no exec was issued: the block is not observable
        occ = o["chdir"] if o["forked"] else req["cwd"]
        items.append((req, fs, oa, oe, occ, [e[0] for e in o["execs"]], out))
        idx.append(s)
    codes = coq_conforms(tag, items) if items else []
    ndiv = 0
    for s, code, it in zip(idx, codes, items):
        o, req, res = s["obs"], s["req"], result_of(s) or "?"
        s["code"] = code
        fault = s["fault"]
        bad = []
        if code == 0:
            if not res.startswith("err logic") or o["forked"]:
                bad.append("model refuses with LogicError, implementation: %s forked=%s" % (res, o["forked"]))
        elif code == 1:
            if res != "err io:%d" % EINVAL or o["forked"]:
                bad.append("model refuses with EINVAL before the fork, implementation: %s forked=%s" % (res, o["forked"]))
        elif code == 2:
            pass
        else:
            # a fault injected before the exec loop legitimately stops the child early: nothing of the plan is observed
            if fault and fault[0] != "exec" and not o["execs"]:
                pass
            else:
                bad.append("logged calls vs Lib/ExecArgs.v: %s" % CODE.get(code, code))
        if pid == "C06" and res == "ok" and not fault:
            # the order of the child's steps (Lib/Spawn.v do_exec, theorem C06_cwd_entered_with_parent_identity):
            # the directory is entered before the identity is given up, the group before the user
            t = s["tpl"]
            want_order = (["chdir"] if req["cwd"] is not None else []) + (["setgid"] if t["gid"] is not None else []) + (
                ["setuid"] if t["uid"] is not None else []) + (["setpgid"] if t["setpgid"] else [])
            got_order = [x for x in o["order"] if x != "exec"]
            if got_order != want_order:
                bad.append("the child's steps before exec are %s, Lib/Spawn.v's do_exec makes %s" % (got_order, want_order))
        if bad:
            ndiv += 1
            s["div"] = "E2 conformance (%s): %s" % (s["id"], "; ".join(bad))
        for m in monitors(pid, s):
            chk.violation("%s: %s [%s]" % (pid, m, describe(s)), tpl_to_json(s["tpl"]))
    return ndiv


def describe(s):
    t = s["tpl"]
    req = s.get("req", {})
    return "id=%s argv=%d args exe=%s env=%s cwd=%s path=%s uid=%s gid=%s pgid=%s fault=%s" % (
        t["id"], len(t["argv"]), "set" if t["exe"] is not None else "-", "inherit" if t["env"] is None else "%d vars" % len(t["env"]),
        "-" if t["cwd"] is None else "%d bytes" % len(req.get("cwd") or b""), "unset" if t["path"] is None else "%d bytes" % len(t["path"]),
        t["uid"], t["gid"], t["setpgid"], t["fault"])


def parent_ids(s):
    return {"pid": s["parent_pid"]}


def monitors(pid, s):
    """the property's own words, checked on what really happened"""
    bad = []
    o, req, t = s["obs"], s["req"], s["tpl"]
    res = result_of(s) or "?"
    rep = None
    if o["child_pid"] is not None and o["child_pid"] in s["reps"]:
        rep = e2.parse_report(s["reps"][o["child_pid"]])
    nul = (any(has_nul(a) for a in req["argv"]) or (req["exe"] is not None and has_nul(req["exe"]))
           or (req["env"] is not None and any(has_nul(x) for x in py_env(req["env"])))
           or (req["cwd"] is not None and has_nul(req["cwd"])))
    fault = s["fault"]
    zl = [ln for ln in s["out"] if ln.startswith("zombies ")]
    zombies = int(zl[0].split()[1]) if zl else -1

    if pid == "C06":
        if not req["argv"]:
            if not res.startswith("err logic") or o["forked"]:
                bad.append("an empty argument vector was not refused before anything started: %s" % res)
            return bad
        if nul:
            if not res.startswith("err") or o["forked"] or rep is not None:
                bad.append("NUL in %s: result %s, forked=%s, a child reported=%s -- expected an error and nothing started" % (
                    t.get("nul", "request"), res, o["forked"], rep is not None))
            elif res != "err io:%d" % EINVAL:
                bad.append("NUL in %s: refused with %s instead of an invalid-input error" % (t.get("nul"), res))
            if zombies > 0:
                bad.append("NUL in %s: a zombie was left" % t.get("nul"))
            return bad
        if fault:
            return bad            # injected launch failures are C07/C15's business
        if res != "ok" and t.get("family") != "c06":
            return bad            # lookup failures are C15's business
        if res != "ok":
            # every request of this family names an existing program and an existing directory
            bad.append("a valid request (cwd=%r uid=%s gid=%s setpgid=%s) was refused: %s" % (req["cwd"], t["uid"], t["gid"], t["setpgid"], res))
            return bad
        if rep is None:
            bad.append("the launch succeeded but no child reported")
            return bad
        if rep.get("argv") != req["argv"]:
            bad.append("argv seen by the child differs: %d args vs %d requested; first difference at %s" % (
                len(rep.get("argv", [])), len(req["argv"]), first_diff(rep.get("argv", []), req["argv"])))
        if req["exe"] is not None and rep.get("execfn") != o["execs"][-1][0]:
            bad.append("the image started is not the one exec'd")
        if req["env"] is None:
            penv = [e2.unhex(x) for ln in s["out"] if ln.startswith("environ ") for x in ln[8:].split(",") if x]
            if sorted(rep.get("env", [])) != sorted(penv):
                bad.append("environment not inherited unchanged: %s" % first_diff(sorted(rep.get("env", [])), sorted(penv)))
        else:
            want = py_env(req["env"])
            if sorted(rep.get("env", [])) != sorted(want):
                bad.append("environment seen by the child is not exactly the listed variables with the later duplicate winning: %s" %
                           first_diff(sorted(rep.get("env", [])), sorted(want)))
        if req["cwd"] is not None and rep.get("cwd") != s["child_cwd"]:
            bad.append("working directory %r, requested %r" % (rep.get("cwd"), s["child_cwd"]))
        if req["cwd"] is None and rep.get("cwd") != os.path.realpath(os.fsencode(s["wd"])):
            bad.append("working directory changed although none was requested: %r" % rep.get("cwd"))
        ids = rep.get("ids", {})
        me_u, me_g = os.getuid(), os.getgid()
        wu = t["uid"] if t["uid"] is not None else me_u
        wg = t["gid"] if t["gid"] is not None else me_g
        if (ids.get("ruid"), ids.get("euid"), ids.get("suid")) != (wu, wu, wu):
            bad.append("user ids r/e/s = %s/%s/%s, wanted %d" % (ids.get("ruid"), ids.get("euid"), ids.get("suid"), wu))
        if (ids.get("rgid"), ids.get("egid"), ids.get("sgid")) != (wg, wg, wg):
            bad.append("group ids r/e/s = %s/%s/%s, wanted %d" % (ids.get("rgid"), ids.get("egid"), ids.get("sgid"), wg))
        if t["setpgid"] and ids.get("pgid") != ids.get("pid"):
            bad.append("no fresh process group: pgid %s pid %s" % (ids.get("pgid"), ids.get("pid")))
        if not t["setpgid"] and ids.get("pgid") != s["parent_pid"]:
            bad.append("process group changed although not requested: pgid %s, parent's %s" % (ids.get("pgid"), s["parent_pid"]))

    elif pid == "C15":
        if nul or not req["argv"] or (fault and fault[0] != "exec"):
            return bad
        cands = py_candidates(req)
        fs = dict(s["fs"])
        if fault and fault[0] == "exec":
            return bad
        tried = [e[0] for e in o["execs"]]
        first_ok = next((c for c in cands if fs.get(c, ENOENT) is None), None)
        if first_ok is not None:
            want = cands[:cands.index(first_ok) + 1]
            if res != "ok":
                bad.append("a startable candidate exists (%r) but the launch failed with %s" % (first_ok[-60:], res))
            elif rep is None:
                bad.append("launch reported success but no child reported")
            elif rep.get("execfn") != first_ok:
                bad.append("the image that runs is %r, the first startable candidate in PATH order is %r" % (rep.get("execfn", b"")[-60:], first_ok[-60:]))
            if tried != want:
                bad.append("paths tried %s, expected the candidates up to the first startable one %s" % (short(tried), short(want)))
        else:
            if res == "ok" or rep is not None:
                bad.append("nothing can be started, yet result=%s and a child ran %r" % (res, (rep or {}).get("execfn")))
            else:
                # the property says "fails with the operating-system error": the error of one of the candidates that
                # were tried (which one -- the library reports the last -- is the model's business: a different choice
                # breaks the tie with Lib/ExecArgs.v, not the property)
                errs = sorted(set(fs.get(c, ENOENT) for c in cands)) if cands else [ENOENT]
                if res not in ["err io:%d" % e for e in errs]:
                    bad.append("nothing can be started: result %s, expected the operating-system error of a candidate (one of %s)" % (res, errs))
            if tried != cands:
                bad.append("paths tried %s, expected every candidate in order %s" % (short(tried), short(cands)))
            if zombies > 0:
                bad.append("a zombie was left after the failed lookup")
        if s.get("req2") is not None:
            # the second launch of the same process: resolved against the parent's PATH as it is NOW
            plog = s["logs"].get(s["parent_pid"], [])
            ri = next((i for i, l in enumerate(plog) if l.startswith("mark relaunch")), None)
            pid2 = None
            if ri is not None:
                for ln in plog[ri:]:
                    if ln.startswith("fork = ") and int(ln.split("=")[1]) > 0:
                        pid2 = int(ln.split("=")[1])
                        break
            tried2 = []
            for ln in s["logs"].get(pid2, []) if pid2 else []:
                p_ = ln.split(" ")
                if p_[0] == "exec":
                    tried2.append(e2.unhex(p_[1]))
            res2 = next((ln[8:] for ln in s["out"] if ln.startswith("result2 ")), "?")
            cands2 = py_candidates(s["req2"])
            fs2 = s.get("fs2", {})
            ok2 = next((c for c in cands2 if fs2.get(c, ENOENT) is None), None)
            want2 = cands2[:cands2.index(ok2) + 1] if ok2 is not None else cands2
            if tried2 != want2:
                bad.append("second launch after the parent's PATH changed: paths tried %s, expected %s (the parent's PATH at the time of the call)" % (short(tried2), short(want2)))
            if (ok2 is not None) != (res2 == "ok"):
                bad.append("second launch after the parent's PATH changed: result %s, %s" % (res2, "a startable candidate exists" if ok2 is not None else "nothing can be started"))

    elif pid == "C17":
        if o["allocs"]:
            bad.append("the forked child allocated before exec: %s" % ", ".join(o["allocs"][:4]))
    return bad


def short(paths):
    return "[" + ", ".join(repr(p[-24:]) for p in paths[:8]) + (" ..." if len(paths) > 8 else "") + "]"


def first_diff(a, b):
    for i, (x, y) in enumerate(zip(a, b)):
        if x != y:
            return "index %d: %r vs %r" % (i, x[:40], y[:40])
    return "length %d vs %d" % (len(a), len(b))


# ----------------------------------------------------------------------------------------- E3: pure helpers via hooks

def puredrive(lines):
    rc, out, err = C.run([os.path.join(C.BIN, "puredrive")], inp="\n".join(lines) + "\n", timeout=300)
    if rc != 0:
        raise RuntimeError("puredrive failed: " + err[-500:])
    return out.splitlines()


def e3_report(chk, what, cases, lines, res, show):
    bad = [(c, l) for c, l, g in zip(cases, lines, res) if not g.startswith("1")]
    if bad:
        c, l = min(bad, key=lambda x: len(x[1]))
        chk.tie_broken("E3: %s of the implementation differs from the model on %d of %d inputs; smallest: %s" % (what, len(bad), len(cases), show(c, l)))
    return len(cases) - len(bad)


def e3_split_path(chk, r, n):
    cases = []
    alpha = [58, 58, 58, 47, 97, 98, 46, 32, 255, 0xc3]
    for i in range(n):
        ln = r.choice([0, 1, 2, 3, 5, 8, 13, 30, 200, 3000])
        cases.append([r.choice(alpha) for _ in range(ln)])
    out = puredrive(["splitpath " + C.enc_units(c) for c in cases])
    lines = ["splitpath %s %s" % (C.enc_units(c), ln.split(" ", 1)[1]) for c, ln in zip(cases, out)]
    res = sppure(lines)
    return cases, e3_report(chk, "split_path", cases, lines, res, lambda c, l: l[:400])


def e3_format_env(chk, r, n):
    cases = []
    for i in range(n):
        env = gen_env(r, big=(i % 25 == 24))
        env = [(k.replace(b"\0", b"x"), v.replace(b"\0", b"y")) for k, v in env]
        cases.append(env)
    lines = []
    for env in cases:
        lines.append("fmtenv " + (",".join("%s=%s" % (eu(k), eu(v)) for k, v in env) if env else "none"))
    out = puredrive(lines)
    lines2 = ["%s %s" % (l, o.split(" ", 1)[1]) for l, o in zip(lines, out)]
    res = sppure(lines2)
    return cases, e3_report(chk, "format_env", cases, lines2, res, lambda c, l: l[:400])


def e3_prealloc(chk, r, n):
    """capacity reserved before the fork and the longest string assembled in it, against Lib/Path.v; a case where the
    implementation's own numbers say longest > capacity is a failing input of C17"""
    cases = []
    for i in range(n):
        clen = r.choice([0, 1, 2, 7, 30, 255])
        cmd = [r.choice([97, 98, 46, 255]) for _ in range(clen)]
        if r.chance(1, 8):
            path = None
        else:
            nent = r.choice([0, 1, 2, 3, 6, 20])
            ents = []
            for _ in range(nent):
                ents.append([r.choice([47, 97, 98]) for _ in range(r.choice([0, 0, 1, 2, 5, 17, 100, 600, 4000]))])
            path = []
            for j, e in enumerate(ents):
                if j:
                    path.append(58)
                path += e
            if r.chance(1, 4):
                path = [58] + path
            if r.chance(1, 4):
                path = path + [58]
        cases.append((cmd, path))
    lines = ["prealloc %s %s" % (C.enc_units(c), "none" if p is None else C.enc_units(p)) for c, p in cases]
    out = puredrive(lines)
    viol = []
    lines2 = []
    for (c, p), l, ln in zip(cases, lines, out):
        _, cap, longest = ln.split()
        if int(longest) > int(cap):
            viol.append((c, p, int(cap), int(longest), l))
        lines2.append("%s %s %s" % (l, cap, longest))
    for (c, p, cap, longest, l) in sorted(viol, key=lambda v: len(v[4]))[:3]:
        chk.violation("C17: the buffer reserved before the fork holds %d bytes but a candidate of %d bytes is assembled in the child (it reallocates): cmd of %d bytes, PATH %s" % (
            cap, longest, len(c), "unset" if p is None else "of %d bytes" % len(p)), "e3 " + l)
    res = sppure(lines2)
    return cases, e3_report(chk, "prealloc_exe (capacity, longest candidate)", cases, lines2, res, lambda c, l: l[:400])


# ----------------------------------------------------------------------------------------- run / replay

DEPS = {"C06": ["theories/Proofs/ExecArgsProofs.vo", "theories/Proofs/SpawnProofs.vo", "theories/Proofs/EnvProofs.vo"],
        "C15": ["theories/Proofs/ExecArgsProofs.vo", "theories/Proofs/PathProofs.vo"],
        "C17": ["theories/Proofs/PathProofs.vo"]}


def templates_for(pid, tier, r):
    if pid == "C06":
        return gen_c06(r, 60 if tier == "quick" else 600, tier) + gen_c15(r, 10, tier)
    if pid == "C15":
        return gen_c15(r, 120 if tier == "quick" else 1500, tier)
    return gen_c17(r, 80 if tier == "quick" else 800, tier) + gen_c06(r, 20 if tier == "quick" else 200, tier) + gen_c15(r, 20 if tier == "quick" else 200, tier)


def run(chk, tier, pid, explicit=None):
    r = C.Rng(chk.seed * 104729 + int(pid[1:]))
    chk.cov["trusted_base"] = C.BASE_TRUSTED + [
        "harness/src/bin/realdrive.rs (logging/fault-injecting libc interposers, allocator probe armed in the forked child), harness/src/bin/childstub.rs (self-report: argv, environ, cwd, ids, AT_EXECFN), harness/src/bin/puredrive.rs (hook calls)",
        "the file-system oracle of tools/execprops.py (which candidate paths can be started and with which errno), validated on every run against the errno the kernel returned for each path tried",
        "that the kernel hands argv/envp of a successful execve to the new image unchanged (cross-checked: the stub's report equals the logged execve arguments)",
        "extraction of the models to OCaml (ExtrOcamlBasic only, no Extract Constant; ocaml/bin/sppure), cross-checked against vm_compute on the small cases of every run",
        "Lib/ExecArgs.v, Lib/Path.v, Lib/Env.v are hand-written models; not modelled: the allocation behaviour of child-side calls other than the candidate buffer (measured by the probe)",
    ]
    pr = C.props_check(pid, DEPS[pid])
    chk.obligations(pr)
    ok, log = C.build_harness()
    if not ok:
        chk.tie_broken("harness does not build against /repo: " + log[-800:])
        return
    n3 = 0
    ncases = 0
    if explicit is None or explicit == "e3":
        k = 1 if tier == "quick" else 8
        if pid == "C06":
            cs, good = e3_format_env(chk, r.fork(), 250 * k)
            ncases += len(cs); n3 += good
        elif pid == "C15":
            cs, good = e3_split_path(chk, r.fork(), 600 * k)
            ncases += len(cs); n3 += good
        elif pid == "C17":
            cs, good = e3_prealloc(chk, r.fork(), 300 * k)
            ncases += len(cs); n3 += good
    tpls = [] if explicit == "e3" else (explicit if explicit is not None else templates_for(pid, tier, r))
    scns = [scenario_of(t) for t in tpls]
    for s in scns:
        # the oracle is computed inside the run, while the layout exists
        fn = s["specfn"]

        def wrapped(wd, s=s, fn=fn):
            spec = fn(wd)
            cands = py_candidates(s["req"]) or []
            s["fs"] = fs_oracle(s, [c for c in cands if b"\0" not in c])
            if s.get("req2"):
                s["fs2"] = fs_oracle(s, [c for c in (py_candidates(s["req2"]) or []) if b"\0" not in c])
            return spec
        s["specfn"] = wrapped
    e2.run_scenarios(scns, pid)
    ndiv = judge_all(chk, pid, scns, pid.lower() + "_conf")
    divs = [s for s in scns if s.get("div")]
    if divs:
        d = min(divs, key=lambda s: len(tpl_to_json(s["tpl"])))
        chk.tie_broken("%s (%d of %d scenarios diverge) [%s]\n%s" % (d["div"], len(divs), len(scns), describe(d), tpl_to_json(d["tpl"])))
    unsure = [s for s in scns if s.get("oracle_unsure")]
    if unsure:
        chk.note("file-system oracle corrected from the kernel's answer in %d scenarios, e.g. %r" % (len(unsure), unsure[0]["oracle_unsure"]))
    chk.cov["evaluations"] = len(scns) + ncases
    chk.cov["traces_validated_against_impl"] = (len(scns) - ndiv) + n3
    chk.cov["distinct_nontrivial"] = len(set(tpl_to_json(s["tpl"]) for s in scns if len(s["tpl"]["argv"]) > 1 or s["tpl"]["env"]))
    chk.cov["rule"] = ("E2 scenario = one Popen::create of the self-reporting stub: generated argument vector (empty/blank/quote-laden/non-UTF-8/"
                       "long arguments), executable override, environment list with duplicate names, cwd (absolute, relative, odd bytes, "
                       "lengths around 384 and ~3.8 KB), PATH built from directories holding executable / non-executable / directory / "
                       "garbage / missing candidates, uid/gid/pgid options, stream configuration, optional injected child-side failure; "
                       "E3 case = one call of the hooked helper; non-trivial = more than one argument or a non-empty environment; distinct by template text")
    chk.cov["samples"] = [{"id": s["id"], "what": describe(s), "result": result_of(s), "conforms": CODE.get(s.get("code"))} for s in scns[:4]]
    dist = {"family": {}, "result": {}, "conforms": {}, "cwd": {}, "env": {}, "argc": {}}
    for s in scns:
        t = s["tpl"]

        def inc(k, v):
            dist[k][str(v)] = dist[k].get(str(v), 0) + 1
        inc("family", t.get("family"))
        inc("result", (result_of(s) or "?").split(":")[0] + (":" + (result_of(s) or "?").split(":")[1] if ":" in (result_of(s) or "") else ""))
        inc("conforms", CODE.get(s.get("code"), s.get("code")))
        inc("cwd", "none" if t["cwd"] is None else ("<100" if len(s.get("req", {}).get("cwd") or b"") < 100 else ("<384" if len(s["req"]["cwd"]) < 384 else ">=384")))
        inc("env", "inherit" if t["env"] is None else ("0" if not t["env"] else ("<10" if len(t["env"]) < 10 else ">=10")))
        inc("argc", "0" if not t["argv"] else ("<=3" if len(t["argv"]) <= 3 else ("<=20" if len(t["argv"]) <= 20 else ">20")))
    chk.cov["input_distribution"] = dist
    chk.cov["e3_cases"] = ncases
    if pid == "C17":
        nd = sum(1 for s in scns if s.get("obs") and any(ln.startswith("dealloc") for ln in s["logs"].get(s["obs"]["child_pid"] or -1, [])))
        chk.note("C17 speaks of allocation: %d of %d children freed memory before exec/_exit (dropping the prepared vectors or an Rc<File>); reported, not counted" % (nd, len(scns)))


def replay(chk, path, pid):
    lines = [l.rstrip("\n") for l in open(path, encoding="utf-8") if l.strip() and not l.startswith("#")]
    if lines and lines[0].startswith("e3 "):
        run(chk, "quick", pid, explicit="e3")
        return
    run(chk, "quick", pid, explicit=[tpl_from_json(lines[0])])
