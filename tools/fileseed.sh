#!/bin/sh
# usage: fileseed.sh <name> <Cxx> <outdir> "<needs>" "<ran>" "<caught-by>"
N=$1; P=$2; O=$3
mkdir -p /verif/seeded/$N && cp $O/patch.diff /verif/seeded/$N/ && for f in $O/*; do case "$f" in *patch.diff) ;; *) cp -r "$f" /verif/seeded/$N/ ;; esac; done
[ -f $O/meta.json ] && cp $O/meta.json /verif/seeded/$N/agent_meta.json
python3 - "$N" "$P" "$4" "$5" "$6" <<'PY'
import json,sys
n,p,needs,ran,caught=sys.argv[1:6]
json.dump({"property":p,"origin":"independent sub-agent given only the property text and a scratch worktree","needs_to_manifest":needs,"confirmed":ran,"caught_by":caught},open('/verif/seeded/%s/meta.json'%n,'w'),indent=1)
PY
echo filed $N
